#!/usr/bin/env python3
"""regenerates MANIFEST.json from harness/*.json (which obligations exist per property) + manifest_text.json (hand-written level texts)"""
import json, glob, os
ROOT = os.path.dirname(os.path.abspath(__file__))
text = json.load(open(os.path.join(ROOT, "manifest_text.json")))
props = [json.loads(l) for l in open(os.path.join(ROOT, "properties.jsonl"))]
have = {}
for f in sorted(glob.glob(os.path.join(ROOT, "harness", "*.json"))):
    s = json.load(open(f))
    for o in s["obligations"]:
        for p in o["props"]:
            d = have.setdefault(p, {"quick": 0, "thorough": 0})
            if o.get("quick"): d["quick"] += 1
            if o.get("quick") or o.get("thorough"): d["thorough"] += 1
checks = []; na = []
for p in props:
    pid = p["id"]
    t = text.get(pid, {})
    if pid in have and have[pid]["quick"] > 0 and not t.get("not_applicable"):
        checks.append({
            "property_id": pid,
            "quick_cmd": "python3 vcheck.py %s --tier quick" % pid,
            "thorough_cmd": "python3 vcheck.py %s --tier thorough" % pid,
            "evidence_file": "/verif/evidence/%s.json" % pid,
            "replay_cmd_template": "python3 vcheck.py --replay {path}",
            "engine": "ll2c+cbmc",
            "technique": "bounded symbolic execution of the real code (clang LLVM IR -> C via ll2c -> CBMC 6.11, SAT), unwinding assertions, reachability witnesses, native replay of counterexamples",
            "level_claimed": {"category": "model_checking", "text": t.get("text", ""), "design_ref": t.get("design_ref", "DESIGN.md section 3, " + pid)},
            "level_note": t.get("note", ""),
        })
    else:
        na.append({"property_id": pid, "reason": t.get("na_reason", "no obligation built yet for this property (work in progress)")})
m = {
    "version": 1,
    "setup_cmd": "sh engine/build.sh",
    "hooks": {"guard": "SOPLEX_VERIF", "enable": "no source hooks are needed: harness translation units include the real headers from /repo/src (private members reached with '#define private public' in the harness TU only)", "baseline_off_cmd": "ctest --test-dir /repo/_build -j8 --timeout 900", "source_commits": [], "add_only": True},
    "engines": [{"name": "ll2c+cbmc", "path": "/verif/engine", "serves_properties": [c["property_id"] for c in checks], "kind_free_text": "own LLVM-14 IR -> C translator (engine/ll2c.cpp) feeding CBMC 6.11; driver vcheck.py regenerates every encoding from /repo's working tree on each run"}],
    "checks": checks,
    "not_applicable": na,
    "notes": text.get("_notes", ""),
}
json.dump(m, open(os.path.join(ROOT, "MANIFEST.json"), "w"), indent=1)
print("checks:", [c["property_id"] for c in checks]); print("n/a:", [n["property_id"] for n in na])
