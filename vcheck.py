#!/usr/bin/env python3
"""vcheck.py - driver for solver-based checking of the real SoPlex code.

  vcheck.py <PROP> [--tier quick|thorough] [--only <substr>] [--jobs N] [--keep]
  vcheck.py --replay <replay.json>

For the property it (1) regenerates, from /repo's current working tree, the LLVM IR of every
harness translation unit the property needs, translates it to C with engine/ll2c, (2) runs CBMC on
every obligation (one harness entry = one obligation) with unwinding assertions and a reachability
witness, (3) validates the translation by running the generated C and the real C++ natively on the
solver's own witness vectors and on pseudo-random vectors, (4) replays every counterexample against
the real code, (5) writes evidence/<PROP>.json.
Exit: 0 all obligations discharged (or only known findings); 1 reproduced violation (VIOLATION line);
3 inconclusive (no VIOLATION line).
"""
import argparse, concurrent.futures as cf, glob, hashlib, json, os, random, re, shutil, subprocess, sys, threading, time

ROOT = os.path.dirname(os.path.abspath(__file__))
REPO = os.environ.get("VP_REPO", "/repo")
ENGINE = os.path.join(ROOT, "engine")
HARN = os.path.join(ROOT, "harness")
BUILD = os.path.join(ROOT, "build")
LL2C = os.path.join(ENGINE, "ll2c")
TRACE_N = 192

CLANG_FLAGS = ["-std=c++17", "-O0", "-Xclang", "-disable-O0-optnone", "-fno-vectorize", "-fno-slp-vectorize",
               "-fno-unroll-loops", "-DNDEBUG", "-DVP_SOLVER", "-w", "-include", os.path.join(ENGINE, "vp_cxxcfg.h")]
CBMC_BASE = ["--unwinding-assertions", "--signed-overflow-check", "--undefined-shift-check", "--drop-unused-functions",
             "--no-malloc-may-fail", "--object-bits", "12", "--max-field-sensitivity-array-size", "2048",
             "--no-standard-checks", "--bounds-check", "--pointer-check", "--div-by-zero-check", "--trace", "--trace-hex", "--verbosity", "8"]

print_lock = threading.Lock()
def log(*a):
    with print_lock:
        print(*a, flush=True)

def run(cmd, timeout=None, cwd=None, env=None, mem_gb=None, inp=None):
    pre = None
    if mem_gb:
        import resource
        lim = int(mem_gb * (1 << 30))
        def pre():
            resource.setrlimit(resource.RLIMIT_AS, (lim, lim))
            os.setsid()
    else:
        pre = os.setsid
    t0 = time.time()
    try:
        p = subprocess.Popen(cmd, stdout=subprocess.PIPE, stderr=subprocess.PIPE, cwd=cwd, env=env, preexec_fn=pre,
                             stdin=subprocess.PIPE if inp is not None else subprocess.DEVNULL)
        try:
            out, err = p.communicate(inp, timeout=timeout)
            return p.returncode, out.decode("utf-8", "replace"), err.decode("utf-8", "replace"), time.time() - t0
        except subprocess.TimeoutExpired:
            try:
                os.killpg(p.pid, 9)
            except Exception:
                pass
            out, err = p.communicate()
            return -999, out.decode("utf-8", "replace"), err.decode("utf-8", "replace"), time.time() - t0
    except Exception as e:
        return -998, "", str(e), time.time() - t0

# ---------------------------------------------------------------------------------------------
def load_specs():
    specs = []
    for f in sorted(glob.glob(os.path.join(HARN, "*.json"))):
        s = json.load(open(f))
        s["_file"] = f
        s["_id"] = os.path.splitext(os.path.basename(f))[0]
        specs.append(s)
    return specs

def obligations_for(specs, prop, tier, only=None):
    res = []
    for s in specs:
        for o in s["obligations"]:
            if prop not in o["props"]:
                continue
            cfg = None
            if tier == "quick":
                cfg = o.get("quick")
            else:
                cfg = o.get("thorough", None)
                if cfg is None:
                    cfg = o.get("quick")
                elif o.get("quick") and cfg.get("inherit", True):
                    m = dict(o["quick"]); m.update(cfg); cfg = m
            if not cfg:
                continue
            if only and only not in o["name"]:
                continue
            res.append((s, o, cfg))
    return res

class TU:
    """one harness translation unit in one variant (set of -D defs)"""
    def __init__(self, spec, variant, wd):
        self.spec = spec; self.variant = variant
        self.defs = list(spec.get("variants", {}).get(variant, {}).get("defs", []))
        self.key = spec["_id"] + "__" + variant
        self.dir = os.path.join(wd, self.key)
        self.c = os.path.join(self.dir, "gen.c")
        self.meta = None; self.err = None; self.entries = []
        self.native_cxx = None; self.native_c = None; self.native_asan = None
        self.build_s = 0.0
        self.lock = threading.Lock()
        self.native_done = False

    def includes(self):
        return ["-I" + os.path.join(REPO, "src"), "-I" + os.path.join(REPO, "_build"), "-I" + HARN, "-I" + ENGINE]

    def build(self):
        t0 = time.time()
        os.makedirs(self.dir, exist_ok=True)
        srcs = [os.path.join(HARN, self.spec["src"])] + [os.path.join(REPO, "src", r) for r in self.spec.get("repo_srcs", [])]
        lls = []
        for i, s in enumerate(srcs):
            ll = os.path.join(self.dir, "u%d.ll" % i)
            rc, out, err, _ = run(["clang++-14"] + CLANG_FLAGS + self.includes() + self.defs + ["-S", "-emit-llvm", s, "-o", ll], timeout=600)
            if rc != 0:
                self.err = "clang failed on %s:\n%s" % (s, err[-3000:]); return
            lls.append(ll)
            if i == 0:
                # the harness TU's own (non-template, non-inline) functions: never cut by "cut *"
                own = []
                with open(ll) as f:
                    for line in f:
                        if line.startswith("define") and "linkonce" not in line.split("@")[0] and "weak" not in line.split("@")[0] and "available_externally" not in line.split("@")[0]:
                            m = re.search(r"@([\w.$]+)\(", line) or re.search(r'@"([^"]+)"\(', line)
                            if m: own.append(m.group(1))
                self.own = own
        linked = os.path.join(self.dir, "linked.ll")
        rc, out, err, _ = run(["llvm-link-14", "-S", "-o", linked] + lls, timeout=300)
        if rc != 0:
            self.err = "llvm-link failed:\n" + err[-3000:]; return
        names = set()
        with open(linked) as f:
            for line in f:
                if line.startswith("define"):
                    m = re.search(r"@((?:h_|m_|vpx_)\w+)\(", line)
                    if m: names.add(m.group(1))
        self.entries = sorted(n for n in names if n.startswith("h_"))
        optll = os.path.join(self.dir, "opt.ll")
        rc, out, err, _ = run(["opt-14", "-S", "-passes=function(mem2reg,simplifycfg),internalize,globaldce",
                               "-internalize-public-api-list=" + ",".join(sorted(names)), linked, "-o", optll], timeout=300)
        if rc != 0:
            self.err = "opt failed:\n" + err[-3000:]; return
        cfgf = os.path.join(self.dir, "ll2c.cfg")
        with open(cfgf, "w") as f:
            for l in self.spec.get("ll2c", []):
                f.write(l + "\n")
            for n in getattr(self, "own", []):
                f.write("own " + n + "\n")
        metaf = os.path.join(self.dir, "meta.json")
        rc, out, err, _ = run([LL2C, optll, cfgf, metaf], timeout=300)
        if rc != 0:
            self.err = "ll2c failed:\n" + err[-3000:]; return
        bad = [l for l in err.splitlines() if "unsupported" in l.lower() or "unknown value" in l]
        if bad or "UNSUPPORTED" in out:
            self.err = "ll2c: unsupported constructs:\n" + "\n".join(bad[:20]); return
        with open(self.c, "w") as f:
            f.write(out)
        self.meta = json.load(open(metaf))
        for fn in ("linked.ll", "opt.ll"):
            try: os.remove(os.path.join(self.dir, fn))
            except OSError: pass
        for ll in lls:
            try: os.remove(ll)
            except OSError: pass
        self.build_s = time.time() - t0

    def has_cuts(self):
        return any(l.startswith("cut") or l.startswith("replace") for l in self.spec.get("ll2c", []))

    def native_sources(self):
        rs = list(self.spec.get("repo_srcs", []))
        ns = self.spec.get("native_srcs", [])
        if ns == "all":
            ns = LIB_SRCS
        for n in ns:
            if n not in rs: rs.append(n)
        return [os.path.join(REPO, "src", r) for r in rs]

    def build_native(self, asan=False):
        """g++ build of the harness against the real sources (compiled fresh from /repo), and gcc build of the generated C"""
        with self.lock:
            if asan:
                if self.native_asan is not None: return
            elif self.native_done: return
            san = ["-g", "-fsanitize=address,undefined", "-fno-sanitize-recover=undefined"] if asan else []
            objs = []
            srcs_ = self.native_sources()
            with cf.ThreadPoolExecutor(max_workers=max(1, len(srcs_))) as ex_:
                objs_ = list(ex_.map(lambda s_: compile_repo_obj(s_, self.includes(), san, os.path.dirname(self.dir)), srcs_))
            for src, o in zip(srcs_, objs_):
                if not o:
                    self.native_err = "g++ failed on " + src
                    if asan: self.native_asan = ""
                    else: self.native_cxx = ""; self.native_c = ""; self.native_done = True
                    return
                objs.append(o)
            libs = ["-ldl", "-lmpfr", "-lgmp", "-lz"] + self.spec.get("native_libs", [])
            exe = os.path.join(self.dir, "native_asan" if asan else "native_cxx")
            cmd = ["g++", "-std=c++17", "-O0", "-w", "-DNDEBUG", "-DVP_NATIVE", "-DVP_NATIVE_CXX", "-rdynamic"] + san + self.includes() + self.defs + \
                  [os.path.join(HARN, self.spec["src"]), os.path.join(ENGINE, "vp_native_main.cpp")] + objs + ["-o", exe] + libs
            rc, out, err, _ = run(cmd, timeout=1200)
            if asan:
                self.native_asan = exe if rc == 0 else ""
                if rc != 0: self.native_err = err[-2000:]
                return
            self.native_cxx = exe if rc == 0 else ""
            if rc != 0: self.native_err = "g++: " + err[-2000:]
            if not self.has_cuts():
                exe2 = os.path.join(self.dir, "native_c")
                obj = os.path.join(self.dir, "gen.o")
                cdefs = [d for d in self.spec.get("cbmc_defs", [])]
                rc, out, err, _ = run(["gcc", "-O0", "-w", "-fno-strict-aliasing", "-I" + ENGINE] + cdefs + ["-c", self.c, "-o", obj], timeout=900)
                if rc == 0:
                    rc, out, err, _ = run(["g++", "-rdynamic", obj, os.path.join(ENGINE, "vp_native_main.cpp"), "-o", exe2, "-ldl", "-lm"], timeout=300)
                self.native_c = exe2 if rc == 0 else ""
                if rc != 0: self.native_err = "gcc(gen.c): " + err[-2000:]
            else:
                self.native_c = ""
            self.native_done = True

LIB_SRCS = ["soplex/didxset.cpp", "soplex/idxset.cpp", "soplex/mpsinput.cpp", "soplex/nameset.cpp", "soplex/spxdefines.cpp", "soplex/spxgithash.cpp",
            "soplex/spxid.cpp", "soplex/spxout.cpp", "soplex/usertimer.cpp", "soplex/wallclocktimer.cpp"]
_obj_lock = threading.Lock(); _obj_cache = {}
def compile_repo_obj(src, includes, san, wd):
    key = (src, tuple(san))
    with _obj_lock:
        ent = _obj_cache.get(key)
        if ent is None:
            ent = {"lock": threading.Lock(), "obj": None, "done": False}
            _obj_cache[key] = ent
    with ent["lock"]:
        if not ent["done"]:
            od = os.path.join(wd, "objs"); os.makedirs(od, exist_ok=True)
            o = os.path.join(od, re.sub(r"\W", "_", src) + ("_san" if san else "") + ".o")
            rc, out, err, _ = run(["g++", "-std=c++17", "-O0", "-w", "-DNDEBUG"] + san + includes + ["-c", src, "-o", o], timeout=900)
            ent["obj"] = o if rc == 0 else None; ent["done"] = True
    return ent["obj"]

# ---------------------------------------------------------------------------------------------
RES_RE = re.compile(r"^\[([^\]]+)\]\s+(?:line (\d+)\s+)?(.*): (SUCCESS|FAILURE|UNKNOWN|ERROR)$")

def parse_cbmc(out):
    props = []
    for line in out.splitlines():
        m = RES_RE.match(line)
        if m:
            props.append(dict(name=m.group(1), line=m.group(2), desc=m.group(3), status=m.group(4)))
    st = {}
    m = re.search(r"Generated (\d+) VCC\(s\), (\d+) remaining", out)
    if m: st["vccs"] = int(m.group(1)); st["vccs_remaining"] = int(m.group(2))
    vs = re.findall(r"(\d+) variables, (\d+) clauses", out)
    if vs: st["sat_variables"] = max(int(v[0]) for v in vs); st["sat_clauses"] = max(int(v[1]) for v in vs)
    ts = re.findall(r"Runtime Solver: ([0-9.e+-]+)s", out)
    if ts: st["solver_s"] = round(sum(float(t) for t in ts), 3)
    ts = re.findall(r"Runtime decision procedure: ([0-9.e+-]+)s", out)
    if ts: st["decision_procedure_s"] = round(sum(float(t) for t in ts), 3)
    ts = re.findall(r"Runtime Symex: ([0-9.e+-]+)s", out)
    if ts: st["symex_s"] = round(sum(float(t) for t in ts), 3)
    m = re.search(r"^VERIFICATION (\w+)", out, re.M)
    st["verdict"] = m.group(1) if m else None
    return props, st

def traces_from(out):
    """split CBMC text output into per-property traces; return {propname: [u64,...]} of recorded nondet values"""
    res = {}
    parts = re.split(r"^Trace for ([^\n:]+):\s*$", out, flags=re.M)
    # parts: [pre, name1, body1, name2, body2...]
    for i in range(1, len(parts) - 1, 2):
        name = parts[i].strip(); body = parts[i + 1]
        vals = {}; n = 0
        for m in re.finditer(r"^\s*vp_trace_val\[(\d+)l?\]=[^\n]*\(0x([0-9A-Fa-f ]+)\)\s*$", body, re.M):
            vals[int(m.group(1))] = int(m.group(2).replace(" ", ""), 16)
        for m in re.finditer(r"^\s*vp_trace_n=[^\n]*\(0x([0-9A-Fa-f ]+)\)\s*$", body, re.M):
            n = int(m.group(1).replace(" ", ""), 16)
        res[name] = [vals.get(k, 0) for k in range(min(n, TRACE_N))]
    return res

def cbmc_run(tu, entry, unwind, unwindset, timeout, mem_gb, flags, defs, trace=True):
    # trace=False is the loop-bound discovery mode: only unwinding assertions are checked
    base = CBMC_BASE if trace else ["--unwinding-assertions", "--drop-unused-functions", "--no-malloc-may-fail", "--object-bits", "12",
                                    "--max-field-sensitivity-array-size", "2048", "--no-standard-checks", "--no-assertions", "--verbosity", "8"]
    cmd = ["cbmc", tu.c, "-I", ENGINE, "-DVP_TRACE=%d" % TRACE_N] + defs + ["--function", "vp_entry_" + entry, "--unwind", str(unwind)] + flags + base   # per-obligation flags first: CBMC keeps the first occurrence of an option
    if unwindset:
        cmd += ["--unwindset", ",".join("%s:%d" % (k, v) for k, v in sorted(unwindset.items()))]
    rc, out, err, secs = run(cmd, timeout=timeout, mem_gb=mem_gb)
    return rc, out, err, secs, cmd

def write_replay(path, vals, meta=None):
    os.makedirs(os.path.dirname(path), exist_ok=True)
    with open(path, "w") as f:
        if meta:
            f.write("# " + json.dumps(meta) + "\n")
        for v in vals:
            f.write("%x\n" % v)

def native_run(exe, entry, replay, timeout=60, env=None):
    for attempt in range(4):
        rc, out, err, secs = run([exe, entry, replay], timeout=timeout, env=env)
        if rc != -998: break
        time.sleep(1.0 + attempt)          # could not even start the process (fork/exec failure under load): retry
    if rc == -998:
        return "launch-error", None, "", err[-500:]
    cls = "crash rc=%d" % rc
    ident = None
    lines = out.strip().splitlines()
    last = lines[-1] if lines else ""
    if rc == 0 and last.startswith("PASS"):
        cls = "pass"; ident = last
    elif rc == 2 and "ASSUME-FAILED" in out:
        cls = "assume-failed"
    elif rc == 1 and "ASSERT-FAILED" in out:
        m = re.search(r"ASSERT-FAILED (.*)", out)
        cls = "assert-failed"; ident = m.group(1).strip() if m else None
    elif rc == -999:
        cls = "timeout"
    return cls, ident, out[-1500:], err[-3000:]

# ---------------------------------------------------------------------------------------------
class OblResult:
    pass

def run_obligation(prop, tier, tu, o, cfg, unwind_hints, seed, wd):
    r = dict(name=o["name"], entry=o["entry"], harness=tu.spec["src"], variant=tu.variant, style=o.get("style", "K"),
             bounds=o.get("bounds", ""), what=o.get("what", ""), status=None, reason=None)
    t0 = time.time()
    if tu.err:
        r.update(status="inconclusive", reason="harness build failed: " + tu.err[:1500]); return r
    if o["entry"] not in tu.entries:
        r.update(status="inconclusive", reason="entry %s not found in translated unit" % o["entry"]); return r
    unwind = int(cfg.get("unwind", 4))
    unwindset = dict(cfg.get("unwindset", {}))
    hint_key = "%s/%s/%s" % (tu.key, o["entry"], tier)
    for k, v in unwind_hints.get(hint_key, {}).items():
        unwindset[k] = max(unwindset.get(k, 0), v)
    # without learned bounds the first iterations run without trace generation (failed unwinding assertions print long traces)
    use_trace = hint_key in unwind_hints or bool(cfg.get("trace_first", False))
    timeout = float(cfg.get("timeout", 600)); mem = float(cfg.get("mem_gb", 10))
    maxunwind = int(cfg.get("max_unwind", 130))
    flags = list(cfg.get("flags", [])); defs = list(tu.spec.get("cbmc_defs", [])) + list(cfg.get("cbmc_defs", []))
    deadline = time.time() + timeout
    iters = 0; total_solver = 0.0; out = ""
    props = []; st = {}
    while True:
        iters += 1
        left = deadline - time.time()
        if left <= 1:
            r.update(status="inconclusive", reason="timeout after %ds (auto-unwind iteration %d)" % (timeout, iters)); break
        rc, out, err, secs, cmd = cbmc_run(tu, o["entry"], unwind, unwindset, left, mem, flags, defs, use_trace)
        r["cbmc_cmd"] = " ".join(cmd)
        if rc == -999:
            r.update(status="inconclusive", reason="timeout after %ds" % timeout); break
        try:
            open(os.path.join(tu.dir, o["entry"] + ".cbmc.out"), "w").write(out + "\n=== stderr ===\n" + err)
        except OSError:
            pass
        props, st = parse_cbmc(out)
        if not props and not use_trace and "VERIFICATION SUCCESSFUL" in out:
            use_trace = True; continue        # discovery mode and no loop needs a bound at all
        if not props:
            tail = (out[-1500:] + "\n" + err[-1500:]).strip()
            reason = "cbmc produced no verdict (rc=%d)" % rc
            if "std::bad_alloc" in tail or "Out of memory" in tail or rc in (-9, 137, -6, 134):
                reason = "out of memory (limit %g GB)" % mem
            r.update(status="inconclusive", reason=reason + ": " + tail[-800:]); break
        uw = [p for p in props if p["status"] == "FAILURE" and ".unwind." in p["name"]]
        if not uw:
            if not use_trace:
                use_trace = True; continue
            break
        # a concrete failure (harness assertion or built-in check) found on paths inside the current bounds is a real
        # counterexample candidate whatever the loop bounds: go and try to confirm it instead of raising bounds (an
        # out-of-bounds read typically makes the scanning loop itself unbounded, so its bound could never be satisfied)
        others_now = [p for p in props if p["status"] == "FAILURE" and ".unwind." not in p["name"] and not p["desc"].startswith("VPCOVER")]
        if others_now and use_trace:
            r["unwind_capped"] = "unwinding assertions still failing for %s" % ",".join(p["name"] for p in uw[:4]); break
        grew = False
        for p in uw:
            m = re.match(r"(.*)\.unwind\.(\d+)$", p["name"])
            k = "%s.%s" % (m.group(1), m.group(2))
            cur = unwindset.get(k, unwind)
            new = min(maxunwind, max(cur * 2, 8) + 1)
            if new > cur:
                unwindset[k] = new; grew = True
        if not grew:
            # cap reached: if other properties already fail (e.g. an out-of-bounds loop that never terminates) go on and
            # try to confirm those; otherwise there is no verdict
            capped = "unwinding bound cap %d reached for %s" % (maxunwind, ",".join(p["name"] for p in uw[:4]))
            if not use_trace:
                use_trace = True; continue      # one full run at the cap: concrete failures there are still worth confirming
            r.update(status="inconclusive", reason=capped); break
    r["cbmc_iterations"] = iters
    r["unwind"] = unwind; r["unwindset"] = unwindset
    r["stats"] = st
    r["wall_s"] = round(time.time() - t0, 1)
    r["_out"] = out
    if r["status"]:
        return r
    covers = [p for p in props if p["desc"].startswith("VPCOVER")]
    asserts = [p for p in props if p["desc"].startswith("VPASSERT")]
    others = [p for p in props if not p["desc"].startswith("VPCOVER") and not p["desc"].startswith("VPASSERT")]
    r["properties_checked"] = len(props)
    r["harness_assertions"] = len(asserts)
    r["builtin_checks"] = len(others)
    r["cover_points"] = len(covers)
    r["learned_unwindset"] = unwindset
    if st.get("verdict") == "ERROR" or any(p["status"] == "ERROR" for p in props):
        tail = out[-600:].replace("\n", " ")
        r.update(status="inconclusive", reason="solver error / out of memory (limit %g GB): %s" % (mem, tail[-300:])); return r
    bad_cov = [p for p in covers if p["status"] != "FAILURE"]
    if r.get("unwind_capped"):
        bad_cov = []          # capped run: only used to confirm concrete failures, never to discharge
    if not covers:
        r.update(status="inconclusive", reason="harness has no reachability witness (vp_cover)"); return r
    fails = [p for p in props if p["status"] == "FAILURE" and not p["desc"].startswith("VPCOVER")]
    if bad_cov and not [p for p in fails if ".unwind." not in p["name"]]:
        r.update(status="inconclusive", reason="vacuous: witness %s not reachable" % ",".join(p["desc"] for p in bad_cov)); return r
    r["witness_ok"] = not bad_cov
    unknown = [p for p in props if p["status"] not in ("SUCCESS", "FAILURE")]
    tr = traces_from(out)
    r["_traces"] = tr
    r["_covers"] = [p["name"] for p in covers]
    if unknown and not fails:
        r.update(status="inconclusive", reason="cbmc status %s for %s" % (unknown[0]["status"], unknown[0]["name"])); return r
    fails = [p for p in fails if ".unwind." not in p["name"]] if r.get("unwind_capped") else fails
    if fails:
        r["status"] = "failed"; r["failed_properties"] = fails
    elif r.get("unwind_capped"):
        r.update(status="inconclusive", reason=r["unwind_capped"])
    else:
        r["status"] = "discharged"
    return r

def validate_and_replay(prop, tier, tu, r, seed, nrand, replay_dir):
    """translation validation on witness + random vectors; replay of counterexamples. Mutates r."""
    if r["status"] not in ("discharged", "failed"):
        return
    tu.build_native()
    entry = r["entry"]
    validated = 0; disagreements = []
    vecs = []
    for cname in r.get("_covers", []):
        if cname in r["_traces"]:
            vecs.append(("witness:" + cname, r["_traces"][cname]))
    rng = random.Random(seed * 1000003 + hash(entry) % 1000)
    for i in range(nrand):
        n = 48
        v = []
        for j in range(n):
            c = rng.random()
            if c < 0.5: v.append(rng.randrange(0, 8))
            elif c < 0.7: v.append((-rng.randrange(1, 8)) & 0xffffffffffffffff)
            elif c < 0.85: v.append(rng.randrange(0, 256))
            else: v.append(rng.getrandbits(64))
        vecs.append(("random:%d" % i, v))
    tdir = os.path.join(tu.dir, "vec_" + entry); os.makedirs(tdir, exist_ok=True)
    wit_pass = 0; sample_vec = None
    if tu.native_cxx:
        for tag, v in vecs:
            rp = os.path.join(tdir, re.sub(r"\W", "_", tag) + ".rpl")
            write_replay(rp, v)
            c1, i1, o1, e1 = native_run(tu.native_cxx, entry, rp)
            if c1 == "launch-error":
                r.setdefault("native_launch_errors", 0); r["native_launch_errors"] += 1
                continue
            if tag.startswith("witness"):
                if c1 == "pass" and "cover=0" not in (i1 or ""):
                    wit_pass += 1; sample_vec = v
                elif r["status"] == "discharged":
                    disagreements.append(dict(vector=tag, real=c1 + " " + str(i1), note="solver witness does not pass on the real code"))
            if tu.native_c:
                c2, i2, o2, e2 = native_run(tu.native_c, "vp_entry_" + entry, rp)
                if (c1, i1) != (c2, i2):
                    # PASS lines carry cover count, digest and number of consumed inputs
                    disagreements.append(dict(vector=tag, real=c1 + " " + str(i1), generated=c2 + " " + str(i2)))
                else:
                    validated += 1
    r["traces_validated_against_impl"] = validated
    r["witness_replayed_on_real_code"] = wit_pass
    if sample_vec is not None:
        r["sample_witness_vector"] = ["%x" % x for x in sample_vec[:24]]
    if not tu.native_cxx:
        r["native_note"] = "native build unavailable: " + getattr(tu, "native_err", "")[:500]
        if not tu.spec.get("native_optional", False):
            r.update(status="inconclusive", reason="native build of the harness against the real code failed: " + getattr(tu, "native_err", "")[:800]); return
    if disagreements and r["status"] == "discharged":
        r["disagreements"] = disagreements[:5]
        r.update(status="inconclusive", reason="translation validation disagreement: %s" % json.dumps(disagreements[0])[:600]); return
    if r["status"] == "failed":
        confirmed = []; unconfirmed = []
        for p in r["failed_properties"]:
            vals = r["_traces"].get(p["name"])
            rp = os.path.join(replay_dir, prop, "%s-%s.rpl" % (entry, re.sub(r"\W", "_", p["name"])))
            meta = dict(property=prop, obligation=r["name"], entry=entry, harness=r["harness"], variant=tu.variant, spec=tu.spec["_id"], cbmc_property=p["name"], desc=p["desc"], line=p["line"])
            if vals is None:
                unconfirmed.append(dict(p, why="no trace in solver output")); continue
            write_replay(rp, vals, meta)
            want_id = p["desc"].split()[1] if p["desc"].startswith("VPASSERT") else None
            ok = False; how = ""
            if tu.native_cxx:
                c1, i1, o1, e1 = native_run(tu.native_cxx, entry, rp)
                how = "plain: %s %s" % (c1, i1)
                if want_id is not None and c1 == "assert-failed" and (i1 == want_id or want_id == "0"):
                    ok = True       # "VPASSERT 0" = id was not a literal in the harness: any failed assertion of this entry confirms
                elif want_id is None and (c1.startswith("crash") or c1 == "timeout"):
                    ok = True
                elif want_id is None and "VPABORT" in p["desc"] and c1.startswith("crash"):
                    ok = True
            if not ok and want_id is None:
                tu.build_native(asan=True)
                if tu.native_asan:
                    env = dict(os.environ, ASAN_OPTIONS="detect_leaks=0:abort_on_error=0", UBSAN_OPTIONS="halt_on_error=1")
                    c1, i1, o1, e1 = native_run(tu.native_asan, entry, rp, timeout=120, env=env)
                    how += "; asan: %s" % c1
                    if c1.startswith("crash") and ("AddressSanitizer" in e1 or "runtime error" in e1):
                        ok = True
                        m = re.search(r"(ERROR: AddressSanitizer: [^\n]*|[^\n]*runtime error: [^\n]*)", e1)
                        how += " [" + (m.group(1)[:200] if m else "") + "]"
            rec = dict(cbmc_property=p["name"], desc=p["desc"], line=p["line"], replay=rp, native=how)
            (confirmed if ok else unconfirmed).append(rec)
        r["confirmed"] = confirmed; r["unconfirmed"] = unconfirmed
        if confirmed:
            r["status"] = "violated"
        else:
            r.update(status="inconclusive", reason="counterexample(s) not reproduced on the real build (encoding artefact or solver-only UB): " + json.dumps(unconfirmed[0])[:500])

# ---------------------------------------------------------------------------------------------
def load_known():
    p = os.path.join(ROOT, "known_findings.json")
    if os.path.exists(p):
        return json.load(open(p))
    return {"findings": [], "fixed": []}

def main():
    ap = argparse.ArgumentParser()
    ap.add_argument("prop", nargs="?")
    ap.add_argument("--tier", default=os.environ.get("VERIF_TIER", "quick"))
    ap.add_argument("--only", default=None)
    ap.add_argument("--jobs", type=int, default=int(os.environ.get("VP_JOBS", "16")))
    ap.add_argument("--keep", action="store_true")
    ap.add_argument("--replay", default=None)
    ap.add_argument("--no-evidence", action="store_true")
    a = ap.parse_args()
    seed = int(os.environ.get("VERIF_SEED", "1"))
    if a.replay:
        return do_replay(a.replay)
    prop = a.prop; tier = a.tier
    t0 = time.time()
    if not os.path.exists(LL2C):
        rc, out, err, _ = run(["sh", os.path.join(ENGINE, "build.sh")], timeout=600)
        if rc != 0:
            print("INCONCLUSIVE property=%s obligation=* reason=engine build failed: %s" % (prop, err[-500:])); return 3
    specs = load_specs()
    obls = obligations_for(specs, prop, tier, a.only)
    if not obls:
        print("no obligations for %s tier %s" % (prop, tier)); return 3
    wd = os.path.join(BUILD, "%s-%s-%d" % (prop, tier, os.getpid()))
    shutil.rmtree(wd, ignore_errors=True); os.makedirs(wd)
    # learned loop bounds, one file per harness spec: only hints - unwinding assertions re-check them on every run
    unwind_hints = {}
    for hf in glob.glob(os.path.join(ROOT, "hints", "*.json")):
        try: unwind_hints.update(json.load(open(hf)))
        except Exception: pass
    # translation units
    tus = {}
    for s, o, cfg in obls:
        v = cfg.get("variant", "default")
        k = (s["_id"], v)
        if k not in tus:
            tus[k] = TU(s, v, wd)
    log("[%s/%s] %d obligations in %d translation units; regenerating encodings from %s" % (prop, tier, len(obls), len(tus), REPO))
    heavy_sem = threading.Semaphore(4)
    with cf.ThreadPoolExecutor(max_workers=a.jobs) as ex:
        list(ex.map(lambda t: t.build(), tus.values()))
        for t in tus.values():
            if t.err: log("  build FAILED %s: %s" % (t.key, t.err[:400]))
            else: log("  built %s: %d entries, %.1fs" % (t.key, len(t.entries), t.build_s))
        # native builds start in the background
        nat = [ex.submit(t.build_native) for t in tus.values() if not t.err]
        nrand = 6 if tier == "quick" else 24
        def work(item):
            s, o, cfg = item
            tu = tus[(s["_id"], cfg.get("variant", "default"))]
            heavy = float(cfg.get("mem_gb", 10)) > 12
            if heavy: heavy_sem.acquire()
            try:
                r = run_obligation(prop, tier, tu, o, cfg, unwind_hints, seed, wd)
            finally:
                if heavy: heavy_sem.release()
            tv0 = time.time()
            validate_and_replay(prop, tier, tu, r, seed, nrand, os.path.join(ROOT, "replays"))
            r["validate_s"] = round(time.time() - tv0, 1)
            log("  %-44s %-13s cbmc %6.1fs (%d it) validate %5.1fs %s" % (r["name"], r["status"], r.get("wall_s", 0), r.get("cbmc_iterations", 0), r["validate_s"], (r.get("reason") or "")[:160]))
            return (tu, r)
        results = list(ex.map(work, obls))
    # learned unwind hints (only hints: unwinding assertions always re-check them)
    new_hints = dict(unwind_hints)
    for tu, r in results:
        if r.get("learned_unwindset"):
            new_hints["%s/%s/%s" % (tu.key, r["entry"], tier)] = r["learned_unwindset"]
    if os.environ.get("VP_SAVE_HINTS") == "1":
        os.makedirs(os.path.join(ROOT, "hints"), exist_ok=True)
        by_spec = {}
        for tu, r in results:
            if r.get("learned_unwindset") is not None and r["status"] in ("discharged", "violated", "failed"):
                by_spec.setdefault(tu.spec["_id"], {})["%s/%s/%s" % (tu.key, r["entry"], tier)] = r["learned_unwindset"]
        for sid, d in by_spec.items():
            hf = os.path.join(ROOT, "hints", sid + ".json")
            cur = json.load(open(hf)) if os.path.exists(hf) else {}
            cur.update(d)
            json.dump(cur, open(hf, "w"), indent=0, sort_keys=True)
    # verdict
    known = load_known()
    violations = []; known_hits = []; inconcl = []
    for tu, r in results:
        if r["status"] == "violated":
            for c in r["confirmed"]:
                kf = None
                for k in known.get("findings", []):
                    # a finding is identified by (obligation, assertion); the obligation may serve several properties
                    if k["obligation"] == r["name"] and (k.get("assertion") in (None, c["desc"])):
                        kf = k
                if kf: known_hits.append((kf, r, c))
                else: violations.append((r, c))
        elif r["status"] == "inconclusive":
            inconcl.append(r)
    for kf, r, c in known_hits:
        print("KNOWN-FINDING: property=%s %s" % (prop, kf["what"]))
    for r, c in violations:
        print("VIOLATION property=%s replay=%s" % (prop, c["replay"]))
        print("  obligation=%s assertion=%s native=%s" % (r["name"], c["desc"], c["native"]))
    for r in inconcl:
        print("INCONCLUSIVE property=%s obligation=%s reason=%s" % (prop, r["name"], (r.get("reason") or "").replace("\n", " ")[:400]))
    wall = time.time() - t0
    if not a.no_evidence:
        write_evidence(prop, tier, seed, results, tus, violations, known_hits, inconcl, wall)
    if not a.keep:
        shutil.rmtree(wd, ignore_errors=True)
    n_ok = sum(1 for _, r in results if r["status"] == "discharged")
    print("[%s/%s] obligations=%d discharged=%d known_findings=%d violations=%d inconclusive=%d wall=%.0fs" % (prop, tier, len(results), n_ok, len(known_hits), len(violations), len(inconcl), wall))
    if violations: return 1
    if inconcl: return 3
    return 0

def write_evidence(prop, tier, seed, results, tus, violations, known_hits, inconcl, wall):
    obl = []
    enc_all = set(); assumptions = set()
    for tu, r in results:
        meta = (tu.meta or {}).get("entries", {}).get(r["entry"], {})
        enc = [f for f in meta.get("encoded", []) if "soplex" in f]
        enc_all.update(enc)
        for f in meta.get("cut", []): assumptions.add("CUT (arbitrary result, no side effect): " + f[:160])
        for f in meta.get("external_stubs", []): assumptions.add("external stub (arbitrary result): " + f[:160])
        for f in meta.get("external_models", []): assumptions.add("environment model (engine/vp_prelude.h): " + f)
        for f in (tu.meta or {}).get("replaced", []): assumptions.add("REPLACED by harness model: " + f[:200])
        e = {k: v for k, v in r.items() if not k.startswith("_") and k not in ("failed_properties",)}
        e["functions_encoded_soplex"] = sorted(enc)[:400]
        e["functions_encoded_total"] = len(meta.get("encoded", []))
        obl.append(e)
    for a_ in ("CBMC 6.11 C semantics, IEEE float encoding and SAT back end", "clang-14 front end + mem2reg/simplifycfg", "ll2c translator and prelude models (validated per run on witness and random vectors)",
               "allocation failure out of scope (--no-malloc-may-fail)", "container relocation paths (pointer deltas between allocations) outside every claim"):
        assumptions.add(a_)
    n_ok = sum(1 for _, r in results if r["status"] == "discharged")
    samples = []
    for tu, r in results[:6]:
        samples.append(dict(obligation=r["name"], entry=r["entry"], bounds=r.get("bounds"), unwind=r.get("unwind"), witness_vector=r.get("sample_witness_vector")))
    ev = dict(property_id=prop, tier=tier, seed=seed, level="model_checking", wall_s=round(wall, 1),
              violations=len(violations),
              assumptions=sorted(assumptions),
              coverage=dict(
                  evaluations=sum(r.get("cbmc_iterations", 0) for _, r in results),
                  distinct_nontrivial=sum(1 for _, r in results if r.get("witness_ok") and r.get("properties_checked", 0) > r.get("cover_points", 0)),
                  rule="one evaluation = one CBMC run (solver query batch) over one harness entry; an obligation is non-trivial iff its reachability witness was found reachable by the solver and it carries at least one assertion besides the witness",
                  obligations=len(results), discharged=n_ok, inconclusive=len(inconcl),
                  known_findings=[k["what"] for k, _, _ in known_hits],
                  violated=[dict(obligation=r["name"], assertion=c["desc"], replay=c["replay"]) for r, c in violations],
                  traces_validated_against_impl=sum(r.get("traces_validated_against_impl", 0) for _, r in results),
                  solver_queries=sum(r.get("properties_checked", 0) for _, r in results),
                  solver_time_s=round(sum((r.get("stats") or {}).get("decision_procedure_s", 0) or 0 for _, r in results), 1),
                  functions_encoded=sorted(enc_all)[:600],
                  functions_encoded_count=len(enc_all),
                  exhaustive=False,
                  explanation="bounded symbolic execution (CBMC) of C regenerated on this run from the LLVM IR of /repo's working tree; verdicts hold for all inputs inside each obligation's stated bounds and say nothing outside them",
                  samples=samples,
                  obligation_details=obl))
    os.makedirs(os.path.join(ROOT, "evidence"), exist_ok=True)
    json.dump(ev, open(os.path.join(ROOT, "evidence", prop + ".json"), "w"), indent=1)

def do_replay(path):
    meta = None
    with open(path) as f:
        first = f.readline()
        if first.startswith("#"): meta = json.loads(first[1:])
    if not meta:
        print("replay file has no metadata header"); return 2
    specs = {s["_id"]: s for s in load_specs()}
    s = specs[meta["spec"]]
    wd = os.path.join(BUILD, "replay"); shutil.rmtree(wd, ignore_errors=True); os.makedirs(wd)
    tu = TU(s, meta["variant"], wd)
    os.makedirs(tu.dir, exist_ok=True)
    open(tu.c, "w").write("")
    tu.spec = dict(s); tu.spec["ll2c"] = ["cut x"]  # no generated C needed
    tu.build_native()
    if not tu.native_cxx:
        print("native build failed: " + getattr(tu, "native_err", "")); return 2
    c1, i1, o1, e1 = native_run(tu.native_cxx, meta["entry"], path)
    print("replay of %s (%s) on the real code: %s %s" % (meta["obligation"], meta["desc"], c1, i1))
    if c1 == "pass":
        tu.build_native(asan=True)
        if tu.native_asan:
            env = dict(os.environ, ASAN_OPTIONS="detect_leaks=0", UBSAN_OPTIONS="halt_on_error=1")
            c1, i1, o1, e1 = native_run(tu.native_asan, meta["entry"], path, timeout=120, env=env)
            print("under ASan/UBSan: %s\n%s" % (c1, e1[:1500]))
    shutil.rmtree(wd, ignore_errors=True)
    return 0 if c1 == "pass" else 1

if __name__ == "__main__":
    sys.exit(main())
