// pre-included (-include) in the SOLVER build of every harness TU: makes libstdc++ instantiate std::string in the
// translation unit (instead of referring to the copies precompiled into libstdc++.so), so that its real code is
// translated and model-checked like any other code. iostreams stay external.
#ifdef __cplusplus
#include <bits/c++config.h>
#undef _GLIBCXX_EXTERN_TEMPLATE
#define _GLIBCXX_EXTERN_TEMPLATE -1
#endif
