// native driver: runs one harness entry on a replay vector (counterexample replay + translation validation)
// usage: exe <entry-symbol> <replay-file>     replay file: one hex u64 per line
#include <cstdio>
#include <cstdlib>
#include <cstring>
#include <cstdint>
#include <dlfcn.h>
extern "C" {
uint64_t vp_replay_vals[65536]; int vp_replay_n = 0; int vp_replay_pos = 0; int vp_cover_hits = 0; uint64_t vp_digest = 1469598103934665603ULL;
#ifdef VP_NATIVE_CXX
static uint64_t vp_next() { if(vp_replay_pos < vp_replay_n) return vp_replay_vals[vp_replay_pos++]; vp_replay_pos++; return 0; }
int vp_nondet_int(void) { return (int)(int64_t)vp_next(); }
long vp_nondet_long(void) { return (long)vp_next(); }
double vp_nondet_double(void) { uint64_t b = vp_next(); double v; memcpy(&v, &b, 8); return v; }
unsigned char vp_nondet_uchar(void) { return (unsigned char)vp_next(); }
unsigned char vp_nondet_bool(void) { return (unsigned char)(vp_next() & 1); }
int vp_int_in(int lo, int hi) { int64_t r = (int64_t)vp_next(); if(hi < lo) { printf("ASSUME-FAILED\n"); exit(2); } if(r >= lo && r <= hi) return (int)r; uint64_t span = (uint64_t)((int64_t)hi - (int64_t)lo) + 1; return (int)((int64_t)lo + (int64_t)((uint64_t)r % span)); }
void vp_assume(int c) { if(!c) { printf("ASSUME-FAILED\n"); fflush(stdout); _Exit(2); } }
void vp_assert(int c, int id) { if(!c) { printf("ASSERT-FAILED %d\n", id); fflush(stdout); _Exit(1); } }
void vp_cover(int id) { vp_cover_hits++; }
void vp_out(unsigned long v) { vp_digest = (vp_digest ^ v) * 1099511628211ULL; }
#endif
}
int main(int argc, char** argv)
{
   if(argc < 3) { fprintf(stderr, "usage: %s entry replayfile\n", argv[0]); return 64; }
   FILE* f = fopen(argv[2], "r");
   if(!f) { perror("replay"); return 64; }
   static char line[65536];
   while(fgets(line, sizeof line, f)) { if(line[0] == '#' || line[0] == '\n') continue; if(vp_replay_n < 65536) vp_replay_vals[vp_replay_n++] = strtoull(line, nullptr, 16); }
   fclose(f);
   void (*fn)(void) = (void (*)(void))dlsym(RTLD_DEFAULT, argv[1]);
   if(!fn) { fprintf(stderr, "no such entry %s\n", argv[1]); return 64; }
   fn();
   printf("PASS cover=%d digest=%016llx used=%d\n", vp_cover_hits, (unsigned long long)vp_digest, vp_replay_pos);
   fflush(stdout);
   _Exit(0);
}
