// ll2c: LLVM-14 IR -> C translator (prototype for feasibility probes)
#include "llvm/IR/LLVMContext.h"
#include "llvm/IR/Module.h"
#include "llvm/IR/Instructions.h"
#include "llvm/IR/IntrinsicInst.h"
#include "llvm/IR/Constants.h"
#include "llvm/IR/DataLayout.h"
#include "llvm/IR/CFG.h"
#include "llvm/IR/Operator.h"
#include "llvm/IRReader/IRReader.h"
#include "llvm/Support/SourceMgr.h"
#include "llvm/Support/raw_ostream.h"
#include "llvm/ADT/SmallString.h"
#include "llvm/Demangle/Demangle.h"
#include <map>
#include <set>
#include <string>
#include <vector>
#include <sstream>
#include <functional>
using namespace llvm;
using std::string;

static std::map<Type*, string> tyName;         // struct/array wrapper names
static std::vector<string> tyDefs;              // emitted in order
static std::set<Type*> tyDone, tyInProgress;
static std::vector<string> fwdDecls;
static int tyCounter = 0;
static const DataLayout* DL;
static std::map<const Value*, string> gName;    // globals & functions
static std::set<string> usedNames;
static std::map<const GlobalVariable*, int> typeinfoId;

static string sanitize(StringRef s)
{
   string r;
   for(char c : s) r += (isalnum((unsigned char)c) || c == '_') ? c : '_';
   if(r.empty() || isdigit((unsigned char)r[0])) r = "_" + r;
   return r;
}
static string uniq(string base)
{
   string n = base; int k = 0;
   while(usedNames.count(n)) n = base + "_" + std::to_string(++k);
   usedNames.insert(n);
   return n;
}

static string cty(Type* T);
static string declare(Type* T, const string& name);

static string intTy(unsigned bits, bool sgn = false)
{
   unsigned w = bits <= 8 ? 8 : bits <= 16 ? 16 : bits <= 32 ? 32 : bits <= 64 ? 64 : 128;
   if(w == 128) return sgn ? "__int128" : "unsigned __int128";
   return string(sgn ? "s" : "u") + std::to_string(w);
}

static void defineAgg(Type* T)
{
   if(tyDone.count(T)) return;
   if(tyInProgress.count(T)) return;
   tyInProgress.insert(T);
   std::ostringstream os;
   if(auto* ST = dyn_cast<StructType>(T))
   {
      if(ST->isOpaque())
      {
         os << "struct " << tyName[T] << " { u8 opaque_[8]; };\n";
      }
      else
      {
         for(Type* E : ST->elements())
            if(E->isStructTy() || E->isArrayTy()) { cty(E); defineAgg(E); }
         os << "struct " << (ST->isPacked() ? "__attribute__((packed)) " : "") << tyName[T] << " {";
         unsigned i = 0;
         for(Type* E : ST->elements()) os << " " << declare(E, "f" + std::to_string(i++)) << ";";
         if(ST->getNumElements() == 0) os << " u8 empty_[0];";
         os << " };\n";
      }
   }
   else if(auto* AT = dyn_cast<ArrayType>(T))
   {
      Type* E = AT->getElementType();
      if(E->isStructTy() || E->isArrayTy()) { cty(E); defineAgg(E); }
      os << "typedef " << declare(E, tyName[T] + "[" + std::to_string(AT->getNumElements()) + "]") << ";\n";
   }
   tyDefs.push_back(os.str());
   tyDone.insert(T);
   tyInProgress.erase(T);
}

static string cty(Type* T)
{
   if(T->isVoidTy()) return "void";
   if(T->isIntegerTy()) return intTy(T->getIntegerBitWidth());
   if(T->isFloatTy()) return "float";
   if(T->isDoubleTy()) return "double";
   if(T->isX86_FP80Ty()) return "long double";
   if(T->isPointerTy())
   {
      Type* E = T->getPointerElementType();
      if(E->isFunctionTy()) return "fnptr_t";
      if(E->isVoidTy()) return "u8*";
      return cty(E) + "*";
   }
   if(T->isStructTy() || T->isArrayTy())
   {
      auto it = tyName.find(T);
      if(it == tyName.end())
      {
         string base;
         if(auto* ST = dyn_cast<StructType>(T))
            base = ST->hasName() ? "S_" + sanitize(ST->getName()).substr(0, 60) : "L";
         else base = "A";
         string n = uniq(base + "_" + std::to_string(tyCounter++));
         tyName[T] = n;
         if(T->isStructTy()) fwdDecls.push_back("struct " + n + ";\n");
      }
      if(T->isArrayTy()) { defineAgg(T); return tyName[T]; }   // arrays are typedefs (must be complete before use)
      return "struct " + tyName[T];
   }
   if(T->isFunctionTy()) return "void";
   if(T->isVectorTy()) { errs() << "vector type unsupported\n"; return "VEC_UNSUPPORTED"; }
   errs() << "unsupported type "; T->print(errs()); errs() << "\n";
   return "UNSUPPORTED";
}
static string declare(Type* T, const string& name) { return cty(T) + " " + name; }

// ---------------------------------------------------------------------------
struct FnCtx
{
   std::map<const Value*, string> name;
   int n = 0;
   std::ostringstream decls;
   std::ostringstream body;
};

static string fpLit(const APFloat& f, Type* T)
{
   if(f.isNaN()) return "(0.0/0.0)";
   if(f.isInfinity()) return f.isNegative() ? "(-1.0/0.0)" : "(1.0/0.0)";
   bool lose; APFloat d = f;
   d.convert(APFloat::IEEEdouble(), APFloat::rmNearestTiesToEven, &lose);
   char buf[64]; snprintf(buf, sizeof buf, "%a", d.convertToDouble());
   string s = buf;
   if(T->isFloatTy()) s += "f";
   return "(" + s + ")";
}

static string val(const Value* V, FnCtx* C);

static string zeroOf(Type* T)
{
   if(T->isPointerTy()) return "((" + cty(T) + ")0)";
   if(T->isIntegerTy()) return "((" + cty(T) + ")0)";
   if(T->isFloatingPointTy()) return "0.0";
   return "(" + cty(T) + "){0}";
}

// initializer-list style for aggregates (usable in static initializers)
static string constInit(const Constant* K, FnCtx* C)
{
   Type* T = K->getType();
   if(isa<ConstantAggregateZero>(K) || isa<UndefValue>(K))
   {
      if(T->isStructTy() || T->isArrayTy()) return "{0}";
      return zeroOf(T);
   }
   if(auto* CS = dyn_cast<ConstantStruct>(K))
   {
      string s = "{";
      for(unsigned i = 0; i < CS->getNumOperands(); i++) s += (i ? ", " : "") + constInit(CS->getOperand(i), C);
      if(CS->getNumOperands() == 0) s += "0";
      return s + "}";
   }
   if(auto* CA = dyn_cast<ConstantArray>(K))
   {
      string s = "{";
      for(unsigned i = 0; i < CA->getNumOperands(); i++) s += (i ? ", " : "") + constInit(CA->getOperand(i), C);
      return s + "}";
   }
   if(auto* CD = dyn_cast<ConstantDataArray>(K))
   {
      string s = "{";
      for(unsigned i = 0; i < CD->getNumElements(); i++) s += (i ? ", " : "") + constInit(CD->getElementAsConstant(i), C);
      return s + "}";
   }
   return val(K, C);
}

static string gepExpr(Type* srcTy, const Value* ptr, ArrayRef<const Value*> idx, FnCtx* C, Type** resElem = nullptr)
{
   string e = val(ptr, C);
   Type* cur = srcTy;
   // make sure pointer has the right C type
   e = "((" + cty(cur) + "*)" + e + ")";
   bool first = true;
   for(const Value* I : idx)
   {
      string iv;
      if(auto* CI = dyn_cast<ConstantInt>(I)) iv = std::to_string(CI->getSExtValue());
      else
      {
         unsigned bw = I->getType()->getIntegerBitWidth();
         iv = "(s64)(" + intTy(bw, true) + ")" + val(I, C);
      }
      if(first)
      {
         if(iv != "0") e = "(" + e + " + " + iv + ")";
         first = false;
         continue;
      }
      if(auto* ST = dyn_cast<StructType>(cur))
      {
         unsigned f = cast<ConstantInt>(I)->getZExtValue();
         if(ST->isOpaque()) { errs() << "gep into opaque\n"; }
         e = "(&" + e + "->f" + std::to_string(f) + ")";
         cur = ST->getElementType(f);
      }
      else if(auto* AT = dyn_cast<ArrayType>(cur))
      {
         e = "(&(*" + e + ")[" + iv + "])";
         cur = AT->getElementType();
      }
      else { errs() << "gep: bad type\n"; }
   }
   if(resElem) *resElem = cur;
   return e;
}

static string castTo(Type* T, const string& e) { return "((" + cty(T) + ")" + e + ")"; }

static string constExpr(const ConstantExpr* CE, FnCtx* C)
{
   switch(CE->getOpcode())
   {
   case Instruction::GetElementPtr:
   {
      auto* G = cast<GEPOperator>(CE);
      std::vector<const Value*> idx(G->idx_begin(), G->idx_end());
      return castTo(CE->getType(), gepExpr(G->getSourceElementType(), G->getPointerOperand(), idx, C));
   }
   case Instruction::BitCast:
   case Instruction::AddrSpaceCast:
      return castTo(CE->getType(), val(CE->getOperand(0), C));
   case Instruction::PtrToInt:
      return castTo(CE->getType(), "(u64)" + val(CE->getOperand(0), C));
   case Instruction::IntToPtr:
      return castTo(CE->getType(), "(u64)" + val(CE->getOperand(0), C));
   case Instruction::ICmp:
   {
      const Value* a = CE->getOperand(0)->stripPointerCasts(); const Value* b = CE->getOperand(1)->stripPointerCasts();
      bool an = isa<ConstantPointerNull>(a), bn = isa<ConstantPointerNull>(b);
      bool ag = isa<GlobalValue>(a), bg = isa<GlobalValue>(b);
      // address of an (extern_weak or defined) global vs null: declarations count as null (not linked in)
      if((ag && bn) || (an && bg))
      {
         const GlobalValue* g = cast<GlobalValue>(ag ? a : b);
         bool isnull = g->isDeclaration();
         bool ne = CE->getPredicate() == CmpInst::ICMP_NE;
         return (isnull != ne) ? "1" : "0";
      }
      errs() << "unsupported icmp constexpr\n"; return "CONSTEXPR_UNSUPPORTED";
   }
   case Instruction::Add: return "(" + val(CE->getOperand(0), C) + " + " + val(CE->getOperand(1), C) + ")";
   case Instruction::Sub: return "(" + val(CE->getOperand(0), C) + " - " + val(CE->getOperand(1), C) + ")";
   default:
      errs() << "unsupported constexpr: "; CE->print(errs()); errs() << "\n";
      return "CONSTEXPR_UNSUPPORTED";
   }
}

static string val(const Value* V, FnCtx* C)
{
   if(auto* CI = dyn_cast<ConstantInt>(V))
   {
      unsigned bw = CI->getBitWidth();
      if(bw <= 64) return "((" + intTy(bw) + ")" + std::to_string(CI->getZExtValue()) + "ULL)";
      SmallString<40> s; CI->getValue().toStringUnsigned(s);
      return "((unsigned __int128)" + string(s.c_str()) + "ULL)"; // only ok if fits 64
   }
   if(auto* CF = dyn_cast<ConstantFP>(V)) return fpLit(CF->getValueAPF(), V->getType());
   if(isa<ConstantPointerNull>(V)) return "((" + cty(V->getType()) + ")0)";
   if(isa<UndefValue>(V))
   {
      Type* T = V->getType();
      if(T->isStructTy() || T->isArrayTy()) return "((" + cty(T) + "){0})";
      return zeroOf(T);
   }
   if(auto* F = dyn_cast<Function>(V)) return "((fnptr_t)&" + gName[F] + ")";
   if(auto* G = dyn_cast<GlobalVariable>(V)) return "(&" + gName[G] + ")";
   if(auto* GA = dyn_cast<GlobalAlias>(V)) return val(GA->getAliasee(), C);
   if(auto* CE = dyn_cast<ConstantExpr>(V)) return constExpr(CE, C);
   if(auto* K = dyn_cast<Constant>(V))
   {
      if(isa<ConstantAggregateZero>(K)) return "((" + cty(K->getType()) + "){0})";
      if(isa<ConstantStruct>(K) || isa<ConstantArray>(K) || isa<ConstantDataArray>(K))
         return "((" + cty(K->getType()) + ")" + constInit(K, C) + ")";
      errs() << "unsupported constant: "; K->print(errs()); errs() << "\n";
      return "CONST_UNSUPPORTED";
   }
   if(C)
   {
      auto it = C->name.find(V);
      if(it != C->name.end()) return it->second;
   }
   errs() << "unknown value: "; V->print(errs()); errs() << "\n";
   return "UNKNOWN_VALUE";
}

static string S(Type* T, const string& e) // reinterpret unsigned int expr as signed of same width
{
   return "((" + intTy(T->getIntegerBitWidth(), true) + ")" + e + ")";
}
static string maskTo(Type* T, const string& e)
{
   unsigned bw = T->getIntegerBitWidth();
   if(bw == 1) return "((u8)((" + e + ") & 1))";
   if(bw == 8 || bw == 16 || bw == 32 || bw == 64 || bw == 128) return "((" + cty(T) + ")(" + e + "))";
   return "((" + cty(T) + ")((" + e + ") & ((((" + cty(T) + ")1) << " + std::to_string(bw) + ") - 1)))";
}
static string sextFrom(Type* From, const string& e, Type* To)
{
   unsigned bw = From->getIntegerBitWidth();
   if(bw == 1) return "((" + cty(To) + ")((" + e + ") ? -1 : 0))";
   if(bw == 8 || bw == 16 || bw == 32 || bw == 64)
      return maskTo(To, "(" + intTy(To->getIntegerBitWidth(), true) + ")" + S(From, e));
   errs() << "sext from odd width\n";
   return "SEXT_UNSUPPORTED";
}

static std::map<string, string> knownExternal = {
   {"malloc", "malloc"}, {"free", "free"}, {"realloc", "realloc"}, {"calloc", "calloc"},
   {"strlen", "strlen"}, {"strcmp", "strcmp"}, {"strncmp", "strncmp"}, {"strcpy", "strcpy"}, {"strncpy", "strncpy"},
   {"memcmp", "memcmp"}, {"memchr", "memchr"}, {"strchr", "strchr"}, {"strrchr", "strrchr"}, {"strcat", "strcat"},
   {"ldexp", "vp_ldexp"}, {"frexp", "vp_frexp"}, {"fabs", "fabs"}, {"floor", "floor"}, {"ceil", "ceil"}, {"sqrt", "sqrt"},
   {"atoi", "atoi"}, {"atof", "vp_atof"}, {"isspace", "isspace"}, {"isdigit", "isdigit"}, {"tolower", "tolower"}, {"toupper", "toupper"},
   {"abort", "vp_abort"}, {"_ZSt9terminatev", "vp_abort"},
   {"_Znwm", "vp_new"}, {"_Znam", "vp_new"}, {"_ZdlPv", "vp_delete"}, {"_ZdaPv", "vp_delete"}, {"_ZdlPvm", "vp_delete2"},
   {"__cxa_allocate_exception", "vp_cxa_allocate_exception"}, {"__cxa_throw", "vp_cxa_throw"},
   {"__cxa_begin_catch", "vp_cxa_begin_catch"}, {"__cxa_end_catch", "vp_cxa_end_catch"},
   {"__cxa_free_exception", "vp_cxa_free_exception"}, {"__cxa_rethrow", "vp_cxa_rethrow"},
   {"__cxa_atexit", "vp_cxa_atexit"}, {"__cxa_guard_acquire", "vp_cxa_guard_acquire"}, {"__cxa_guard_release", "vp_cxa_guard_release"},
   {"__cxa_guard_abort", "vp_cxa_guard_release"}, {"__cxa_pure_virtual", "vp_abort"},
   {"_ZNSi7getlineEPcl", "vp_istream_getline"}, {"strtok", "vp_strtok"},
   {"vp_nondet_int", "vp_nondet_int"}, {"vp_nondet_double", "vp_nondet_double"}, {"vp_nondet_uchar", "vp_nondet_uchar"},
   {"vp_assume", "vp_assume"}, {"vp_assert", "vp_assert"}, {"vp_cover", "vp_cover"},
   {"vp_nondet_long", "vp_nondet_long"}, {"vp_int_in", "vp_int_in"}, {"vp_out", "vp_out"}, {"vp_nondet_bool", "vp_nondet_bool"}, {"vp_nondet_ptrbits", "vp_nondet_ptrbits"},
};

static string fnSig(const Function& F, const string& name, bool withNames)
{
   FunctionType* FT = F.getFunctionType();
   string s = cty(FT->getReturnType()) + " " + name + "(";
   unsigned i = 0;
   for(Type* P : FT->params()) { s += (i ? ", " : "") + cty(P) + (withNames ? " a" + std::to_string(i) : ""); i++; }
   if(FT->isVarArg()) s += (i ? ", ..." : "");
   else if(i == 0) s += "void";
   return s + ")";
}

static string fnPtrCast(FunctionType* FT)
{
   string s = "(" + cty(FT->getReturnType()) + "(*)(";
   unsigned i = 0;
   for(Type* P : FT->params()) { s += (i ? ", " : "") + cty(P); i++; }
   if(FT->isVarArg()) s += (i ? ", ..." : "...");
   else if(i == 0) s += "void";
   return s + "))";
}

static string fcmpExpr(CmpInst::Predicate p, const string& a, const string& b)
{
   switch(p)
   {
   case CmpInst::FCMP_OEQ: return "(" + a + " == " + b + ")";
   case CmpInst::FCMP_OGT: return "(" + a + " > " + b + ")";
   case CmpInst::FCMP_OGE: return "(" + a + " >= " + b + ")";
   case CmpInst::FCMP_OLT: return "(" + a + " < " + b + ")";
   case CmpInst::FCMP_OLE: return "(" + a + " <= " + b + ")";
   case CmpInst::FCMP_ONE: return "(" + a + " < " + b + " || " + a + " > " + b + ")";
   case CmpInst::FCMP_ORD: return "(" + a + " == " + a + " && " + b + " == " + b + ")";
   case CmpInst::FCMP_UNO: return "(" + a + " != " + a + " || " + b + " != " + b + ")";
   case CmpInst::FCMP_UEQ: return "(!(" + a + " < " + b + " || " + a + " > " + b + "))";
   case CmpInst::FCMP_UGT: return "(!(" + a + " <= " + b + "))";
   case CmpInst::FCMP_UGE: return "(!(" + a + " < " + b + "))";
   case CmpInst::FCMP_ULT: return "(!(" + a + " >= " + b + "))";
   case CmpInst::FCMP_ULE: return "(!(" + a + " > " + b + "))";
   case CmpInst::FCMP_UNE: return "(" + a + " != " + b + ")";
   case CmpInst::FCMP_FALSE: return "0";
   case CmpInst::FCMP_TRUE: return "1";
   default: return "FCMP_UNSUPPORTED";
   }
}

static std::map<const BasicBlock*, string> bbName;
static const string& dem(const Function& F);
extern std::vector<string> cutIndirectPats;

static void emitPhiCopies(const BasicBlock* from, const BasicBlock* to, FnCtx& C, std::ostringstream& os)
{
   std::vector<std::pair<string, string>> copies;
   for(const PHINode& P : to->phis())
   {
      const Value* in = P.getIncomingValueForBlock(from);
      copies.push_back({C.name[&P], val(in, &C)});
   }
   if(copies.empty()) return;
   if(copies.size() == 1) { os << copies[0].first << " = " << copies[0].second << "; "; return; }
   for(auto& c : copies) os << c.first << "_t = " << c.second << "; ";
   for(auto& c : copies) os << c.first << " = " << c.first << "_t; ";
}

static string retZero(const Function& F)
{
   Type* T = F.getReturnType();
   if(T->isVoidTy()) return "return;";
   if(T->isStructTy() || T->isArrayTy()) return "{ " + cty(T) + " z_ = {0}; return z_; }";
   return "return " + zeroOf(T) + ";";
}

static int tinfoId(const Value* V)
{
   V = V->stripPointerCasts();
   if(isa<ConstantPointerNull>(V)) return 0; // catch-all
   auto* G = dyn_cast<GlobalVariable>(V);
   if(!G) return -1;
   auto it = typeinfoId.find(G);
   if(it != typeinfoId.end()) return it->second;
   int id = (int)typeinfoId.size() + 1;
   typeinfoId[G] = id;
   return id;
}

// direct callee, looking through GlobalAliases (e.g. complete-object constructor C1 aliased to base-object constructor C2)
static const Function* directCallee(const CallBase& CB)
{
   if(const Function* F = CB.getCalledFunction()) return F;
   if(auto* GA = dyn_cast<GlobalAlias>(CB.getCalledOperand()))
      if(auto* F = dyn_cast<Function>(GA->getAliaseeObject()))
         if(F->getFunctionType() == CB.getFunctionType()) return F;
   return nullptr;
}
static void emitCall(const CallBase& CB, FnCtx& C, const Function& F)
{
   std::ostringstream& os = C.body;
   const Function* callee = directCallee(CB);
   string lhs = CB.getType()->isVoidTy() ? "" : C.name[&CB] + " = ";
   auto arg = [&](unsigned i) { return val(CB.getArgOperand(i), &C); };
   if(callee && callee->isIntrinsic())
   {
      StringRef n = callee->getName();
      if(n.startswith("llvm.lifetime") || n.startswith("llvm.dbg") || n.startswith("llvm.invariant") || n.startswith("llvm.assume")
            || n.startswith("llvm.experimental.noalias") || n.startswith("llvm.stackrestore") || n.startswith("llvm.prefetch")
            || n.startswith("llvm.var.annotation"))
      {
         if(!CB.getType()->isVoidTy() && !CB.getType()->isEmptyTy()) os << "  " << lhs << zeroOf(CB.getType()) << ";\n";
         return;
      }
      // copies whose length is not a compile-time constant: byte loops, because CBMC's built-in memcpy/memmove with a
      // symbolic length builds array-theory formulas that exhaust memory or lose the copied contents
      bool byteLoop = CB.arg_size() > 2 && !isa<ConstantInt>(CB.getArgOperand(2));
      const char* sfx = byteLoop ? "vp_" : "";
      const char* sfx2 = byteLoop ? "_bytes" : "";
      // llvm.memcpy allows dst == src exactly (C++ self-assignment of a trivially copyable object); C memcpy does not
      if(n.startswith("llvm.memcpy")) { os << "  if((u8*)" << arg(0) << " != (u8*)" << arg(1) << ") " << sfx << "memcpy" << sfx2 << "(" << arg(0) << ", " << arg(1) << ", " << arg(2) << ");\n"; return; }
      if(n.startswith("llvm.memmove")) { os << "  " << sfx << "memmove" << sfx2 << "(" << arg(0) << ", " << arg(1) << ", " << arg(2) << ");\n"; return; }
      if(n.startswith("llvm.memset")) { os << "  " << sfx << "memset" << sfx2 << "(" << arg(0) << ", " << arg(1) << ", " << arg(2) << ");\n"; return; }
      if(n.startswith("llvm.fabs")) { os << "  " << lhs << "fabs(" << arg(0) << ");\n"; return; }
      if(n.startswith("llvm.floor")) { os << "  " << lhs << "floor(" << arg(0) << ");\n"; return; }
      if(n.startswith("llvm.ceil")) { os << "  " << lhs << "ceil(" << arg(0) << ");\n"; return; }
      if(n.startswith("llvm.sqrt")) { os << "  " << lhs << "sqrt(" << arg(0) << ");\n"; return; }
      if(n.startswith("llvm.fmuladd")) { os << "  " << lhs << "(" << arg(0) << " * " << arg(1) << " + " << arg(2) << ");\n"; return; }
      if(n.startswith("llvm.expect")) { os << "  " << lhs << arg(0) << ";\n"; return; }
      if(n.startswith("llvm.trap")) { os << "  vp_abort();\n"; return; }
      if(n.startswith("llvm.stacksave")) { os << "  " << lhs << "(u8*)0;\n"; return; }
      if(n.startswith("llvm.eh.typeid.for")) { os << "  " << lhs << tinfoId(CB.getArgOperand(0)) << ";\n"; return; }
      if(n.startswith("llvm.smax")) { os << "  " << lhs << "(" << S(CB.getType(), arg(0)) << " > " << S(CB.getType(), arg(1)) << " ? " << arg(0) << " : " << arg(1) << ");\n"; return; }
      if(n.startswith("llvm.smin")) { os << "  " << lhs << "(" << S(CB.getType(), arg(0)) << " < " << S(CB.getType(), arg(1)) << " ? " << arg(0) << " : " << arg(1) << ");\n"; return; }
      if(n.startswith("llvm.umax")) { os << "  " << lhs << "(" << arg(0) << " > " << arg(1) << " ? " << arg(0) << " : " << arg(1) << ");\n"; return; }
      if(n.startswith("llvm.umin")) { os << "  " << lhs << "(" << arg(0) << " < " << arg(1) << " ? " << arg(0) << " : " << arg(1) << ");\n"; return; }
      if(n.startswith("llvm.abs")) { os << "  " << lhs << "(" << S(CB.getType(), arg(0)) << " < 0 ? (" << cty(CB.getType()) << ")(0 - " << arg(0) << ") : " << arg(0) << ");\n"; return; }
      if(n.startswith("llvm.is.constant")) { os << "  " << lhs << "0;\n"; return; }
      if(n.startswith("llvm.uadd.with.overflow") || n.startswith("llvm.umul.with.overflow") || n.startswith("llvm.usub.with.overflow")
            || n.startswith("llvm.sadd.with.overflow") || n.startswith("llvm.smul.with.overflow") || n.startswith("llvm.ssub.with.overflow"))
      {
         // {result, overflow bit}: computed in 128-bit arithmetic (operands are at most 64 bits wide)
         bool sg = n[5] == 's'; char opc = n[6] == 'a' ? '+' : n[6] == 'm' ? '*' : '-';
         Type* OT = CB.getArgOperand(0)->getType(); unsigned bw = OT->getIntegerBitWidth();
         string nm = C.name[&CB];
         string wide = sg ? "__int128" : "unsigned __int128";
         string a = sg ? "(__int128)" + S(OT, arg(0)) : "(unsigned __int128)" + arg(0);
         string b = sg ? "(__int128)" + S(OT, arg(1)) : "(unsigned __int128)" + arg(1);
         os << "  { " << wide << " w_ = " << a << " " << opc << " " << b << "; " << nm << ".f0 = " << maskTo(OT, "w_") << "; ";
         if(sg) os << nm << ".f1 = (w_ != (__int128)" << S(OT, nm + ".f0") << "); }\n";
         else if(opc == '-') os << nm << ".f1 = (" << arg(0) << " < " << arg(1) << "); }\n";
         else os << nm << ".f1 = ((w_ >> " << bw << ") != 0); }\n";
         return;
      }
      errs() << "unsupported intrinsic " << n << "\n";
      os << "  INTRINSIC_UNSUPPORTED_" << sanitize(n) << ";\n";
      return;
   }
   if(callee && (callee->getName() == "vp_assert" || callee->getName() == "vp_cover"))
   {
      bool isA = callee->getName() == "vp_assert";
      const Value* idv = CB.getArgOperand(isA ? 1 : 0);
      long id = 0; if(auto* CI = dyn_cast<ConstantInt>(idv)) id = CI->getSExtValue();
      if(isA) os << "  VP_ASSERT_AT(" << arg(0) << ", " << id << ");\n";
      else os << "  VP_COVER_AT(" << id << ");\n";
      return;
   }
   if(callee && callee->isDeclaration() && (callee->getName() == "malloc" || callee->getName() == "realloc" || callee->getName() == "_Znwm"))
   {
      // typed allocation: if the result is cast to T*, allocate an array of T so that CBMC keeps the object field-sensitive
      Type* ET = nullptr;
      for(const User* U : CB.users())
         if(auto* BC = dyn_cast<BitCastInst>(U))
         {
            Type* E = BC->getType()->getPointerElementType();
            if(E->isSized() && !E->isIntegerTy(8) && !E->isFunctionTy() && DL->getTypeAllocSize(E) > 0) { ET = E; break; }
         }
      if(ET)
      {
         bool isRe = callee->getName() == "realloc";
         string sz = arg(isRe ? 1 : 0);
         os << "#ifdef __CPROVER__\n";
         if(isRe) os << "  " << lhs << "VP_REALLOC_T(" << cty(ET) << ", " << arg(0) << ", " << sz << ");\n";
         else os << "  " << lhs << "VP_MALLOC_T(" << cty(ET) << ", " << sz << ");\n";
         os << "#else\n";
         os << "  " << lhs << gName[callee] << "(" << (isRe ? arg(0) + ", " : string("")) << sz << ");\n";
         os << "#endif\n";
         return;
      }
   }
   string fexpr;
   FunctionType* FT = CB.getFunctionType();
   if(callee) fexpr = gName[callee];
   else fexpr = "(" + fnPtrCast(FT) + val(CB.getCalledOperand(), &C) + ")";
   os << "  " << lhs << fexpr << "(";
   for(unsigned i = 0; i < CB.arg_size(); i++)
   {
      string a = arg(i);
      if(i < FT->getNumParams()) a = castTo(FT->getParamType(i), a);
      os << (i ? ", " : "") << a;
   }
   os << ");\n";
}

static void emitFunction(const Function& F, raw_ostream& out)
{
   FnCtx C;
   unsigned ai = 0;
   for(const Argument& A : F.args()) C.name[&A] = "a" + std::to_string(ai++);
   int bi = 0;
   bbName.clear();
   for(const BasicBlock& B : F) bbName[&B] = "bb" + std::to_string(bi++);
   for(const BasicBlock& B : F)
      for(const Instruction& I : B)
      {
         if(I.getType()->isVoidTy()) continue;
         string n = "v" + std::to_string(C.n++);
         C.name[&I] = n;
         if(auto* AI = dyn_cast<AllocaInst>(&I))
         {
            Type* AT = AI->getAllocatedType();
            if(AI->isArrayAllocation())
            {
               if(auto* CI = dyn_cast<ConstantInt>(AI->getArraySize()))
                  C.decls << "  " << cty(AT) << " " << n << "_mem[" << CI->getZExtValue() << "];\n";
               else { errs() << "dynamic alloca in " << F.getName() << "\n"; C.decls << "  " << cty(AT) << " " << n << "_mem[DYNAMIC_ALLOCA];\n"; }
               C.decls << "  " << cty(I.getType()) << " " << n << " = " << n << "_mem;\n";
            }
            else
            {
               C.decls << "  " << cty(AT) << " " << n << "_mem;\n";
               C.decls << "  " << cty(I.getType()) << " " << n << " = &" << n << "_mem;\n";
            }
            continue;
         }
         C.decls << "  " << declare(I.getType(), n) << ";\n";
         if(isa<PHINode>(I)) C.decls << "  " << declare(I.getType(), n + "_t") << ";\n";
      }
   std::ostringstream& os = C.body;
   std::set<const Instruction*> skip, stubCalls;
   {
      bool ci = false;
      const string& dn = dem(F);
      for(auto& p : cutIndirectPats) if(p == "*" || dn.find(p) != string::npos) ci = true;
      if(ci)
      {
         std::vector<const Instruction*> work;
         for(const BasicBlock& B : F) for(const Instruction& I : B)
            if(auto* CB = dyn_cast<CallBase>(&I))
               if(!directCallee(*CB) && !isa<Function>(CB->getCalledOperand()->stripPointerCasts()))
               {
                  stubCalls.insert(&I);
                  if(auto* OI = dyn_cast<Instruction>(CB->getCalledOperand())) work.push_back(OI);
               }
         while(!work.empty())
         {
            const Instruction* I = work.back(); work.pop_back();
            if(skip.count(I) || isa<PHINode>(I) || isa<CallBase>(I) || I->mayHaveSideEffects()) continue;
            bool all = true;
            for(const User* U : I->users())
            {
               auto* UI = dyn_cast<Instruction>(U);
               if(!UI) { all = false; break; }
               if(skip.count(UI)) continue;
               if(stubCalls.count(UI) && cast<CallBase>(UI)->getCalledOperand() == I)
               {
                  bool asArg = false;
                  for(auto& A : cast<CallBase>(UI)->args()) if(A.get() == I) asArg = true;
                  if(!asArg) continue;
               }
               all = false; break;
            }
            if(!all) continue;
            skip.insert(I);
            for(auto& O : I->operands()) if(auto* OI = dyn_cast<Instruction>(O.get())) work.push_back(OI);
         }
      }
   }
   for(const BasicBlock& B : F)
   {
      os << " " << bbName[&B] << ": ;\n";
      for(const Instruction& I : B)
      {
         string n = I.getType()->isVoidTy() ? "" : C.name[&I];
         auto op = [&](unsigned i) { return val(I.getOperand(i), &C); };
         Type* T = I.getType();
         if(skip.count(&I)) continue;
         if(stubCalls.count(&I))
         {
            // indirect call in a cutindirect function: arbitrary result, no side effect
            if(!T->isVoidTy()) os << "  { " << cty(T) << " nd_; " << n << " = nd_; } /* indirect call cut */\n";
            else os << "  /* indirect call cut */ ;\n";
            if(auto* II = dyn_cast<InvokeInst>(&I)) { os << "  { "; emitPhiCopies(&B, II->getNormalDest(), C, os); os << "goto " << bbName[II->getNormalDest()] << "; }\n"; }
            continue;
         }
         switch(I.getOpcode())
         {
         case Instruction::Alloca: break;
         case Instruction::PHI: break;
         case Instruction::Load:
            os << "  " << n << " = *" << castTo(PointerType::getUnqual(T), op(0)) << ";\n"; break;
         case Instruction::Store:
         {
            Type* VT = I.getOperand(0)->getType();
            os << "  *" << castTo(PointerType::getUnqual(VT), op(1)) << " = " << op(0) << ";\n"; break;
         }
         case Instruction::GetElementPtr:
         {
            auto* G = cast<GetElementPtrInst>(&I);
            std::vector<const Value*> idx(G->idx_begin(), G->idx_end());
            os << "  " << n << " = " << castTo(T, gepExpr(G->getSourceElementType(), G->getPointerOperand(), idx, &C)) << ";\n";
            break;
         }
         case Instruction::BitCast:
         {
            Type* ST = I.getOperand(0)->getType();
            if(ST->isPointerTy() && T->isPointerTy()) os << "  " << n << " = " << castTo(T, op(0)) << ";\n";
            else os << "  { " << cty(ST) << " t_ = " << op(0) << "; memcpy(&" << n << ", &t_, sizeof(" << n << ")); }\n";
            break;
         }
         case Instruction::PtrToInt: os << "  " << n << " = " << castTo(T, "(u64)" + op(0)) << ";\n"; break;
         case Instruction::IntToPtr: os << "  " << n << " = " << castTo(T, "(u64)" + op(0)) << ";\n"; break;
         case Instruction::Trunc: os << "  " << n << " = " << maskTo(T, op(0)) << ";\n"; break;
         case Instruction::ZExt: os << "  " << n << " = " << castTo(T, op(0)) << ";\n"; break;
         case Instruction::SExt: os << "  " << n << " = " << sextFrom(I.getOperand(0)->getType(), op(0), T) << ";\n"; break;
         case Instruction::FPTrunc: case Instruction::FPExt:
            os << "  " << n << " = " << castTo(T, op(0)) << ";\n"; break;
         case Instruction::SIToFP: os << "  " << n << " = " << castTo(T, S(I.getOperand(0)->getType(), op(0))) << ";\n"; break;
         case Instruction::UIToFP: os << "  " << n << " = " << castTo(T, op(0)) << ";\n"; break;
         case Instruction::FPToSI: os << "  " << n << " = " << maskTo(T, "(" + intTy(T->getIntegerBitWidth(), true) + ")" + op(0)) << ";\n"; break;
         case Instruction::FPToUI: os << "  " << n << " = " << maskTo(T, "(" + intTy(T->getIntegerBitWidth(), false) + ")" + op(0)) << ";\n"; break;
         case Instruction::Add: case Instruction::Sub: case Instruction::Mul:
         {
            if(I.getOpcode() == Instruction::Sub && T->isIntegerTy(64))
            {
               // pointer difference: CBMC folds offset differences within one object, but never (u64)p - (u64)q
               auto* P0 = dyn_cast<PtrToIntOperator>(I.getOperand(0)); auto* P1 = dyn_cast<PtrToIntOperator>(I.getOperand(1));
               if(P0 && P1)
               {
                  os << "  " << n << " = VP_PTRDIFF(" << val(P0->getPointerOperand(), &C) << ", " << val(P1->getPointerOperand(), &C) << ");\n";
                  break;
               }
            }
            const char* o = I.getOpcode() == Instruction::Add ? "+" : I.getOpcode() == Instruction::Sub ? "-" : "*";
            auto* OB = cast<OverflowingBinaryOperator>(&I);
            unsigned bw = T->getIntegerBitWidth();
            if(OB->hasNoSignedWrap() && (bw == 32 || bw == 64))
               os << "  " << n << " = " << castTo(T, "(" + S(T, op(0)) + " " + o + " " + S(T, op(1)) + ")") << ";\n";
            else if(bw < 32) // avoid int promotion surprises
               os << "  " << n << " = " << maskTo(T, "((u32)" + op(0) + " " + o + " (u32)" + op(1) + ")") << ";\n";
            else
               os << "  " << n << " = " << maskTo(T, "(" + op(0) + " " + o + " " + op(1) + ")") << ";\n";
            break;
         }
         case Instruction::UDiv: os << "  " << n << " = " << maskTo(T, "(" + op(0) + " / " + op(1) + ")") << ";\n"; break;
         case Instruction::URem: os << "  " << n << " = " << maskTo(T, "(" + op(0) + " % " + op(1) + ")") << ";\n"; break;
         case Instruction::SDiv: os << "  " << n << " = " << maskTo(T, "(" + S(T, op(0)) + " / " + S(T, op(1)) + ")") << ";\n"; break;
         case Instruction::SRem: os << "  " << n << " = " << maskTo(T, "(" + S(T, op(0)) + " % " + S(T, op(1)) + ")") << ";\n"; break;
         case Instruction::And: os << "  " << n << " = " << maskTo(T, "(" + op(0) + " & " + op(1) + ")") << ";\n"; break;
         case Instruction::Or: os << "  " << n << " = " << maskTo(T, "(" + op(0) + " | " + op(1) + ")") << ";\n"; break;
         case Instruction::Xor: os << "  " << n << " = " << maskTo(T, "(" + op(0) + " ^ " + op(1) + ")") << ";\n"; break;
         case Instruction::Shl: os << "  " << n << " = " << maskTo(T, "((" + cty(T) + ")" + op(0) + " << " + op(1) + ")") << ";\n"; break;
         case Instruction::LShr: os << "  " << n << " = " << maskTo(T, "((" + cty(T) + ")" + op(0) + " >> " + op(1) + ")") << ";\n"; break;
         case Instruction::AShr: os << "  " << n << " = " << maskTo(T, "(" + S(T, op(0)) + " >> " + op(1) + ")") << ";\n"; break;
         case Instruction::FAdd: os << "  " << n << " = " << op(0) << " + " << op(1) << ";\n"; break;
         case Instruction::FSub: os << "  " << n << " = " << op(0) << " - " << op(1) << ";\n"; break;
         case Instruction::FMul: os << "  " << n << " = " << op(0) << " * " << op(1) << ";\n"; break;
         case Instruction::FDiv: os << "  " << n << " = " << op(0) << " / " << op(1) << ";\n"; break;
         case Instruction::FNeg: os << "  " << n << " = -" << op(0) << ";\n"; break;
         case Instruction::ICmp:
         {
            auto* CI = cast<ICmpInst>(&I);
            Type* OT = I.getOperand(0)->getType();
            string a = op(0), b = op(1);
            const char* o = nullptr; bool sg = false;
            switch(CI->getPredicate())
            {
            case CmpInst::ICMP_EQ: o = "=="; break; case CmpInst::ICMP_NE: o = "!="; break;
            case CmpInst::ICMP_UGT: o = ">"; break; case CmpInst::ICMP_UGE: o = ">="; break;
            case CmpInst::ICMP_ULT: o = "<"; break; case CmpInst::ICMP_ULE: o = "<="; break;
            case CmpInst::ICMP_SGT: o = ">"; sg = true; break; case CmpInst::ICMP_SGE: o = ">="; sg = true; break;
            case CmpInst::ICMP_SLT: o = "<"; sg = true; break; case CmpInst::ICMP_SLE: o = "<="; sg = true; break;
            default: o = "??";
            }
            if(OT->isPointerTy()) { a = "(u8*)" + a; b = "(u8*)" + b; }
            else if(sg) { a = (OT->getIntegerBitWidth() == 1) ? a : S(OT, a); b = (OT->getIntegerBitWidth() == 1) ? b : S(OT, b); }
            os << "  " << n << " = (" << a << " " << o << " " << b << ");\n";
            break;
         }
         case Instruction::FCmp:
            os << "  " << n << " = " << fcmpExpr(cast<FCmpInst>(&I)->getPredicate(), op(0), op(1)) << ";\n"; break;
         case Instruction::Select: os << "  " << n << " = " << op(0) << " ? " << op(1) << " : " << op(2) << ";\n"; break;
         case Instruction::Freeze: os << "  " << n << " = " << op(0) << ";\n"; break;
         case Instruction::ExtractValue:
         {
            auto* EV = cast<ExtractValueInst>(&I);
            string e = op(0); Type* cur = I.getOperand(0)->getType();
            for(unsigned ix : EV->indices())
            {
               if(auto* ST = dyn_cast<StructType>(cur)) { e += ".f" + std::to_string(ix); cur = ST->getElementType(ix); }
               else { e += "[" + std::to_string(ix) + "]"; cur = cast<ArrayType>(cur)->getElementType(); }
            }
            os << "  " << n << " = " << e << ";\n"; break;
         }
         case Instruction::InsertValue:
         {
            auto* IV = cast<InsertValueInst>(&I);
            os << "  " << n << " = " << op(0) << ";\n";
            string e = n; Type* cur = T;
            for(unsigned ix : IV->indices())
            {
               if(auto* ST = dyn_cast<StructType>(cur)) { e += ".f" + std::to_string(ix); cur = ST->getElementType(ix); }
               else { e += "[" + std::to_string(ix) + "]"; cur = cast<ArrayType>(cur)->getElementType(); }
            }
            os << "  " << e << " = " << op(1) << ";\n"; break;
         }
         case Instruction::Call:
         {
            auto& CB = cast<CallBase>(I);
            emitCall(CB, C, F);
            if(!(CB.getCalledFunction() && CB.getCalledFunction()->isIntrinsic()))
               os << "  if(vp_exc_pending) " << retZero(F) << "\n";
            break;
         }
         case Instruction::Invoke:
         {
            auto& II = cast<InvokeInst>(I);
            emitCall(II, C, F);
            os << "  if(vp_exc_pending) { "; emitPhiCopies(&B, II.getUnwindDest(), C, os); os << "goto " << bbName[II.getUnwindDest()] << "; }\n";
            os << "  { "; emitPhiCopies(&B, II.getNormalDest(), C, os); os << "goto " << bbName[II.getNormalDest()] << "; }\n";
            break;
         }
         case Instruction::LandingPad:
         {
            auto& LP = cast<LandingPadInst>(I);
            os << "  " << n << ".f0 = (u8*)vp_exc_obj; vp_exc_pending = 0;\n";
            os << "  " << n << ".f1 = 0;\n";
            // clauses in order
            os << "  {";
            for(unsigned k = 0; k < LP.getNumClauses(); k++)
            {
               if(LP.isCatch(k))
               {
                  int id = tinfoId(LP.getClause(k));
                  os << " if(" << n << ".f1 == 0 && vp_exc_matches(" << id << ")) " << n << ".f1 = " << id << ";";
                  if(id == 0) os << " if(" << n << ".f1 == 0) " << n << ".f1 = 0x7fffffff;"; // catch-all: matched through typeid.for(null)=0? handled below
               }
            }
            os << " }\n";
            break;
         }
         case Instruction::Resume:
            os << "  vp_exc_obj = " << op(0) << ".f0; vp_exc_pending = 1; " << retZero(F) << "\n"; break;
         case Instruction::Br:
         {
            auto& BR = cast<BranchInst>(I);
            if(BR.isUnconditional()) { os << "  { "; emitPhiCopies(&B, BR.getSuccessor(0), C, os); os << "goto " << bbName[BR.getSuccessor(0)] << "; }\n"; }
            else
            {
               os << "  if(" << op(0) << ") { "; emitPhiCopies(&B, BR.getSuccessor(0), C, os); os << "goto " << bbName[BR.getSuccessor(0)] << "; }";
               os << " else { "; emitPhiCopies(&B, BR.getSuccessor(1), C, os); os << "goto " << bbName[BR.getSuccessor(1)] << "; }\n";
            }
            break;
         }
         case Instruction::Switch:
         {
            auto& SW = cast<SwitchInst>(I);
            os << "  switch(" << op(0) << ") {\n";
            for(auto& cs : SW.cases())
            {
               os << "   case " << cs.getCaseValue()->getZExtValue() << "ULL: { "; emitPhiCopies(&B, cs.getCaseSuccessor(), C, os);
               os << "goto " << bbName[cs.getCaseSuccessor()] << "; }\n";
            }
            os << "   default: { "; emitPhiCopies(&B, SW.getDefaultDest(), C, os); os << "goto " << bbName[SW.getDefaultDest()] << "; }\n  }\n";
            break;
         }
         case Instruction::Ret:
            if(I.getNumOperands()) os << "  return " << op(0) << ";\n"; else os << "  return;\n";
            break;
         case Instruction::Unreachable: os << "  vp_unreachable(); " << retZero(F) << "\n"; break;
         case Instruction::AtomicRMW:
         {
            auto& RMW = cast<AtomicRMWInst>(I);
            string p = "*" + castTo(PointerType::getUnqual(T), op(0));
            os << "  " << n << " = " << p << ";\n";
            const char* o = RMW.getOperation() == AtomicRMWInst::Add ? "+" : RMW.getOperation() == AtomicRMWInst::Sub ? "-" : nullptr;
            if(o) os << "  " << p << " = " << maskTo(T, "(" + n + " " + o + " " + op(1) + ")") << ";\n";
            else if(RMW.getOperation() == AtomicRMWInst::Xchg) os << "  " << p << " = " << op(1) << ";\n";
            else os << "  ATOMICRMW_UNSUPPORTED;\n";
            break;
         }
         case Instruction::Fence: break;
         default:
            errs() << "unsupported instruction in " << F.getName() << ": "; I.print(errs()); errs() << "\n";
            os << "  UNSUPPORTED_INSTRUCTION;\n";
         }
      }
   }
   out << fnSig(F, gName[&F], true) << "\n{\n" << C.decls.str() << C.body.str() << "}\n\n";
}

static std::vector<string> cutPats, keepPats, entryNames;
static std::vector<std::pair<string, string>> replPats;
static std::map<const Function*, string> demCache;
static const string& dem(const Function& F)
{
   auto it = demCache.find(&F);
   if(it != demCache.end()) return it->second;
   return demCache[&F] = llvm::demangle(F.getName().str());
}
static bool isHarnessName(StringRef n) { return n.startswith("h_") || n.startswith("m_") || n.startswith("vpx_"); }
std::vector<string> cutIndirectPats;   // functions in which indirect (virtual) calls become nondet stubs
static std::set<string> ownNames;   // functions defined by the harness TU itself (never cut by "*")
static bool isCut(const Function& F)
{
   if(isHarnessName(F.getName())) return false;
   const string& n = dem(F);
   for(auto& k : keepPats) if(n.find(k) != string::npos) return false;
   for(auto& c : cutPats) if(c != "*" && n.find(c) != string::npos) return true;
   if(ownNames.count(F.getName().str())) return false;
   for(auto& c : cutPats) if(c == "*") return true;
   return false;
}
static void collectFns(const Value* V, std::set<const Function*>& out, std::set<const Value*>& seen)
{
   if(!seen.insert(V).second) return;
   if(auto* F = dyn_cast<Function>(V)) { out.insert(F); return; }
   if(auto* G = dyn_cast<GlobalVariable>(V)) { if(G->hasInitializer()) collectFns(G->getInitializer(), out, seen); return; }
   if(auto* K = dyn_cast<Constant>(V)) for(auto& O : K->operands()) collectFns(O.get(), out, seen);
}
#include <fstream>
static string jsonEsc(const string& s) { string r; for(char c : s) { if(c == '"' || c == '\\') { r += '\\'; r += c; } else if((unsigned char)c < 32) r += ' '; else r += c; } return r; }
int main(int argc, char** argv)
{
   if(argc < 2) { errs() << "usage: ll2c in.ll [cfg] [meta.json]\n"; return 2; }
   if(argc > 2)
   {
      std::ifstream in(argv[2]); string l;
      while(std::getline(in, l))
      {
         std::istringstream ls(l); string kw; ls >> kw;
         if(kw.empty() || kw[0] == '#') continue;
         string rest; std::getline(ls, rest);
         size_t b = rest.find_first_not_of(" \t"); rest = b == string::npos ? "" : rest.substr(b);
         while(!rest.empty() && (rest.back() == ' ' || rest.back() == '\r')) rest.pop_back();
         if(kw == "cut") cutPats.push_back(rest);
         else if(kw == "keep") keepPats.push_back(rest);
         else if(kw == "entry") entryNames.push_back(rest);
         else if(kw == "own") ownNames.insert(rest);
         else if(kw == "cutindirect") cutIndirectPats.push_back(rest);
         else if(kw == "replace")
         {
            size_t p = rest.rfind(" => ");
            if(p == string::npos) { errs() << "bad replace line: " << l << "\n"; return 2; }
            replPats.push_back({rest.substr(0, p), rest.substr(p + 4)});
         }
         else { errs() << "bad cfg line: " << l << "\n"; return 2; }
      }
   }
   LLVMContext ctx; SMDiagnostic err;
   auto M = parseIRFile(argv[1], err, ctx);
   if(!M) { err.print("ll2c", errs()); return 1; }
   DL = &M->getDataLayout();

   // REPLACE: redirect every use of a matching function to the model
   std::vector<string> replLog;
   std::vector<int> replHits(replPats.size(), 0);
   {
      std::vector<Function*> fns; for(Function& F : *M) fns.push_back(&F);
      for(Function* F : fns)
      {
         if(F->isIntrinsic() || isHarnessName(F->getName())) continue;
         const string& n = dem(*F);
         for(size_t r = 0; r < replPats.size(); r++)
         {
            auto& rp = replPats[r];
            bool exact = !rp.first.empty() && rp.first[0] == '=';
            bool hit = exact ? (n == rp.first.substr(1)) : (n.find(rp.first) != string::npos);
            if(!hit) continue;
            Function* Mo = M->getFunction(rp.second);
            if(!Mo) { errs() << "ll2c: replace model not found: " << rp.second << "\n"; return 2; }
            if(Mo->getFunctionType() != F->getFunctionType())
            {
               errs() << "ll2c: replace type mismatch for " << n << " vs model " << rp.second << "\n  real:  "; F->getFunctionType()->print(errs());
               errs() << "\n  model: "; Mo->getFunctionType()->print(errs()); errs() << "\n"; return 2;
            }
            F->replaceAllUsesWith(Mo);
            replLog.push_back(n + " => " + rp.second);
            replHits[r]++;
            break;
         }
      }
      for(size_t r = 0; r < replPats.size(); r++)
         if(replHits[r] == 0) { errs() << "ll2c: replace pattern matched nothing: " << replPats[r].first << "\n"; return 2; }
   }

   // entries
   std::vector<const Function*> entries;
   for(Function& F : *M)
   {
      if(F.isDeclaration()) continue;
      bool e = entryNames.empty() ? F.getName().startswith("h_") : (std::find(entryNames.begin(), entryNames.end(), F.getName().str()) != entryNames.end());
      if(e) entries.push_back(&F);
   }

   // names
   for(Function& F : *M)
   {
      if(F.isIntrinsic()) continue;
      string nm = F.getName().str();
      if(F.isDeclaration() && nm.rfind("_ZSt", 0) == 0 && nm.find("__throw_") != string::npos && !knownExternal.count(nm))
         knownExternal[nm] = F.arg_size() == 0 ? "vp_throw_std0" : "vp_throw_std";   // libstdc++ throw helpers: an exception of unknown std type
      auto it = knownExternal.find(nm);
      if(F.isDeclaration() && it != knownExternal.end()) gName[&F] = it->second;
      else if(isHarnessName(nm)) { gName[&F] = nm; usedNames.insert(nm); }
      else gName[&F] = uniq("f_" + sanitize(nm).substr(0, 100));
   }
   for(GlobalVariable& G : M->globals()) gName[&G] = uniq("g_" + sanitize(G.getName()).substr(0, 100));

   std::string bodyStr; raw_string_ostream body(bodyStr);
   std::string protoStr; raw_string_ostream proto(protoStr);
   for(Function& F : *M)
   {
      if(F.isIntrinsic()) continue;
      if(F.isDeclaration() && knownExternal.count(F.getName().str())) continue;
      proto << fnSig(F, gName[&F], false) << ";\n";
   }
   std::string globStr; raw_string_ostream glob(globStr);
   for(GlobalVariable& G : M->globals())
   {
      if(G.getName().startswith("llvm.")) continue;
      Type* VT = G.getValueType();
      glob << "extern " << declare(VT, gName[&G]) << ";\n";
   }
   bool undefGlobal = false;
   for(GlobalVariable& G : M->globals())
   {
      if(G.getName().startswith("llvm.")) continue;
      Type* VT = G.getValueType();
      std::function<bool(const Value*, std::set<const Value*>&)> usedByEmitted = [&](const Value* V, std::set<const Value*>& seen) -> bool
      {
         if(!seen.insert(V).second) return false;
         for(const User* U : V->users())
         {
            if(auto* I = dyn_cast<Instruction>(U)) { if(!isCut(*I->getFunction())) return true; }
            else if(usedByEmitted(U, seen)) return true;
         }
         return false;
      };
      std::set<const Value*> seenU;
      if(!G.hasInitializer() && usedByEmitted(&G, seenU))
      {
         // a referenced global that no linked translation unit defines: only the C++ runtime's own objects are
         // tolerated (as zero objects); anything else would silently read as 0 in the encoding
         StringRef n = G.getName();
         string dn = llvm::demangle(n.str());
         bool ok = n.startswith("_ZSt") || n.startswith("_ZNSt") || n == "__dso_handle" || n == "__libc_single_threaded" || n == "stdout" || n == "stderr" || n == "stdin"
                   || ((n.startswith("_ZTV") || n.startswith("_ZTI") || n.startswith("_ZTT") || n.startswith("_ZTS")) && dn.find("soplex") == string::npos && dn.find("vph") == string::npos);
         if(!ok) { errs() << "ll2c: undefined external global (link its defining source via repo_srcs): " << llvm::demangle(n.str()) << "\n"; undefGlobal = true; }
      }
      glob << declare(VT, gName[&G]);
      if(G.hasInitializer()) glob << " = " << constInit(G.getInitializer(), nullptr);
      glob << ";\n";
   }
   if(undefGlobal) return 2;
   std::vector<std::pair<uint64_t, const Function*>> ctors;
   if(auto* GC = M->getGlobalVariable("llvm.global_ctors"))
      if(auto* CA = dyn_cast<ConstantArray>(GC->getInitializer()))
         for(auto& E : CA->operands())
         {
            auto* CS = cast<ConstantStruct>(E);
            uint64_t prio = cast<ConstantInt>(CS->getOperand(0))->getZExtValue();
            if(auto* Fn = dyn_cast<Function>(CS->getOperand(1)->stripPointerCasts())) ctors.push_back({prio, Fn});
         }
   std::stable_sort(ctors.begin(), ctors.end(), [](auto& a, auto& b) { return a.first < b.first; });

   std::set<const Function*> stubbed, cutSet;
   std::vector<string> cutLog, stubLog;
   for(Function& F : *M)
   {
      if(F.isIntrinsic()) continue;
      bool usesVa = false;
      if(!F.isDeclaration()) for(auto& B : F) for(auto& I : B) if(auto* CB = dyn_cast<CallBase>(&I)) if(CB->getCalledFunction() && CB->getCalledFunction()->getName().startswith("llvm.va_")) usesVa = true;
      bool cut = !F.isDeclaration() && isCut(F);
      if(F.isDeclaration() || usesVa || cut)
      {
         if(F.isDeclaration() && knownExternal.count(F.getName().str())) continue;
         if(F.use_empty() && F.isDeclaration()) continue;
         if(cut || usesVa) { cutSet.insert(&F); cutLog.push_back(dem(F)); } else { stubbed.insert(&F); stubLog.push_back(dem(F)); }
         FunctionType* FT = F.getFunctionType();
         body << "/* stub */ " << fnSig(F, gName[&F], true) << "\n{\n";
         Type* RT = FT->getReturnType();
         if(!RT->isVoidTy())
         {
            bool done = false;
            if(RT->isPointerTy())
               for(unsigned i = 0; i < FT->getNumParams(); i++)
                  if(FT->getParamType(i) == RT) { body << "  return a" << i << ";\n"; done = true; break; }
            if(!done) body << "  " << cty(RT) << " r_; return r_; /* nondet */\n";
         }
         body << "}\n\n";
         continue;
      }
      emitFunction(F, body);
   }
   body << "void vp_global_ctors(void)\n{\n";
   for(auto& c : ctors) body << "  " << gName[c.second] << "();\n";
   body << "}\n\n";
   for(const Function* E : entries)
      body << "void vp_entry_" << E->getName().str() << "(void) { vp_global_ctors(); " << gName[E] << "(); VP_ASSERT(!vp_exc_pending, \"VPABORT uncaught exception\"); }\n";
   body << "int vp_exc_matches(int id)\n{\n  if(id == 0) return 1;\n";
   body << "  const void* t = vp_exc_tinfo;\n  for(int d_ = 0; d_ < 8 && t; d_++) {\n";
   for(auto& kv : typeinfoId) body << "    if(t == (const void*)&" << gName[kv.first] << " && id == " << kv.second << ") return 1;\n";
   body << "    t = vp_tinfo_base(t);\n  }\n  return 0;\n}\n";
   body << "const void* vp_tinfo_base(const void* t)\n{\n";
   for(GlobalVariable& G : M->globals())
   {
      if(!G.getName().startswith("_ZTI") || !G.hasInitializer()) continue;
      auto* CS = dyn_cast<ConstantStruct>(G.getInitializer());
      if(CS && CS->getNumOperands() == 3)
      {
         const Value* base = CS->getOperand(2)->stripPointerCasts();
         if(auto* BG = dyn_cast<GlobalVariable>(base))
            body << "  if(t == (const void*)&" << gName[&G] << ") return (const void*)&" << gName[BG] << ";\n";
      }
   }
   body << "  return 0;\n}\n";
   body.flush(); glob.flush(); proto.flush();

   for(;;)
   {
      std::vector<Type*> todo;
      for(auto& kv : tyName) if(!tyDone.count(kv.first)) todo.push_back(kv.first);
      if(todo.empty()) break;
      for(Type* T : todo) defineAgg(T);
   }
   outs() << "#include \"vp_prelude.h\"\n";
   for(auto& s : fwdDecls) outs() << s;
   for(auto& s : tyDefs) outs() << s;
   outs() << "/* prototypes */\n" << protoStr << "/* globals */\n" << globStr << "/* functions */\n" << bodyStr;

   // meta: per-entry reachable function lists
   if(argc > 3)
   {
      std::ofstream mo(argv[3]);
      mo << "{\n \"entries\": {\n";
      bool firstE = true;
      for(const Function* E : entries)
      {
         std::set<const Function*> reach; std::vector<const Function*> work{E};
         for(auto& c : ctors) work.push_back(c.second);
         while(!work.empty())
         {
            const Function* F = work.back(); work.pop_back();
            if(!reach.insert(F).second) continue;
            if(F->isDeclaration() || cutSet.count(F)) continue;
            std::set<const Function*> fs; std::set<const Value*> seen;
            for(auto& B : *F) for(auto& I : B) for(auto& O : I.operands())
               if(isa<Constant>(O.get())) collectFns(O.get(), fs, seen);
            for(auto* G : fs) work.push_back(G);
         }
         if(!firstE) mo << ",\n"; firstE = false;
         mo << "  \"" << E->getName().str() << "\": {\"encoded\": [";
         bool f1 = true;
         for(auto* F : reach) if(!F->isDeclaration() && !cutSet.count(F) && !F->isIntrinsic()) { mo << (f1 ? "" : ", ") << "\"" << jsonEsc(dem(*F)) << "\""; f1 = false; }
         mo << "], \"cut\": [";
         f1 = true;
         for(auto* F : reach) if(cutSet.count(F)) { mo << (f1 ? "" : ", ") << "\"" << jsonEsc(dem(*F)) << "\""; f1 = false; }
         mo << "], \"external_stubs\": [";
         f1 = true;
         for(auto* F : reach) if(stubbed.count(F)) { mo << (f1 ? "" : ", ") << "\"" << jsonEsc(dem(*F)) << "\""; f1 = false; }
         mo << "], \"external_models\": [";
         f1 = true;
         for(auto* F : reach) if(F->isDeclaration() && knownExternal.count(F->getName().str()) && !F->getName().startswith("vp_")) { mo << (f1 ? "" : ", ") << "\"" << jsonEsc(F->getName().str()) << "\""; f1 = false; }
         mo << "]}";
      }
      mo << "\n },\n \"replaced\": [";
      for(size_t i = 0; i < replLog.size(); i++) mo << (i ? ", " : "") << "\"" << jsonEsc(replLog[i]) << "\"";
      mo << "]\n}\n";
   }
   return 0;
}
