#!/bin/sh
# builds the IR->C translator against the installed LLVM-14 (offline)
set -e
cd "$(dirname "$0")"
g++ -O1 -o ll2c ll2c.cpp $(llvm-config-14 --cxxflags | sed 's/-std=c++14/-std=c++17/;s/-fno-exceptions//') -L/usr/lib/llvm-14/lib -lLLVM-14
echo "ll2c built"
