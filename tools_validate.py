#!/usr/bin/env python3
# validates MANIFEST.json and evidence/*.json against the given schemas (run with python3-vt, which has jsonschema)
import json, sys, glob, jsonschema
ok = True
try:
    jsonschema.validate(json.load(open('/verif/MANIFEST.json')), json.load(open('/root/.vp/MANIFEST.schema.json'))); print("MANIFEST ok")
except Exception as e:
    ok = False; print("MANIFEST:", str(e)[:300])
es = json.load(open('/root/.vp/EVIDENCE.schema.json'))
for f in sorted(glob.glob('/verif/evidence/*.json')):
    try: jsonschema.validate(json.load(open(f)), es); print(f, "ok")
    except Exception as e: ok = False; print(f, "INVALID", str(e)[:300])
sys.exit(0 if ok else 1)
