// C08 (and C02: verdicts): the REDUCTION routines of SPxMainSM<double> themselves (the postsolve steps are in c08_poststeps_*).
//
// Method (kernel style): a real SPxMainSM<double> is constructed and put into the state simplify() establishes before the main
// presolving loop (tolerances, m_thesense, m_rIdx/m_cIdx identity, m_stat 17 zeros, empty m_hist, counters 0); a small real LP with
// symbolic small-integer data is built with harness/lp_build.h; the real routine runs; the resulting LP is compared with a
// reference derived from the mathematics of the reduction (not from the code).
#include "lp_build.h"
using namespace soplex; using namespace vph;
typedef SPxMainSM<double> SM;
typedef SPxSimplifier<double> SI;
#ifndef PNR
#define PNR 2
#endif
#ifndef PNC
#define PNC 2
#endif
#ifndef KV
#define KV 4
#endif
static inline double INF() { return (double)infinity; }
static inline bool is_pm12(double v) { return v == 1.0 || v == -1.0 || v == 2.0 || v == -2.0; }
#ifdef SENSE_MIN
#define IS_MIN true
#else
#define IS_MIN false      // SPxLPBase default sense is MAXIMIZE
#endif
// state of the simplifier at the start of the main loop of simplify() for an nr x nc LP
static void sm_setup(SM& sm, LP& lp, int nr, int nc)
{
   sm.setTolerances(std::make_shared<Tolerances>());
   sm.m_thesense = lp.spxSense();
   sm.m_objoffset = 0.0; sm.m_cutoffbound = -INF(); sm.m_pseudoobj = -INF();
   sm.m_remRows = 0; sm.m_remCols = 0; sm.m_remNzos = 0; sm.m_chgBnds = 0; sm.m_chgLRhs = 0; sm.m_keptBnds = 0; sm.m_keptLRhs = 0;
   sm.m_result = SI::OKAY; sm.m_hist.reSize(0); sm.m_postsolved = false;
   sm.m_stat.reSize(17); for(int k = 0; k < 17; ++k) sm.m_stat[k] = 0;
   sm.m_addedcols = 0; sm.m_keepbounds = false;
   sm.m_prim.reDim(nc); sm.m_slack.reDim(nr); sm.m_dual.reDim(nr); sm.m_redCost.reDim(nc);
   sm.m_cBasisStat.reSize(nc); sm.m_rBasisStat.reSize(nr); sm.m_cIdx.reSize(nc); sm.m_rIdx.reSize(nr);
   for(int i = 0; i < nr; ++i) sm.m_rIdx[i] = i;
   for(int j = 0; j < nc; ++j) sm.m_cIdx[j] = j;
}
// ---------------------------------------------------------------------------------------------------------------------
// removeRowSingleton: row I = { a x_J } with lhs <= a x_J <= rhs is equivalent to x_J in [lhs/a, rhs/a] (a > 0) resp.
// [rhs/a, lhs/a] (a < 0), an infinite side giving an infinite bound. The reduced LP must have the bounds of x_J equal to the
// intersection of the old bounds with that interval and must not contain row I any more; nothing else may change.
#ifndef RS_I
#define RS_I 0
#endif
#ifndef RS_J
#define RS_J (PNC - 1)
#endif
extern "C" void h_c08_removeRowSingleton()
{
   const int I = RS_I, J = RS_J, L = PNR - 1;
   unsigned mask = 0; for(int i = 0; i < PNR; ++i) for(int j = 0; j < PNC; ++j) if(i != I || j == J) mask |= 1u << (i * PNC + j);
   LP lp; if(IS_MIN) lp.changeSense(SPxLPBase<double>::MINIMIZE);
   Dense<PNR, PNC> d; build<PNR, PNC>(lp, d, mask, KV);
   double a = d.a[I][J]; vp_assume(is_pm12(a));
   SM sm; sm_setup(sm, lp, PNR, PNC);
   // reference: implied interval (divisions by +-1, +-2 are exact)
   double ilo, iup;
   if(a > 0.0) { ilo = d.lhs[I] <= -INF() ? -INF() : d.lhs[I] / a; iup = d.rhs[I] >= INF() ? INF() : d.rhs[I] / a; }
   else        { ilo = d.rhs[I] >= INF() ? -INF() : d.rhs[I] / a; iup = d.lhs[I] <= -INF() ? INF() : d.lhs[I] / a; }
   double nlo = ilo > d.lo[J] ? ilo : d.lo[J];
   double nup = iup < d.up[J] ? iup : d.up[J];
   int i = I;
   SI::Result res = sm.removeRowSingleton(lp, lp.rowVector(I), i);
   vp_assert(res == SI::OKAY || res == SI::INFEASIBLE, 1);                       // no other verdict
   if(res == SI::INFEASIBLE)
   {
      vp_assert(nlo > nup, 2);                                                   // verdict true of the LP: the intersection is empty
   }
   else
   {
      vp_assert(lp.nRows() == PNR - 1 && lp.nCols() == PNC, 3);                  // the row is gone
      vp_assert(lp.lower(J) == nlo, 4);                                          // bounds == intersection: nothing the row implies
      vp_assert(lp.upper(J) == nup, 5);                                          // is dropped, nothing is tightened beyond it
      for(int j = 0; j < PNC; ++j) if(j != J) vp_assert(lp.lower(j) == d.lo[j] && lp.upper(j) == d.up[j], 6);
      for(int j = 0; j < PNC; ++j) vp_assert(lp.maxObj(j) == (IS_MIN ? -d.obj[j] : d.obj[j]), 7);
      // the remaining rows: row r of the old LP sits at position (r == L && I != L ? I : r)
      for(int r = 0; r < PNR; ++r) if(r != I)
      {
         int n = (r == L) ? I : r;
         vp_assert(lp.lhs(n) == d.lhs[r] && lp.rhs(n) == d.rhs[r], 8);
         vp_assert(lp.rowVector(n).size() == PNC, 9);
         for(int j = 0; j < PNC; ++j) { vp_assert(rowcoef(lp, n, j) == d.a[r][j], 10); vp_assert(colcoef(lp, n, j) == d.a[r][j], 11); }
         vp_assert(sm.m_rIdx[n] == r, 12);                                       // index map for unsimplify
      }
      for(int j = 0; j < PNC; ++j) vp_assert(lp.colVector(j).size() == PNR - 1, 13);   // column copy lost exactly the entry of row I
      vp_assert(sm.m_hist.size() == 1, 14);                                      // one postsolve step recorded
      vp_assert(sm.m_remRows == 1 && sm.m_remNzos == 1, 15);
      if(a < 0.0 && d.lhs[I] > -INF() && d.rhs[I] >= INF() && nup < d.up[J]) vp_cover(2);     // a<0: upper bound from lhs alone
      if(a < 0.0 && d.rhs[I] < INF() && d.lhs[I] <= -INF() && nlo > d.lo[J]) vp_cover(3);     // a<0: lower bound from rhs alone
      if(a > 0.0 && d.lhs[I] > -INF() && d.rhs[I] >= INF() && nlo > d.lo[J]) vp_cover(4);
      if(a > 0.0 && d.rhs[I] < INF() && d.lhs[I] <= -INF() && nup < d.up[J]) vp_cover(5);
      if(nlo > nup) vp_cover(6);                                                 // empty intersection left to the later column pass
      if(nlo == d.lo[J] && nup == d.up[J]) vp_cover(7);                          // redundant row
   }
   vp_cover(1);
}
#ifdef VP_EXPERIMENT
extern "C" void h_x1()
{
   const int I = RS_I, J = RS_J;
   unsigned mask = 0; for(int i = 0; i < PNR; ++i) for(int j = 0; j < PNC; ++j) if(i != I || j == J) mask |= 1u << (i * PNC + j);
   LP lp; Dense<PNR, PNC> d; build<PNR, PNC>(lp, d, mask, KV);
   SM sm; sm_setup(sm, lp, PNR, PNC);
   vp_assert(sm.m_rIdx[1] == 1, 1);
   vp_cover(1);
}
extern "C" void h_x2()
{
   const int I = RS_I, J = RS_J;
   unsigned mask = 0; for(int i = 0; i < PNR; ++i) for(int j = 0; j < PNC; ++j) if(i != I || j == J) mask |= 1u << (i * PNC + j);
   LP lp; Dense<PNR, PNC> d; build<PNR, PNC>(lp, d, mask, KV);
   SM sm; sm_setup(sm, lp, PNR, PNC);
   std::shared_ptr<SM::PostStep> ptr(new SM::RowSingletonPS(lp, I, J, false, false, lp.lower(J), lp.upper(J), lp.lower(J), lp.upper(J), sm._tolerances));
   sm.m_hist.append(ptr);
   vp_assert(sm.m_hist.size() == 1, 1);
   vp_cover(1);
}
extern "C" void h_x3()
{
   const int I = RS_I, J = RS_J;
   unsigned mask = 0; for(int i = 0; i < PNR; ++i) for(int j = 0; j < PNC; ++j) if(i != I || j == J) mask |= 1u << (i * PNC + j);
   LP lp; Dense<PNR, PNC> d; build<PNR, PNC>(lp, d, mask, KV);
   lp.changeUpper(J, 3.0);
   lp.removeRow(I);
   vp_assert(lp.nRows() == 1, 1);
   vp_cover(1);
}
#endif
