// C08 (and C02: verdicts): the REDUCTION routines of SPxMainSM<double> themselves (the postsolve steps are in c08_poststeps_*).
//
// Method (kernel style): a real SPxMainSM<double> is constructed and put into the state simplify() establishes before the main
// presolving loop (tolerances, m_thesense, m_rIdx/m_cIdx identity, m_stat 17 zeros, empty m_hist, counters 0); a small real LP with
// symbolic small-integer data is built with harness/lp_build.h; the real routine runs; the resulting LP is compared with a
// reference derived from the mathematics of the reduction (not from the code).
#include "lp_build.h"
using namespace soplex; using namespace vph;
typedef SPxMainSM<double> SM;
typedef SPxSimplifier<double> SI;
#ifndef PNR
#define PNR 2
#endif
#ifndef PNC
#define PNC 2
#endif
#ifndef KV
#define KV 4
#endif
static inline double INF() { return (double)infinity; }
static inline bool is_pm12(double v) { return v == 1.0 || v == -1.0 || v == 2.0 || v == -2.0; }
#ifdef SENSE_MIN
#define IS_MIN true
#else
#define IS_MIN false      // SPxLPBase default sense is MAXIMIZE
#endif
// state of the simplifier at the start of the main loop of simplify() for an nr x nc LP
static void sm_setup(SM& sm, LP& lp, int nr, int nc)
{
   sm.setTolerances(std::make_shared<Tolerances>());
   sm.m_thesense = lp.spxSense();
   sm.m_objoffset = 0.0; sm.m_cutoffbound = -INF(); sm.m_pseudoobj = -INF();
   sm.m_remRows = 0; sm.m_remCols = 0; sm.m_remNzos = 0; sm.m_chgBnds = 0; sm.m_chgLRhs = 0; sm.m_keptBnds = 0; sm.m_keptLRhs = 0;
   sm.m_result = SI::OKAY; sm.m_hist.reSize(0); sm.m_postsolved = false;
   sm.m_stat.reSize(17); for(int k = 0; k < 17; ++k) sm.m_stat[k] = 0;
   sm.m_addedcols = 0; sm.m_keepbounds = false;
   sm.m_prim.reDim(nc); sm.m_slack.reDim(nr); sm.m_dual.reDim(nr); sm.m_redCost.reDim(nc);
   sm.m_cBasisStat.reSize(nc); sm.m_rBasisStat.reSize(nr); sm.m_cIdx.reSize(nc); sm.m_rIdx.reSize(nr);
   for(int i = 0; i < nr; ++i) sm.m_rIdx[i] = i;
   for(int j = 0; j < nc; ++j) sm.m_cIdx[j] = j;
}
// ---------------------------------------------------------------------------------------------------------------------
// removeRowSingleton: row I = { a x_J } with lhs <= a x_J <= rhs is equivalent to x_J in [lhs/a, rhs/a] (a > 0) resp.
// [rhs/a, lhs/a] (a < 0), an infinite side giving an infinite bound. The reduced LP must have the bounds of x_J equal to the
// intersection of the old bounds with that interval and must not contain row I any more; nothing else may change.
#ifndef RS_I
#define RS_I 0
#endif
#ifndef RS_J
#define RS_J (PNC - 1)
#endif
// one case: the coefficient a is a CONCRETE constant here (the routine's "a == 0" early exit would otherwise be a feasible path for
// the symbolic execution and the history array would have a symbolic size afterwards); the four values are separate calls.
static void rs_case(LP& lp, SM& sm, const Dense<PNR, PNC>& d, const double a)
{
   const int I = RS_I, J = RS_J, L = PNR - 1;
   lp.rowVector_w(I).value(0) = a;                  // row I = { a x_J }
   lp.colVector_w(J).value(I) = a;                  // column J is dense: its entry of row I is at position I
   // reference: implied interval (divisions by +-1, +-2 are exact)
   double ilo, iup;
   if(a > 0.0) { ilo = d.lhs[I] <= -INF() ? -INF() : d.lhs[I] / a; iup = d.rhs[I] >= INF() ? INF() : d.rhs[I] / a; }
   else        { ilo = d.rhs[I] >= INF() ? -INF() : d.rhs[I] / a; iup = d.lhs[I] <= -INF() ? INF() : d.lhs[I] / a; }
   double nlo = ilo > d.lo[J] ? ilo : d.lo[J];
   double nup = iup < d.up[J] ? iup : d.up[J];
   int i = I;
   SI::Result res = sm.removeRowSingleton(lp, lp.rowVector(I), i);
   vp_assert(res == SI::OKAY || res == SI::INFEASIBLE, 1);                       // no other verdict
   if(res == SI::INFEASIBLE)
   {
      vp_assert(nlo > nup, 2);                                                   // verdict true of the LP: the intersection is empty
   }
   else
   {
      vp_assert(lp.nRows() == PNR - 1 && lp.nCols() == PNC, 3);                  // the row is gone
      vp_assert(lp.lower(J) == nlo, 4);                                          // bounds == intersection: nothing the row implies
      vp_assert(lp.upper(J) == nup, 5);                                          // is dropped, nothing is tightened beyond it
      for(int j = 0; j < PNC; ++j) if(j != J) vp_assert(lp.lower(j) == d.lo[j] && lp.upper(j) == d.up[j], 6);
      for(int j = 0; j < PNC; ++j) vp_assert(lp.maxObj(j) == (IS_MIN ? -d.obj[j] : d.obj[j]), 7);
      // the remaining rows: row r of the old LP sits at position (r == L && I != L ? I : r)
      for(int r = 0; r < PNR; ++r) if(r != I)
      {
         int n = (r == L) ? I : r;
         vp_assert(lp.lhs(n) == d.lhs[r] && lp.rhs(n) == d.rhs[r], 8);
         vp_assert(lp.rowVector(n).size() == PNC, 9);
         for(int j = 0; j < PNC; ++j) { vp_assert(rowcoef(lp, n, j) == d.a[r][j], 10); vp_assert(colcoef(lp, n, j) == d.a[r][j], 11); }
         vp_assert(sm.m_rIdx[n] == r, 12);                                       // index map for unsimplify
      }
      for(int j = 0; j < PNC; ++j) vp_assert(lp.colVector(j).size() == PNR - 1, 13);   // column copy lost exactly the entry of row I
      vp_assert(sm.m_hist.size() == 1, 14);                                      // one postsolve step recorded
      vp_assert(sm.m_remRows == 1 && sm.m_remNzos == 1, 15);
      if(a < 0.0 && d.lhs[I] > -INF() && d.rhs[I] >= INF() && nup < d.up[J]) vp_cover(2);     // a<0: upper bound from lhs alone
      if(a < 0.0 && d.rhs[I] < INF() && d.lhs[I] <= -INF() && nlo > d.lo[J]) vp_cover(3);     // a<0: lower bound from rhs alone
      if(a > 0.0 && d.lhs[I] > -INF() && d.rhs[I] >= INF() && nlo > d.lo[J]) vp_cover(4);
      if(a > 0.0 && d.rhs[I] < INF() && d.lhs[I] <= -INF() && nup < d.up[J]) vp_cover(5);
      if(nlo > nup) vp_cover(6);                                                 // empty intersection left to the later column pass
      if(nlo == d.lo[J] && nup == d.up[J]) vp_cover(7);                          // redundant row
   }
}
extern "C" void h_c08_removeRowSingleton()
{
   const int I = RS_I, J = RS_J;
   unsigned mask = 0; for(int i = 0; i < PNR; ++i) for(int j = 0; j < PNC; ++j) if(i != I || j == J) mask |= 1u << (i * PNC + j);
   // LP and simplifier live on the heap and are never destroyed: the four cases below must not be merged into one state in
   // which the history array holds one of four different PostStep objects
   LP* lp = new LP; if(IS_MIN) lp->changeSense(SPxLPBase<double>::MINIMIZE);
   Dense<PNR, PNC> d; build<PNR, PNC>(*lp, d, mask, KV);
   SM* sm = new SM; sm_setup(*sm, *lp, PNR, PNC);
   int ca = vp_int_in(0, 3);
   if(ca == 0) rs_case(*lp, *sm, d, 1.0);
   else if(ca == 1) rs_case(*lp, *sm, d, -1.0);
   else if(ca == 2) rs_case(*lp, *sm, d, 2.0);
   else rs_case(*lp, *sm, d, -2.0);
   vp_cover(1);
}
// ---------------------------------------------------------------------------------------------------------------------
// simplifyDual (dominated / weakly dominated columns). Inside the routine the LP is a MAXIMISATION problem with c = maxObj:
//    max c^T x,  lhs <= Ax <= rhs,  lo <= x <= up;   r = c - A^T y;   optimality: r_j > 0 => x_j = up_j, r_j < 0 => x_j = lo_j,
//    y_i > 0 => (Ax)_i = rhs_i, y_i < 0 => (Ax)_i = lhs_i.
// Oracle: the harness draws an exact primal-dual optimal pair (x, y) FIRST and derives sides and bounds from it (distances 0..2 or
// infinite, distance 0 where complementary slackness demands it), so the LP has a finite optimum witnessed by (x, y). Then
//  (a) the routine must return OKAY (UNBOUNDED / DUAL_INFEASIBLE / INFEASIBLE would be false of this LP);
//  (b) every column it fixes is fixed at one of its two original bounds, and at the bound every optimal solution is at when the
//      witnessed reduced cost is nonzero (complementary slackness with the optimal dual y: r_j > 0 => upper, r_j < 0 => lower);
//  (c) columns it does not fix keep their bounds; sides, objective and matrix are not touched by the decision part.
// What "the routine fixes column j at v" means is observed at the call simplifyDual -> fixColumn(lp, j): v = lp.lower(j) then.
// Solver build: fixColumn/removeCol are replaced by recording models (they only execute the decision; FixVariablePS is O2's
// subject; the loop runs downwards, so the swapped-in last column is never looked at again and the decisions are the same);
// native build: the same record is read from the FixVariablePS entries the real fixColumn appended to the history.
// STATUS: the oracle is validated natively (random instances pass on the unchanged code; mutations of the dual-bound computation are
// rejected), but the solver run does not finish yet (CBMC out of memory at 8 GB after ~17 min, symbolic execution fans out); the
// entry is therefore not listed in c08_reductions.json. Intended spec (separate spec file, because "replace" acts on the whole
// translation unit and removeRowSingleton above needs the real SPxMainSM::removeRow):
//   "ll2c": ["replace SPxMainSM<double>::fixColumn( => m_sd_fixColumn", "replace SPxMainSM<double>::removeCol( => m_sd_removeCol",
//            "replace SPxMainSM<double>::removeRow( => m_sd_removeRow"], variants default / -DSENSE_MIN / -DSD_NC=3, unwind 4.
#ifndef SD_NC
#define SD_NC 2
#endif
#ifndef KD
#define KD 3
#endif
struct FixLog { int n; int j[8]; double v[8]; };
static FixLog g_fix;
extern "C" void m_sd_fixColumn(SM* self, SPxLPBase<double>* lp, int j, bool correctIdx)
{
   if(g_fix.n < 8) { g_fix.j[g_fix.n] = j; g_fix.v[g_fix.n] = lp->lower(j); }
   g_fix.n++;
}
extern "C" void m_sd_removeCol(SM* self, SPxLPBase<double>* lp, int j) { }
extern "C" void m_sd_removeRow(SM* self, SPxLPBase<double>* lp, int i) { vp_assume(0); }      // no free rows in this harness
// message handler as typed raw memory (the real constructor needs std::cout/std::cerr); only its verbosity is ever read
union OutMem { SPxOut o; OutMem() {} ~OutMem() {} };
static OutMem g_out;
static double dist_or_inf(int k, double infv)
{
   int inf = vp_int_in(0, 1);
   double v = vp_small(0, k);
   return inf ? infv : v;
}
extern "C" void h_c08_simplifyDual()
{
   const int NR = 2, NC = SD_NC;
   // columns 0,1 dense; a third column (if any) is a singleton in row 0
   unsigned mask = 0; for(int i = 0; i < NR; ++i) for(int j = 0; j < NC; ++j) if(j < 2 || i == 0) mask |= 1u << (i * NC + j);
   LP* lp = new LP; if(IS_MIN) lp->changeSense(SPxLPBase<double>::MINIMIZE);
   Dense<NR, NC> d; build<NR, NC>(*lp, d, mask, KD);
   if(NC > 2) vp_assume(is_pm12(d.a[0][2]));                      // maxObj/a exact
   // the witnessed optimal pair
   double x[NC], y[NR], s[NR], c[NC], r[NC];
   for(int j = 0; j < NC; ++j) x[j] = vp_small(-KD, KD);
   for(int i = 0; i < NR; ++i) y[i] = vp_small(-2, 2);
   for(int j = 0; j < NC; ++j) c[j] = IS_MIN ? -d.obj[j] : d.obj[j];            // = maxObj
   for(int i = 0; i < NR; ++i) { s[i] = 0.0; for(int j = 0; j < NC; ++j) s[i] += d.a[i][j] * x[j]; }
   for(int j = 0; j < NC; ++j) { r[j] = c[j]; for(int i = 0; i < NR; ++i) r[j] -= d.a[i][j] * y[i]; }
   // bounds and sides derived from the pair (overwrite what build() put there)
   for(int j = 0; j < NC; ++j)
   {
      double dl = dist_or_inf(2, INF());
      double du = dist_or_inf(2, INF());
      if(r[j] > 0.0) du = 0.0;
      if(r[j] < 0.0) dl = 0.0;
      d.lo[j] = dl >= INF() ? -INF() : x[j] - dl;
      d.up[j] = du >= INF() ? INF() : x[j] + du;
      lp->lower_w(j) = d.lo[j]; lp->upper_w(j) = d.up[j];
   }
   for(int i = 0; i < NR; ++i)
   {
      double el = dist_or_inf(2, INF());
      double eu = dist_or_inf(2, INF());
      if(y[i] > 0.0) eu = 0.0;
      if(y[i] < 0.0) el = 0.0;
      vp_assume(el < INF() || eu < INF());                        // no free row
      d.lhs[i] = el >= INF() ? -INF() : s[i] - el;
      d.rhs[i] = eu >= INF() ? INF() : s[i] + eu;
      lp->lhs_w(i) = d.lhs[i]; lp->rhs_w(i) = d.rhs[i];
   }
   SM* sm = new SM; sm_setup(*sm, *lp, NR, NC);
   sm->m_hist.data.reserve(16);                                   // no relocation of the history array
   g_out.o.m_verbosity = SPxOut::ERROR; g_out.o.m_streams = nullptr;
   sm->spxout = &g_out.o;                                         // simplify(): spxout = lp.spxout; messages of level INFO2 are off
   g_fix.n = 0;
   bool again = false;
   SI::Result res = sm->simplifyDual(*lp, again);
   vp_assert(res == SI::OKAY, 1);                                                // (a)
   if(res == SI::OKAY)
   {
#ifdef VP_NATIVE
      for(int k = 0; k < sm->m_hist.size(); ++k)
      {
         SM::FixVariablePS* fv = dynamic_cast<SM::FixVariablePS*>(sm->m_hist[k].get());
         if(fv) { if(g_fix.n < 8) { g_fix.j[g_fix.n] = fv->m_j; g_fix.v[g_fix.n] = fv->m_val; } g_fix.n++; }
      }
#endif
      vp_assert(g_fix.n <= NC, 2);
      bool fixed[NC]; for(int j = 0; j < NC; ++j) fixed[j] = false;
      for(int k = 0; k < NC; ++k) if(k < g_fix.n)
      {
         int j = g_fix.j[k]; double v = g_fix.v[k];
         vp_assert(j >= 0 && j < NC, 3);
         if(j < 0 || j >= NC) continue;
         vp_assert(!fixed[j], 4);                                                // a column is fixed once
         fixed[j] = true;
         vp_assert(v == d.lo[j] || v == d.up[j], 5);                             // (b) at an original bound
         vp_assert(v > -INF() && v < INF(), 6);
         if(r[j] > 0.0) vp_assert(v == d.up[j], 7);                              // (b) every optimal solution has x_j = up_j
         if(r[j] < 0.0) vp_assert(v == d.lo[j], 8);                              // (b) every optimal solution has x_j = lo_j
         if(d.lo[j] < d.up[j] && v == d.up[j]) vp_cover(2);
         if(d.lo[j] < d.up[j] && v == d.lo[j]) vp_cover(3);
      }
#ifndef VP_NATIVE
      // (c) decision part only (solver build: nothing is removed): unfixed columns keep their bounds, fixed ones are collapsed to v
      for(int j = 0; j < NC; ++j) if(!fixed[j]) vp_assert(lp->lower(j) == d.lo[j] && lp->upper(j) == d.up[j], 9);
      for(int i = 0; i < NR; ++i) vp_assert(lp->lhs(i) == d.lhs[i] && lp->rhs(i) == d.rhs[i], 10);
#endif
      if(g_fix.n == 0) vp_cover(4);
      if(g_fix.n == 2) vp_cover(5);
   }
   vp_cover(1);
}
