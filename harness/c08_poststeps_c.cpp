// C08 part c: AggregationPS (P3). Same method and conventions as c08_poststeps_a.cpp.
#define C08_COMMON_ONLY
#include "c08_poststeps_a.cpp"
// ---------------------------------------------------------------------------------------------------------------------
// AggregationPS (simplifyRows step 7, aggregateVars): row i = { a_ij x_j + a_ik x_k = rhs } with neither column fixed.
// x_j = rhs/a_ij - (a_ik/a_ij) x_k is substituted in every other row (sides shifted, coefficient of x_k adapted) and in the
// objective (offset rhs/a_ij * obj_j), the bounds of x_j are transferred to x_k if tighter, the PostStep is constructed
// (it reads row i, column j, obj_j and the bounds of j, all unchanged), then row i and column j are removed.
// Here j = column 0 = first entry of the row; the harness assumes that aggregateVars' choice rule keeps it (flip_jk == false).
extern "C" void h_c08_aggregation()
{
   const int I = 0, J = 0, K = 1;
   LP lp; set_sense(lp); Dense<2, 2> d; build<2, 2>(lp, d, 0xF, KV);
   double aij = d.a[I][J], aik = d.a[I][K]; vp_assume(is_pm12(aij) && is_pm12(aik));
   vp_assume(d.lhs[I] == d.rhs[I]);
   vp_assume(d.lo[J] < d.up[J] && d.lo[K] < d.up[K]);
   DLP p; dlp_from<2, 2>(p, d, IS_MIN);
   double rhs = p.rhs[I], nlj, nuj, nlk, nuk;
   if(aij * aik < 0.0)
   {
      nlj = p.up[K] >= INF() ? -INF() : (rhs - aik * p.up[K]) / aij; nuj = p.lo[K] <= -INF() ? INF() : (rhs - aik * p.lo[K]) / aij;
      nlk = p.up[J] >= INF() ? -INF() : (rhs - aij * p.up[J]) / aik; nuk = p.lo[J] <= -INF() ? INF() : (rhs - aij * p.lo[J]) / aik;
   }
   else
   {
      nlj = p.lo[K] <= -INF() ? -INF() : (rhs - aik * p.lo[K]) / aij; nuj = p.up[K] >= INF() ? INF() : (rhs - aik * p.up[K]) / aij;
      nlk = p.lo[J] <= -INF() ? -INF() : (rhs - aij * p.lo[J]) / aik; nuk = p.up[J] >= INF() ? INF() : (rhs - aij * p.up[J]) / aik;
   }
   // bounds of x_k implied by the bounds of x_j (the formulas aggregateVars uses for the actual tightening; its choice rule above
   // uses the other orientation for a_ij*a_ik < 0)
   double tlk, tuk;
   if(aij * aik > 0.0) { tlk = p.up[J] >= INF() ? -INF() : (rhs - aij * p.up[J]) / aik; tuk = p.lo[J] <= -INF() ? INF() : (rhs - aij * p.lo[J]) / aik; }
   else                { tlk = p.lo[J] <= -INF() ? -INF() : (rhs - aij * p.lo[J]) / aik; tuk = p.up[J] >= INF() ? INF() : (rhs - aij * p.up[J]) / aik; }
   bool jfree = nlj <= -INF() && nuj >= INF(), kfree = nlk <= -INF() && nuk >= INF();
   bool jred = nlj <= p.lo[J] && nuj >= p.up[J], kred = nlk <= p.lo[K] && nuk >= p.up[K];
   bool aj = (aij < 0 ? -aij : aij) > (aik < 0 ? -aik : aik);
   bool flip = jfree ? true : kfree ? false : jred ? (kred ? !aj : false) : kred ? true : !aj;
   vp_assume(!flip);
   double coef = -(aik / aij), cst = rhs / aij;
   DLP q = p;
   // other row
   if(p.lhs[1] > -INF()) q.lhs[1] = p.lhs[1] - cst * p.a[1][J];
   if(p.rhs[1] < INF()) q.rhs[1] = p.rhs[1] - cst * p.a[1][J];
   q.a[1][K] = p.a[1][K] + coef * p.a[1][J];
   q.c[K] = p.c[K] + coef * p.c[J];
   double oldLoK = p.lo[K], oldUpK = p.up[K];
   if(tlk > p.lo[K]) q.lo[K] = tlk;
   if(tuk < p.up[K]) q.up[K] = tuk;
   vp_assume(q.lo[K] <= q.up[K]);
   SM::AggregationPS ps(lp, I, J, rhs, oldUpK, oldLoK, mk_tols());
   dlp_remove_row(q, I); dlp_remove_col(q, J);
   DSol z; draw_reduced(q, z);
   { double val = aik * z.x[0]; double m = val < 0 ? -val : val; double rr = rhs < 0 ? -rhs : rhs; if(rr > m) m = rr; if(m < 1.0) m = 1.0;
     vp_assume(m == 1.0 || m == 2.0 || m == 4.0 || m == 8.0 || m == 16.0); }        // exactness domain of the code's scaled difference
   Work w(2, 2); load_work(w, q, z, 2, 2);
   ps.execute(w.x, w.y, w.s, w.r, w.cS, w.rS, true);
   check_kkt(p, w);
   double x[MC]; for(int j = 0; j < 2; ++j) x[j] = w.x[j];
   vp_assert(dlp_obj(p, x) == dlp_obj(q, z.x) + cst * p.c[J], 10);
   vp_cover(1);
}
