// C02-O2 (= C16-O4): SoPlexBase<double>::_evaluateSolutionReal as a verdict automaton; C02-O3 (getter half): ray / Farkas getters.
// Contract style. The callees of _evaluateSolutionReal are replaced by recording models, written as explicit specialisations of
// the member functions so that the solver build and the native replay build run exactly the same models around the REAL
// _evaluateSolutionReal. `this` is typed zero memory in the solver build and a real SoPlex object in the native build.
#include "soplex_all.h"
using namespace soplex;
typedef SoPlex::Settings ST;
typedef SPxSolverBase<double> Solver;
typedef SPxSimplifier<double> Simp;
typedef SPxBasisBase<double> Basis;

union SoPlexMem { SoPlex sp; SoPlexMem() {} ~SoPlexMem() {} };
static SoPlexMem mem;

// ---- call log ----
enum Kind { K_STORE = 1, K_PRESOL, K_PREPROC, K_RESOLVE, K_LOAD, K_SETBASIS };
struct Call { int kind; int arg; int status; };
#define MAXLOG 8
static Call g_log[MAXLOG];
static int g_n;
static void rec(int kind, int arg, int status) { if(g_n < MAXLOG) { g_log[g_n].kind = kind; g_log[g_n].arg = arg; g_log[g_n].status = status; } ++g_n; }
// ---- scripted environment ----
static int g_solver_status;          // what _solver.status() reports
static double g_shift, g_eps;        // _solver.shift(), _solver.epsilon()
static int g_resolve_status;         // verdict an (inner) re-solve of the original LP arrives at
static bool g_verify_resolves;       // does the verification inside a store trigger a re-solve?
static int g_resolves;               // number of re-solves of any kind

namespace soplex
{
template <> Solver::Status Solver::status() const { return (Solver::Status)g_solver_status; }
template <> double Solver::shift() const { return g_shift; }
template <> double Solver::epsilon() const { return g_eps; }
template <> void Solver::setBasisStatus(Basis::SPxStatus stat) { rec(K_SETBASIS, (int)stat, 0); }
// a re-solve of the original LP: afterwards the original LP is in the solver and the status is whatever that solve found
static void resolve_effect(SoPlex* sp) { ++g_resolves; sp->_status = (Solver::Status)g_resolve_status; sp->_isRealLPLoaded = true; sp->_applyPolishing = false; }
template <> void SoPlex::_storeSolutionReal(bool verify)
{
   rec(K_STORE, verify, (int)_status);
   _hasSolReal = true;
   _isRealLPLoaded = true;
   if(verify && g_verify_resolves) resolve_effect(this);
}
template <> void SoPlex::_storeSolutionRealFromPresol()
{
   rec(K_PRESOL, 0, (int)_status);
   _hasSolReal = true;
   _isRealLPLoaded = true;
   if(g_verify_resolves) resolve_effect(this);
}
template <> void SoPlex::_preprocessAndSolveReal(bool applySimplifier, volatile bool* interrupt) { rec(K_PREPROC, applySimplifier, (int)_status); resolve_effect(this); }
template <> void SoPlex::_resolveWithoutPreprocessing(Simp::Result r) { rec(K_RESOLVE, (int)r, (int)_status); resolve_effect(this); }
template <> void SoPlex::_loadRealLP(bool initBasis) { rec(K_LOAD, initBasis, (int)_status); _isRealLPLoaded = true; }
}

static bool is_verdict(int s) { return s == Solver::OPTIMAL || s == Solver::UNBOUNDED || s == Solver::INFEASIBLE || s == Solver::INForUNBD; }
static bool is_named_status(int s) { return (s >= -15 && s <= -11) || (s >= -8 && s <= 5); }

struct In { int simp; int s; bool ensureRay, loaded, scaled, polishing, pfeas, dfeas, hasBasis; int stale; bool hasSimp, hasScaler; };
static SoPlex* make(const In& in)
{
#ifdef VP_NATIVE
   SoPlex* sp = new SoPlex();
   sp->setIntParam(SoPlex::VERBOSITY, 0);
   sp->setBoolParam(SoPlex::ENSURERAY, in.ensureRay);
#else
   SoPlex* sp = &mem.sp;
   ST* st = new ST();
   st->_boolParamValues[SoPlex::ENSURERAY] = in.ensureRay;
   sp->_currentSettings = st;
#endif
   sp->_status = (Solver::Status)in.stale;
   sp->_isRealLPLoaded = in.loaded;
   sp->_isRealLPScaled = in.scaled;
   sp->_applyPolishing = in.polishing;
   sp->_solReal._isPrimalFeasible = in.pfeas;
   sp->_solReal._isDualFeasible = in.dfeas;
   sp->_hasBasis = in.hasBasis;
   sp->_hasSolReal = false;
   // the verdict logic must not depend on which simplifier/scaler objects are selected: both pointers are arbitrary
   sp->_simplifier = in.hasSimp ? &sp->_simplifierMainSM : nullptr;
   sp->_scaler = in.hasScaler ? &sp->_scalerBiequi : nullptr;
   return sp;
}

// expected call sequence, written from the doc comments of _evaluateSolutionReal / _storeSolutionReal / _resolveWithoutPreprocessing
// and the property texts C02 / C16 (see the table in the .json "what")
static int expect(const In& in, Call* e)
{
   int n = 0;
   const bool abort_shift = g_shift > g_eps;
   switch(in.simp)
   {
   case Simp::INFEASIBLE: case Simp::UNBOUNDED: case Simp::DUAL_INFEASIBLE:
      if(in.ensureRay) { e[n].kind = K_PREPROC; e[n].arg = 0; ++n; }          // proof wanted: solve the original LP without simplifier
      else { e[n].kind = K_LOAD; e[n].arg = 0; ++n; }                          // verdict taken from the simplifier, original LP restored
      return n;
   case Simp::VANISHED:
      e[n].kind = K_PRESOL; e[n].arg = 0; ++n;
      return n;
   default: break;
   }
   switch(in.s)
   {
   case Solver::OPTIMAL:
      e[n].kind = K_STORE; e[n].arg = (!in.loaded || in.scaled); ++n;           // verify whenever the solve was on a transformed LP
      if(in.polishing && !(e[0].arg && g_verify_resolves))                      // polishing pass unless a verification re-solve already replaced the solve
         { e[n].kind = K_PREPROC; e[n].arg = 0; ++n; }
      break;
   case Solver::UNBOUNDED: case Solver::INFEASIBLE: case Solver::INForUNBD:
      if(!in.loaded && in.ensureRay) { e[n].kind = K_RESOLVE; e[n].arg = in.simp; ++n; }
      else { e[n].kind = K_STORE; e[n].arg = 0; ++n; }
      break;
   case Solver::SINGULAR:
      if(!in.loaded) { e[n].kind = K_PREPROC; e[n].arg = 0; ++n; }
      break;
   case Solver::ABORT_VALUE:
      if(abort_shift) { e[n].kind = K_SETBASIS; e[n].arg = Basis::REGULAR; ++n; }
      e[n].kind = K_STORE; e[n].arg = 1; ++n;                                  // objective-limit verdict is re-verified
      break;
   case Solver::ABORT_CYCLING:
      if(!in.loaded || in.scaled) { e[n].kind = K_STORE; e[n].arg = 1; ++n; break; }
   // fall through
   case Solver::ABORT_TIME: case Solver::ABORT_ITER: case Solver::REGULAR: case Solver::RUNNING:
      if(abort_shift) { e[n].kind = K_SETBASIS; e[n].arg = Basis::REGULAR; ++n; }
      e[n].kind = K_STORE; e[n].arg = 0; ++n;
      break;
   default: break;
   }
   return n;
}

extern "C" void h_c02_evaluate()
{
   In in;
   in.simp = vp_int_in(0, 4);
   in.s = vp_int_in(-15, 5);
   in.ensureRay = vp_nondet_bool();
   in.loaded = vp_nondet_bool();
   in.scaled = vp_nondet_bool();
   in.polishing = vp_nondet_bool();
   in.pfeas = vp_nondet_bool();
   in.dfeas = vp_nondet_bool();
   in.hasBasis = vp_nondet_bool();
   in.stale = vp_int_in(-15, 5);
   g_solver_status = in.s;
   g_shift = vp_small(0, 4);
   g_eps = vp_small(0, 4);
   g_resolve_status = vp_int_in(-15, 5);
   g_verify_resolves = vp_nondet_bool();
   in.hasSimp = vp_nondet_bool();
   in.hasScaler = vp_nondet_bool();
   vp_assume(is_named_status(in.s));
   // a simplifier verdict other than OKAY means the simplex was not run on this LP: solver status is whatever it was before
   SoPlex* sp = make(in);
   g_n = 0; g_resolves = 0;
   sp->_evaluateSolutionReal((Simp::Result)in.simp);
   const int fin = (int)sp->_status;
   const bool resolved = g_resolves > 0;
   vp_assert(g_n <= MAXLOG, 1);

   // (T) the full transition table
   Call e[MAXLOG];
   int en = expect(in, e);
   vp_assert(g_n == en, 2);
   for(int i = 0; i < en && i < g_n; ++i) vp_assert(g_log[i].kind == e[i].kind && g_log[i].arg == e[i].arg, 3);

   // (P) properties, stated independently of the table
   int nstore = 0, npresol = 0;
   for(int i = 0; i < g_n && i < MAXLOG; ++i) { if(g_log[i].kind == K_STORE) ++nstore; if(g_log[i].kind == K_PRESOL) ++npresol; }
   vp_assert(nstore + npresol <= 1, 4);                                          // a solution is stored at most once
   if(!resolved)
   {
      // P1: INFEASIBLE / UNBOUNDED / INForUNBD only from the matching simplifier or solver verdict
      if(fin == Solver::INFEASIBLE) vp_assert(in.simp == Simp::INFEASIBLE || (in.simp == Simp::OKAY && in.s == Solver::INFEASIBLE), 10);
      if(fin == Solver::UNBOUNDED) vp_assert(in.simp == Simp::UNBOUNDED || (in.simp == Simp::OKAY && in.s == Solver::UNBOUNDED), 11);
      if(fin == Solver::INForUNBD) vp_assert(in.simp == Simp::DUAL_INFEASIBLE || (in.simp == Simp::OKAY && in.s == Solver::INForUNBD), 12);
      // P2: OPTIMAL only from a solver OPTIMAL or from a vanished problem stored through _storeSolutionRealFromPresol
      if(fin == Solver::OPTIMAL) vp_assert((in.simp == Simp::VANISHED && npresol == 1) || (in.simp == Simp::OKAY && in.s == Solver::OPTIMAL && nstore == 1), 13);
      // P3: an abort / error / singular solver status never turns into a verdict; it is reported as it is
      if(in.simp == Simp::OKAY && !is_verdict(in.s))
      {
         vp_assert(!is_verdict(fin), 14);
         if(in.s != Solver::ABORT_CYCLING) vp_assert(fin == in.s, 15);
         else vp_assert(fin == in.s || (fin == Solver::OPTIMAL_UNSCALED_VIOLATIONS && in.loaded && !in.scaled && (in.pfeas || in.dfeas)), 16);
      }
   }
   // P4: with ENSURERAY no infeasible/unbounded verdict of a preprocessed solve is accepted without re-solving the original LP
   if(in.ensureRay && (in.simp == Simp::INFEASIBLE || in.simp == Simp::UNBOUNDED || in.simp == Simp::DUAL_INFEASIBLE
                       || (in.simp == Simp::OKAY && !in.loaded && (in.s == Solver::INFEASIBLE || in.s == Solver::UNBOUNDED || in.s == Solver::INForUNBD))))
   {
      vp_assert(g_resolves == 1 && nstore == 0 && npresol == 0, 20);
      vp_assert(g_n == 1 && ((g_log[0].kind == K_PREPROC && g_log[0].arg == 0) || g_log[0].kind == K_RESOLVE), 21);
      vp_assert(fin == g_resolve_status, 22);                                    // and the verdict of that re-solve stands
   }
   // P5: VANISHED => OPTIMAL, stored by _storeSolutionRealFromPresol and by nothing else
   if(in.simp == Simp::VANISHED) vp_assert(npresol == 1 && nstore == 0 && g_log[0].kind == K_PRESOL && g_log[0].status == Solver::OPTIMAL, 23);
   else vp_assert(npresol == 0, 24);
   // P6: every store sees the solver's status as SoPlex status; ABORT_VALUE is stored with verification (=> _verifyObjLimitReal)
   for(int i = 0; i < g_n && i < MAXLOG; ++i)
      if(g_log[i].kind == K_STORE)
      {
         vp_assert(in.simp == Simp::OKAY && (g_log[i].status == in.s || (in.s == Solver::ABORT_CYCLING && g_log[i].status == Solver::OPTIMAL_UNSCALED_VIOLATIONS)), 25);
         if(in.s == Solver::ABORT_VALUE) vp_assert(g_log[i].arg == 1, 26);
         // P7: aborted with a remaining shift => basis status set to REGULAR before the solution is stored
         if((in.s == Solver::ABORT_VALUE || in.s == Solver::ABORT_TIME || in.s == Solver::ABORT_ITER) && g_shift > g_eps)
            vp_assert(i == 1 && g_log[0].kind == K_SETBASIS && g_log[0].arg == Basis::REGULAR, 27);
      }
   // P8: a verdict taken from the simplifier leaves the original LP loaded and no basis
   if(!in.ensureRay && (in.simp == Simp::INFEASIBLE || in.simp == Simp::UNBOUNDED || in.simp == Simp::DUAL_INFEASIBLE))
      vp_assert(sp->_isRealLPLoaded && !sp->_hasBasis && !sp->_hasSolReal, 28);
   // P9: no usable solver state (ERROR, NO_*, NOT_INIT, UNKNOWN, SINGULAR on the original LP) => no basis is claimed, nothing stored
   if(in.simp == Simp::OKAY && g_n == 0) vp_assert(!sp->_hasBasis && !sp->_hasSolReal, 29);
   vp_cover(1);
}

// ------------------------------------------------------------------------------------------------------------
// C02-O3 (getter half): hasPrimalRay/hasDualFarkas, getPrimalRay/getDualFarkas and the array variants with a dim argument.
// A SoPlex object whose real LP has NC columns and NR rows; the stored solution is poked in directly.
#define NC 3
#define NR 2
#define DMAX 5
static SoPlex* make_lp_shell()
{
#ifdef VP_NATIVE
   SoPlex* sp = new SoPlex();
   sp->setIntParam(SoPlex::VERBOSITY, 0);
   for(int j = 0; j < NC; ++j) sp->addColReal(LPCol(0.0, DSVector(), 1.0, 0.0));
   for(int i = 0; i < NR; ++i) sp->addRowReal(LPRow(0.0, DSVector(), 1.0));
#else
   SoPlex* sp = &mem.sp;
   sp->_currentSettings = new ST();
   sp->_realLP = &sp->_solver;
   SPxLPBase<double>* lp = &sp->_solver;
   static_cast<LPColSetBase<double>*>(lp)->SVSetBase<double>::set.thenum = NC;
   static_cast<LPRowSetBase<double>*>(lp)->SVSetBase<double>::set.thenum = NR;
#endif
   return sp;
}
static const double SENT = -77.0;
struct RayState { bool hasSol, hasRay, hasFarkas; double ray[NC], fk[NR]; };
static void poke_solution(SoPlex* sp, RayState& st)
{
   st.hasSol = vp_nondet_bool();
   st.hasRay = vp_nondet_bool();
   st.hasFarkas = vp_nondet_bool();
   sp->_hasSolReal = st.hasSol;
   sp->_hasSolRational = false;                                        // rational solution storage (GMP) is outside this check
   sp->_solReal._hasPrimalRay = st.hasRay;
   sp->_solReal._hasDualFarkas = st.hasFarkas;
   // the vectors hold data (possibly stale) whether or not the flags are set
   sp->_solReal._primalRay.reDim(NC);
   sp->_solReal._dualFarkas.reDim(NR);
   for(int j = 0; j < NC; ++j) { st.ray[j] = vp_small(-8, 8); sp->_solReal._primalRay[j] = st.ray[j]; }
   for(int i = 0; i < NR; ++i) { st.fk[i] = vp_small(-8, 8); sp->_solReal._dualFarkas[i] = st.fk[i]; }
}
// array getter result against the reference: n values expected iff ok; nothing else written (buffer has exactly dim elements)
static void check_array(bool r, bool avail, const double* out, int dim, const double* want, int n, int id)
{
   vp_assert(r == (avail && dim >= n), id);
   for(int k = 0; k < dim; ++k)
   {
      if(r && k < n) vp_assert(out[k] == want[k], id + 1);
      else vp_assert(out[k] == SENT, id + 2);                          // untouched
   }
}
extern "C" void h_c02_ray_getters_array()
{
   SoPlex* sp = make_lp_shell();
   RayState st; poke_solution(sp, st);
   vp_assert(sp->hasPrimalRay() == (st.hasSol && st.hasRay), 1);
   vp_assert(sp->hasDualFarkas() == (st.hasSol && st.hasFarkas), 2);
   int dim1 = vp_int_in(0, DMAX);
   int dim2 = vp_int_in(0, DMAX);
   double* out1 = (double*)malloc(sizeof(double) * dim1);              // exact size: any write beyond dim is an out-of-bounds write
   double* out2 = (double*)malloc(sizeof(double) * dim2);
   for(int k = 0; k < dim1; ++k) out1[k] = SENT;
   for(int k = 0; k < dim2; ++k) out2[k] = SENT;
   bool r1 = sp->getPrimalRayReal(out1, dim1);
   bool r2 = sp->getDualFarkasReal(out2, dim2);
   check_array(r1, st.hasSol && st.hasRay, out1, dim1, st.ray, NC, 10);
   check_array(r2, st.hasSol && st.hasFarkas, out2, dim2, st.fk, NR, 20);
   // the getters do not change the flags
   vp_assert(sp->hasPrimalRay() == (st.hasSol && st.hasRay) && sp->hasDualFarkas() == (st.hasSol && st.hasFarkas), 3);
   vp_cover(1);
}
static void check_vector(bool r, bool avail, const VectorBase<double>& v, int dim, const double* want, int n, int id)
{
   vp_assert(r == (avail && dim >= n), id);
   if(r)
   {
      vp_assert(v.dim() == n, id + 1);                                   // the ray of the LP: one entry per column / row
      for(int k = 0; k < n && k < v.dim(); ++k) vp_assert(v[k] == want[k], id + 2);
   }
   else
   {
      vp_assert(v.dim() == dim, id + 3);
      for(int k = 0; k < dim && k < v.dim(); ++k) vp_assert(v[k] == SENT, id + 4);
   }
}
#ifndef VDIM1
#define VDIM1 3
#define VDIM2 1
#endif
extern "C" void h_c02_ray_getters_vector()
{
   SoPlex* sp = make_lp_shell();
   RayState st; poke_solution(sp, st);
   VectorBase<double> v1(VDIM1), v2(VDIM2);
   for(int k = 0; k < VDIM1; ++k) v1[k] = SENT;
   for(int k = 0; k < VDIM2; ++k) v2[k] = SENT;
   bool r1 = sp->getPrimalRay(v1);
   bool r2 = sp->getDualFarkas(v2);
   check_vector(r1, st.hasSol && st.hasRay, v1, VDIM1, st.ray, NC, 10);
   check_vector(r2, st.hasSol && st.hasFarkas, v2, VDIM2, st.fk, NR, 20);
   vp_cover(1);
}

// C01-O6: objValueReal by status. Reference from the doc: +-infinity by sense for UNBOUNDED / INFEASIBLE, the stored objective
// value if a solution is available, 0 otherwise.
extern "C" void h_c01_objvalue()
{
   int sense = vp_int_in(0, 1) ? SoPlex::OBJSENSE_MAXIMIZE : SoPlex::OBJSENSE_MINIMIZE;
   double infty = vp_nondet_double();
   vp_assume(infty >= 1e10 && infty <= 1e100);
#ifdef VP_NATIVE
   SoPlex* sp = new SoPlex();
   sp->setIntParam(SoPlex::VERBOSITY, 0);
   sp->setIntParam(SoPlex::OBJSENSE, sense);
   sp->setRealParam(SoPlex::INFTY, infty);
#else
   SoPlex* sp = &mem.sp;
   ST* s = new ST();
   s->_intParamValues[SoPlex::OBJSENSE] = sense;
   s->_realParamValues[SoPlex::INFTY] = infty;
   sp->_currentSettings = s;
#endif
   int status = vp_int_in(-15, 5);
   bool hasSol = vp_nondet_bool();
   double obj = vp_nondet_double();
   vp_assume(obj == obj);
   sp->_status = (Solver::Status)status;
   sp->_hasSolReal = hasSol; sp->_hasSolRational = false;
   sp->_solReal._objVal = obj;
   double v = sp->objValueReal();
   const bool maximize = sense == SoPlex::OBJSENSE_MAXIMIZE;
   if(status == Solver::UNBOUNDED) vp_assert(v == (maximize ? infty : -infty), 1);          // improving direction without end
   else if(status == Solver::INFEASIBLE) vp_assert(v == (maximize ? -infty : infty), 2);    // worst possible value
   else if(hasSol) vp_assert(v == obj, 3);
   else vp_assert(v == 0.0, 4);
   vp_cover(1);
}
