// C02-O1 (scaling leg) = C09-O5: rays and Farkas proofs of the SCALED LP become, through the real
// SPxScaler::unscalePrimalray / unscaleDualray, exact rays / Farkas proofs of the ORIGINAL LP.
//
// LP: min c^T x, lhs <= A x <= rhs, lo <= x <= up (SPxLPBase stores maxObj = -c; c' = -lp.maxObj() for the scaled LP).
//  primal ray w: lo_j finite => w_j >= 0, up_j finite => w_j <= 0, lhs_i finite => (A w)_i >= 0, rhs_i finite => (A w)_i <= 0,
//                c^T w < 0  (strictly improving for a minimization).  Asserted: same conditions on the original data, same slope.
//  Farkas y:     z = A^T y;  L = sum_i (y_i>0 ? y_i*lhs_i : y_i<0 ? y_i*rhs_i : 0)  is a lower bound of y^T A x over the row sides,
//                U = sum_j (z_j>0 ? z_j*up_j : z_j<0 ? z_j*lo_j : 0) an upper bound of z^T x over the box; every bound/side that is used
//                must be finite; margin = L - U >= 1 proves infeasibility.  Asserted: same on the original data, same margin.
// The scaled conditions are ASSUMED on the data stored in the scaled LP object, the unscaled ones ASSERTED on the dense copy `d`.
// Small ints times small powers of two: all arithmetic exact.
#include "lp_build.h"
using namespace soplex; using namespace vph;
#ifndef NR
#define NR 2
#define NC 2
#endif
#ifndef MASK
#define MASK 0xF
#endif
#ifndef EMAX
#define EMAX 4
#endif
#ifndef DMAX
#define DMAX 4
#endif
#ifndef KMAX
#define KMAX 4
#endif
#ifndef MMAX
#define MMAX 7
#endif
#define HAS(i, j) ((MASK >> ((i) * NC + (j))) & 1u)
static bool fin_lo(double x) { return x > -(double)infinity; }
static bool fin_up(double x) { return x < (double)infinity; }
static double arb(int rel)
{
   int m = vp_int_in(-MMAX, MMAX);
   int k = vp_int_in(-KMAX, KMAX);
#ifdef CONSTRUCTED
   return ldexp((double)m, k + rel);
#else
   return ldexp((double)m, k);
#endif
}
static void scaled_min_lp(LP& lp, Dense<NR, NC>& d, Sc& sc, int* ce, int* re)
{
   lp.changeSense(SPxLPBase<double>::MINIMIZE);
   build<NR, NC>(lp, d, MASK, DMAX);
   sc.setup(lp);
   for(int j = 0; j < NC; ++j) { ce[j] = vp_int_in(-EMAX, EMAX); lp.cexp()[j] = ce[j]; }
   for(int i = 0; i < NR; ++i) { re[i] = vp_int_in(-EMAX, EMAX); lp.rexp()[i] = re[i]; }
   sc.applyScaling(lp);
}

extern "C" void h_c02_unscale_primalray()
{
   LP lp; Dense<NR, NC> d; Sc sc; int ce[NC], re[NR];
   scaled_min_lp(lp, d, sc, ce, re);
   VectorBase<double> w(NC);
   for(int j = 0; j < NC; ++j) w[j] = arb(-ce[j]);
   // w is an improving recession direction of the SCALED LP as stored
   double slopes = 0.0;
   for(int j = 0; j < NC; ++j)
   {
      if(fin_lo(lp.lower(j))) vp_assume(w[j] >= 0.0);
      if(fin_up(lp.upper(j))) vp_assume(w[j] <= 0.0);
      slopes += (-lp.maxObj(j)) * w[j];
   }
   for(int i = 0; i < NR; ++i)
   {
      double a = 0.0;
      for(int j = 0; j < NC; ++j) if(HAS(i, j)) a += rowcoef(lp, i, j) * w[j];
      if(fin_lo(lp.lhs(i))) vp_assume(a >= 0.0);
      if(fin_up(lp.rhs(i))) vp_assume(a <= 0.0);
   }
   vp_assume(slopes < 0.0);

   sc.unscalePrimalray(lp, w);

   double slope = 0.0;
   for(int j = 0; j < NC; ++j)
   {
      if(fin_lo(d.lo[j])) vp_assert(w[j] >= 0.0, 1);
      if(fin_up(d.up[j])) vp_assert(w[j] <= 0.0, 2);
      slope += d.obj[j] * w[j];
   }
   for(int i = 0; i < NR; ++i)
   {
      double a = 0.0;
      for(int j = 0; j < NC; ++j) if(HAS(i, j)) a += d.a[i][j] * w[j];
      if(fin_lo(d.lhs[i])) vp_assert(a >= 0.0, 3);
      if(fin_up(d.rhs[i])) vp_assert(a <= 0.0, 4);
   }
   vp_assert(slope < 0.0, 5);
   vp_assert(slope == slopes, 6);
   vp_cover(1);
}

extern "C" void h_c02_unscale_dualray()
{
   LP lp; Dense<NR, NC> d; Sc sc; int ce[NC], re[NR];
   scaled_min_lp(lp, d, sc, ce, re);
   VectorBase<double> y(NR);
   for(int i = 0; i < NR; ++i) y[i] = arb(-re[i]);
   // y proves infeasibility of the SCALED LP as stored, with margin >= 1
   double Ls = 0.0, Us = 0.0;
   for(int i = 0; i < NR; ++i)
   {
      if(y[i] > 0.0) { vp_assume(fin_lo(lp.lhs(i))); Ls += y[i] * lp.lhs(i); }
      if(y[i] < 0.0) { vp_assume(fin_up(lp.rhs(i))); Ls += y[i] * lp.rhs(i); }
   }
   for(int j = 0; j < NC; ++j)
   {
      double z = 0.0;
      for(int i = 0; i < NR; ++i) if(HAS(i, j)) z += colcoef(lp, i, j) * y[i];
      if(z > 0.0) { vp_assume(fin_up(lp.upper(j))); Us += z * lp.upper(j); }
      if(z < 0.0) { vp_assume(fin_lo(lp.lower(j))); Us += z * lp.lower(j); }
   }
   double margins = Ls - Us;
   vp_assume(margins >= 1.0);

   sc.unscaleDualray(lp, y);

   double L = 0.0, U = 0.0;
   for(int i = 0; i < NR; ++i)
   {
      if(y[i] > 0.0) { vp_assert(fin_lo(d.lhs[i]), 1); L += y[i] * d.lhs[i]; }
      if(y[i] < 0.0) { vp_assert(fin_up(d.rhs[i]), 2); L += y[i] * d.rhs[i]; }
   }
   for(int j = 0; j < NC; ++j)
   {
      double z = 0.0;
      for(int i = 0; i < NR; ++i) if(HAS(i, j)) z += d.a[i][j] * y[i];
      if(z > 0.0) { vp_assert(fin_up(d.up[j]), 3); U += z * d.up[j]; }
      if(z < 0.0) { vp_assert(fin_lo(d.lo[j]), 4); U += z * d.lo[j]; }
   }
   vp_assert(L - U >= 1.0, 5);
   vp_assert(L - U == margins, 6);
   vp_cover(1);
}
