// C02-O1 (scaling leg) = C09-O5: rays and Farkas proofs of the SCALED LP become, through the real
// SPxScaler::unscalePrimalray / unscaleDualray, exact rays / Farkas proofs of the ORIGINAL LP.
//
// LP: min c^T x, lhs <= A x <= rhs, lo <= x <= up (SPxLPBase stores maxObj = -c; c' = -lp.maxObj() for the scaled LP).
//  primal ray w: lo_j finite => w_j >= 0, up_j finite => w_j <= 0, lhs_i finite => (A w)_i >= 0, rhs_i finite => (A w)_i <= 0,
//                c^T w < 0  (strictly improving for a minimization).  Asserted: same conditions on the original data, same slope.
//  Farkas y:     z = A^T y;  L = sum_i (y_i>0 ? y_i*lhs_i : y_i<0 ? y_i*rhs_i : 0)  is a lower bound of y^T A x over the row sides,
//                U = sum_j (z_j>0 ? z_j*up_j : z_j<0 ? z_j*lo_j : 0) an upper bound of z^T x over the box; every bound/side that is used
//                must be finite; margin = L - U >= 1 proves infeasibility.  Asserted: the unscaled vector uses only finite bounds/sides
//                of the original data and every term of L and U is unchanged bit for bit (=> same margin).
// The scaled conditions are ASSUMED on the data stored in the scaled LP object, the unscaled ones ASSERTED on the dense copy `d` of the
// original data (oracle = the certificate algebra, not the exponent formula).
// Proof structure (only to keep the SAT work small): the row activity t' = A'w' of the scaled ray is passed through the real
// unscaleSlacks and the identity t == A w (original data) is asserted, then used (assert-then-assume) for the sign conditions;
// likewise z' = A'^T y' goes through the real unscaleRedCost and z == A^T y is asserted before it is used.
// Small ints times small powers of two: all arithmetic exact.  EXPS / MMAX as in c01_unscale_kkt.cpp.
#include "lp_build.h"
using namespace soplex; using namespace vph;
// shape: -DVNR=.. -DVNC=.. (not NR/NC on the command line: lp_build.h uses these names for template parameters)
#ifdef VNR
#define NR VNR
#define NC VNC
#else
#define NR 2
#define NC 2
#endif
#ifndef MASK
#define MASK 0xF
#endif
#ifndef EMAX
#define EMAX 4
#endif
#ifndef DMAX
#define DMAX 4
#endif
#ifndef KMAX
#define KMAX 4
#endif
#ifndef MMAX
#define MMAX 7
#endif
#define HAS(i, j) ((MASK >> ((i) * NC + (j))) & 1u)
static bool biteq(double a, double b) { unsigned long x, y; std::memcpy(&x, &a, 8); std::memcpy(&y, &b, 8); return x == y; }
static bool fin_lo(double x) { return x > -(double)infinity; }
static bool fin_up(double x) { return x < (double)infinity; }
static double arb()
{
   int m = vp_int_in(-MMAX, MMAX);
   int k = vp_int_in(-KMAX, KMAX);
#if MMAX == 1
   double one = (m < 0) ? -1.0 : 1.0;
   return (m == 0) ? 0.0 : ldexp(one, k);
#else
   return ldexp((double)m, k);
#endif
}
static void scaled_min_lp(LP& lp, Dense<NR, NC>& d, Sc& sc, int* ce, int* re)
{
   lp.changeSense(SPxLPBase<double>::MINIMIZE);
   build<NR, NC>(lp, d, MASK, DMAX);
   sc.setup(lp);
#ifdef EXPS
   static const int XE[NC + NR] = EXPS;              // {column exponents..., row exponents...}
   for(int j = 0; j < NC; ++j) { ce[j] = XE[j]; lp.cexp()[j] = ce[j]; }
   for(int i = 0; i < NR; ++i) { re[i] = XE[NC + i]; lp.rexp()[i] = re[i]; }
#else
   for(int j = 0; j < NC; ++j) { ce[j] = vp_int_in(-EMAX, EMAX); lp.cexp()[j] = ce[j]; }
   for(int i = 0; i < NR; ++i) { re[i] = vp_int_in(-EMAX, EMAX); lp.rexp()[i] = re[i]; }
#endif
   sc.applyScaling(lp);
}

extern "C" void h_c02_unscale_primalray()
{
   LP lp; Dense<NR, NC> d; Sc sc; int ce[NC], re[NR];
   scaled_min_lp(lp, d, sc, ce, re);
   VectorBase<double> w(NC), t(NR);
   double ws[NC], ts[NR];
   for(int j = 0; j < NC; ++j) { ws[j] = arb(); w[j] = ws[j]; }
   // row activity and objective slope of the ray in the SCALED LP as stored
   double slopes = 0.0;
   for(int i = 0; i < NR; ++i)
   {
      double a = 0.0;
      for(int j = 0; j < NC; ++j) if(HAS(i, j)) a += rowcoef(lp, i, j) * ws[j];
      ts[i] = a; t[i] = a;
   }
   for(int j = 0; j < NC; ++j) slopes += (-lp.maxObj(j)) * ws[j];

   sc.unscalePrimalray(lp, w);                        // the real routine under test
   sc.unscaleSlacks(lp, t);                           // real routine, used as a bridge for the row activities

   double act[NR];
   for(int i = 0; i < NR; ++i)
   {
      double a = 0.0;
      for(int j = 0; j < NC; ++j) if(HAS(i, j)) a += d.a[i][j] * w[j];
      act[i] = a;
      vp_assert(t[i] == a, 7);                        // row activity of the unscaled ray on the ORIGINAL matrix
      vp_assume(t[i] == a);                           // (proved just above)
   }
   double slope = 0.0;
   for(int j = 0; j < NC; ++j) slope += d.obj[j] * w[j];
   vp_assert(slope == slopes, 6);                     // same objective slope

   // ws is an improving recession direction of the SCALED LP as stored
   for(int j = 0; j < NC; ++j)
   {
      if(fin_lo(lp.lower(j))) vp_assume(ws[j] >= 0.0);
      if(fin_up(lp.upper(j))) vp_assume(ws[j] <= 0.0);
   }
   for(int i = 0; i < NR; ++i)
   {
      if(fin_lo(lp.lhs(i))) vp_assume(ts[i] >= 0.0);
      if(fin_up(lp.rhs(i))) vp_assume(ts[i] <= 0.0);
   }
   vp_assume(slopes < 0.0);
   // => w is an improving recession direction of the ORIGINAL LP
   for(int j = 0; j < NC; ++j)
   {
      if(fin_lo(d.lo[j])) vp_assert(w[j] >= 0.0, 1);
      if(fin_up(d.up[j])) vp_assert(w[j] <= 0.0, 2);
   }
   for(int i = 0; i < NR; ++i)
   {
      if(fin_lo(d.lhs[i])) vp_assert(act[i] >= 0.0, 3);
      if(fin_up(d.rhs[i])) vp_assert(act[i] <= 0.0, 4);
   }
   vp_assert(slope < 0.0, 5);
   vp_cover(1);
}

extern "C" void h_c02_unscale_dualray()
{
   LP lp; Dense<NR, NC> d; Sc sc; int ce[NC], re[NR];
   scaled_min_lp(lp, d, sc, ce, re);
   VectorBase<double> y(NR), z(NC);
   double ys[NR], zs[NC];
   for(int i = 0; i < NR; ++i) { ys[i] = arb(); y[i] = ys[i]; }
   for(int j = 0; j < NC; ++j)
   {
      double a = 0.0;
      for(int i = 0; i < NR; ++i) if(HAS(i, j)) a += colcoef(lp, i, j) * ys[i];
      zs[j] = a; z[j] = a;
   }

   sc.unscaleDualray(lp, y);                          // the real routine under test
   sc.unscaleRedCost(lp, z);                          // real routine, used as a bridge for the column combination z = A^T y

   double zo[NC];
   for(int j = 0; j < NC; ++j)
   {
      double a = 0.0;
      for(int i = 0; i < NR; ++i) if(HAS(i, j)) a += d.a[i][j] * y[i];
      zo[j] = a;
      vp_assert(z[j] == a, 7);                        // A^T y on the ORIGINAL matrix
      vp_assume(z[j] == a);                           // (proved just above)
   }

   // ys is a Farkas vector of the SCALED LP as stored: every bound/side it uses is finite ...
   for(int i = 0; i < NR; ++i)
   {
      if(ys[i] > 0.0) vp_assume(fin_lo(lp.lhs(i)));
      if(ys[i] < 0.0) vp_assume(fin_up(lp.rhs(i)));
   }
   for(int j = 0; j < NC; ++j)
   {
      if(zs[j] > 0.0) vp_assume(fin_up(lp.upper(j)));
      if(zs[j] < 0.0) vp_assume(fin_lo(lp.lower(j)));
   }
   // => so is every bound/side the unscaled vector uses in the ORIGINAL LP
   for(int i = 0; i < NR; ++i)
   {
      if(y[i] > 0.0) vp_assert(fin_lo(d.lhs[i]), 1);
      if(y[i] < 0.0) vp_assert(fin_up(d.rhs[i]), 2);
   }
   for(int j = 0; j < NC; ++j)
   {
      if(zo[j] > 0.0) vp_assert(fin_up(d.up[j]), 3);
      if(zo[j] < 0.0) vp_assert(fin_lo(d.lo[j]), 4);
   }
   // the terms of L and U, scaled LP as stored / original LP: every term is unchanged BIT FOR BIT, hence L, U and the margin L - U
   // (in particular "margin >= 1") are the same for the original LP.  (Summing both sides again and comparing the sums is what the
   // SAT back end cannot do in reasonable time; term-wise identity is the stronger statement anyway.)
   for(int i = 0; i < NR; ++i)
   {
      double ts = (ys[i] > 0.0) ? ys[i] * lp.lhs(i) : ((ys[i] < 0.0) ? ys[i] * lp.rhs(i) : 0.0);
      double to = (y[i] > 0.0) ? y[i] * d.lhs[i] : ((y[i] < 0.0) ? y[i] * d.rhs[i] : 0.0);
      vp_assert(biteq(to, ts), 8);
   }
   for(int j = 0; j < NC; ++j)
   {
      // z[j] == zo[j] = (A^T y)_j on the original matrix was proved above; z[j] is used in the product because it shares its
      // mantissa bits with zs[j]
      double ts = (zs[j] > 0.0) ? zs[j] * lp.upper(j) : ((zs[j] < 0.0) ? zs[j] * lp.lower(j) : 0.0);
      double to = (zo[j] > 0.0) ? z[j] * d.up[j] : ((zo[j] < 0.0) ? z[j] * d.lo[j] : 0.0);
      vp_assert(biteq(to, ts), 9);
   }
   vp_cover(1);
}
