// C19-O8 (VectorBase<double>, StableSum<double>): dense vector operations, the mixed dense/sparse/semi-sparse operators of
// basevectors.h and the compensated sum give the same values as plain dense arithmetic.  Kernel style: dimension DIM
// (concrete), entries integer-valued doubles in -4..4 (all arithmetic exact), sparse operands with a symbolic number
// 0..NNZ of nonzeros at symbolic distinct indices.
#include <memory>
#include <string>
#include <vector>
#include <iostream>
#include <sstream>
#include <fstream>
#include <map>
#include <set>
#include <algorithm>
#include <functional>
#include <limits>
#include <cmath>
#include <cstring>
#define private public
#define protected public
#include "soplex/spxdefines.h"
#include "soplex/basevectors.h"
#undef private
#undef protected
#include "vp.h"
using namespace soplex;
#ifndef DIM
#define DIM 4
#endif
#ifndef NNZ
#define NNZ 3
#endif
#define CAP 8
typedef SVectorBase<double> SV;
typedef SV::Element El;
typedef VectorBase<double> V;
typedef SSVectorBase<double> SSV;

struct In { int n; int ix[NNZ]; double va[NNZ]; double d[DIM]; };
static void draw(In& in, int nmin, int nmax, bool allow_zero, int vmax = 4)
{
   if(nmin == nmax) in.n = nmin; else in.n = vp_int_in(nmin, nmax);
   for(int i = 0; i < DIM; ++i) in.d[i] = 0.0;
   for(int k = 0; k < NNZ; ++k)
   {
      in.ix[k] = vp_int_in(0, DIM - 1);
      in.va[k] = vp_small(-vmax, vmax);
      if(!allow_zero) vp_assume(in.va[k] != 0.0);
      for(int j = 0; j < k; ++j) vp_assume(in.ix[j] != in.ix[k]);
      if(k < in.n) in.d[in.ix[k]] = in.va[k];
   }
}
static void fill(SV& v, const In& in)
{
   v.set_size(in.n);
   for(int k = 0; k < NNZ; ++k) if(k < in.n) { v.index(k) = in.ix[k]; v.value(k) = in.va[k]; }
}
// semi-sparse operand: set up (index list in the symbolic order of the draw) or not set up (dense values only)
static void fill_ss(SSV& s, const In& in, bool setup)
{
   for(int k = 0; k < NNZ; ++k) if(k < in.n) s.add(in.ix[k], in.va[k]);
   if(!setup) s.unSetup();
}
static void dense(V& v, double* d) { for(int i = 0; i < DIM; ++i) { d[i] = vp_small(-4, 4); v[i] = d[i]; } }
static bool eq(const V& v, const double* d)
{
   if(v.dim() != DIM) return false;
   for(int i = 0; i < DIM; ++i) if(!(v[i] == d[i])) return false;
   return true;
}
static double dabs(double x) { return x < 0 ? -x : x; }

// Scalar products go through the compensated StableSum: for the solver every combination of values that reaches such a sum is a
// separate floating-point proof.  Therefore one operand of every product is symbolic (values and structure) and the other has
// CONCRETE pairwise different weights (which identify the positions that were used); then the roles are swapped.
static const double WEIGHT[6] = { 1.0, 3.0, -2.0, 5.0, -7.0, 4.0 };
static const double TAB_S[NNZ] = { 2.0, -4.0, 3.0 };
static void draw_struct(In& in, const double* table)     // symbolic count / distinct indices, concrete values
{
   in.n = vp_int_in(0, NNZ);
   for(int i = 0; i < DIM; ++i) in.d[i] = 0.0;
   for(int k = 0; k < NNZ; ++k)
   {
      in.ix[k] = vp_int_in(0, DIM - 1);
      in.va[k] = table[k];
      for(int j = 0; j < k; ++j) vp_assume(in.ix[j] != in.ix[k]);
      if(k < in.n) in.d[in.ix[k]] = in.va[k];
   }
}
static void weights(V& v, double* d) { for(int i = 0; i < DIM; ++i) { d[i] = WEIGHT[i]; v[i] = d[i]; } }
static void dense_small(V& v, double* d, int r) { for(int i = 0; i < DIM; ++i) { d[i] = vp_small(-r, r); v[i] = d[i]; } }
static double refdot(const double* a, const double* b) { double s = 0.0; for(int i = 0; i < DIM; ++i) s += a[i] * b[i]; return s; }

// ---- dense (+)= dense: +=, -=, *=, /=, +, -, unary -, ==, multAdd, maxAbs, clear -------------------------------------------------
extern "C" void h_vec_dense_ops()
{
   V a(DIM), b(DIM); double da[DIM], db[DIM];
   dense(a, da); dense(b, db);
   vp_assert(a.dim() == DIM && eq(a, da), 1);
   double mx = 0.0;
   for(int i = 0; i < DIM; ++i) if(dabs(da[i]) > mx) mx = dabs(da[i]);
   vp_assert(a.maxAbs() == mx, 4);
   V s = a + b; V t = a - b; V u = -a;
   for(int i = 0; i < DIM; ++i) vp_assert(s[i] == da[i] + db[i] && t[i] == da[i] - db[i] && u[i] == -da[i], 5);
   vp_assert(s.dim() == DIM && t.dim() == DIM && u.dim() == DIM, 6);
   bool same = true;
   for(int i = 0; i < DIM; ++i) if(da[i] != db[i]) same = false;
   vp_assert((a == b) == same, 7);
   int op = vp_int_in(0, 4);
   double x = vp_small(-4, 4);
   int k = vp_int_in(0, 3);
   double p2 = (double)(1 << k);
   if(op == 0) { a += b; for(int i = 0; i < DIM; ++i) da[i] += db[i]; }
   else if(op == 1) { a -= b; for(int i = 0; i < DIM; ++i) da[i] -= db[i]; }
   else if(op == 2) { a *= x; for(int i = 0; i < DIM; ++i) da[i] *= x; }
   else if(op == 3) { a /= p2; for(int i = 0; i < DIM; ++i) da[i] = ldexp(da[i], -k); }
   else { a.multAdd(x, b); for(int i = 0; i < DIM; ++i) da[i] += x * db[i]; }
   vp_assert(eq(a, da), 8);
   vp_assert(eq(b, db), 9);
   vp_cover(1);
   a.clear();
   for(int i = 0; i < DIM; ++i) vp_assert(a[i] == 0.0, 10);
   vp_assert(a.dim() == DIM, 11);
}
// ---- Vector * Vector, length2 ----------------------------------------------------------------------------------------------------
extern "C" void h_vec_dot_dense()
{
   V a(DIM), b(DIM); double da[DIM], db[DIM];
   dense(a, da); weights(b, db);
   vp_assert(a * b == refdot(da, db), 1);
   vp_assert(b * a == refdot(da, db), 2);
   V c(DIM); double dc[DIM];
   dense_small(c, dc, 2);
   vp_assert(c.length2() == refdot(dc, dc), 3);
   vp_cover(1);
}

// VectorBase<double>::minAbs() (separate build variant: in the unchanged tree the member does not compile when instantiated,
// vectorbase.h:435 uses the undeclared identifier SOPLEX_MIN_element)
#ifdef WITH_MINABS
extern "C" void h_vec_minabs()
{
   V a(DIM); double da[DIM]; dense(a, da);
   double mn = dabs(da[0]);
   for(int i = 0; i < DIM; ++i) if(dabs(da[i]) < mn) mn = dabs(da[i]);
   vp_assert(a.minAbs() == mn, 1);
   vp_cover(1);
}
#endif

// ---- construction, copy, assignment, reDim, reSize, scaleAssign ---------------------------------------------------------------------
template<int ND> static void vec_redim(const double* da)
{
   V a(DIM);
   for(int i = 0; i < DIM; ++i) a[i] = da[i];
   a.reDim(ND);                                   // shrinking keeps the prefix, growing keeps the old values and zero-fills
   vp_assert(a.dim() == ND, 5);
   for(int i = 0; i < ND; ++i) vp_assert(a[i] == (i < DIM ? da[i] : 0.0), 6);
   a.reDim(DIM + 2);
   vp_assert(a.dim() == DIM + 2, 7);
   for(int i = 0; i < DIM + 2; ++i) vp_assert(a[i] == ((i < DIM && i < ND) ? da[i] : 0.0), 8);
}
extern "C" void h_vec_copy_redim()
{
   double da[DIM];
   for(int i = 0; i < DIM; ++i) da[i] = vp_small(-4, 4);
   V a(DIM, da);                                   // copies the values
   vp_assert(eq(a, da), 1);
   V b(a);
   V c(2);
   c = a;
   vp_assert(eq(b, da) && eq(c, da), 2);
   b[0] = 9.0;                                     // copies are independent
   vp_assert(a[0] == da[0] && c[0] == da[0], 3);
   a = a;
   vp_assert(eq(a, da), 4);
   vec_redim<0>(da); vec_redim<2>(da); vec_redim<DIM>(da); vec_redim<DIM + 1>(da); vec_redim<DIM + 2>(da);
   // reSize only reserves memory
   c.reSize(DIM + 3);
   vp_assert(eq(c, da) && c.memSize() >= DIM + 3, 9);
   // scaleAssign
   int e = vp_int_in(-3, 3);
   V f(DIM);
   f.scaleAssign(e, c);
   for(int i = 0; i < DIM; ++i) vp_assert(f[i] == ldexp(da[i], e), 10);
   int ex[DIM];
   for(int i = 0; i < DIM; ++i) ex[i] = vp_int_in(-3, 3);
   int neg = vp_int_in(0, 1);
   f.scaleAssign(ex, c, neg != 0);
   for(int i = 0; i < DIM; ++i) vp_assert(f[i] == ldexp(da[i], neg ? -ex[i] : ex[i]), 11);
   vp_cover(1);
}

// ---- dense op= sparse (SVectorBase): =, assign, +=, -=, multAdd, multSub -----------------------------------------------------------
extern "C" void h_vec_svector_ops()
{
   V a(DIM); double da[DIM]; dense(a, da);
   El mem[CAP]; SV v(CAP, mem);
   In in; draw(in, 0, NNZ, true); fill(v, in);
   int op = vp_int_in(0, 5);
   double x = vp_small(-4, 4);
   if(op == 0) { a = v; for(int i = 0; i < DIM; ++i) da[i] = in.d[i]; }                       // all other values become 0
   else if(op == 1) { a.assign(v); for(int k = 0; k < NNZ; ++k) if(k < in.n) da[in.ix[k]] = in.va[k]; }   // all other values stay
   else if(op == 2) { a += v; for(int i = 0; i < DIM; ++i) da[i] += in.d[i]; }
   else if(op == 3) { a -= v; for(int i = 0; i < DIM; ++i) da[i] -= in.d[i]; }
   else if(op == 4) { a.multAdd(x, v); for(int i = 0; i < DIM; ++i) da[i] += x * in.d[i]; }
   else { a.multSub(x, v); for(int i = 0; i < DIM; ++i) da[i] -= x * in.d[i]; }
   vp_assert(eq(a, da), 2);
   vp_assert(v.size() == in.n, 3);
   for(int k = 0; k < NNZ; ++k) if(k < in.n) vp_assert(v.index(k) == in.ix[k] && v.value(k) == in.va[k], 4);
   vp_cover(1);
}

// ---- Vector * SVector, Vector * SSVector (set up in list order / by setup() / not set up) -----------------------------------------------
#ifndef VD1
#define VD1 2      // value range of the symbolic sparse operand in part (1)
#define VD2 1      // value range of the symbolic dense operand in part (2)
#endif
static void vec_dot_sparse(int mode)                // 0: SVector operand; 1..3: SSVector listed / sorted / dense
{
   std::shared_ptr<Tolerances> tol = std::make_shared<Tolerances>();
   // (1) sparse operand symbolic (structure and values), dense operand = weights
   {
      V a(DIM); double da[DIM]; weights(a, da);
      In in; draw(in, 0, NNZ, false, VD1);
      El mem[CAP]; SV v(CAP, mem); SSV s(DIM, tol);
      if(mode == 0) { fill(v, in); vp_assert(a * v == refdot(da, in.d), 1); }
      else
      {
         fill_ss(s, in, true);
         if(mode == 2) { s.unSetup(); s.setup(); }
         if(mode == 3) s.unSetup();
         vp_assert(a * s == refdot(da, in.d), 2);
      }
   }
#ifdef DOT_PART2
   // (2) (thorough tier) dense operand symbolic, sparse operand: symbolic structure, concrete values
   {
      V a(DIM); double da[DIM]; dense_small(a, da, VD2);
      In in; draw_struct(in, TAB_S);
      El mem[CAP]; SV v(CAP, mem); SSV s(DIM, tol);
      if(mode == 0) { fill(v, in); vp_assert(a * v == refdot(da, in.d), 3); }
      else
      {
         fill_ss(s, in, true);
         if(mode == 2) { s.unSetup(); s.setup(); }
         if(mode == 3) s.unSetup();
         vp_assert(a * s == refdot(da, in.d), 4);
      }
   }
#endif
   vp_cover(1);
}
extern "C" void h_vec_dot_svector() { vec_dot_sparse(0); }
extern "C" void h_vec_dot_ssvector() { int dense = vp_int_in(0, 1); vec_dot_sparse(dense ? 3 : 1); }   // the symbolic list order includes the sorted one

// ---- dense op= semi-sparse (SSVectorBase, set up or not): =, assign, +=, -=, multAdd --------------------------------------------------
static void vec_ssvector_ops(bool assign_unsetup_only)
{
   std::shared_ptr<Tolerances> tol = std::make_shared<Tolerances>();
   V a(DIM); double da[DIM]; dense(a, da);
   SSV s(DIM, tol);
   In in; draw(in, 0, NNZ, false);
   int setup = vp_int_in(0, 1);
   fill_ss(s, in, setup != 0);
   int op = vp_int_in(0, 4);
   double x = vp_small(-4, 4);
   if(assign_unsetup_only) vp_assume(op == 1 && setup == 0);
   else vp_assume(!(op == 1 && setup == 0));      // that case is its own obligation (h_vec_assign_ssv_unsetup)
   if(op == 0) { a = s; for(int i = 0; i < DIM; ++i) da[i] = in.d[i]; }
   else if(op == 1)
   {  // "Assigns all nonzeros of vec to the vector. All other values remain unchanged."
      a.assign(s);
      for(int k = 0; k < NNZ; ++k) if(k < in.n) da[in.ix[k]] = in.va[k];
   }
   else if(op == 2) { a += s; for(int i = 0; i < DIM; ++i) da[i] += in.d[i]; }
   else if(op == 3) { a -= s; for(int i = 0; i < DIM; ++i) da[i] -= in.d[i]; }
   else { a.multAdd(x, s); for(int i = 0; i < DIM; ++i) da[i] += x * in.d[i]; }
   vp_assert(eq(a, da), 2);
   for(int i = 0; i < DIM; ++i) vp_assert(s[i] == in.d[i], 3);
   vp_assert(s.isSetup() == (setup != 0), 4);
   vp_cover(1);
}
extern "C" void h_vec_ssvector_ops() { vec_ssvector_ops(false); }
// VectorBase::assign(SSVectorBase) with a vector that is not set up
extern "C" void h_vec_assign_ssv_unsetup() { vec_ssvector_ops(true); }

// ---- StableSum<double>: on exactly summable data the compensated sum is the plain sum -------------------------------------------
#ifndef SUMV
#define SUMV 4
#endif
#ifndef NSUM
#define NSUM 3
#endif
extern "C" void h_stablesum()
{
   double init = vp_small(-SUMV, SUMV);
   int useinit = vp_int_in(0, 1);
   StableSum<double> s0;
   StableSum<double> s1(init);
   StableSum<double>& s = useinit ? s1 : s0;
   double ref = useinit ? init : 0.0;
   for(int k = 0; k < NSUM; ++k)
   {
      double x = vp_small(-SUMV, SUMV);
      int sub = vp_int_in(0, 1);
      if(sub) { s -= x; ref -= x; } else { s += x; ref += x; }
   }
   double r = s;
   vp_assert(r == ref, 1);
   vp_cover(1);
}
// ... and it really compensates: 2^53 + 1 + 1 - 2^53 is 2, where the plain left-to-right sum gives 0
extern "C" void h_stablesum_compensates()
{
   int k = vp_int_in(53, 60);
   double big = ldexp(1.0, k);
   StableSum<double> s;
   s += big; s += 1.0; s += 1.0; s -= big;
   double r = s;
   vp_assert(r == 2.0, 1);
   double plain = big; plain += 1.0; plain += 1.0; plain -= big;
   vp_assert(plain == 0.0, 2);
   vp_cover(1);
}
