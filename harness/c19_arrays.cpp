// C19-O3 (+ C17-O2): DataArray<int>, ClassArray<Elem>, Array<Elem> - sequence semantics against a reference array.
// Inductive-step style over the whole (small) state space: a state is (size L, capacity, contents). L and the operation's
// element count N are dispatched to template instantiations so that every allocation size is concrete for the solver;
// contents, positions and the operation are symbolic. Capacity is L+1, so N<=1 stays inside max() and N>=2 goes through
// reMax (spx_realloc for DataArray, allocate+copy-construct for ClassArray): "growing the capacity loses nothing".
#include <vector>
#include <string>
#include <iostream>
#include <cstring>
#include <cassert>
#include <type_traits>
#include "soplex/spxdefines.h"
#include "soplex/spxalloc.h"
#include "soplex/spxid.h"
#define private public
#define protected public
#include "soplex/dataarray.h"
#include "soplex/classarray.h"
#include "soplex/array.h"
#undef private
#undef protected
#include "vp.h"
using namespace soplex;
#ifndef LMAX
#define LMAX 3          // states with size 0..LMAX
#endif
#define NMAX 3          // operations insert/remove/grow by 0..NMAX elements
#define RMAX (LMAX + NMAX + 1)
// element class for ClassArray: user-provided copy operations, second field must travel with the first
struct Elem
{
   int v; int w;
   Elem() : v(0), w(0) {}
   Elem(int a) : v(a), w(3 * a + 1) {}
   Elem(const Elem& o) : v(o.v), w(o.w) {}
   Elem& operator=(const Elem& o) { v = o.v; w = o.w; return *this; }
};
static bool is(const int& x, int a) { return x == a; }
static bool is(const Elem& x, int a) { return x.v == a && x.w == 3 * a + 1; }
static bool isdef(const int& x) { return x == 0; }
static bool isdef(const Elem& x) { return x.v == 0 && x.w == 0; }
typedef DataArray<int> DA;
typedef ClassArray<Elem> CA;
typedef Array<Elem> AR;
template<class A> struct K;
template<> struct K<DA> { typedef int T; enum { DATAARRAY = 1, STDVEC = 0 }; };
template<> struct K<CA> { typedef Elem T; enum { DATAARRAY = 0, STDVEC = 0 }; };
template<> struct K<AR> { typedef Elem T; enum { DATAARRAY = 0, STDVEC = 1 }; };
struct Ref { int n; int v[RMAX]; };
// state (size L, max L+1 resp. capacity L for Array) with symbolic contents
template<class A, int L> static void build(A& a, Ref& r)
{
   typedef typename K<A>::T T;
   if constexpr(K<A>::STDVEC) a.reSize(L); else { a.reMax(L + 1, L); }
   r.n = L;
   for(int i = 0; i < L; ++i) { r.v[i] = vp_int_in(-9, 9); a[i] = T(r.v[i]); }
}
template<class A> static bool same(const A& a, const Ref& r)
{
   if(a.size() != r.n) return false;
   for(int i = 0; i < RMAX; ++i) if(i < r.n && !is(a[i], r.v[i])) return false;
   return true;
}
template<class A> static bool capok(const A& a)
{
   if constexpr(K<A>::STDVEC) return true; else return a.max() >= a.size() && a.max() >= 1 && a.get_const_ptr() != 0;
}
// NLO..NHI: range of the operation's element count handled by one entry (compile-time, keeps the number of objects per run small)
#define ROW(F, A, L, NLO, NHI) { if(NLO <= 0 && 0 <= NHI && n == 0) F<A, L, 0>(); else if(NLO <= 1 && 1 <= NHI && n == 1) F<A, L, 1>(); \
   else if(NLO <= 2 && 2 <= NHI && n == 2) F<A, L, 2>(); else if(NLO <= 3 && 3 <= NHI) F<A, L, 3>(); else F<A, L, NLO>(); }
#if LMAX == 3
#define DISPATCHN(F, A, NLO, NHI) { int l = vp_int_in(0, LMAX); int n = vp_int_in(NLO, NHI); \
   if(l == 0) ROW(F, A, 0, NLO, NHI) else if(l == 1) ROW(F, A, 1, NLO, NHI) else if(l == 2) ROW(F, A, 2, NLO, NHI) else ROW(F, A, 3, NLO, NHI) vp_cover(1); }
#else
#define DISPATCHN(F, A, NLO, NHI) { int l = vp_int_in(0, LMAX); int n = vp_int_in(NLO, NHI); \
   if(l == 0) ROW(F, A, 0, NLO, NHI) else if(l == 1) ROW(F, A, 1, NLO, NHI) else if(l == 2) ROW(F, A, 2, NLO, NHI) else if(l == 3) ROW(F, A, 3, NLO, NHI) \
   else if(l == 4) ROW(F, A, 4, NLO, NHI) else ROW(F, A, LMAX, NLO, NHI) vp_cover(1); }
#endif
#define DISPATCH(F, A) DISPATCHN(F, A, 0, NMAX)

// ------------------------------------------------------------------ insert / append family
// documented: insert(i, ...) inserts BEFORE the i'th element; append == insert at size()
template<class A, int L, int N> static void ins_core(int i, int op)
{
   typedef typename K<A>::T T;
   A a; Ref r; build<A, L>(a, r);
   int tv[NMAX + 1]; T t[NMAX + 1];
   for(int j = 0; j < NMAX + 1; ++j) { tv[j] = vp_int_in(-9, 9); t[j] = T(tv[j]); }
   bool fillv = false; bool uninit = false; int cnt = N;
   if(op == 0) { a.insert(i, N); uninit = true; }
   else if(op == 1) a.insert(i, N, t);
   else if(op == 2) { A o; o.reSize(N); for(int j = 0; j < N; ++j) o[j] = t[j]; a.insert(i, o); vp_assert(o.size() == N, 9); }
   else if(op == 3) { i = L; a.append(N, t); }
   else if(op == 4) { i = L; A o; o.reSize(N); for(int j = 0; j < N; ++j) o[j] = t[j]; a.append(o); }
   else if(op == 5) { i = L; a.append(t[0]); cnt = 1; }
   else if(op == 6) { if constexpr(K<A>::STDVEC || K<A>::DATAARRAY) { a.insert(i, N, t[0]); fillv = true; } else a.insert(i, N, t); }
   else { if constexpr(K<A>::STDVEC || K<A>::DATAARRAY) { i = L; a.append(N, t[0]); fillv = true; } else { i = L; a.append(N, t); } }
   vp_assert(a.size() == L + cnt && capok(a), 1);
   for(int p = 0; p < LMAX; ++p) if(p < i) vp_assert(is(a[p], r.v[p]), 2);                       // prefix keeps position
   for(int p = 0; p < LMAX; ++p) if(p >= i && p < L) vp_assert(is(a[p + cnt], r.v[p]), 3);       // suffix shifted by cnt
   if(!uninit) for(int j = 0; j < NMAX; ++j) if(j < cnt) vp_assert(is(a[i + j], fillv ? tv[0] : tv[j]), 4);
}
// MODE 0: all operations, position 0..L; MODE 1: append operations only; MODE 2: insert operations only, position 1..L
template<class A, int L, int N, int MODE> static void ins_body_m()
{
   int i = vp_int_in(MODE == 2 ? 1 : 0, L);
   int op = vp_int_in(0, 7);
   if(MODE == 1) vp_assume(op == 3 || op == 4 || op == 5 || op == 7);
   if(MODE == 2) vp_assume(op == 0 || op == 1 || op == 2 || op == 6);
   // position and operation are symbolic, but handed to the code as constants per path: memmove lengths must be concrete for the solver
   for(int I = (MODE == 2 ? 1 : 0); I <= (MODE == 1 ? 0 : L); ++I) if(i == I || MODE == 1)
   {
      if(MODE == 0) { ins_core<A, L, N>(I, op); continue; }     // operation stays symbolic inside
      for(int OP = 0; OP <= 7; ++OP)
      {
         bool app = (OP == 3 || OP == 4 || OP == 5 || OP == 7);
         if((MODE == 1 && !app) || (MODE == 2 && app)) continue;
         if(op == OP) ins_core<A, L, N>(I, OP);
      }
   }
}
template<class A, int L, int N> static void ins_body() { ins_body_m<A, L, N, 0>(); }
template<class A, int L, int N> static void app_body() { ins_body_m<A, L, N, 1>(); }
template<class A, int L, int N> static void insonly_body() { ins_body_m<A, L, N, 2>(); }
// ------------------------------------------------------------------ remove / removeLast / shrinking reSize / clear
template<class A, int L, int N> static void rem_core(int i, int op)
{
   A a; Ref r; build<A, L>(a, r);
   int mx0 = 0; const void* p0 = a.get_const_ptr();
   if constexpr(!K<A>::STDVEC) mx0 = a.max();
   int at = L; int cnt = 0;      // expected: elements [at, at+cnt) disappear
   if(op == 0 && i < L)
   {  // remove(n, m): "remove m elements starting at n". DataArray and Array clamp m to the end of the array; ClassArray requires n+m<=size()
      if(K<A>::DATAARRAY || K<A>::STDVEC || i + N <= L) { a.remove(i, N); at = i; cnt = (i + N <= L) ? N : L - i; }
   }
   else if(op == 1 && N <= L)
   {
      if constexpr(K<A>::STDVEC) a.reSize(L - N); else a.removeLast(N);
      at = L - N; cnt = N;
   }
   else if(op == 2 && N <= L) { a.reSize(L - N); at = L - N; cnt = N; }
   else if(op == 3) { a.clear(); at = 0; cnt = L; }
   else if(op == 4 && i < L && N == 1) { a.remove(i); at = i; cnt = 1; }   // default m = 1
   vp_assert(a.size() == L - cnt && capok(a), 1);
   for(int p = 0; p < LMAX; ++p) if(p < at) vp_assert(is(a[p], r.v[p]), 2);
   for(int p = 0; p < LMAX; ++p) if(p >= at + cnt && p < L) vp_assert(is(a[p - cnt], r.v[p]), 3);
   if constexpr(!K<A>::STDVEC) vp_assert(a.max() == mx0 && a.get_const_ptr() == p0, 4);         // shrinking never reallocates
}
template<class A, int L, int N> static void rem_body()
{
   int i = vp_int_in(0, LMAX);
   int op = vp_int_in(0, 4);
   for(int I = 0; I <= LMAX; ++I) if(i == I) rem_core<A, L, N>(I, op);
}
// ------------------------------------------------------------------ growing reSize / reMax: the prefix is preserved
template<class A, int L, int N> static void grow_body()
{
   A a; Ref r; build<A, L>(a, r);
   int op = vp_int_in(0, 3);
   int newsize = L;
   if constexpr(K<A>::STDVEC) { a.reSize(L + N); newsize = L + N; for(int j = 0; j < NMAX; ++j) if(j < N) vp_assert(isdef(a[L + j]), 5); }
   else
   {
      if(op == 0) { a.reSize(L + N); newsize = L + N; if(N <= 1) vp_assert(a.max() == L + 1, 5); }
      else if(op == 1) { a.reMax(L + 1 + N); vp_assert(a.max() == L + 1 + N, 6); }               // capacity only
      else if(op == 2) { a.reMax(L + N, L + N); newsize = L + N; vp_assert(a.max() == (L + N < 1 ? 1 : L + N), 7); }   // capacity and size
      else { a.reSize(-1 - N); newsize = 0; }                                                      // negative => empty
   }
   vp_assert(a.size() == newsize && capok(a), 1);
   for(int p = 0; p < LMAX; ++p) if(p < L && p < newsize) vp_assert(is(a[p], r.v[p]), 2);
   // the grown array is usable up to its new size
   for(int p = 0; p < RMAX; ++p) if(p < newsize) a[p] = typename K<A>::T(p + 20);
   for(int p = 0; p < RMAX; ++p) if(p < newsize) vp_assert(is(a[p], p + 20), 3);
}
// reMax with newMax below size(): documented "size() remains unchanged and max() is set to MIN(size(), newMax)" - a capacity
// below the size cannot be meant (isConsistent() demands themax >= thesize): max() must end up >= size() and nothing is lost
template<class A, int L, int N> static void remax_small_body()
{
   A a; Ref r; build<A, L>(a, r);
   a.reMax(N);                                                                                    // N in 0..3 vs size L in 0..LMAX
   vp_assert(a.size() == L, 1);
   vp_assert(a.max() >= a.size() && a.max() >= 1, 2);
   vp_assert(a.max() == (N > L ? N : (L < 1 ? 1 : L)), 4);
   for(int p = 0; p < LMAX; ++p) if(p < L) vp_assert(is(a[p], r.v[p]), 3);
}
// ------------------------------------------------------------------ C17-O2: copies are equal and independent
// overwrite all elements, then one arbitrary size-changing operation
template<class A, int L> static void mutate(A& m)
{
   typedef typename K<A>::T T;
   for(int p = 0; p < L; ++p) m[p] = T(77);
   int op = vp_int_in(0, 3); int i = vp_int_in(0, LMAX);
   T x(5);
   if(op == 0) m.append(x);
   else if(op == 1) { for(int I = 0; I < L; ++I) if(i == I) m.remove(I, 1); }
   else if(op == 2) m.clear();
   else m.reSize(L + 2);
}
// L = source size; N selects the target of the assignment: 0 copy ctor, 1 assign to empty default object, 2 assign to a larger
// non-empty object (no reallocation), 3 assign to a smaller non-empty object with tight capacity (reallocation)
template<class A, int L, int N> static void copy_body()
{
   typedef typename K<A>::T T;
   A a; Ref r; build<A, L>(a, r);
   A t1; A t2; A t3;
   t2.reSize(L + 2); for(int j = 0; j < L + 2; ++j) t2[j] = T(50 + j);
   if constexpr(K<A>::STDVEC) { t3.reSize(1); } else { t3.reMax(1, 1); } t3[0] = T(60);
   A c0(N == 0 ? a : t1);
   if(N == 1) t1 = a;
   if(N == 2) t2 = a;
   if(N == 3) t3 = a;
   A& c = (N == 0) ? c0 : (N == 1) ? t1 : (N == 2) ? t2 : t3;
   vp_assert(same(c, r) && capok(c), 1);
   vp_assert(same(a, r), 2);
   vp_assert(L == 0 || c.get_const_ptr() != a.get_const_ptr(), 3);
   if constexpr(!K<A>::STDVEC) vp_assert(c.get_const_ptr() != a.get_const_ptr(), 7);
   int which = vp_int_in(0, 1);
   // (no symbolic reference to the mutated object: it may be reallocated)
   if(which) { mutate<A, L>(c); vp_assert(same(a, r), 4); a = a; vp_assert(same(a, r), 5); }
   else { mutate<A, L>(a); vp_assert(same(c, r), 4); c = c; vp_assert(same(c, r), 5); }     // self-assignment is a no-op
}

extern "C" void h_dataarray_insert_step_n01() DISPATCHN(ins_body, DA, 0, 1)
extern "C" void h_dataarray_insert_step_n23() DISPATCHN(ins_body, DA, 2, 3)
extern "C" void h_dataarray_remove_step() DISPATCH(rem_body, DA)
extern "C" void h_dataarray_grow_step() DISPATCH(grow_body, DA)
extern "C" void h_dataarray_remax_small_step() DISPATCH(remax_small_body, DA)
extern "C" void h_dataarray_copy() DISPATCH(copy_body, DA)
extern "C" void h_classarray_insert_step_n01() DISPATCHN(ins_body, CA, 0, 1)
extern "C" void h_classarray_insert_step_n23() DISPATCHN(ins_body, CA, 2, 3)
extern "C" void h_classarray_remove_step() DISPATCH(rem_body, CA)
extern "C" void h_classarray_grow_step() DISPATCH(grow_body, CA)
extern "C" void h_classarray_remax_small_step() DISPATCH(remax_small_body, CA)
extern "C" void h_classarray_copy() DISPATCH(copy_body, CA)
extern "C" void h_array_append_step_n01() DISPATCHN(app_body, AR, 0, 1)
extern "C" void h_array_append_step_n23() DISPATCHN(app_body, AR, 2, 3)
extern "C" void h_array_insert_step_n1() DISPATCHN(insonly_body, AR, 1, 1)
extern "C" void h_array_insert_step_n2() DISPATCHN(insonly_body, AR, 2, 2)
extern "C" void h_array_remove_step() DISPATCH(rem_body, AR)
extern "C" void h_array_grow_step() DISPATCH(grow_body, AR)
extern "C" void h_array_copy_ctor() DISPATCHN(copy_body, AR, 0, 0)
extern "C" void h_array_assign_empty() DISPATCHN(copy_body, AR, 1, 1)
extern "C" void h_array_assign_larger() DISPATCHN(copy_body, AR, 2, 2)
extern "C" void h_array_assign_smaller() DISPATCHN(copy_body, AR, 3, 3)

