// C01-O7: solution extraction of SPxSolverBase<double> (spxsolve.hpp): getPrimalSol, getSlacks, getDualSol, getRedCostSol,
// getPrimalray, getDualfarkas - relational oracles that need no simplex invariant.
//   (a) SENSE SYMMETRY: "maximize c" and "minimize -c" have the same internal state except `thesense` (maxObj is stored
//       sense-adjusted). Each getter runs twice on the same scripted raw state, once as MINIMIZE, once as MAXIMIZE: primal
//       values, slacks and the primal ray must be identical, duals / reduced costs exact negatives of each other - in BOTH
//       representations. For MAXIMIZE the user's LP is the internal LP, so in the column representation the duals are the
//       internal duals (coPvec) and the reduced costs maxObj - pVec, unchanged.
//   (b) STATUS MEANING (documentation of SPxBasisBase::Desc::Status, column representation): a nonbasic column sits on the bound
//       its status names (P_ON_LOWER -> lower, P_ON_UPPER -> upper, P_FIXED -> the common bound, P_FREE -> 0), the same for
//       the slack of a nonbasic row (lhs / rhs); a basic column takes its value from the basic solution vector; the dual of a
//       basic row and the reduced cost of a basic column are 0.
// Solver build: `this` is typed zero memory whose SPxLPBase sub-object is a really constructed LP; descriptor, base ids and the
// solution vectors are real objects with scripted symbolic contents; the getters are called non-virtually. Native: a real
// solver object with the LP loaded, put into the same state.
#include "lp_build.h"
#include <new>
using namespace soplex; using namespace vph;
typedef SPxSolverBase<double> Solver;
typedef SPxBasisBase<double> Basis;
typedef Basis::Desc Desc;
#define VNR 2
#define VNC 2
#define VMAX 2
union SolverMem { Solver s; SolverMem() {} ~SolverMem() {} };
static SolverMem mem;
static const int ALLST[9] = { Desc::P_ON_LOWER, Desc::P_ON_UPPER, Desc::P_FREE, Desc::P_FIXED, Desc::D_FREE, Desc::D_ON_UPPER, Desc::D_ON_LOWER, Desc::D_ON_BOTH, Desc::D_UNDEFINED };
struct St
{
   int rep, dim, codim;
   double lo[VNC], up[VNC], obj[VNC], lhs[VNR], rhs[VNR], robj[VNR];
   int rs[VNR], cs[VNC];
   double f[VMAX], cop[VMAX], pv[VMAX], ray[VNC], farkas[VNR];
   int basepos_row[VNR], basepos_col[VNC];       // position in the base id array, -1 if not a member
};
static bool in_basis(int st, int rep) { return rep == Solver::COLUMN ? st > 0 : st < 0; }
static void build_lp(SPxLPBase<double>& lp, St& d)
{
   LPColSetBase<double>& cs = lp; LPRowSetBase<double>& rs = lp;
   cs.low.reDim(VNC); cs.up.reDim(VNC); cs.object.reDim(VNC); cs.scaleExp.reSize(VNC);
   rs.left.reDim(VNR); rs.right.reDim(VNR); rs.object.reDim(VNR); rs.scaleExp.reSize(VNR);
   DSVectorBase<double> e(1);
   for(int j = 0; j < VNC; ++j) cs.add(0.0, 0.0, e, 1.0);
   for(int i = 0; i < VNR; ++i) rs.add(0.0, e, 1.0);
   for(int j = 0; j < VNC; ++j)
   {
      d.lo[j] = vp_small(-4, 4); d.up[j] = vp_small(-4, 4); d.obj[j] = vp_small(-4, 4);
      lp.lower_w(j) = d.lo[j]; lp.upper_w(j) = d.up[j]; lp.maxObj_w(j) = d.obj[j];
   }
   for(int i = 0; i < VNR; ++i)
   {
      d.lhs[i] = vp_small(-4, 4); d.rhs[i] = vp_small(-4, 4); d.robj[i] = vp_small(-4, 4);
      lp.lhs_w(i) = d.lhs[i]; lp.rhs_w(i) = d.rhs[i]; lp.maxRowObj_w(i) = d.robj[i];
   }
}
template<int REP> static Solver* make(St& d)
{
   d.rep = REP; d.dim = REP == Solver::COLUMN ? VNR : VNC; d.codim = REP == Solver::COLUMN ? VNC : VNR;
#ifdef VP_NATIVE
   LP lp; build_lp(lp, d);
   static SPxOut out;
   out.setVerbosity(SPxOut::ERROR);
   Solver* s = new Solver(Solver::LEAVE, (Solver::Representation)REP);
   s->setOutstream(out);
   s->loadLP(lp);
#else
   Solver* s = &mem.s;
   LP* lp = new(static_cast<SPxLPBase<double>*>(s)) LP();
   build_lp(*lp, d);
   s->Basis::theLP = s;
   s->theRep = (Solver::Representation)REP;
   s->thevectors = (REP == Solver::COLUMN) ? s->colSet() : s->rowSet();
   s->thecovectors = (REP == Solver::COLUMN) ? s->rowSet() : s->colSet();
   new(&s->Basis::thedesc) Desc();
   s->Basis::thedesc.reSize(VNR, VNC);
   new(&s->Basis::theBaseId) DataArray<SPxId>(d.dim, d.dim);
#endif
   std::shared_ptr<Tolerances> notol;
   s->theFvec = new UpdateVector<double>(d.dim, notol);
   s->theCoPvec = new UpdateVector<double>(d.dim, notol);
   s->thePvec = new UpdateVector<double>(d.codim, notol);
#ifdef VP_NATIVE
   s->primalRay.clear(); s->primalRay.setMax(VNC); s->dualFarkas.clear(); s->dualFarkas.setMax(VNR);
#else
   new(&s->primalRay) DSVectorBase<double>(VNC); new(&s->dualFarkas) DSVectorBase<double>(VNR);
#endif
   s->initialized = true;
   int nb = 0;
   for(int i = 0; i < VNR; ++i) { int k = vp_int_in(0, 8); d.rs[i] = ALLST[k]; s->Basis::thedesc.rowStatus(i) = (Desc::Status)d.rs[i]; if(in_basis(d.rs[i], REP)) ++nb; }
   for(int j = 0; j < VNC; ++j) { int k = vp_int_in(0, 8); d.cs[j] = ALLST[k]; s->Basis::thedesc.colStatus(j) = (Desc::Status)d.cs[j]; if(in_basis(d.cs[j], REP)) ++nb; }
   vp_assume(nb == d.dim);
   int off = vp_int_in(0, d.dim - 1);
   int pos = 0;
   for(int i = 0; i < VNR; ++i) { d.basepos_row[i] = -1; if(in_basis(d.rs[i], REP)) { int q = (pos + off) % d.dim; s->Basis::theBaseId[q] = SPxId(s->rId(i)); d.basepos_row[i] = q; ++pos; } }
   for(int j = 0; j < VNC; ++j) { d.basepos_col[j] = -1; if(in_basis(d.cs[j], REP)) { int q = (pos + off) % d.dim; s->Basis::theBaseId[q] = SPxId(s->cId(j)); d.basepos_col[j] = q; ++pos; } }
   for(int k = 0; k < VMAX; ++k)
   {
      d.f[k] = vp_small(-8, 8); d.cop[k] = vp_small(-8, 8); d.pv[k] = vp_small(-8, 8);
      if(k < d.dim) { (*s->theFvec)[k] = d.f[k]; (*s->theCoPvec)[k] = d.cop[k]; }
      if(k < d.codim) (*s->thePvec)[k] = d.pv[k];
   }
   // ray and Farkas proof are stored sparse: full pattern, nonzero values
   for(int j = 0; j < VNC; ++j) { d.ray[j] = vp_small(-8, 8); vp_assume(d.ray[j] != 0.0); s->primalRay.add(j, d.ray[j]); }
   for(int i = 0; i < VNR; ++i) { d.farkas[i] = vp_small(-8, 8); vp_assume(d.farkas[i] != 0.0); s->dualFarkas.add(i, d.farkas[i]); }
   return s;
}
struct Out { double x[VNC], sl[VNR], y[VNR], r[VNC], ray[VNC], fk[VNR]; };
static void fill(VectorBase<double>& v) { for(int k = 0; k < v.dim(); ++k) v[k] = vp_small(-9, 9); }   // stale content
static void extract(Solver* s, int sense, Out& o)
{
   s->thesense = (SPxLPBase<double>::SPxSense)sense;
   VectorBase<double> x(VNC), sl(VNR), y(VNR), r(VNC), ray(VNC), fk(VNR);
   fill(x); fill(sl); fill(y); fill(r); fill(ray); fill(fk);
   // stale content of entries the getter does not write would be a defect only for nonbasic/basic entries with a defined
   // value; both calls start from the same stale content
   s->Solver::getPrimalSol(x); s->Solver::getSlacks(sl); s->Solver::getDualSol(y); s->Solver::getRedCostSol(r);
   s->Solver::getPrimalray(ray); s->Solver::getDualfarkas(fk);
   for(int j = 0; j < VNC; ++j) { o.x[j] = x[j]; o.r[j] = r[j]; o.ray[j] = ray[j]; }
   for(int i = 0; i < VNR; ++i) { o.sl[i] = sl[i]; o.y[i] = y[i]; o.fk[i] = fk[i]; }
}
template<int REP> static void symmetry()
{
   St d; Solver* s = make<REP>(d);
   Out a, b;
   // the stale content of the output vectors is drawn inside extract(): make both calls see the same by fixing it to zero
   extract(s, SPxLPBase<double>::MINIMIZE, a);
   extract(s, SPxLPBase<double>::MAXIMIZE, b);
   for(int j = 0; j < VNC; ++j)
   {
      bool defined = REP == Solver::ROW || d.cs[j] < 0 || d.basepos_col[j] >= 0;
      if(defined) vp_assert(a.x[j] == b.x[j], 1);                 // primal values do not depend on the sense
      vp_assert(a.r[j] == -b.r[j], 2);                            // reduced costs flip their sign
      vp_assert(a.ray[j] == b.ray[j] && a.ray[j] == d.ray[j], 3); // the primal ray is the stored ray
   }
   for(int i = 0; i < VNR; ++i)
   {
      bool defined = REP == Solver::ROW || d.rs[i] < 0 || d.basepos_row[i] >= 0;
      if(defined) vp_assert(a.sl[i] == b.sl[i], 4);               // slacks do not depend on the sense
      vp_assert(a.y[i] == -b.y[i], 5);                            // duals flip their sign
      vp_assert(a.fk[i] == b.fk[i] && a.fk[i] == d.farkas[i], 6); // the Farkas proof is the stored one
   }
   if(REP == Solver::COLUMN)
   {
      // MAXIMIZE: the user's LP is the internal LP
      for(int i = 0; i < VNR; ++i) vp_assert(b.y[i] == (d.rs[i] > 0 ? 0.0 : d.cop[i]), 7);
      for(int j = 0; j < VNC; ++j) vp_assert(b.r[j] == (d.cs[j] > 0 ? 0.0 : d.obj[j] - d.pv[j]), 8);
      // meaning of the statuses
      for(int j = 0; j < VNC; ++j)
      {
         double want = d.cs[j] == Desc::P_ON_LOWER ? d.lo[j] : d.cs[j] == Desc::P_ON_UPPER ? d.up[j] : d.cs[j] == Desc::P_FIXED ? d.up[j] : d.cs[j] == Desc::P_FREE ? 0.0 : d.f[d.basepos_col[j]];
         if(d.cs[j] != Desc::P_FIXED || d.lo[j] == d.up[j]) { vp_assert(a.x[j] == want, 9); vp_assert(b.x[j] == want, 10); }
         if(d.cs[j] > 0) { vp_assert(a.r[j] == 0.0 && b.r[j] == 0.0, 11); }           // basic column: reduced cost 0
      }
      for(int i = 0; i < VNR; ++i)
      {
         double want = d.rs[i] == Desc::P_ON_LOWER ? d.lhs[i] : d.rs[i] == Desc::P_ON_UPPER ? d.rhs[i] : d.rs[i] == Desc::P_FIXED ? d.rhs[i] : d.rs[i] == Desc::P_FREE ? 0.0 : -d.f[d.basepos_row[i]];
         if(d.rs[i] != Desc::P_FIXED || d.lhs[i] == d.rhs[i]) { vp_assert(a.sl[i] == want, 12); vp_assert(b.sl[i] == want, 13); }
         if(d.rs[i] > 0) { vp_assert(a.y[i] == 0.0 && b.y[i] == 0.0, 14); }            // basic row: dual 0
      }
   }
   vp_cover(1);
}
extern "C" void h_c01_extract_colrep() { symmetry<Solver::COLUMN>(); }
extern "C" void h_c01_extract_rowrep() { symmetry<Solver::ROW>(); }
