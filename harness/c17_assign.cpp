// C17-O3: SoPlexBase<double>::operator=(const SoPlexBase<double>&)  (soplex.hpp 1428-1590; the copy constructor is
// "allocate statistics + settings, _rationalLP = nullptr, *this = rhs").
// Property text: "A copy-constructed or assigned solver has the same LP, parameters, basis, status and solution as its source,
// and afterwards the two are independent: modifying, solving or destroying one has no effect on the other."
//
// Contract style. Solver build: target A and source B are two typed zero-memory SoPlex objects (no constructor run); only the
// fields operator= reads are set up: real Settings objects (symbolic SIMPLIFIER / SCALER / STARTER values), the selector
// pointers of B (consistent with B's settings), B._realLP (= &B._solver or a separate LP object), B._rationalLP (null or an
// object), the scalar flags, B._solver.lp_scaler (what persistent scaling leaves behind), the Tolerances pointers.
// REAL code that is encoded: SoPlexBase::operator=, SoPlexBase::setIntParam (re-targets _simplifier/_scaler/_starter),
// Settings::operator=, SPxSolverBase<double>::operator= and SPxLPBase<double>::operator= / copy constructor (their container
// callees are cut: no effect). The assignment operators of the ~30 component members are replaced by recording models
// (which component of A is assigned from which component of B); std::shared_ptr<Tolerances>::operator= is replaced by its
// meaning (the target shares the source's pointee); Rational::operator=(const Rational&) moves an opaque token.
// Native build (replay on the real code): two real SoPlex objects brought into the corresponding state through the public
// API (plus direct writes of the private flags; the state "_realLP held outside the solver" is produced by hand, it is not
// reachable through the public API after a solve).
#include "soplex_all.h"
#include <new>
using namespace soplex;
typedef SoPlex SP;
typedef SPxLPBase<double> RLP;
typedef SPxLPBase<Rational> QLP;
typedef SPxSolverBase<double> SOLVER;

union SoPlexMem { SP sp; SoPlexMem() {} ~SoPlexMem() {} };
#ifndef VP_NATIVE
static SoPlexMem memA, memB;
union TolMem { Tolerances t; TolMem() {} ~TolMem() {} };
static TolMem tolA, tolB;
union StatMem { SP::Statistics s; StatMem() {} ~StatMem() {} };
static StatMem statA, statB;
union RLPMem { RLP lp; RLPMem() {} ~RLPMem() {} };
static RLPMem rlpB;
#endif

// the pointee of a shared_ptr<Tolerances> (first field of the shared_ptr object; std headers are not opened up by soplex_all.h)
static const Tolerances* tol_ptr(const SP* o)
{
#ifdef VP_NATIVE
   return o->_tolerances.get();
#else
   return *(Tolerances* const*)&o->_tolerances;
#endif
}
static void set_tol(SP* o, Tolerances* t) { *(Tolerances**)&o->_tolerances = t; }

// ---- which member is it? (equality comparisons only) --------------------------------------------------------------
static int scaler_idx(const SP* o, const SPxScaler<double>* p)
{
   if(p == nullptr) return 0;
   if(p == &o->_scalerUniequi) return 1;
   if(p == &o->_scalerBiequi) return 2;
   if(p == &o->_scalerGeo1) return 3;
   if(p == &o->_scalerGeo8) return 4;
   if(p == &o->_scalerLeastsq) return 5;
   if(p == &o->_scalerGeoequi) return 6;
   return -1;
}
static int simplifier_idx(const SP* o, const SPxSimplifier<double>* p)
{
   if(p == nullptr) return 0;
   if(p == &o->_simplifierMainSM) return 1;
   if(p == &o->_simplifierPaPILO) return 2;
   return -1;
}
static int starter_idx(const SP* o, const SPxStarter<double>* p)
{
   if(p == nullptr) return 0;
   if(p == &o->_starterWeight) return 1;
   if(p == &o->_starterSum) return 2;
   if(p == &o->_starterVector) return 3;
   return -1;
}
// documented meaning of the selector parameters (soplex.h: SCALER_*, SIMPLIFIER_*, STARTER_*); used to set up B
static SPxScaler<double>* scaler_of(SP* o, int v)
{
   switch(v)
   {
   case SP::SCALER_UNIEQUI: return &o->_scalerUniequi;
   case SP::SCALER_BIEQUI: return &o->_scalerBiequi;
   case SP::SCALER_GEO1: return &o->_scalerGeo1;
   case SP::SCALER_GEO8: return &o->_scalerGeo8;
   case SP::SCALER_LEASTSQ: return &o->_scalerLeastsq;
   case SP::SCALER_GEOEQUI: return &o->_scalerGeoequi;
   default: return nullptr;
   }
}
static SPxSimplifier<double>* simplifier_of(SP* o, int v) { if(v == SP::SIMPLIFIER_OFF) return nullptr; return &o->_simplifierMainSM; }  // no PaPILO in this build
static SPxStarter<double>* starter_of(SP* o, int v)
{
   switch(v)
   {
   case SP::STARTER_WEIGHT: return &o->_starterWeight;
   case SP::STARTER_SUM: return &o->_starterSum;
   case SP::STARTER_VECTOR: return &o->_starterVector;
   default: return nullptr;
   }
}

// ---- recording of component assignments (solver build) ---------------------------------------------------------------
enum { K_spxout, K_stat, K_slu, K_simpMain, K_simpPapilo, K_scUni, K_scBi, K_scGeo1, K_scGeo8, K_scGeoequi, K_scLsq, K_stWeight, K_stSum,
       K_stVector, K_prAuto, K_prDantzig, K_prParMult, K_prDevex, K_prQuickSteep, K_prSteep, K_rtTextbook, K_rtHarris, K_rtFast, K_rtBF,
       K_basRows, K_basCols, K_solReal, K_solRat, K_rowTypes, K_colTypes, K_ratLU, K_ratLUBind, K_COUNT };
static const void* g_compA[K_COUNT];
static const void* g_compB[K_COUNT];
static int g_seen[K_COUNT];      // how often component k of A was assigned from component k of B
static int g_ncalls;             // recorded callee invocations (assignments, allocations, LP copies, ...)
static int g_badassign;          // an assignment whose target is not a component of A or whose source is not the SAME component of B
static void comps(SP* o, SP::Statistics* st, const void** c)
{
   c[K_spxout] = &o->spxout; c[K_stat] = st; c[K_slu] = &o->_slufactor; c[K_simpMain] = &o->_simplifierMainSM; c[K_simpPapilo] = &o->_simplifierPaPILO;
   c[K_scUni] = &o->_scalerUniequi; c[K_scBi] = &o->_scalerBiequi; c[K_scGeo1] = &o->_scalerGeo1; c[K_scGeo8] = &o->_scalerGeo8;
   c[K_scGeoequi] = &o->_scalerGeoequi; c[K_scLsq] = &o->_scalerLeastsq; c[K_stWeight] = &o->_starterWeight; c[K_stSum] = &o->_starterSum;
   c[K_stVector] = &o->_starterVector; c[K_prAuto] = &o->_pricerAuto; c[K_prDantzig] = &o->_pricerDantzig; c[K_prParMult] = &o->_pricerParMult;
   c[K_prDevex] = &o->_pricerDevex; c[K_prQuickSteep] = &o->_pricerQuickSteep; c[K_prSteep] = &o->_pricerSteep;
   c[K_rtTextbook] = &o->_ratiotesterTextbook; c[K_rtHarris] = &o->_ratiotesterHarris; c[K_rtFast] = &o->_ratiotesterFast;
   c[K_rtBF] = &o->_ratiotesterBoundFlipping; c[K_basRows] = &o->_basisStatusRows; c[K_basCols] = &o->_basisStatusCols;
   c[K_solReal] = &o->_solReal; c[K_solRat] = &o->_solRational; c[K_rowTypes] = &o->_rowTypes; c[K_colTypes] = &o->_colTypes;
   c[K_ratLU] = &o->_rationalLUSolver; c[K_ratLUBind] = &o->_rationalLUSolverBind;
}
static void rec_assign(const void* self, const void* rhs)
{
   g_ncalls++;
   int i = -1, j = -1;
   for(int k = 0; k < K_COUNT; ++k) { if(g_compA[k] == self) i = k; if(g_compB[k] == rhs) j = k; }
   if(i < 0 || i != j) { g_badassign++; return; }
   g_seen[i]++;
}
// opaque rational constants: token of each of the 5 per object
enum { Q_posInf, Q_negInf, Q_feastol, Q_opttol, Q_maxscale, Q_COUNT };
static int g_tokA[Q_COUNT], g_tokB[Q_COUNT];
static Rational* qcell(SP* o, int k)
{
   switch(k)
   {
   case Q_posInf: return &o->_rationalPosInfty;
   case Q_negInf: return &o->_rationalNegInfty;
   case Q_feastol: return &o->_rationalFeastol;
   case Q_opttol: return &o->_rationalOpttol;
   default: return &o->_rationalMaxscaleincr;
   }
}
static SP* g_A; static SP* g_B;
static int g_qlpCopies; static const void* g_qlpCopySrc; static const void* g_qlpCopyDst;
static int g_qlpCleared, g_frees;

#ifndef VP_NATIVE
#define ASSIGN_MODEL(name, T) T* m_as_##name(T* self, const T* rhs) { rec_assign(self, rhs); return self; }
extern "C" {
ASSIGN_MODEL(spxout, SPxOut)
ASSIGN_MODEL(stat, SP::Statistics)
ASSIGN_MODEL(slu, SLUFactor<double>)
ASSIGN_MODEL(mainsm, SPxMainSM<double>)
ASSIGN_MODEL(presol, Presol<double>)
ASSIGN_MODEL(equi, SPxEquiliSC<double>)
ASSIGN_MODEL(geo, SPxGeometSC<double>)
ASSIGN_MODEL(lsq, SPxLeastSqSC<double>)
ASSIGN_MODEL(weightst, SPxWeightST<double>)
ASSIGN_MODEL(sumst, SPxSumST<double>)
ASSIGN_MODEL(vectorst, SPxVectorST<double>)
ASSIGN_MODEL(autopr, SPxAutoPR<double>)
ASSIGN_MODEL(dantzig, SPxDantzigPR<double>)
ASSIGN_MODEL(parmult, SPxParMultPR<double>)
ASSIGN_MODEL(devex, SPxDevexPR<double>)
ASSIGN_MODEL(steep, SPxSteepPR<double>)
ASSIGN_MODEL(steepex, SPxSteepExPR<double>)
ASSIGN_MODEL(defrt, SPxDefaultRT<double>)
ASSIGN_MODEL(harris, SPxHarrisRT<double>)
ASSIGN_MODEL(fastrt, SPxFastRT<double>)
ASSIGN_MODEL(bfrt, SPxBoundFlippingRT<double>)
ASSIGN_MODEL(varstat, DataArray<SOLVER::VarStatus>)
ASSIGN_MODEL(solreal, SolBase<double>)
ASSIGN_MODEL(solrat, SolBase<Rational>)
ASSIGN_MODEL(rangetypes, DataArray<SP::RangeType>)
ASSIGN_MODEL(ratlu, SLUFactorRational)
// DataArray<int> is also used inside SPxSolverBase (isInfeasible, ...): only assignments touching _rationalLUSolverBind count
DataArray<int>* m_as_intarr(DataArray<int>* self, const DataArray<int>* rhs)
{
   if((const void*)self == g_compA[K_ratLUBind] || (const void*)rhs == g_compB[K_ratLUBind]) rec_assign(self, rhs);
   return self;
}
// std::shared_ptr<Tolerances>::operator=(const shared_ptr&): afterwards the target refers to the source's pointee
std::shared_ptr<Tolerances>* m_tol_assign(std::shared_ptr<Tolerances>* self, const std::shared_ptr<Tolerances>* rhs)
{
   g_ncalls++;
   *(Tolerances**)self = *(Tolerances* const*)rhs;
   return self;
}
// Rational::operator=(const Rational&): token moves
typedef boost::multiprecision::backends::gmp_rational GMPQ;
GMPQ* m_q_assign(GMPQ* self, const GMPQ* rhs)
{
   g_ncalls++;
   int i = -1, j = -1;
   for(int k = 0; k < Q_COUNT; ++k) { if((const void*)qcell(g_A, k) == (const void*)self) i = k; if((const void*)qcell(g_B, k) == (const void*)rhs) j = k; }
   if(i < 0 || j < 0) { g_badassign++; return self; }
   g_tokA[i] = g_tokB[j];
   return self;
}
// rational LP: copy constructor / clear / destructor are recorded
void m_qlp_copy(QLP* self, const QLP* old) { g_ncalls++; g_qlpCopies++; g_qlpCopySrc = old; g_qlpCopyDst = self; }
void m_clearLPRational(SP* self) { g_ncalls++; g_qlpCleared++; }
}
#endif

// ---- set-up ------------------------------------------------------------------------------------------------------
struct Pre
{
   int simp, scal, start;          // B's selector parameters
   int asimp, ascal, astart;       // A's previous selector parameters
   bool loaded, scaled, hasRat, aHasRat;
   bool hasBasis, hasSolReal, hasSolRat, polishing, lpScaledFlag;
   int status, lastSolveMode;
};
static void draw(Pre& p)
{
   p.simp = vp_int_in(0, 3); p.scal = vp_int_in(0, 6); p.start = vp_int_in(0, 3);
   p.asimp = vp_int_in(0, 3); p.ascal = vp_int_in(0, 6); p.astart = vp_int_in(0, 3);
   vp_assume(p.simp != SP::SIMPLIFIER_PAPILO && p.asimp != SP::SIMPLIFIER_PAPILO);   // not available in this build (setIntParam refuses it)
   p.loaded = vp_nondet_bool(); p.scaled = vp_nondet_bool(); p.hasRat = vp_nondet_bool(); p.aHasRat = vp_nondet_bool();
   p.hasBasis = vp_nondet_bool(); p.hasSolReal = vp_nondet_bool(); p.hasSolRat = vp_nondet_bool(); p.polishing = vp_nondet_bool();
   p.lpScaledFlag = vp_nondet_bool();
   p.status = vp_int_in(-15, 6);
   p.lastSolveMode = vp_int_in(0, 2);
}
#ifdef VP_NATIVE
static void tiny_lp(SP* sp)
{
   DSVectorReal dummy;
   sp->addColReal(LPColReal(1.0, dummy, infinity, 0.0));
   sp->addColReal(LPColReal(1.0, dummy, infinity, 0.0));
   DSVectorReal r1(2); r1.add(0, 1000.0); r1.add(1, 1.0);
   sp->addRowReal(LPRowReal(2000.0, r1, infinity));
   DSVectorReal r2(2); r2.add(0, 1.0); r2.add(1, 0.001);
   sp->addRowReal(LPRowReal(1.0, r2, infinity));
}
#endif
static SP* make_B(const Pre& p)
{
#ifdef VP_NATIVE
   SP* b = new SP();
   b->setIntParam(SP::VERBOSITY, 0);
   b->setIntParam(SP::SIMPLIFIER, p.simp); b->setIntParam(SP::SCALER, p.scal); b->setIntParam(SP::STARTER, p.start);
   b->setRealParam(SP::FEASTOL, 1e-3); b->setRealParam(SP::OPTTOL, 1e-4); b->setRealParam(SP::INFTY, 1e50);
   tiny_lp(b);
   if(p.scaled) b->optimize();                        // persistent scaling: the solver's LP stays scaled, lp_scaler set
   if(p.hasRat) b->setIntParam(SP::SYNCMODE, SP::SYNCMODE_AUTO);
   if(!p.loaded)
   {
      b->_realLP = nullptr; spx_alloc(b->_realLP); b->_realLP = new(b->_realLP) RLP(b->_solver);
      b->_isRealLPLoaded = false;
   }
#else
   SP* b = &memB.sp;
   SP::Settings* st = new SP::Settings();
   st->_intParamValues[SP::SIMPLIFIER] = p.simp; st->_intParamValues[SP::SCALER] = p.scal; st->_intParamValues[SP::STARTER] = p.start;
   st->_intParamValues[SP::SYNCMODE] = p.hasRat ? SP::SYNCMODE_AUTO : SP::SYNCMODE_ONLYREAL;
   b->_currentSettings = st;
   b->_statistics = &statB.s;
   set_tol(b, &tolB.t);
   b->_simplifier = simplifier_of(b, p.simp); b->_scaler = scaler_of(b, p.scal); b->_starter = starter_of(b, p.start);
   b->_solver.theRep = SOLVER::COLUMN;
   b->_solver.spxout = &b->spxout;
   if(p.scaled && b->_scaler != nullptr) { b->_solver._isScaled = true; b->_solver.lp_scaler = b->_scaler; }
   if(p.loaded) b->_realLP = &b->_solver;
   else
   {
      b->_realLP = &rlpB.lp;
      b->_realLP->spxout = &b->spxout;
      if(p.scaled && b->_scaler != nullptr) { b->_realLP->_isScaled = true; b->_realLP->lp_scaler = b->_scaler; }
   }
   b->_isRealLPLoaded = p.loaded;
   b->_rationalLP = p.hasRat ? (QLP*)malloc(sizeof(QLP)) : nullptr;
   for(int k = 0; k < Q_COUNT; ++k) g_tokB[k] = 100 + k;
#endif
   b->_hasBasis = p.hasBasis; b->_hasSolReal = p.hasSolReal; b->_hasSolRational = p.hasSolRat; b->_applyPolishing = p.polishing;
   b->_isRealLPScaled = p.lpScaledFlag;
   b->_status = (SOLVER::Status)p.status; b->_lastSolveMode = p.lastSolveMode;
   return b;
}
static SP* make_A(const Pre& p)
{
#ifdef VP_NATIVE
   SP* a = new SP();
   a->setIntParam(SP::VERBOSITY, 0);
   a->setIntParam(SP::SIMPLIFIER, p.asimp); a->setIntParam(SP::SCALER, p.ascal); a->setIntParam(SP::STARTER, p.astart);
   if(p.aHasRat) a->setIntParam(SP::SYNCMODE, SP::SYNCMODE_AUTO);
#else
   SP* a = &memA.sp;
   SP::Settings* st = new SP::Settings();
   st->_intParamValues[SP::SIMPLIFIER] = p.asimp; st->_intParamValues[SP::SCALER] = p.ascal; st->_intParamValues[SP::STARTER] = p.astart;
   st->_intParamValues[SP::SYNCMODE] = p.aHasRat ? SP::SYNCMODE_AUTO : SP::SYNCMODE_ONLYREAL;
   a->_currentSettings = st;
   a->_statistics = &statA.s;
   set_tol(a, &tolA.t);
   a->_simplifier = simplifier_of(a, p.asimp); a->_scaler = scaler_of(a, p.ascal); a->_starter = starter_of(a, p.astart);
   a->_solver.theRep = SOLVER::COLUMN;
   a->_solver.spxout = &a->spxout;
   a->_realLP = &a->_solver; a->_isRealLPLoaded = true;
   a->_rationalLP = p.aHasRat ? (QLP*)malloc(sizeof(QLP)) : nullptr;
   for(int k = 0; k < Q_COUNT; ++k) g_tokA[k] = 200 + k;
#endif
   return a;
}
static bool same_q(SP* a, SP* b, int k)
{
#ifdef VP_NATIVE
   return *qcell(a, k) == *qcell(b, k);
#else
   return g_tokA[k] == g_tokB[k];
#endif
}

enum { G_CORE = 1, G_TOL = 2, G_LPSCALER = 4, G_RATCONST = 8, G_LPOUT = 16 };
static void check_assign(int groups)
{
   Pre p; draw(p);
   SP* b = make_B(p);
   SP* a = make_A(p);
   g_A = a; g_B = b;
#ifndef VP_NATIVE
   comps(a, a->_statistics, g_compA); comps(b, b->_statistics, g_compB);
#endif
   const QLP* bq = b->_rationalLP;
   const RLP* br = b->_realLP;
   const SPxScaler<double>* bsc = b->_scaler; const SPxSimplifier<double>* bsi = b->_simplifier; const SPxStarter<double>* bst = b->_starter;
   SP& r = (*a = *b);
   vp_assert(&r == a, 1);

   if(groups & G_CORE)
   {
      // (b) selector pointers: null or a member OF THE TARGET, namely the one the (copied) parameter value selects.
      //     (After a solve the source's _simplifier/_scaler may be temporarily null, see _disableSimplifierAndScaler; the
      //     copy is re-derived from the settings.)
      vp_assert(a->intParam(SP::SCALER) == p.scal && a->intParam(SP::SIMPLIFIER) == p.simp && a->intParam(SP::STARTER) == p.start, 13);
      vp_assert(a->_scaler == scaler_of(a, p.scal), 10);
      vp_assert(a->_simplifier == simplifier_of(a, p.simp), 11);
      vp_assert(a->_starter == starter_of(a, p.start), 12);
      vp_assert(scaler_idx(b, a->_scaler) <= 0 && simplifier_idx(b, a->_simplifier) <= 0 && starter_idx(b, a->_starter) <= 0, 16);
      // the source is untouched
      vp_assert(b->_scaler == bsc && b->_simplifier == bsi && b->_starter == bst, 14);
      vp_assert(b->_realLP == br && b->_rationalLP == bq, 15);
      // (c) real LP: inside the solver iff the source's is; otherwise a fresh object
      vp_assert((a->_realLP == &a->_solver) == p.loaded, 20);
      vp_assert(a->_realLP != nullptr && a->_realLP != b->_realLP && a->_realLP != &b->_solver, 21);
      vp_assert(a->_isRealLPLoaded == p.loaded, 22);
      // (d) flags / status
      vp_assert(a->_hasBasis == p.hasBasis && a->_hasSolReal == p.hasSolReal && a->_hasSolRational == p.hasSolRat, 30);
      vp_assert(a->_applyPolishing == p.polishing && a->_isRealLPScaled == p.lpScaledFlag, 31);
      vp_assert((int)a->_status == p.status && a->_lastSolveMode == p.lastSolveMode, 32);
      // (e) rational LP: present iff the source has one, and never the source's object
      vp_assert((a->_rationalLP != nullptr) == p.hasRat, 40);
      vp_assert(a->_rationalLP == nullptr || a->_rationalLP != b->_rationalLP, 41);
      // the solver of the target uses the target's own factorization object
      vp_assert(a->intParam(SP::SYNCMODE) == (p.hasRat ? SP::SYNCMODE_AUTO : SP::SYNCMODE_ONLYREAL), 42);
#ifndef VP_NATIVE
      // every component assignment goes from component k of B to component k of A; all components are covered exactly once
      vp_assert(g_badassign == 0, 50);
      for(int k = 0; k < K_COUNT; ++k)
      {
         int want = 1;
         if(k == K_solReal) want = p.hasSolReal ? 1 : 0;
         if(k == K_solRat) want = p.hasSolRat ? 1 : 0;
         if(k == K_rowTypes || k == K_colTypes || k == K_ratLU || k == K_ratLUBind) want = p.hasRat ? 1 : 0;
         vp_assert(g_seen[k] == want, 51);
      }
      // (the copy-constructor calls of the two LP objects are calls through constructor aliases, which the encoder cannot see:
      //  what they copy is not asserted here)
#endif
   }
   if(groups & G_TOL)
   {
      // independence: the target must not share the tolerances object with the source
      vp_assert(tol_ptr(a) != tol_ptr(b), 60);
   }
   if(groups & G_LPSCALER)
   {
      // independence: the (persistently scaled) LP of the target must not refer to a scaler object of the source
      vp_assert(scaler_idx(b, a->_solver.lp_scaler) <= 0, 70);
   }
   if(groups & G_LPOUT)
   {
      // independence: the message handler pointer of the target's solver LP must not refer to the source's SPxOut
      vp_assert(a->_solver.spxout != &b->spxout, 75);
   }
   if(groups & G_RATCONST)
   {
      // same parameters: the rational images of INFTY / FEASTOL / OPTTOL the exact solver works with are those of the source
      vp_assert(same_q(a, b, Q_feastol), 80);
      vp_assert(same_q(a, b, Q_opttol), 81);
      vp_assert(same_q(a, b, Q_posInf) && same_q(a, b, Q_negInf), 82);
   }
   vp_cover(1);
}
extern "C" void h_assign_core() { check_assign(G_CORE); }
extern "C" void h_assign_tolerances() { check_assign(G_TOL); }
extern "C" void h_assign_lpscaler() { check_assign(G_LPSCALER); }
extern "C" void h_assign_lpout() { check_assign(G_LPOUT); }
extern "C" void h_assign_ratconst() { check_assign(G_RATCONST); }

// (a) self-assignment is a no-op
extern "C" void h_assign_self()
{
   Pre p; draw(p);
   SP* b = make_B(p);
   g_A = b; g_B = b;
#ifndef VP_NATIVE
   comps(b, b->_statistics, g_compA); comps(b, b->_statistics, g_compB);
#endif
   const QLP* bq = b->_rationalLP;
   const RLP* br = b->_realLP;
   const Tolerances* bt = tol_ptr(b);
   const SPxScaler<double>* bsc = b->_scaler; const SPxSimplifier<double>* bsi = b->_simplifier; const SPxStarter<double>* bst = b->_starter;
   SP& alias = *b;
   SP& r = (*b = alias);
   vp_assert(&r == b, 1);
   vp_assert(b->_scaler == bsc && b->_simplifier == bsi && b->_starter == bst, 2);
   vp_assert(b->_realLP == br && b->_rationalLP == bq && tol_ptr(b) == bt, 3);
   vp_assert(b->_hasBasis == p.hasBasis && b->_hasSolReal == p.hasSolReal && b->_hasSolRational == p.hasSolRat && b->_isRealLPLoaded == p.loaded, 4);
   vp_assert((int)b->_status == p.status && b->_lastSolveMode == p.lastSolveMode, 5);
#ifndef VP_NATIVE
   vp_assert(g_ncalls == 0, 6);
#endif
   vp_cover(1);
}
