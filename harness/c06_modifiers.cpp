// C06-O3 / C07-O1: the public LP modifiers of the real interface of SoPlexBase<double> (soplex.hpp 2094-2771).
//
// Contract style. `this` (the SoPlex object) is typed zero memory in the solver build; _realLP and _rationalLP point to
// recording stand-ins FakeT<double> / FakeT<Rational>: genuine C++ subclasses of SPxLPBase<R> that override every virtual
// modification entry point. In the solver build their base constructor is replaced by a no-op (the object is raw memory
// plus a genuine vtable) and the private helpers SoPlexBase::_xxxReal are replaced by models that forward to
// `_realLP->xxx(args, _realLP->isScaled())` (the LP call every helper makes; the helpers' basis bookkeeping is the
// subject of c04_helpers_basis.cpp). Rational VALUES are opaque: every double -> Rational conversion in the modifiers
// (gmp_rational::operator=(double), VectorBase<Rational>(VectorBase<double>), LPRowBase<Rational>(LPRowBase<double>), ...)
// is replaced by a model that only records "object at address A stands for this double / this source object"; GMP is
// never touched. The rational LP's bounds are therefore tracked as double tokens (shadow F), and _rangeTypeRational is
// replaced by the reference classification of those tokens (it also checks that it is given lhs AND rhs of ONE row).
//
// In the native build (-DVP_NATIVE; replay of witnesses / counterexamples on the real code) nothing is replaced: a real
// SoPlex object, real helpers, real Rational arithmetic; the stand-ins are then real SPxLPBase objects holding the
// pre-state LP, their overrides record AND forward to the base class.
//
// c07_sync.cpp includes this file with -DVP_C07: the SYNCMODE_AUTO entries h_c07_* of the real interface plus the rational
// twins h_c07q_* (addRowRational ... clearLPRational, all three sync modes; see the second half of the file). This file
// alone gives the C06 entries h_c06_* (real interface under SYNCMODE_ONLYREAL / SYNCMODE_MANUAL, real _invalidateSolution).
//
// Assertion ids: 1 LP call count/kind, 2 arguments reaching the real LP, 3 scale flag, 4 solution invalidated, 5 rational
// LP call count/kind, 6 arguments reaching the rational LP, 7 rational bounds == reference, 8 type arrays == classification
// of the reference bounds, 9 unknown token pair, 10 types untouched, 11 modification happens before invalidation,
// 12 perm output / basis flag, 13 rational LU dropped, 14 LP call made through the private helper, 15 nothing touched.
#include "soplex_all.h"
#include <new>
#include <type_traits>
using namespace soplex;
typedef SoPlex SP;
typedef SPxLPBase<double> RLP;
typedef SPxLPBase<Rational> QLP;
typedef SP::RangeType RT;
typedef boost::multiprecision::backends::gmp_rational GMPQ;

#ifndef NR0
#define NR0 3          // rows of the pre-state LP
#define NC0 2          // columns of the pre-state LP
#define MAXD 6         // capacity of the shadow arrays / type arrays (no reallocation); >= NR0 + NSET
#endif
#define NSET 2         // rows/columns in a set argument

enum { F_addRow = 1, F_addRows, F_addCol, F_addCols, F_chgRow, F_chgCol, F_chgLhsV, F_chgLhsI, F_chgRhsV, F_chgRhsI, F_chgRangeV, F_chgRangeI,
       F_chgLowerV, F_chgLowerI, F_chgUpperV, F_chgUpperI, F_chgBoundsV, F_chgBoundsI, F_chgObjV, F_chgObjI, F_chgElem,
       F_rmRow, F_rmRows, F_rmCol, F_rmCols, F_clear };

// ---- recorded call (one per LP) ----------------------------------------------------------------------------------
struct Rec
{
   int n;               // number of modification calls this LP received
   int fn, i, j, scale; // which entry point, index arguments, scale flag
   int nv; double v[2 * MAXD];   // numeric content of the arguments (bounds / values), as doubles
   int pat[MAXD];       // perm argument: 1 = marked for removal (perm[k] < 0) at the time of the call
   const void* a; const void* b; // address identity of reference arguments (solver build: source object of a conversion)
   int solAlive;        // _hasSolReal at the time of the call (the solution must be invalidated AFTER the modification)
};
static Rec R_, Q_;      // real LP, rational LP
// shadow of the bounds an LP holds
struct Shadow { int nr, nc; double lhs[MAXD], rhs[MAXD], lo[MAXD], up[MAXD]; };
static Shadow F;        // rational LP as driven by the calls the real code makes
static Shadow E;        // expected rational LP / expected dimensions (reference model in the harness)
static int g_nr, g_nc;  // solver build: dimensions of the real LP (what numRows()/numCols() report)
static SP* g_sp;
struct Cached { int status; bool hsr, hsq; int flags; };
static Cached g_pre;
static int g_badpair;   // _rangeTypeRational called with bounds that are not lhs/rhs (lower/upper) of one row (column)
static int g_luclears;
static int g_hn, g_hfn;  // solver build: how often / which private helper (model) was entered
static int g_depth;     // native build: >0 while a base-class implementation runs (its nested virtual calls are not recorded)
#ifdef VP_NATIVE
#define NESTED(call) if(g_depth > 0) { B::call; return; }
#else
#define NESTED(call)
#endif

// descriptors of set arguments (solver build: the set objects are raw memory, only their address is used)
struct SetDesc { const void* addr; const void* alias; int n; double b1[NSET], b2[NSET]; };
static SetDesc g_rowset, g_colset;

// ---- double <- Rational tokens (solver build) -------------------------------------------------------------------
#ifndef VP_NATIVE
struct Conv { const void* dst; const void* src; double val; };
#define NCONV 40
static Conv g_conv[NCONV]; static int g_nconv;
static void conv_add(const void* dst, const void* src, double val)
{
   if(g_nconv < NCONV) { g_conv[g_nconv].dst = dst; g_conv[g_nconv].src = src; g_conv[g_nconv].val = val; }
   g_nconv++;
}
static int conv_find(const void* dst)
{
   int r = -1;
   for(int k = 0; k < NCONV; ++k) if(k < g_nconv && g_conv[k].dst == dst) r = k;
   return r;
}
union QCells { Rational q[4 * MAXD]; QCells() {} ~QCells() {} };
static QCells cells;    // opaque rational LP bound cells: [0..MAXD) lhs, then rhs, lower, upper
#endif
static int g_unknownTok;
static double dv(const double& x) { return x; }
static double dv(const Rational& x)
{
#ifdef VP_NATIVE
   return (double)x;
#else
   int k = conv_find(&x);
   if(k < 0) { g_unknownTok++; return 0.0; }
   return g_conv[k].val;
#endif
}
template<class R> static const VectorBase<double>* vsrc(const VectorBase<R>& v);
template<> const VectorBase<double>* vsrc<double>(const VectorBase<double>& v) { return &v; }
#ifndef VP_NATIVE
template<> const VectorBase<double>* vsrc<Rational>(const VectorBase<Rational>& v)
{
   int k = conv_find(&v);
   if(k < 0) { g_unknownTok++; return nullptr; }
   return (const VectorBase<double>*)g_conv[k].src;
}
#else
template<> const VectorBase<double>* vsrc<Rational>(const VectorBase<Rational>& v) { return nullptr; }
#endif
static double vk(const VectorBase<double>& v, int k) { return v[k]; }
static double vk(const VectorBase<Rational>& v, int k)
{
#ifdef VP_NATIVE
   return (double)v[k];
#else
   const VectorBase<double>* s = vsrc<Rational>(v);
   return s ? (*s)[k] : 0.0;
#endif
}
// source-object identity of a (possibly converted) argument; natively a converted object has no identity: nullptr
template<class T> static const void* ident(const T& x, bool isRat)
{
#ifdef VP_NATIVE
   return isRat ? nullptr : (const void*)&x;
#else
   if(!isRat) return (const void*)&x;
   int k = conv_find(&x);
   if(k < 0) { g_unknownTok++; return nullptr; }
   return g_conv[k].src;
#endif
}
static void rowb(const LPRowBase<double>& r, double& l, double& h) { l = r.lhs(); h = r.rhs(); }
static void colb(const LPColBase<double>& c, double& l, double& h) { l = c.lower(); h = c.upper(); }
#ifdef VP_NATIVE
static void rowb(const LPRowBase<Rational>& r, double& l, double& h) { l = (double)r.lhs(); h = (double)r.rhs(); }
static void colb(const LPColBase<Rational>& c, double& l, double& h) { l = (double)c.lower(); h = (double)c.upper(); }
template<class R> static void setb(const LPRowSetBase<R>& s, Rec& r) { r.nv = 2 * s.num(); for(int k = 0; k < s.num() && k < MAXD; ++k) { r.v[2 * k] = (double)s.lhs(k); r.v[2 * k + 1] = (double)s.rhs(k); } }
template<class R> static void setb(const LPColSetBase<R>& s, Rec& r) { r.nv = 2 * s.num(); for(int k = 0; k < s.num() && k < MAXD; ++k) { r.v[2 * k] = (double)s.lower(k); r.v[2 * k + 1] = (double)s.upper(k); } }
#else
static void rowb(const LPRowBase<Rational>& r, double& l, double& h)
{
   const LPRowBase<double>* s = (const LPRowBase<double>*)ident(r, true);
   if(s) rowb(*s, l, h); else { l = 0; h = 0; }
}
static void colb(const LPColBase<Rational>& c, double& l, double& h)
{
   const LPColBase<double>* s = (const LPColBase<double>*)ident(c, true);
   if(s) colb(*s, l, h); else { l = 0; h = 0; }
}
static void setdesc(const SetDesc& d, const void* addr, Rec& r)
{
   if(addr == nullptr || (addr != d.addr && addr != d.alias)) { r.nv = -1; return; }
   r.nv = 2 * d.n;
   for(int k = 0; k < NSET; ++k) if(k < d.n) { r.v[2 * k] = d.b1[k]; r.v[2 * k + 1] = d.b2[k]; }
}
static void setb(const LPRowSetBase<double>& s, Rec& r) { setdesc(g_rowset, &s, r); }
static void setb(const LPColSetBase<double>& s, Rec& r) { setdesc(g_colset, &s, r); }
static void setb(const LPRowSetBase<Rational>& s, Rec& r) { setdesc(g_rowset, ident(s, true), r); }
static void setb(const LPColSetBase<Rational>& s, Rec& r) { setdesc(g_colset, ident(s, true), r); }
#endif

// order-preserving compaction: what SPxLPBase::removeRows/removeCols(perm) do to perm (ClassSet::remove(int perm[]))
static int compact(int* perm, int n)
{
   int j = 0;
   for(int k = 0; k < MAXD; ++k) if(k < n) { if(perm[k] >= 0) perm[k] = j++; }
   return j;
}

// ---- the stand-in LP -------------------------------------------------------------------------------------------
template<class R> struct FakeT : public SPxLPBase<R>
{
   typedef SPxLPBase<R> B;
   static constexpr bool isRat = !std::is_same<R, double>::value;
   static Rec& begin(int fn)
   {
      Rec& r = isRat ? Q_ : R_;
      r.n++; r.fn = fn; r.i = -1; r.j = -1; r.scale = -1; r.nv = 0; r.a = nullptr; r.b = nullptr;
      r.solAlive = g_sp->_hasSolReal ? 1 : 0;
      return r;
   }
   // natively the stand-in is a real LP (unscaled: the recorded flag is what the caller passed; the data is not scaled)
   void unscaled() { this->_isScaled = false; }
   void addRow(const LPRowBase<R>& row, bool scale) override
   { NESTED(addRow(row, scale))
      Rec& r = begin(F_addRow); r.scale = scale; r.a = ident(row, isRat); rowb(row, r.v[0], r.v[1]); r.nv = 2;
      if(isRat) { if(F.nr < MAXD) { F.lhs[F.nr] = r.v[0]; F.rhs[F.nr] = r.v[1]; } F.nr++; } else g_nr++;
#ifdef VP_NATIVE
      unscaled(); ++g_depth; B::addRow(row, false); --g_depth;
#endif
   }
   void addRows(const LPRowSetBase<R>& set, bool scale) override
   { NESTED(addRows(set, scale))
      Rec& r = begin(F_addRows); r.scale = scale; r.a = ident(set, isRat); setb(set, r);
      int n = r.nv / 2;
      if(isRat) { for(int k = 0; k < NSET; ++k) if(k < n && F.nr + k < MAXD) { F.lhs[F.nr + k] = r.v[2 * k]; F.rhs[F.nr + k] = r.v[2 * k + 1]; } if(n > 0) F.nr += n; }
      else if(n > 0) g_nr += n;
#ifdef VP_NATIVE
      unscaled(); ++g_depth; B::addRows(set, false); --g_depth;
#endif
   }
   void addCol(const LPColBase<R>& col, bool scale) override
   { NESTED(addCol(col, scale))
      Rec& r = begin(F_addCol); r.scale = scale; r.a = ident(col, isRat); colb(col, r.v[0], r.v[1]); r.nv = 2;
      if(isRat) { if(F.nc < MAXD) { F.lo[F.nc] = r.v[0]; F.up[F.nc] = r.v[1]; } F.nc++; } else g_nc++;
#ifdef VP_NATIVE
      unscaled(); ++g_depth; B::addCol(col, false); --g_depth;
#endif
   }
   void addCols(const LPColSetBase<R>& set, bool scale) override
   { NESTED(addCols(set, scale))
      Rec& r = begin(F_addCols); r.scale = scale; r.a = ident(set, isRat); setb(set, r);
      int n = r.nv / 2;
      if(isRat) { for(int k = 0; k < NSET; ++k) if(k < n && F.nc + k < MAXD) { F.lo[F.nc + k] = r.v[2 * k]; F.up[F.nc + k] = r.v[2 * k + 1]; } if(n > 0) F.nc += n; }
      else if(n > 0) g_nc += n;
#ifdef VP_NATIVE
      unscaled(); ++g_depth; B::addCols(set, false); --g_depth;
#endif
   }
   void changeRow(int i, const LPRowBase<R>& row, bool scale) override
   { NESTED(changeRow(i, row, scale))
      Rec& r = begin(F_chgRow); r.i = i; r.scale = scale; r.a = ident(row, isRat); rowb(row, r.v[0], r.v[1]); r.nv = 2;
      if(isRat && i >= 0 && i < MAXD) { F.lhs[i] = r.v[0]; F.rhs[i] = r.v[1]; }
#ifdef VP_NATIVE
      unscaled(); ++g_depth; B::changeRow(i, row, false); --g_depth;
#endif
   }
   void changeCol(int i, const LPColBase<R>& col, bool scale) override
   { NESTED(changeCol(i, col, scale))
      Rec& r = begin(F_chgCol); r.i = i; r.scale = scale; r.a = ident(col, isRat); colb(col, r.v[0], r.v[1]); r.nv = 2;
      if(isRat && i >= 0 && i < MAXD) { F.lo[i] = r.v[0]; F.up[i] = r.v[1]; }
#ifdef VP_NATIVE
      unscaled(); ++g_depth; B::changeCol(i, col, false); --g_depth;
#endif
   }
   // vector arguments: content of the first `dim` entries (dim = current number of rows / columns of this LP)
   void vec1(int fn, const VectorBase<R>& x, bool scale, int dim, double* dst)
   {
      Rec& r = begin(fn); r.scale = scale; r.a = vsrc<R>(x); r.nv = dim;
      for(int k = 0; k < MAXD; ++k) if(k < dim) { r.v[k] = vk(x, k); if(isRat) dst[k] = r.v[k]; }
   }
   void vec2(int fn, const VectorBase<R>& x, const VectorBase<R>& y, bool scale, int dim, double* dx, double* dy)
   {
      Rec& r = begin(fn); r.scale = scale; r.a = vsrc<R>(x); r.b = vsrc<R>(y); r.nv = 2 * dim;
      for(int k = 0; k < MAXD; ++k) if(k < dim) { r.v[2 * k] = vk(x, k); r.v[2 * k + 1] = vk(y, k); if(isRat) { dx[k] = r.v[2 * k]; dy[k] = r.v[2 * k + 1]; } }
   }
   void idx1(int fn, int i, const R& x, bool scale, double* dst)
   {
      Rec& r = begin(fn); r.i = i; r.scale = scale; r.v[0] = dv(x); r.nv = 1;
      if(isRat && dst && i >= 0 && i < MAXD) dst[i] = r.v[0];
   }
   void idx2(int fn, int i, const R& x, const R& y, bool scale, double* dx, double* dy)
   {
      Rec& r = begin(fn); r.i = i; r.scale = scale; r.v[0] = dv(x); r.v[1] = dv(y); r.nv = 2;
      if(isRat && i >= 0 && i < MAXD) { dx[i] = r.v[0]; dy[i] = r.v[1]; }
   }
   int rows() const { return isRat ? F.nr : g_nr; }
   int cols() const { return isRat ? F.nc : g_nc; }
#ifdef VP_NATIVE
#define FWD(call) do { unscaled(); ++g_depth; B::call; --g_depth; } while(0)
#else
#define FWD(call) do { } while(0)
#endif
   void changeLhs(const VectorBase<R>& x, bool scale) override { NESTED(changeLhs(x, scale)) vec1(F_chgLhsV, x, scale, rows(), F.lhs); FWD(changeLhs(x, false)); }
   void changeLhs(int i, const R& x, bool scale) override { NESTED(changeLhs(i, x, scale)) idx1(F_chgLhsI, i, x, scale, F.lhs); FWD(changeLhs(i, x, false)); }
   void changeRhs(const VectorBase<R>& x, bool scale) override { NESTED(changeRhs(x, scale)) vec1(F_chgRhsV, x, scale, rows(), F.rhs); FWD(changeRhs(x, false)); }
   void changeRhs(int i, const R& x, bool scale) override { NESTED(changeRhs(i, x, scale)) idx1(F_chgRhsI, i, x, scale, F.rhs); FWD(changeRhs(i, x, false)); }
   void changeRange(const VectorBase<R>& x, const VectorBase<R>& y, bool scale) override { NESTED(changeRange(x, y, scale)) vec2(F_chgRangeV, x, y, scale, rows(), F.lhs, F.rhs); FWD(changeRange(x, y, false)); }
   void changeRange(int i, const R& x, const R& y, bool scale) override { NESTED(changeRange(i, x, y, scale)) idx2(F_chgRangeI, i, x, y, scale, F.lhs, F.rhs); FWD(changeRange(i, x, y, false)); }
   void changeLower(const VectorBase<R>& x, bool scale) override { NESTED(changeLower(x, scale)) vec1(F_chgLowerV, x, scale, cols(), F.lo); FWD(changeLower(x, false)); }
   void changeLower(int i, const R& x, bool scale) override { NESTED(changeLower(i, x, scale)) idx1(F_chgLowerI, i, x, scale, F.lo); FWD(changeLower(i, x, false)); }
   void changeUpper(const VectorBase<R>& x, bool scale) override { NESTED(changeUpper(x, scale)) vec1(F_chgUpperV, x, scale, cols(), F.up); FWD(changeUpper(x, false)); }
   void changeUpper(int i, const R& x, bool scale) override { NESTED(changeUpper(i, x, scale)) idx1(F_chgUpperI, i, x, scale, F.up); FWD(changeUpper(i, x, false)); }
   void changeBounds(const VectorBase<R>& x, const VectorBase<R>& y, bool scale) override { NESTED(changeBounds(x, y, scale)) vec2(F_chgBoundsV, x, y, scale, cols(), F.lo, F.up); FWD(changeBounds(x, y, false)); }
   void changeBounds(int i, const R& x, const R& y, bool scale) override { NESTED(changeBounds(i, x, y, scale)) idx2(F_chgBoundsI, i, x, y, scale, F.lo, F.up); FWD(changeBounds(i, x, y, false)); }
   void changeObj(const VectorBase<R>& x, bool scale) override { NESTED(changeObj(x, scale)) double dummy[MAXD]; vec1(F_chgObjV, x, scale, cols(), dummy); FWD(changeObj(x, false)); }
   void changeObj(int i, const R& x, bool scale) override { NESTED(changeObj(i, x, scale)) idx1(F_chgObjI, i, x, scale, nullptr); FWD(changeObj(i, x, false)); }
   void changeElement(int i, int j, const R& x, bool scale) override { NESTED(changeElement(i, j, x, scale)) idx1(F_chgElem, i, x, scale, nullptr); (isRat ? Q_ : R_).j = j; FWD(changeElement(i, j, x, false)); }
   void removeRow(int i) override
   { NESTED(removeRow(i))
      Rec& r = begin(F_rmRow); r.i = i;
      if(isRat) { if(i >= 0 && i < F.nr && F.nr <= MAXD) { F.lhs[i] = F.lhs[F.nr - 1]; F.rhs[i] = F.rhs[F.nr - 1]; F.nr--; } } else g_nr--;
      FWD(removeRow(i));
   }
   void removeCol(int i) override
   { NESTED(removeCol(i))
      Rec& r = begin(F_rmCol); r.i = i;
      if(isRat) { if(i >= 0 && i < F.nc && F.nc <= MAXD) { F.lo[i] = F.lo[F.nc - 1]; F.up[i] = F.up[F.nc - 1]; F.nc--; } } else g_nc--;
      FWD(removeCol(i));
   }
   void removeRows(int perm[]) override
   { NESTED(removeRows(perm))
      Rec& r = begin(F_rmRows); r.a = perm; int n = rows(); r.nv = n;
      for(int k = 0; k < MAXD; ++k) if(k < n) r.pat[k] = perm[k] < 0 ? 1 : 0;
      if(isRat) { int j = 0; for(int k = 0; k < MAXD; ++k) if(k < n && !r.pat[k]) { F.lhs[j] = F.lhs[k]; F.rhs[j] = F.rhs[k]; ++j; } F.nr = j; }
#ifdef VP_NATIVE
      unscaled(); ++g_depth; B::removeRows(perm); --g_depth; if(!isRat) g_nr = this->nRows();
#else
      int m = compact(perm, n); if(!isRat) g_nr = m;
#endif
   }
   void removeCols(int perm[]) override
   { NESTED(removeCols(perm))
      Rec& r = begin(F_rmCols); r.a = perm; int n = cols(); r.nv = n;
      for(int k = 0; k < MAXD; ++k) if(k < n) r.pat[k] = perm[k] < 0 ? 1 : 0;
      if(isRat) { int j = 0; for(int k = 0; k < MAXD; ++k) if(k < n && !r.pat[k]) { F.lo[j] = F.lo[k]; F.up[j] = F.up[k]; ++j; } F.nc = j; }
#ifdef VP_NATIVE
      unscaled(); ++g_depth; B::removeCols(perm); --g_depth; if(!isRat) g_nc = this->nCols();
#else
      int m = compact(perm, n); if(!isRat) g_nc = m;
#endif
   }
   void clear() override
   {
      NESTED(clear())
      if(g_sp == nullptr) return;     // the (native) base-class constructor calls clear()
      begin(F_clear);
      if(isRat) { F.nr = 0; F.nc = 0; } else { g_nr = 0; g_nc = 0; }
      FWD(clear());
   }
};
typedef FakeT<double> FakeLP;
typedef FakeT<Rational> FakeQLP;
static FakeLP* g_fake; static FakeQLP* g_fakeq;

// ---- models used by `replace` in the solver build ----------------------------------------------------------------
#ifndef VP_NATIVE
extern "C" {
// base-class constructors of the stand-ins: nothing (raw memory + vtable)
void m_rlp_ctor(RLP* self) { }
void m_qlp_ctor(QLP* self) { }
// dimensions
int m_rlp_nrows(const RLP* self) { return g_nr; }
int m_rlp_ncols(const RLP* self) { return g_nc; }
int m_qlp_nrows(const QLP* self) { return F.nr; }
int m_qlp_ncols(const QLP* self) { return F.nc; }
// rational bound cells
const Rational* m_qlp_lhs(const QLP* self, int i) { return &cells.q[0 * MAXD + i]; }
const Rational* m_qlp_rhs(const QLP* self, int i) { return &cells.q[1 * MAXD + i]; }
const Rational* m_qlp_lower(const QLP* self, int i) { return &cells.q[2 * MAXD + i]; }
const Rational* m_qlp_upper(const QLP* self, int i) { return &cells.q[3 * MAXD + i]; }
// conversions double -> Rational
GMPQ* m_gmpq_assign_double(GMPQ* self, double v) { conv_add(self, nullptr, v); return self; }
void m_vecq_conv(VectorBase<Rational>* self, const VectorBase<double>* src) { conv_add(self, src, 0.0); }
void m_rowq_conv(LPRowBase<Rational>* self, const LPRowBase<double>* src) { conv_add(self, src, 0.0); }
void m_colq_conv(LPColBase<Rational>* self, const LPColBase<double>* src) { conv_add(self, src, 0.0); }
void m_rowsetq_conv(LPRowSetBase<Rational>* self, const LPRowSetBase<double>* src) { conv_add(self, src, 0.0); }
void m_colsetq_conv(LPColSetBase<Rational>* self, const LPColSetBase<double>* src) { conv_add(self, src, 0.0); }
void m_lu_clear(SLUFactorRational* self) { g_luclears++; }
// the private helpers: forward to the real LP with the LP's scaling flag (their documented LP effect)
void m_h_addRow(SP* s, const LPRowBase<double>* row) { g_hn++; g_hfn = F_addRow; s->_realLP->addRow(*row, s->_realLP->isScaled()); }
void m_h_addRows(SP* s, const LPRowSetBase<double>* set) { g_hn++; g_hfn = F_addRows; s->_realLP->addRows(*set, s->_realLP->isScaled()); }
void m_h_addCol(SP* s, const LPColBase<double>* col) { g_hn++; g_hfn = F_addCol; s->_realLP->addCol(*col, s->_realLP->isScaled()); }
void m_h_addCols(SP* s, const LPColSetBase<double>* set) { g_hn++; g_hfn = F_addCols; s->_realLP->addCols(*set, s->_realLP->isScaled()); }
void m_h_chgRow(SP* s, int i, const LPRowBase<double>* row) { g_hn++; g_hfn = F_chgRow; s->_realLP->changeRow(i, *row, s->_realLP->isScaled()); }
void m_h_chgCol(SP* s, int i, const LPColBase<double>* col) { g_hn++; g_hfn = F_chgCol; s->_realLP->changeCol(i, *col, s->_realLP->isScaled()); }
void m_h_chgLhsV(SP* s, const VectorBase<double>* x) { g_hn++; g_hfn = F_chgLhsV; s->_realLP->changeLhs(*x, s->_realLP->isScaled()); }
void m_h_chgLhsI(SP* s, int i, const double* x) { g_hn++; g_hfn = F_chgLhsI; s->_realLP->changeLhs(i, *x, s->_realLP->isScaled()); }
void m_h_chgRhsV(SP* s, const VectorBase<double>* x) { g_hn++; g_hfn = F_chgRhsV; s->_realLP->changeRhs(*x, s->_realLP->isScaled()); }
void m_h_chgRhsI(SP* s, int i, const double* x) { g_hn++; g_hfn = F_chgRhsI; s->_realLP->changeRhs(i, *x, s->_realLP->isScaled()); }
void m_h_chgRangeV(SP* s, const VectorBase<double>* x, const VectorBase<double>* y) { g_hn++; g_hfn = F_chgRangeV; s->_realLP->changeRange(*x, *y, s->_realLP->isScaled()); }
void m_h_chgRangeI(SP* s, int i, const double* x, const double* y) { g_hn++; g_hfn = F_chgRangeI; s->_realLP->changeRange(i, *x, *y, s->_realLP->isScaled()); }
void m_h_chgLowerV(SP* s, const VectorBase<double>* x) { g_hn++; g_hfn = F_chgLowerV; s->_realLP->changeLower(*x, s->_realLP->isScaled()); }
void m_h_chgLowerI(SP* s, int i, const double* x) { g_hn++; g_hfn = F_chgLowerI; s->_realLP->changeLower(i, *x, s->_realLP->isScaled()); }
void m_h_chgUpperV(SP* s, const VectorBase<double>* x) { g_hn++; g_hfn = F_chgUpperV; s->_realLP->changeUpper(*x, s->_realLP->isScaled()); }
void m_h_chgUpperI(SP* s, int i, const double* x) { g_hn++; g_hfn = F_chgUpperI; s->_realLP->changeUpper(i, *x, s->_realLP->isScaled()); }
void m_h_chgBoundsV(SP* s, const VectorBase<double>* x, const VectorBase<double>* y) { g_hn++; g_hfn = F_chgBoundsV; s->_realLP->changeBounds(*x, *y, s->_realLP->isScaled()); }
void m_h_chgBoundsI(SP* s, int i, const double* x, const double* y) { g_hn++; g_hfn = F_chgBoundsI; s->_realLP->changeBounds(i, *x, *y, s->_realLP->isScaled()); }
void m_h_chgElem(SP* s, int i, int j, const double* x) { g_hn++; g_hfn = F_chgElem; s->_realLP->changeElement(i, j, *x, s->_realLP->isScaled()); }
void m_h_rmRow(SP* s, int i) { g_hn++; g_hfn = F_rmRow; s->_realLP->removeRow(i); }
void m_h_rmRows(SP* s, int* perm) { g_hn++; g_hfn = F_rmRows; s->_realLP->removeRows(perm); }
void m_h_rmCol(SP* s, int i) { g_hn++; g_hfn = F_rmCol; s->_realLP->removeCol(i); }
void m_h_rmCols(SP* s, int* perm) { g_hn++; g_hfn = F_rmCols; s->_realLP->removeCols(perm); }
}
#endif

// reference classification of a bound pair (C07: "bound-type classification ... always matches the rational bounds")
static int classify(double lo, double up)
{
   bool lf = lo > -(double)infinity; bool uf = up < (double)infinity;
   if(!lf && !uf) return SP::RANGETYPE_FREE;
   if(!lf) return SP::RANGETYPE_UPPER;
   if(!uf) return SP::RANGETYPE_LOWER;
   return lo == up ? SP::RANGETYPE_FIXED : SP::RANGETYPE_BOXED;
}
#ifndef VP_NATIVE
// token of a Rational the real code hands to _rangeTypeRational: a bound cell of the rational LP (current shadow value) or a
// registered argument / conversion result
static bool tok_of(const Rational* p, double& out)
{
   for(int k = 0; k < MAXD; ++k)
   {
      if(p == &cells.q[0 * MAXD + k]) { out = F.lhs[k]; return true; }
      if(p == &cells.q[1 * MAXD + k]) { out = F.rhs[k]; return true; }
      if(p == &cells.q[2 * MAXD + k]) { out = F.lo[k]; return true; }
      if(p == &cells.q[3 * MAXD + k]) { out = F.up[k]; return true; }
   }
   int c = conv_find(p);
   if(c < 0) return false;
   out = g_conv[c].val; return true;
}
extern "C" int m_rangeTypeRational(const SP* self, const Rational* lo, const Rational* up)
{
   double l, u;
   if(!tok_of(lo, l) || !tok_of(up, u)) { g_badpair++; return SP::RANGETYPE_FREE; }
   return classify(l, u);
}
#endif

// ---- set-up ------------------------------------------------------------------------------------------------------
union SoPlexMem { SP sp; SoPlexMem() {} ~SoPlexMem() {} };
union SettingsMem { SP::Settings st; SettingsMem() {} ~SettingsMem() {} };
#ifndef VP_NATIVE
static SoPlexMem mem;
static SettingsMem stmem;
#endif
static double bound_or_inf(bool upper)
{
   int inf = vp_int_in(0, 1);
   double v = vp_small(-4, 4);
   return inf ? (upper ? (double)infinity : -(double)infinity) : v;
}
template<class T> static void init_arr(DataArray<T>& a, int size, int max)
{
#ifdef VP_NATIVE
   a.reMax(max, size);
#else
   new(&a) DataArray<T>(size, max);
#endif
}
static SP* setup(int mode, bool nullq)
{
   // pre-state bounds: rational LP = real LP (in sync), lhs <= rhs, lower <= upper
   E.nr = NR0; E.nc = NC0;
   for(int i = 0; i < NR0; ++i) { E.lhs[i] = bound_or_inf(false); E.rhs[i] = bound_or_inf(true); vp_assume(E.lhs[i] <= E.rhs[i]); }
   for(int j = 0; j < NC0; ++j) { E.lo[j] = bound_or_inf(false); E.up[j] = bound_or_inf(true); vp_assume(E.lo[j] <= E.up[j]); }
   F = E; g_nr = NR0; g_nc = NC0;
   bool scaled = vp_nondet_bool();
   int status = vp_int_in(-15, 4);
   bool hsr = vp_nondet_bool();
   bool hsq = vp_nondet_bool();
   int flags = vp_int_in(0, 255);
#ifdef VP_NATIVE
   SP* sp = new SP();
   g_sp = nullptr;                   // the base constructors call the virtual clear(): not recorded
   g_fake = new FakeLP(); g_fakeq = new FakeQLP();
   g_fake->setTolerances(std::make_shared<Tolerances>()); g_fakeq->setTolerances(std::make_shared<Tolerances>());
   DSVectorBase<double> empty(1);
   for(int j = 0; j < NC0; ++j) { LPColBase<double> c(1.0, empty, E.up[j], E.lo[j]); g_fake->RLP::addCol(c, false); g_fakeq->QLP::addCol(LPColBase<Rational>(c), false); }
   for(int i = 0; i < NR0; ++i)
   {
      DSVectorBase<double> rv(NC0); rv.add(i % NC0, 1.0);
      LPRowBase<double> r(E.lhs[i], rv, E.rhs[i]); g_fake->RLP::addRow(r, false); g_fakeq->QLP::addRow(LPRowBase<Rational>(r), false);
   }
   sp->_currentSettings->_intParamValues[SP::VERBOSITY] = 0;
#else
   SP* sp = &mem.sp;
   sp->_currentSettings = &stmem.st;
   sp->_currentSettings->_realParamValues[SP::INFTY] = (double)infinity;
   g_fake = new FakeLP(); g_fakeq = new FakeQLP();
#endif
   sp->_currentSettings->_intParamValues[SP::SYNCMODE] = mode;
   sp->_realLP = g_fake; sp->_isRealLPLoaded = false; sp->_hasBasis = false;
   sp->_rationalLP = g_fakeq;
   if(mode == SP::SYNCMODE_ONLYREAL && nullq) sp->_rationalLP = nullptr;      // real-only mode: no rational LP need exist (state after construction)
   g_fake->_isScaled = scaled;
   init_arr(sp->_rowTypes, NR0, MAXD); init_arr(sp->_colTypes, NC0, MAXD);
   for(int i = 0; i < NR0; ++i) sp->_rowTypes[i] = (RT)classify(E.lhs[i], E.rhs[i]);
   for(int j = 0; j < NC0; ++j) sp->_colTypes[j] = (RT)classify(E.lo[j], E.up[j]);
   // arbitrary cached solution state
   sp->_status = (SPxSolverBase<double>::Status)status;
   sp->_hasSolReal = hsr; sp->_hasSolRational = hsq;
   sp->_solReal._isPrimalFeasible = flags & 1; sp->_solReal._hasPrimalRay = (flags >> 1) & 1; sp->_solReal._isDualFeasible = (flags >> 2) & 1; sp->_solReal._hasDualFarkas = (flags >> 3) & 1;
   sp->_solRational._isPrimalFeasible = (flags >> 4) & 1; sp->_solRational._hasPrimalRay = (flags >> 5) & 1; sp->_solRational._isDualFeasible = (flags >> 6) & 1; sp->_solRational._hasDualFarkas = (flags >> 7) & 1;
#ifdef VP_NATIVE
   sp->_rationalLUSolver.stat = SLinSolverRational::OK;
#endif
   g_pre.status = status; g_pre.hsr = hsr; g_pre.hsq = hsq; g_pre.flags = flags;
   g_sp = sp;
   R_.n = 0; Q_.n = 0; g_badpair = 0; g_unknownTok = 0; g_luclears = 0; g_hn = 0; g_hfn = 0;
   return sp;
}
static bool lu_cleared(SP* sp)
{
#ifdef VP_NATIVE
   return sp->_rationalLUSolver.status() == SLinSolverRational::UNLOADED;
#else
   return g_luclears >= 1;
#endif
}
static bool same(double a, double b) { return std::memcmp(&a, &b, sizeof a) == 0; }

// ---- common post-conditions ---------------------------------------------------------------------------------------
struct Types { int nr, nc; int r[MAXD], c[MAXD]; };
static void save_types(SP* sp, Types& t)
{
   t.nr = sp->_rowTypes.size(); t.nc = sp->_colTypes.size();
   for(int k = 0; k < MAXD; ++k) { if(k < t.nr) t.r[k] = sp->_rowTypes[k]; if(k < t.nc) t.c[k] = sp->_colTypes[k]; }
}
// C06: whatever was cached is no longer reported as current (through the real public getters)
static void check_invalidated(SP* sp)
{
   vp_assert(sp->status() == SPxSolverBase<double>::UNKNOWN, 4);
   vp_assert(!sp->hasSol() && !sp->hasPrimal() && !sp->hasDual(), 4);
   vp_assert(!sp->isPrimalFeasible() && !sp->isDualFeasible() && !sp->hasPrimalRay() && !sp->hasDualFarkas(), 4);
   vp_assert(!sp->_hasSolReal && !sp->_hasSolRational, 4);
   vp_assert(!sp->_solReal._isPrimalFeasible && !sp->_solReal._hasPrimalRay && !sp->_solReal._isDualFeasible && !sp->_solReal._hasDualFarkas, 4);
   vp_assert(!sp->_solRational._isPrimalFeasible && !sp->_solRational._hasPrimalRay && !sp->_solRational._isDualFeasible && !sp->_solRational._hasDualFarkas, 4);
}
// the real LP received exactly one call, fn, made before the solution was invalidated (if a solution was cached)
static bool lu_cleared(SP* sp);
static void check_real(SP* sp, int fn, bool hadSol, bool scaled, bool hasScaleArg)
{
   vp_assert(R_.n == 1 && R_.fn == fn, 1);
   if(fn != F_chgObjV && fn != F_chgObjI && fn != F_clear)
   {  // the LP call is made by the modifier's own private helper (which also does the basis bookkeeping and drops the rational LU)
#ifdef VP_NATIVE
      vp_assert(lu_cleared(sp), 14);
#else
      vp_assert(g_hn == 1 && g_hfn == fn, 14);
#endif
   }
   vp_assert(R_.solAlive == (hadSol ? 1 : 0), 11);
   if(hasScaleArg) vp_assert(R_.scale == (scaled ? 1 : 0), 3);
}
// rational side after the call
static void check_sync(SP* sp, bool expectQ, int fn, const Types& t0)
{
   if(expectQ)
   {
      vp_assert(Q_.n == 1 && Q_.fn == fn, 5);
      vp_assert(g_unknownTok == 0, 6);
      vp_assert(Q_.scale <= 0, 6);                    // the rational LP is never scaled
      // the rational LP holds what the reference predicts
      vp_assert(F.nr == E.nr && F.nc == E.nc, 7);
      for(int k = 0; k < MAXD; ++k)
      {
         if(k < E.nr) vp_assert(same(F.lhs[k], E.lhs[k]) && same(F.rhs[k], E.rhs[k]), 7);
         if(k < E.nc) vp_assert(same(F.lo[k], E.lo[k]) && same(F.up[k], E.up[k]), 7);
      }
      // the range types match the (new) rational bounds
      vp_assert(sp->_rowTypes.size() == E.nr && sp->_colTypes.size() == E.nc, 8);
      for(int k = 0; k < MAXD; ++k)
      {
         if(k < E.nr) vp_assert(sp->_rowTypes[k] == classify(E.lhs[k], E.rhs[k]), 8);
         if(k < E.nc) vp_assert(sp->_colTypes[k] == classify(E.lo[k], E.up[k]), 8);
      }
      vp_assert(g_badpair == 0, 9);
   }
   else
   {
      // manual / real-only mode: neither the rational LP nor the type arrays are touched
      vp_assert(Q_.n == 0, 5);
      vp_assert(sp->_rowTypes.size() == t0.nr && sp->_colTypes.size() == t0.nc, 10);
      for(int k = 0; k < MAXD; ++k)
      {
         if(k < t0.nr) vp_assert(sp->_rowTypes[k] == t0.r[k], 10);
         if(k < t0.nc) vp_assert(sp->_colTypes[k] == t0.c[k], 10);
      }
   }
}
// mode and nullq are CONSTANTS inside the family bodies (the entries dispatch over them, see R_DISPATCH): the solver must
// see a constant _rationalLP pointer, otherwise every virtual call on it is expanded to all virtual functions of all classes
#ifdef VP_C07
#define R_DISPATCH(body) body(SP::SYNCMODE_AUTO, false);
#else
#define R_DISPATCH(body) \
   int m_ = vp_int_in(0, 1); \
   bool nq_ = vp_nondet_bool(); \
   if(m_) body(SP::SYNCMODE_MANUAL, false); else if(nq_) body(SP::SYNCMODE_ONLYREAL, true); else body(SP::SYNCMODE_ONLYREAL, false);
#endif
#define PROLOGUE \
   SP* sp = setup(mode, nullq); \
   bool hadSol = sp->_hasSolReal; bool scaled = g_fake->_isScaled; \
   Types t0; save_types(sp, t0);
#define EPILOGUE(fn, hasScaleArg) \
   check_real(sp, fn, hadSol, scaled, hasScaleArg); \
   check_sync(sp, mode == SP::SYNCMODE_AUTO, fn, t0); \
   check_invalidated(sp); \
   vp_cover(1);

// argument objects --------------------------------------------------------------------------------------------------
static LPRowBase<double>* make_row(double l, double h)
{
   LPRowBase<double>* r = new LPRowBase<double>(1); r->setLhs(l); r->setRhs(h); return r;
}
static LPColBase<double>* make_col(double l, double h)
{
   LPColBase<double>* c = new LPColBase<double>(1); c->setLower(l); c->setUpper(h); c->setObj(1.0); return c;
}
union RowSetMem { LPRowSetBase<double> s; RowSetMem() {} ~RowSetMem() {} };
union ColSetMem { LPColSetBase<double> s; ColSetMem() {} ~ColSetMem() {} };
static LPRowSetBase<double>* make_rowset(int n, const double* l, const double* h)
{
#ifdef VP_NATIVE
   LPRowSetBase<double>* s = new LPRowSetBase<double>();
   DSVectorBase<double> empty(1);
   for(int k = 0; k < n; ++k) s->add(l[k], empty, h[k]);
#else
   static RowSetMem m; LPRowSetBase<double>* s = &m.s;
#endif
   g_rowset.addr = s; g_rowset.n = n; for(int k = 0; k < NSET; ++k) { g_rowset.b1[k] = l[k]; g_rowset.b2[k] = h[k]; }
   return s;
}
static LPColSetBase<double>* make_colset(int n, const double* l, const double* h)
{
#ifdef VP_NATIVE
   LPColSetBase<double>* s = new LPColSetBase<double>();
   DSVectorBase<double> empty(1);
   for(int k = 0; k < n; ++k) s->add(1.0, l[k], empty, h[k]);
#else
   static ColSetMem m; LPColSetBase<double>* s = &m.s;
#endif
   g_colset.addr = s; g_colset.n = n; for(int k = 0; k < NSET; ++k) { g_colset.b1[k] = l[k]; g_colset.b2[k] = h[k]; }
   return s;
}

// ====================================================================================================================
// family ADD: addRowReal, addRowsReal, addColReal, addColsReal
static void r_add(int mode, bool nullq)
{
   PROLOGUE
   int which = vp_int_in(0, 3);
   double l[NSET], h[NSET];
   for(int k = 0; k < NSET; ++k) { l[k] = bound_or_inf(false); h[k] = bound_or_inf(true); vp_assume(l[k] <= h[k]); }
   int n = vp_int_in(0, NSET);
   int fn = 0;
   if(which == 0)
   {
      LPRowBase<double>* row = make_row(l[0], h[0]);
      sp->addRowReal(*row); fn = F_addRow;
      vp_assert(R_.a == row && R_.nv == 2 && same(R_.v[0], l[0]) && same(R_.v[1], h[0]), 2);
      if(mode == SP::SYNCMODE_AUTO) { vp_assert(Q_.nv == 2 && same(Q_.v[0], l[0]) && same(Q_.v[1], h[0]), 6);
#ifndef VP_NATIVE
         vp_assert(Q_.a == row, 6);
#endif
      }
      E.lhs[E.nr] = l[0]; E.rhs[E.nr] = h[0]; E.nr++;
   }
   else if(which == 1)
   {
      LPRowSetBase<double>* set = make_rowset(n, l, h);
      sp->addRowsReal(*set); fn = F_addRows;
      vp_assert(R_.a == set && R_.nv == 2 * n, 2);
      if(mode == SP::SYNCMODE_AUTO) { vp_assert(Q_.nv == 2 * n, 6);
#ifndef VP_NATIVE
         vp_assert(Q_.a == set, 6);
#endif
      }
      for(int k = 0; k < NSET; ++k) if(k < n) { E.lhs[E.nr] = l[k]; E.rhs[E.nr] = h[k]; E.nr++; }
   }
   else if(which == 2)
   {
      LPColBase<double>* col = make_col(l[0], h[0]);
      sp->addColReal(*col); fn = F_addCol;
      vp_assert(R_.a == col && R_.nv == 2 && same(R_.v[0], l[0]) && same(R_.v[1], h[0]), 2);
      if(mode == SP::SYNCMODE_AUTO) { vp_assert(Q_.nv == 2 && same(Q_.v[0], l[0]) && same(Q_.v[1], h[0]), 6);
#ifndef VP_NATIVE
         vp_assert(Q_.a == col, 6);
#endif
      }
      E.lo[E.nc] = l[0]; E.up[E.nc] = h[0]; E.nc++;
   }
   else
   {
      LPColSetBase<double>* set = make_colset(n, l, h);
      sp->addColsReal(*set); fn = F_addCols;
      vp_assert(R_.a == set && R_.nv == 2 * n, 2);
      if(mode == SP::SYNCMODE_AUTO) { vp_assert(Q_.nv == 2 * n, 6);
#ifndef VP_NATIVE
         vp_assert(Q_.a == set, 6);
#endif
      }
      for(int k = 0; k < NSET; ++k) if(k < n) { E.lo[E.nc] = l[k]; E.up[E.nc] = h[k]; E.nc++; }
   }
   EPILOGUE(fn, true)
}

// family ROWS: changeRowReal, changeLhsReal(vec), changeLhsReal(i), changeRhsReal(vec), changeRhsReal(i), changeRangeReal(vec,vec), changeRangeReal(i)
// family COLS: changeColReal, changeLowerReal(vec|i), changeUpperReal(vec|i), changeBoundsReal(vec,vec|i)
template<bool ROWS> static void change_family(int mode, bool nullq)
{
   PROLOGUE
   const int N = ROWS ? NR0 : NC0;
   double* elo = ROWS ? E.lhs : E.lo; double* eup = ROWS ? E.rhs : E.up;
   int which = vp_int_in(0, 6);
   int i = vp_int_in(0, N - 1);
   double l[NR0], h[NR0];
   for(int k = 0; k < N; ++k) { l[k] = bound_or_inf(false); h[k] = bound_or_inf(true); }
   VectorBase<double>* x = new VectorBase<double>(N); VectorBase<double>* y = new VectorBase<double>(N);
   for(int k = 0; k < N; ++k) { (*x)[k] = l[k]; (*y)[k] = h[k]; }
   int fn = 0;
   if(which == 0)
   {  // replace row / column i
      vp_assume(l[0] <= h[0]);
      if(ROWS) { LPRowBase<double>* row = make_row(l[0], h[0]); sp->changeRowReal(i, *row); fn = F_chgRow; vp_assert(R_.a == row, 2);
#ifndef VP_NATIVE
         if(mode == SP::SYNCMODE_AUTO) vp_assert(Q_.a == row, 6);
#endif
      }
      else { LPColBase<double>* col = make_col(l[0], h[0]); sp->changeColReal(i, *col); fn = F_chgCol; vp_assert(R_.a == col, 2);
#ifndef VP_NATIVE
         if(mode == SP::SYNCMODE_AUTO) vp_assert(Q_.a == col, 6);
#endif
      }
      vp_assert(R_.i == i && R_.nv == 2 && same(R_.v[0], l[0]) && same(R_.v[1], h[0]), 2);
      if(mode == SP::SYNCMODE_AUTO) vp_assert(Q_.i == i && Q_.nv == 2 && same(Q_.v[0], l[0]) && same(Q_.v[1], h[0]), 6);
      elo[i] = l[0]; eup[i] = h[0];
   }
   else if(which == 1 || which == 3)
   {  // whole lhs / rhs (lower / upper) vector
      bool lower = (which == 1);
      for(int k = 0; k < N; ++k) { if(lower) vp_assume(l[k] <= eup[k]); else vp_assume(elo[k] <= h[k]); }
      if(ROWS) { if(lower) { sp->changeLhsReal(*x); fn = F_chgLhsV; } else { sp->changeRhsReal(*y); fn = F_chgRhsV; } }
      else { if(lower) { sp->changeLowerReal(*x); fn = F_chgLowerV; } else { sp->changeUpperReal(*y); fn = F_chgUpperV; } }
      vp_assert(R_.a == (lower ? x : y) && R_.nv == N, 2);
      if(mode == SP::SYNCMODE_AUTO) { vp_assert(Q_.nv == N, 6);
#ifndef VP_NATIVE
         vp_assert(Q_.a == (lower ? x : y), 6);
#endif
      }
      for(int k = 0; k < N; ++k)
      {
         vp_assert(same(R_.v[k], lower ? l[k] : h[k]), 2);
         if(mode == SP::SYNCMODE_AUTO) vp_assert(same(Q_.v[k], lower ? l[k] : h[k]), 6);
         if(lower) elo[k] = l[k]; else eup[k] = h[k];
      }
   }
   else if(which == 2 || which == 4)
   {  // single lhs / rhs (lower / upper)
      bool lower = (which == 2);
      if(lower) vp_assume(l[0] <= eup[i]); else vp_assume(elo[i] <= h[0]);
      double val = lower ? l[0] : h[0];
      if(ROWS) { if(lower) { sp->changeLhsReal(i, val); fn = F_chgLhsI; } else { sp->changeRhsReal(i, val); fn = F_chgRhsI; } }
      else { if(lower) { sp->changeLowerReal(i, val); fn = F_chgLowerI; } else { sp->changeUpperReal(i, val); fn = F_chgUpperI; } }
      vp_assert(R_.i == i && R_.nv == 1 && same(R_.v[0], val), 2);
      if(mode == SP::SYNCMODE_AUTO) vp_assert(Q_.i == i && Q_.nv == 1 && same(Q_.v[0], val), 6);
      if(lower) elo[i] = val; else eup[i] = val;
   }
   else if(which == 5)
   {  // both vectors
      for(int k = 0; k < N; ++k) vp_assume(l[k] <= h[k]);
      if(ROWS) { sp->changeRangeReal(*x, *y); fn = F_chgRangeV; } else { sp->changeBoundsReal(*x, *y); fn = F_chgBoundsV; }
      vp_assert(R_.a == x && R_.b == y && R_.nv == 2 * N, 2);
      if(mode == SP::SYNCMODE_AUTO) { vp_assert(Q_.nv == 2 * N, 6);
#ifndef VP_NATIVE
         vp_assert(Q_.a == x && Q_.b == y, 6);
#endif
      }
      for(int k = 0; k < N; ++k)
      {
         vp_assert(same(R_.v[2 * k], l[k]) && same(R_.v[2 * k + 1], h[k]), 2);
         if(mode == SP::SYNCMODE_AUTO) vp_assert(same(Q_.v[2 * k], l[k]) && same(Q_.v[2 * k + 1], h[k]), 6);
         elo[k] = l[k]; eup[k] = h[k];
      }
   }
   else
   {  // both sides of one row / column
      vp_assume(l[0] <= h[0]);
      if(ROWS) { sp->changeRangeReal(i, l[0], h[0]); fn = F_chgRangeI; } else { sp->changeBoundsReal(i, l[0], h[0]); fn = F_chgBoundsI; }
      vp_assert(R_.i == i && R_.nv == 2 && same(R_.v[0], l[0]) && same(R_.v[1], h[0]), 2);
      if(mode == SP::SYNCMODE_AUTO) vp_assert(Q_.i == i && Q_.nv == 2 && same(Q_.v[0], l[0]) && same(Q_.v[1], h[0]), 6);
      elo[i] = l[0]; eup[i] = h[0];
   }
   EPILOGUE(fn, true)
}
extern "C" void
#ifdef VP_C07
h_c07_change_rows()
#else
h_c06_change_rows()
#endif
{ R_DISPATCH(change_family<true>) }
extern "C" void
#ifdef VP_C07
h_c07_change_cols()
#else
h_c06_change_cols()
#endif
{ R_DISPATCH(change_family<false>) }

// family OBJ: changeObjReal(vec), changeObjReal(i), changeElementReal(i,j)  (these call the LP directly / via _changeElementReal)
static void r_change_obj_elem(int mode, bool nullq)
{
   PROLOGUE
   int which = vp_int_in(0, 2);
   int i = vp_int_in(0, NR0 - 1);
   int j = vp_int_in(0, NC0 - 1);
   double c[NC0];
   for(int k = 0; k < NC0; ++k) c[k] = vp_small(-4, 4);
   VectorBase<double>* x = new VectorBase<double>(NC0);
   for(int k = 0; k < NC0; ++k) (*x)[k] = c[k];
   int fn = 0;
   if(which == 0)
   {
      sp->changeObjReal(*x); fn = F_chgObjV;
      vp_assert(R_.a == x && R_.nv == NC0, 2);
      if(mode == SP::SYNCMODE_AUTO) { vp_assert(Q_.nv == NC0, 6);
#ifndef VP_NATIVE
         vp_assert(Q_.a == x, 6);
#endif
      }
      for(int k = 0; k < NC0; ++k) { vp_assert(same(R_.v[k], c[k]), 2); if(mode == SP::SYNCMODE_AUTO) vp_assert(same(Q_.v[k], c[k]), 6); }
   }
   else if(which == 1)
   {
      sp->changeObjReal(j, c[0]); fn = F_chgObjI;
      vp_assert(R_.i == j && R_.nv == 1 && same(R_.v[0], c[0]), 2);
      if(mode == SP::SYNCMODE_AUTO) vp_assert(Q_.i == j && Q_.nv == 1 && same(Q_.v[0], c[0]), 6);
   }
   else
   {
      sp->changeElementReal(i, j, c[0]); fn = F_chgElem;
      vp_assert(R_.i == i && R_.j == j && R_.nv == 1 && same(R_.v[0], c[0]), 2);
      if(mode == SP::SYNCMODE_AUTO) vp_assert(Q_.i == i && Q_.j == j && Q_.nv == 1 && same(Q_.v[0], c[0]), 6);
   }
   EPILOGUE(fn, true)
}

// family REMOVE: removeRowReal(i), removeRowsReal(perm), removeRowsReal(idx,n,perm|nullptr), removeRowRangeReal(start,end,perm|nullptr); same for columns
template<bool ROWS> static void remove_family(int mode, bool nullq)
{
   PROLOGUE
   const int N = ROWS ? NR0 : NC0;
   double* elo = ROWS ? E.lhs : E.lo; double* eup = ROWS ? E.rhs : E.up; int& en = ROWS ? E.nr : E.nc;
   int which = vp_int_in(0, 3);
   bool ownbuf = vp_nondet_bool();            // idx / range variants: caller passes a perm buffer or nullptr
   int* perm = new int[N];
   int del[NR0];
   int fn = ROWS ? F_rmRows : F_rmCols;
   for(int k = 0; k < N; ++k) del[k] = 0;
   if(which == 0)
   {
      int i = vp_int_in(0, N - 1);
      if(ROWS) { sp->removeRowReal(i); fn = F_rmRow; } else { sp->removeColReal(i); fn = F_rmCol; }
      vp_assert(R_.i == i, 2);
      if(mode == SP::SYNCMODE_AUTO) vp_assert(Q_.i == i, 6);
      // documented renumbering of removeRow/removeCol: the last one moves into the hole
      elo[i] = elo[N - 1]; eup[i] = eup[N - 1]; en = N - 1;
   }
   else
   {
      if(which == 1)
      {
         for(int k = 0; k < N; ++k) { del[k] = vp_int_in(0, 1); int keepv = vp_int_in(0, 1000); perm[k] = del[k] ? -1 - keepv : keepv; }
         if(ROWS) sp->removeRowsReal(perm); else sp->removeColsReal(perm);
         vp_assert(R_.a == perm, 2);
         if(mode == SP::SYNCMODE_AUTO) vp_assert(Q_.a == perm, 6);
      }
      else if(which == 2)
      {
         int* idx = new int[2];
         int n = vp_int_in(0, 2);
         idx[0] = vp_int_in(0, N - 1); idx[1] = vp_int_in(0, N - 1);
         for(int k = 0; k < 2; ++k) if(k < n) del[idx[k]] = 1;
         for(int k = 0; k < N; ++k) perm[k] = vp_nondet_int();
         if(ROWS) sp->removeRowsReal(idx, n, ownbuf ? perm : nullptr); else sp->removeColsReal(idx, n, ownbuf ? perm : nullptr);
      }
      else
      {
         int start = vp_int_in(-1, N); int end = vp_int_in(-1, N);
         for(int k = 0; k < N; ++k) { del[k] = (start <= k && k <= end) ? 1 : 0; perm[k] = vp_nondet_int(); }
         if(ROWS) sp->removeRowRangeReal(start, end, ownbuf ? perm : nullptr); else sp->removeColRangeReal(start, end, ownbuf ? perm : nullptr);
      }
      if(which != 1 && ownbuf) { vp_assert(R_.a == perm, 2); if(mode == SP::SYNCMODE_AUTO) vp_assert(Q_.a == perm, 6); }
      if(mode == SP::SYNCMODE_AUTO) vp_assert(Q_.a == R_.a, 6);          // the same permutation array goes to both LPs
      // exactly the selected ones are removed from both LPs; survivors keep their order (documented renumbering)
      vp_assert(R_.nv == N, 2);
      if(mode == SP::SYNCMODE_AUTO) vp_assert(Q_.nv == N, 6);
      int jn = 0;
      for(int k = 0; k < N; ++k)
      {
         vp_assert(R_.pat[k] == del[k], 2);
         if(mode == SP::SYNCMODE_AUTO) vp_assert(Q_.pat[k] == del[k], 6);
         if(which == 1 || ownbuf) { if(del[k]) vp_assert(perm[k] < 0, 12); else vp_assert(perm[k] == jn, 12); }   // perm reports the new numbering
         if(!del[k]) { elo[jn] = elo[k]; eup[jn] = eup[k]; ++jn; }
      }
      en = jn;
   }
   EPILOGUE(fn, false)
}
extern "C" void
#ifdef VP_C07
h_c07_remove_rows()
#else
h_c06_remove_rows()
#endif
{ R_DISPATCH(remove_family<true>) }
extern "C" void
#ifdef VP_C07
h_c07_remove_cols()
#else
h_c06_remove_cols()
#endif
{ R_DISPATCH(remove_family<false>) }

// clearLPReal
static void r_clear(int mode, bool nullq)
{
   PROLOGUE
   sp->_hasBasis = vp_nondet_bool();
   sp->clearLPReal();
   E.nr = 0; E.nc = 0;
   vp_assert(!sp->_hasBasis && !sp->hasBasis(), 12);       // no basis survives
   vp_assert(lu_cleared(sp), 13);                           // C11: rational factorization dropped
   EPILOGUE(F_clear, false)
}

extern "C" void
#ifdef VP_C07
h_c07_add()
#else
h_c06_add()
#endif
{ R_DISPATCH(r_add) }
extern "C" void
#ifdef VP_C07
h_c07_change_obj_elem()
#else
h_c06_change_obj_elem()
#endif
{ R_DISPATCH(r_change_obj_elem) }
extern "C" void
#ifdef VP_C07
h_c07_clear()
#else
h_c06_clear()
#endif
{ R_DISPATCH(r_clear) }

#ifndef VP_C07
// the real _invalidateSolution on its own, from an arbitrary cached state (C06: nothing cached is reported as current any more)
extern "C" void h_c06_invalidate()
{
   SP* sp = setup(SP::SYNCMODE_MANUAL, false);
   Types t0; save_types(sp, t0);
   bool hb = vp_nondet_bool();
   sp->_hasBasis = hb;
   sp->_invalidateSolution();
   check_invalidated(sp);
   // and nothing else: LPs, types and basis flag untouched
   vp_assert(R_.n == 0 && Q_.n == 0 && sp->_hasBasis == hb, 1);
   check_sync(sp, false, 0, t0);
   vp_cover(1);
}
#endif

#ifdef VP_C07
// ====================================================================================================================
// The rational twins (addRowRational ... clearLPRational; the mpq_t* array variants are not covered): the converse of the
// above. SYNCMODE_ONLYREAL: no effect at all (except clearLPRational); SYNCMODE_MANUAL: only the rational LP and the type
// arrays change; SYNCMODE_AUTO: the real LP receives the matching call (through the private helper) with the converted values.
// Rational arguments are opaque tokens in the solver build: raw objects whose accessors are replaced by models.
#ifndef VP_NATIVE
union QArgCells { Rational q[4 + 2 * MAXD]; QArgCells() {} ~QArgCells() {} };      // [0..3] scalars, then the cells of two vectors
static QArgCells argq;
union VecQMem { VectorBase<Rational> v; VecQMem() {} ~VecQMem() {} };
static VecQMem vqmem[2];
union RowQMem { LPRowBase<Rational> r; RowQMem() {} ~RowQMem() {} };
union ColQMem { LPColBase<Rational> c; ColQMem() {} ~ColQMem() {} };
union RowSetQMem { LPRowSetBase<Rational> s; RowSetQMem() {} ~RowSetQMem() {} };
union ColSetQMem { LPColSetBase<Rational> s; ColSetQMem() {} ~ColSetQMem() {} };
static RowQMem rowqmem; static ColQMem colqmem; static RowSetQMem rowsetqmem; static ColSetQMem colsetqmem;
extern "C" {
const Rational* m_vecq_at(const VectorBase<Rational>* self, int i) { int slot = (self == &vqmem[1].v) ? 1 : 0; return &argq.q[4 + slot * MAXD + i]; }
double m_q_to_double(const Rational* self) { double v = 0.0; if(!tok_of(self, v)) g_unknownTok++; return v; }
// by-value accessors of LPRowBase<Rational> / LPColBase<Rational>: the result object stands for the shadow's value
static void q_ret(Rational* ret, const void* self, int what)
{
   int k = conv_find(self);
   if(k < 0) { g_unknownTok++; conv_add(ret, nullptr, 0.0); return; }
   double v = what == 0 ? ((const LPRowBase<double>*)g_conv[k].src)->lhs() : what == 1 ? ((const LPRowBase<double>*)g_conv[k].src)->rhs()
              : what == 2 ? ((const LPColBase<double>*)g_conv[k].src)->lower() : ((const LPColBase<double>*)g_conv[k].src)->upper();
   conv_add(ret, nullptr, v);
}
void m_rowq_lhs(Rational* ret, const LPRowBase<Rational>* self) { q_ret(ret, self, 0); }
void m_rowq_rhs(Rational* ret, const LPRowBase<Rational>* self) { q_ret(ret, self, 1); }
void m_colq_lower(Rational* ret, const LPColBase<Rational>* self) { q_ret(ret, self, 2); }
void m_colq_upper(Rational* ret, const LPColBase<Rational>* self) { q_ret(ret, self, 3); }
// conversions Rational -> double of whole objects: a real double object with the shadow's content
void m_vecd_conv(VectorBase<double>* self, const VectorBase<Rational>* src)
{
   const VectorBase<double>* sh = vsrc<Rational>(*src);
   if(sh) new(self) VectorBase<double>(*sh); else new(self) VectorBase<double>(0);
}
void m_rowd_conv(LPRowBase<double>* self, const LPRowBase<Rational>* src)
{
   new(self) LPRowBase<double>(1);
   int k = conv_find(src);
   if(k < 0) { g_unknownTok++; return; }
   const LPRowBase<double>* sh = (const LPRowBase<double>*)g_conv[k].src; self->setLhs(sh->lhs()); self->setRhs(sh->rhs());
}
void m_cold_conv(LPColBase<double>* self, const LPColBase<Rational>* src)
{
   new(self) LPColBase<double>(1);
   int k = conv_find(src);
   if(k < 0) { g_unknownTok++; return; }
   const LPColBase<double>* sh = (const LPColBase<double>*)g_conv[k].src; self->setLower(sh->lower()); self->setUpper(sh->upper());
}
void m_rowsetd_conv(LPRowSetBase<double>* self, const LPRowSetBase<Rational>* src) { if(ident(*src, true) == g_rowset.addr) g_rowset.alias = self; }
void m_colsetd_conv(LPColSetBase<double>* self, const LPColSetBase<Rational>* src) { if(ident(*src, true) == g_colset.addr) g_colset.alias = self; }
}
#endif
static const Rational& q_scalar(int slot, double val)
{
#ifdef VP_NATIVE
   return *new Rational(val);
#else
   conv_add(&argq.q[slot], nullptr, val); return argq.q[slot];
#endif
}
static const VectorBase<Rational>& q_vector(int slot, int n, const double* vals)
{
#ifdef VP_NATIVE
   VectorBase<Rational>* v = new VectorBase<Rational>(n);
   for(int k = 0; k < n; ++k) (*v)[k] = Rational(vals[k]);
   return *v;
#else
   VectorBase<double>* sh = new VectorBase<double>(n);
   for(int k = 0; k < n; ++k) { (*sh)[k] = vals[k]; conv_add(&argq.q[4 + slot * MAXD + k], nullptr, vals[k]); }
   conv_add(&vqmem[slot].v, sh, 0.0);
   return vqmem[slot].v;
#endif
}
static const LPRowBase<Rational>& q_row(double l, double h)
{
   LPRowBase<double>* sh = make_row(l, h);
#ifdef VP_NATIVE
   return *new LPRowBase<Rational>(*sh);
#else
   conv_add(&rowqmem.r, sh, 0.0); return rowqmem.r;
#endif
}
static const LPColBase<Rational>& q_col(double l, double h)
{
   LPColBase<double>* sh = make_col(l, h);
#ifdef VP_NATIVE
   return *new LPColBase<Rational>(*sh);
#else
   conv_add(&colqmem.c, sh, 0.0); return colqmem.c;
#endif
}
static const LPRowSetBase<Rational>& q_rowset(int n, const double* l, const double* h)
{
   LPRowSetBase<double>* sh = make_rowset(n, l, h);
#ifdef VP_NATIVE
   return *new LPRowSetBase<Rational>(*sh);
#else
   conv_add(&rowsetqmem.s, sh, 0.0); return rowsetqmem.s;
#endif
}
static const LPColSetBase<Rational>& q_colset(int n, const double* l, const double* h)
{
   LPColSetBase<double>* sh = make_colset(n, l, h);
#ifdef VP_NATIVE
   return *new LPColSetBase<Rational>(*sh);
#else
   conv_add(&colsetqmem.s, sh, 0.0); return colsetqmem.s;
#endif
}
// real-only mode: the cached solution state is left exactly as it was
static void check_untouched(SP* sp)
{
   vp_assert((int)sp->_status == g_pre.status && sp->_hasSolReal == g_pre.hsr && sp->_hasSolRational == g_pre.hsq, 15);
   int f = (sp->_solReal._isPrimalFeasible ? 1 : 0) | (sp->_solReal._hasPrimalRay ? 2 : 0) | (sp->_solReal._isDualFeasible ? 4 : 0) | (sp->_solReal._hasDualFarkas ? 8 : 0)
         | (sp->_solRational._isPrimalFeasible ? 16 : 0) | (sp->_solRational._hasPrimalRay ? 32 : 0) | (sp->_solRational._isDualFeasible ? 64 : 0) | (sp->_solRational._hasDualFarkas ? 128 : 0);
   vp_assert(f == g_pre.flags, 15);
}
static int pick_mode3()
{
   int m = vp_int_in(0, 2);
   return m;            // SYNCMODE_ONLYREAL = 0, SYNCMODE_AUTO = 1, SYNCMODE_MANUAL = 2
}
// mode and nullq are CONSTANTS inside the family bodies (the entries dispatch over them): the solver must see a constant
// _rationalLP pointer at every virtual call, otherwise it considers every virtual function of every class as a callee
#define Q_DISPATCH(body) \
   int m_ = pick_mode3(); \
   bool nq_ = vp_nondet_bool(); \
   if(m_ == SP::SYNCMODE_ONLYREAL) { if(nq_) body(SP::SYNCMODE_ONLYREAL, true); else body(SP::SYNCMODE_ONLYREAL, false); } \
   else if(m_ == SP::SYNCMODE_AUTO) body(SP::SYNCMODE_AUTO, false); \
   else body(SP::SYNCMODE_MANUAL, false);
#define Q_PROLOGUE \
   SP* sp = setup(mode, nullq); \
   bool hadSol = sp->_hasSolReal; bool scaled = g_fake->_isScaled; \
   bool expR = (mode == SP::SYNCMODE_AUTO); bool expQ = (mode != SP::SYNCMODE_ONLYREAL); \
   Types t0; save_types(sp, t0);
#define Q_EPILOGUE(fn, hasScaleArg) \
   if(expR) check_real(sp, fn, hadSol, scaled, hasScaleArg); else vp_assert(R_.n == 0, 1); \
   if(expQ) vp_assert(Q_.solAlive == (hadSol ? 1 : 0), 11); \
   check_sync(sp, expQ, fn, t0); \
   if(expQ) check_invalidated(sp); else check_untouched(sp); \
   vp_cover(1);

static void q_add(int mode, bool nullq)
{
   Q_PROLOGUE
   int which = vp_int_in(0, 3);
   double l[NSET], h[NSET];
   for(int k = 0; k < NSET; ++k) { l[k] = bound_or_inf(false); h[k] = bound_or_inf(true); vp_assume(l[k] <= h[k]); }
   int n = vp_int_in(0, NSET);
   int fn = 0;
   if(which == 0)
   {
      sp->addRowRational(q_row(l[0], h[0])); fn = F_addRow;
      if(expQ) vp_assert(Q_.nv == 2 && same(Q_.v[0], l[0]) && same(Q_.v[1], h[0]), 6);
      if(expR) vp_assert(R_.nv == 2 && same(R_.v[0], l[0]) && same(R_.v[1], h[0]), 2);
      E.lhs[E.nr] = l[0]; E.rhs[E.nr] = h[0]; E.nr++;
   }
   else if(which == 1)
   {
      sp->addRowsRational(q_rowset(n, l, h)); fn = F_addRows;
      if(expQ) vp_assert(Q_.nv == 2 * n, 6);
      if(expR) vp_assert(R_.nv == 2 * n, 2);
      for(int k = 0; k < NSET; ++k) if(k < n) { E.lhs[E.nr] = l[k]; E.rhs[E.nr] = h[k]; E.nr++; }
   }
   else if(which == 2)
   {
      sp->addColRational(q_col(l[0], h[0])); fn = F_addCol;
      if(expQ) vp_assert(Q_.nv == 2 && same(Q_.v[0], l[0]) && same(Q_.v[1], h[0]), 6);
      if(expR) vp_assert(R_.nv == 2 && same(R_.v[0], l[0]) && same(R_.v[1], h[0]), 2);
      E.lo[E.nc] = l[0]; E.up[E.nc] = h[0]; E.nc++;
   }
   else
   {
      sp->addColsRational(q_colset(n, l, h)); fn = F_addCols;
      if(expQ) vp_assert(Q_.nv == 2 * n, 6);
      if(expR) vp_assert(R_.nv == 2 * n, 2);
      for(int k = 0; k < NSET; ++k) if(k < n) { E.lo[E.nc] = l[k]; E.up[E.nc] = h[k]; E.nc++; }
   }
   if(expR) for(int k = 0; k < 2 * NSET; ++k) if(k < R_.nv) vp_assert(same(R_.v[k], Q_.v[k]), 2);     // both LPs got the same bounds
   Q_EPILOGUE(fn, true)
}
extern "C" void h_c07q_add() { Q_DISPATCH(q_add) }
template<bool ROWS> static void q_change_family(int mode, bool nullq)
{
   Q_PROLOGUE
   const int N = ROWS ? NR0 : NC0;
   double* elo = ROWS ? E.lhs : E.lo; double* eup = ROWS ? E.rhs : E.up;
   int which = vp_int_in(0, 6);
   int i = vp_int_in(0, N - 1);
   double l[NR0], h[NR0];
   for(int k = 0; k < N; ++k) { l[k] = bound_or_inf(false); h[k] = bound_or_inf(true); }
   int fn = 0;
   if(which == 0)
   {
      vp_assume(l[0] <= h[0]);
      if(ROWS) { sp->changeRowRational(i, q_row(l[0], h[0])); fn = F_chgRow; } else { sp->changeColRational(i, q_col(l[0], h[0])); fn = F_chgCol; }
      if(expQ) vp_assert(Q_.i == i && Q_.nv == 2 && same(Q_.v[0], l[0]) && same(Q_.v[1], h[0]), 6);
      if(expR) vp_assert(R_.i == i && R_.nv == 2 && same(R_.v[0], l[0]) && same(R_.v[1], h[0]), 2);
      elo[i] = l[0]; eup[i] = h[0];
   }
   else if(which == 1 || which == 3)
   {
      bool lower = (which == 1);
      for(int k = 0; k < N; ++k) { if(lower) vp_assume(l[k] <= eup[k]); else vp_assume(elo[k] <= h[k]); }
      const VectorBase<Rational>& x = q_vector(0, N, lower ? l : h);
      if(ROWS) { if(lower) { sp->changeLhsRational(x); fn = F_chgLhsV; } else { sp->changeRhsRational(x); fn = F_chgRhsV; } }
      else { if(lower) { sp->changeLowerRational(x); fn = F_chgLowerV; } else { sp->changeUpperRational(x); fn = F_chgUpperV; } }
      if(expQ) vp_assert(Q_.nv == N, 6);
      if(expR) vp_assert(R_.nv == N, 2);
      for(int k = 0; k < N; ++k)
      {
         if(expQ) vp_assert(same(Q_.v[k], lower ? l[k] : h[k]), 6);
         if(expR) vp_assert(same(R_.v[k], lower ? l[k] : h[k]), 2);
         if(lower) elo[k] = l[k]; else eup[k] = h[k];
      }
   }
   else if(which == 2 || which == 4)
   {
      bool lower = (which == 2);
      if(lower) vp_assume(l[0] <= eup[i]); else vp_assume(elo[i] <= h[0]);
      double val = lower ? l[0] : h[0];
      const Rational& q = q_scalar(0, val);
      if(ROWS) { if(lower) { sp->changeLhsRational(i, q); fn = F_chgLhsI; } else { sp->changeRhsRational(i, q); fn = F_chgRhsI; } }
      else { if(lower) { sp->changeLowerRational(i, q); fn = F_chgLowerI; } else { sp->changeUpperRational(i, q); fn = F_chgUpperI; } }
      if(expQ) vp_assert(Q_.i == i && Q_.nv == 1 && same(Q_.v[0], val), 6);
      if(expR) vp_assert(R_.i == i && R_.nv == 1 && same(R_.v[0], val), 2);
      if(lower) elo[i] = val; else eup[i] = val;
   }
   else if(which == 5)
   {
      for(int k = 0; k < N; ++k) vp_assume(l[k] <= h[k]);
      const VectorBase<Rational>& x = q_vector(0, N, l); const VectorBase<Rational>& y = q_vector(1, N, h);
      if(ROWS) { sp->changeRangeRational(x, y); fn = F_chgRangeV; } else { sp->changeBoundsRational(x, y); fn = F_chgBoundsV; }
      if(expQ) vp_assert(Q_.nv == 2 * N, 6);
      if(expR) vp_assert(R_.nv == 2 * N, 2);
      for(int k = 0; k < N; ++k)
      {
         if(expQ) vp_assert(same(Q_.v[2 * k], l[k]) && same(Q_.v[2 * k + 1], h[k]), 6);
         if(expR) vp_assert(same(R_.v[2 * k], l[k]) && same(R_.v[2 * k + 1], h[k]), 2);
         elo[k] = l[k]; eup[k] = h[k];
      }
   }
   else
   {
      vp_assume(l[0] <= h[0]);
      const Rational& ql = q_scalar(0, l[0]); const Rational& qh = q_scalar(1, h[0]);
      if(ROWS) { sp->changeRangeRational(i, ql, qh); fn = F_chgRangeI; } else { sp->changeBoundsRational(i, ql, qh); fn = F_chgBoundsI; }
      if(expQ) vp_assert(Q_.i == i && Q_.nv == 2 && same(Q_.v[0], l[0]) && same(Q_.v[1], h[0]), 6);
      if(expR) vp_assert(R_.i == i && R_.nv == 2 && same(R_.v[0], l[0]) && same(R_.v[1], h[0]), 2);
      elo[i] = l[0]; eup[i] = h[0];
   }
   Q_EPILOGUE(fn, true)
}
extern "C" void h_c07q_change_rows() { Q_DISPATCH(q_change_family<true>) }
extern "C" void h_c07q_change_cols() { Q_DISPATCH(q_change_family<false>) }
// changeObjRational(vec), changeObjRational(i)
static void q_change_obj(int mode, bool nullq)
{
   Q_PROLOGUE
   int which = vp_int_in(0, 1);
   int j = vp_int_in(0, NC0 - 1);
   double c[NC0];
   for(int k = 0; k < NC0; ++k) c[k] = vp_small(-4, 4);
   int fn = 0;
   if(which == 0)
   {
      sp->changeObjRational(q_vector(0, NC0, c)); fn = F_chgObjV;
      if(expQ) vp_assert(Q_.nv == NC0, 6);
      if(expR) vp_assert(R_.nv == NC0, 2);
      for(int k = 0; k < NC0; ++k) { if(expQ) vp_assert(same(Q_.v[k], c[k]), 6); if(expR) vp_assert(same(R_.v[k], c[k]), 2); }
   }
   else
   {
      sp->changeObjRational(j, q_scalar(0, c[0])); fn = F_chgObjI;
      if(expQ) vp_assert(Q_.i == j && Q_.nv == 1 && same(Q_.v[0], c[0]), 6);
      if(expR) vp_assert(R_.i == j && R_.nv == 1 && same(R_.v[0], c[0]), 2);
   }
   Q_EPILOGUE(fn, true)
}
extern "C" void h_c07q_change_obj() { Q_DISPATCH(q_change_obj) }
static void q_change_elem(int mode, bool nullq)
{
   Q_PROLOGUE
   int i = vp_int_in(0, NR0 - 1);
   int j = vp_int_in(0, NC0 - 1);
   double c = vp_small(-4, 4);
   sp->changeElementRational(i, j, q_scalar(0, c));
   if(expQ) vp_assert(Q_.i == i && Q_.j == j && Q_.nv == 1 && same(Q_.v[0], c), 6);
   if(expR) vp_assert(R_.i == i && R_.j == j && R_.nv == 1 && same(R_.v[0], c), 2);
   Q_EPILOGUE(F_chgElem, true)
}
extern "C" void h_c07q_change_elem() { Q_DISPATCH(q_change_elem) }
template<bool ROWS> static void q_remove_family(int mode, bool nullq)
{
   Q_PROLOGUE
   const int N = ROWS ? NR0 : NC0;
   double* elo = ROWS ? E.lhs : E.lo; double* eup = ROWS ? E.rhs : E.up; int& en = ROWS ? E.nr : E.nc;
   int which = vp_int_in(0, 3);
   bool ownbuf = vp_nondet_bool();
   int* perm = new int[N];
   int del[NR0];
   int fn = ROWS ? F_rmRows : F_rmCols;
   for(int k = 0; k < N; ++k) del[k] = 0;
   if(which == 0)
   {
      int i = vp_int_in(0, N - 1);
      if(ROWS) { sp->removeRowRational(i); fn = F_rmRow; } else { sp->removeColRational(i); fn = F_rmCol; }
      if(expQ) vp_assert(Q_.i == i, 6);
      if(expR) vp_assert(R_.i == i, 2);
      elo[i] = elo[N - 1]; eup[i] = eup[N - 1]; en = N - 1;
   }
   else
   {
      int origperm[NR0];
      if(which == 1)
      {
         for(int k = 0; k < N; ++k) { del[k] = vp_int_in(0, 1); int keepv = vp_int_in(0, 1000); perm[k] = del[k] ? -1 - keepv : keepv; origperm[k] = perm[k]; }
         if(ROWS) sp->removeRowsRational(perm); else sp->removeColsRational(perm);
         if(expQ) vp_assert(Q_.a == perm, 6);
         if(expR) vp_assert(R_.a == perm, 2);
      }
      else if(which == 2)
      {
         int* idx = new int[2];
         int n = vp_int_in(0, 2);
         idx[0] = vp_int_in(0, N - 1); idx[1] = vp_int_in(0, N - 1);
         for(int k = 0; k < 2; ++k) if(k < n) del[idx[k]] = 1;
         for(int k = 0; k < N; ++k) { perm[k] = vp_nondet_int(); origperm[k] = perm[k]; }
         if(mode == SP::SYNCMODE_ONLYREAL) vp_assume(!nullq);      // these two variants read numRowsRational() first (documented: perm has size numRowsRational())
         if(ROWS) sp->removeRowsRational(idx, n, ownbuf ? perm : nullptr); else sp->removeColsRational(idx, n, ownbuf ? perm : nullptr);
      }
      else
      {
         int start = vp_int_in(-1, N); int end = vp_int_in(-1, N);
         for(int k = 0; k < N; ++k) { del[k] = (start <= k && k <= end) ? 1 : 0; perm[k] = vp_nondet_int(); origperm[k] = perm[k]; }
         if(mode == SP::SYNCMODE_ONLYREAL) vp_assume(!nullq);
         if(ROWS) sp->removeRowRangeRational(start, end, ownbuf ? perm : nullptr); else sp->removeColRangeRational(start, end, ownbuf ? perm : nullptr);
      }
      if(expQ)
      {
         if(which != 1 && ownbuf) vp_assert(Q_.a == perm, 6);
         vp_assert(Q_.nv == N, 6);
         if(expR) vp_assert(R_.a == Q_.a && R_.nv == N, 2);
         int jn = 0;
         for(int k = 0; k < N; ++k)
         {
            vp_assert(Q_.pat[k] == del[k], 6);
            if(expR) vp_assert(R_.pat[k] == del[k], 2);
            if(which == 1 || ownbuf) { if(del[k]) vp_assert(perm[k] < 0, 12); else vp_assert(perm[k] == jn, 12); }
            if(!del[k]) { elo[jn] = elo[k]; eup[jn] = eup[k]; ++jn; }
         }
         en = jn;
      }
      else if(which == 1)
      {  // real-only mode: the caller's perm array is not touched either
         for(int k = 0; k < N; ++k) vp_assert(perm[k] == origperm[k], 12);
      }
   }
   Q_EPILOGUE(fn, false)
}
extern "C" void h_c07q_remove_rows() { Q_DISPATCH(q_remove_family<true>) }
extern "C" void h_c07q_remove_cols() { Q_DISPATCH(q_remove_family<false>) }
// clearLPRational: clears the rational LP (and, in automatic sync mode, the real LP); in real-only mode it is a no-op like
// every other rational modifier (the pinned tree dereferenced the null rational LP there: repaired by a fix: commit in /repo)
static void q_clear(int mode, bool nullq)
{
   Q_PROLOGUE
   bool hb = vp_nondet_bool();
   sp->_hasBasis = hb;
   sp->clearLPRational();
   if(expQ) { E.nr = 0; E.nc = 0; vp_assert(lu_cleared(sp), 13); }
   if(expR) vp_assert(!sp->_hasBasis, 12); else vp_assert(sp->_hasBasis == hb, 12);
   if(expR) check_real(sp, F_clear, hadSol, scaled, false); else vp_assert(R_.n == 0, 1);
   check_sync(sp, expQ, F_clear, t0);
   if(expQ) check_invalidated(sp); else check_untouched(sp);
   vp_cover(1);
}
extern "C" void h_c07q_clear()
{
   int m = vp_int_in(0, 1);
   if(m) q_clear(SP::SYNCMODE_MANUAL, false); else q_clear(SP::SYNCMODE_AUTO, false);
}
extern "C" void h_c07q_clear_onlyreal()
{
   bool nq = vp_nondet_bool();
   if(nq) q_clear(SP::SYNCMODE_ONLYREAL, true); else q_clear(SP::SYNCMODE_ONLYREAL, false);
}
#endif
