// C19-O7 (+ C06-O2 renumbering contract, C17-O2 copies): LPRowSetBase<double> / LPColSetBase<double> - kernel style.
// Objects are built by the real constructors, pre-sized (CAP rows/columns, MEM nonzeros): no relocation of the sparse
// vector storage happens (checked: max() and memMax() keep their constructor values).
// Structure (which row, how many nonzeros, deletion masks) is concrete and enumerated; all stored numbers
// (nonzero indices and values, left/right hand sides resp. bounds, objective, scaling exponents) are symbolic.
#include <memory>
#include <string>
#include <vector>
#include <iostream>
#include <sstream>
#include <fstream>
#include <map>
#include <set>
#include <algorithm>
#include <functional>
#include <limits>
#include <cmath>
#include <cstring>
#include <cassert>
#define private public
#define protected public
#include "soplex/spxdefines.h"
#include "soplex/lprowsetbase.h"
#include "soplex/lpcolsetbase.h"
#undef private
#undef protected
#include "vp.h"
using namespace soplex;
#ifndef NV
#define NV 3            // rows/columns in the pre-state
#endif
#define NVX (NV + 3)
#define CAP (NV + 4)
#define MEM 16
#define NZ 5
typedef SVSetBase<double> SS;
typedef SVectorBase<double> SV;
typedef Nonzero<double> NZT;
typedef LPRowSetBase<double> RS;
typedef LPColSetBase<double> CS;
static const int SZ[8] = {2, 1, 3, 2, 1, 2, 1, 1};

// ---- uniform view of the two classes: a = lhs / lower, b = rhs / upper, c = obj / maxObj
struct RowT
{
   typedef RS Set;
   static const double& a(const Set& s, int i) { return s.lhs(i); }
   static const double& b(const Set& s, int i) { return s.rhs(i); }
   static const double& c(const Set& s, int i) { return s.obj(i); }
   static const double& a(const Set& s, const DataKey& k) { return s.lhs(k); }
   static const double& b(const Set& s, const DataKey& k) { return s.rhs(k); }
   static const double& c(const Set& s, const DataKey& k) { return s.obj(k); }
   static double& aw(Set& s, int i) { return s.lhs_w(i); }
   static double& bw(Set& s, int i) { return s.rhs_w(i); }
   static double& cw(Set& s, int i) { return s.obj_w(i); }
   static const SV& vec(const Set& s, int i) { return s.rowVector(i); }
   static const SV& vec(const Set& s, const DataKey& k) { return s.rowVector(k); }
   static SV& vecw(Set& s, int i) { return s.rowVector_w(i); }
   static void reserve(Set& s) { s.left.reSize(CAP); s.right.reSize(CAP); s.object.reSize(CAP); }
   static int dimA(const Set& s) { return s.lhs().dim(); }
   static int dimB(const Set& s) { return s.rhs().dim(); }
   static int dimC(const Set& s) { return s.obj().dim(); }
   // the add overloads; how: 0 plain, 1 keyed, 2 LPRowBase, 3 keyed LPRowBase (the last two cannot pass a scaling exponent: 0)
   static void add(Set& s, int how, DataKey& k, double a, const SV& v, double b, double c, int e)
   {
      if(how == 0) s.add(a, v, b, c, e);
      else if(how == 1) s.add(k, a, v, b, c, e);
      else
      {
         LPRowBase<double> row(a, v, b, c);
         if(how == 2) s.add(row); else s.add(k, row);
      }
   }
   static void addptr(Set& s, int keyed, DataKey& k, const double* a, const double* val, const int* idx, int n, const double* b, const double* c)
   {
      if(keyed) s.add(k, a, val, idx, n, b, c); else s.add(a, val, idx, n, b, c);
   }
   static SV& create(Set& s, int keyed, DataKey& k, int nz, double a, double b, double c, int e)
   {
      if(keyed) return s.create(k, nz, a, b, c, e);
      return s.create(nz, a, b, c, e);
   }
};
struct ColT
{
   typedef CS Set;
   static const double& a(const Set& s, int i) { return s.lower(i); }
   static const double& b(const Set& s, int i) { return s.upper(i); }
   static const double& c(const Set& s, int i) { return s.maxObj(i); }
   static const double& a(const Set& s, const DataKey& k) { return s.lower(k); }
   static const double& b(const Set& s, const DataKey& k) { return s.upper(k); }
   static const double& c(const Set& s, const DataKey& k) { return s.maxObj(k); }
   static double& aw(Set& s, int i) { return s.lower_w(i); }
   static double& bw(Set& s, int i) { return s.upper_w(i); }
   static double& cw(Set& s, int i) { return s.maxObj_w(i); }
   static const SV& vec(const Set& s, int i) { return s.colVector(i); }
   static const SV& vec(const Set& s, const DataKey& k) { return s.colVector(k); }
   static SV& vecw(Set& s, int i) { return s.colVector_w(i); }
   static void reserve(Set& s) { s.low.reSize(CAP); s.up.reSize(CAP); s.object.reSize(CAP); }
   static int dimA(const Set& s) { return s.lower().dim(); }
   static int dimB(const Set& s) { return s.upper().dim(); }
   static int dimC(const Set& s) { return s.maxObj().dim(); }
   static void add(Set& s, int how, DataKey& k, double a, const SV& v, double b, double c, int e)
   {
      if(how == 0) s.add(c, a, v, b, e);
      else if(how == 1) s.add(k, c, a, v, b, e);
      else
      {
         LPColBase<double> col(c, v, b, a);
         if(how == 2) s.add(col); else s.add(k, col);
      }
   }
   static void addptr(Set& s, int keyed, DataKey& k, const double* a, const double* val, const int* idx, int n, const double* b, const double* c)
   {
      if(keyed) s.add(k, c, a, val, idx, n, b); else s.add(c, a, val, idx, n, b);
   }
   static SV& create(Set& s, int keyed, DataKey& k, int nz, double a, double b, double c, int e)
   {
      if(keyed) return s.create(k, nz, c, a, b, e);
      return s.create(nz, c, a, b, e);
   }
};

// ---- symbolic data
static double sym_val() { double x = vp_small(-4, 4); vp_assume(x != 0.0); return x; }
// finite small integer or +-infinity (sign fixed by `upper`)
static double sym_side(bool upper)
{
   int inf = vp_int_in(0, 1);
   double v = vp_small(-4, 4);
   return inf ? (upper ? (double)infinity : -(double)infinity) : v;
}
static void placeholder(SV& v, NZT* m, int sz) { v.setMem(sz, m); for(int q = 0; q < sz; ++q) v.add(q, 1.0); }
static void fill(SV& v, NZT* m, int sz)
{
   v.setMem(sz, m);
   for(int p = 0; p < sz; ++p) { m[p].idx = vp_int_in(0, 7); m[p].val = sym_val(); }
   v.set_size(sz);
}
// overwrite every stored number of element i in place with symbolic data
template<class T> static void symbolize(typename T::Set& s, int i)
{
   SV& v = T::vecw(s, i);
   for(int q = 0; q < v.size(); ++q) { v.index(q) = vp_int_in(0, 7); v.value(q) = sym_val(); }
   double a = sym_side(false);
   double b = sym_side(true);
   T::aw(s, i) = a; T::bw(s, i) = b;
   T::cw(s, i) = vp_small(-4, 4);
   s.scaleExp[i] = vp_int_in(-20, 20);
}
// pre-state: NV+1 elements added with concrete placeholder data, number 1 removed (its predecessor inherits the space, the
// last one is renumbered to 1), then all data symbolic
template<class T> static void build(typename T::Set& s, bool reserve = true)
{
   // per-element arrays reserved up to the capacity (what reMax() does), so that they are not reallocated later
   // (not for the addptr obligations: there the exact extent of the scaleExp array matters)
   if(reserve) { s.scaleExp.reMax(CAP); T::reserve(s); }
   for(int i = 0; i < NV + 1; ++i)
   {
      NZT m[NZ]; SV v; placeholder(v, m, SZ[i]);
      DataKey k;
      T::add(s, i & 1, k, 0.0, v, 1.0, 0.0, 0);
   }
   s.remove(1);
   // the layout is what the construction sequence documents (number 1 is taken by the last element)
   for(int i = 0; i < NV; ++i) vp_assert(T::vec(s, i).size() == (i == 1 ? SZ[NV] : SZ[i]), 80);
   for(int i = 0; i < NV; ++i) symbolize<T>(s, i);
}
struct Ref { int n; int kidx[NVX]; int sz[NVX]; int ix[NVX][NZ]; double v[NVX][NZ]; double a[NVX], b[NVX], c[NVX]; int e[NVX]; };
template<class T> static void snap(const typename T::Set& s, Ref& r)
{
   r.n = s.num();
   for(int i = 0; i < NVX; ++i) if(i < r.n)
   {
      r.kidx[i] = s.key(i).idx;
      const SV& v = T::vec(s, i);
      r.sz[i] = v.size();
      for(int p = 0; p < NZ; ++p) if(p < r.sz[i]) { r.ix[i][p] = v.index(p); r.v[i][p] = v.value(p); }
      r.a[i] = T::a(s, i); r.b[i] = T::b(s, i); r.c[i] = T::c(s, i); r.e[i] = s.scaleExp[i];
   }
}
static bool same_vec(const SV& v, const Ref& r, int i)
{
   if(v.size() != r.sz[i]) return false;
   bool ok = true;
   for(int p = 0; p < NZ; ++p) if(p < r.sz[i]) ok = ok && v.index(p) == r.ix[i][p] && v.value(p) == r.v[i][p];
   return ok;
}
static bool same_sv(const SV& v, const SV& w)
{
   if(v.size() != w.size()) return false;
   bool ok = true;
   for(int p = 0; p < NZ; ++p) if(p < w.size()) ok = ok && v.index(p) == w.index(p) && v.value(p) == w.value(p);
   return ok;
}
static DataKey mk(int idx) { DataKey k; k.idx = idx; k.info = 0; return k; }
// old element i of snapshot r is still in the set under its old key, has number newnum and ALL its old data
template<class T> static bool survivor(const typename T::Set& s, const Ref& r, int i, int newnum)
{
   DataKey k = mk(r.kidx[i]);
   if(!s.has(k)) return false;
   if(s.number(k) != newnum) return false;
   if(newnum < 0 || newnum >= s.num()) return false;
   if(s.key(newnum).idx != r.kidx[i]) return false;
   if(&T::vec(s, k) != &T::vec(s, newnum)) return false;
   if(!same_vec(T::vec(s, k), r, i)) return false;
   if(T::a(s, newnum) != r.a[i] || T::b(s, newnum) != r.b[i] || T::c(s, newnum) != r.c[i]) return false;
   if(T::a(s, k) != r.a[i] || T::b(s, k) != r.b[i] || T::c(s, k) != r.c[i]) return false;
   if(s.scaleExp[newnum] != r.e[i]) return false;
   return true;
}
// all per-element arrays have exactly num() entries, numbering is dense, key <-> number maps are inverse
template<class T> static bool shape(const typename T::Set& s)
{
   int n = s.num();
   if(n < 0 || n > CAP || s.max() != CAP || s.memMax() != MEM) return false;
   if(T::dimA(s) != n || T::dimB(s) != n || T::dimC(s) != n) return false;
   if(s.scaleExp.size() != n) return false;
   for(int m = 0; m < NVX; ++m) if(m < n)
   {
      DataKey k = s.key(m);
      if(k.idx < 0 || k.idx >= CAP) return false;
      if(!s.has(k) || s.number(k) != m) return false;
   }
   return true;
}
template<class T, int id> static void all_unchanged(const typename T::Set& s, const Ref& r)
{
   for(int i = 0; i < NVX; ++i) if(i < r.n) vp_assert(survivor<T>(s, r, i, i), id);
}

// ---------------------------------------------------------------------------------------------------- add (SVector overloads)
template<class T> static void t_add(int how, int sz)
{
   typename T::Set s(CAP, MEM); build<T>(s);
   Ref r; snap<T>(s, r);
   // the element-object overloads copy the vector twice, dropping zeros (a branch on every value): concrete vector data there
   NZT m[NZ]; SV v;
   if(how < 2) fill(v, m, sz); else placeholder(v, m, sz);
   double a = sym_side(false);
   double b = sym_side(true);
   double c = vp_small(-4, 4);
   int e = vp_int_in(-20, 20);
   DataKey k;
   T::add(s, how, k, a, v, b, c, e);
   vp_assert(s.num() == r.n + 1, 1);
   vp_assert(same_sv(T::vec(s, r.n), v), 2);
   vp_assert(T::a(s, r.n) == a && T::b(s, r.n) == b && T::c(s, r.n) == c, 3);
   vp_assert(s.scaleExp[r.n] == (how < 2 ? e : 0), 4);
   if(how & 1)
   {
      vp_assert(k.idx == s.key(r.n).idx && s.has(k) && s.number(k) == r.n, 5);
      vp_assert(same_sv(T::vec(s, k), v) && T::a(s, k) == a && T::b(s, k) == b && T::c(s, k) == c, 6);
   }
   for(int i = 0; i < NVX; ++i) if(i < r.n) vp_assert(s.key(r.n).idx != r.kidx[i], 7);
   all_unchanged<T, 8>(s, r);
   vp_assert(shape<T>(s), 9);
}
extern "C" void h_lprow_add_vec() { t_add<RowT>(0, 2); t_add<RowT>(1, 0); vp_cover(1); }
extern "C" void h_lprow_add_obj() { t_add<RowT>(2, 3); t_add<RowT>(3, 1); vp_cover(1); }
extern "C" void h_lpcol_add_vec() { t_add<ColT>(0, 2); t_add<ColT>(1, 0); vp_cover(1); }
extern "C" void h_lpcol_add_obj() { t_add<ColT>(2, 3); t_add<ColT>(3, 1); vp_cover(1); }

// ---------------------------------------------------------------------------------------------------- add (array overloads), then remove
// add(const S* lhs, const S* values, const int* indices, int size, const S* rhs, const S* obj) and its keyed twin.
// Two elements are added this way, then element 0 is removed: every element keeps its data.
template<class T> static void t_addptr(int keyed, int sz0, int sz1)
{
   typename T::Set s(CAP, MEM); build<T>(s, false);
   Ref r; snap<T>(s, r);
   int sz[2] = {sz0, sz1};
   double val[2][NZ]; int idx[2][NZ]; double a[2], b[2], c[2]; DataKey k[2];
   for(int j = 0; j < 2; ++j)
   {
      for(int p = 0; p < sz[j]; ++p) { idx[j][p] = vp_int_in(0, 7); val[j][p] = sym_val(); }
      a[j] = sym_side(false);
      b[j] = sym_side(true);
      c[j] = vp_small(-4, 4);
      T::addptr(s, keyed, k[j], &a[j], val[j], idx[j], sz[j], &b[j], &c[j]);
      vp_assert(s.num() == r.n + j + 1, 1);
      const SV& v = T::vec(s, r.n + j);
      vp_assert(v.size() == sz[j], 2);
      for(int p = 0; p < NZ; ++p) if(p < sz[j]) vp_assert(v.index(p) == idx[j][p] && v.value(p) == val[j][p], 3);
      vp_assert(T::a(s, r.n + j) == a[j] && T::b(s, r.n + j) == b[j] && T::c(s, r.n + j) == c[j], 4);
      if(keyed) vp_assert(k[j].idx == s.key(r.n + j).idx && s.number(k[j]) == r.n + j, 5);
      all_unchanged<T, 6>(s, r);
   }
   // the set must remain a consistent container: one scaling exponent per element
   vp_assert(shape<T>(s), 7);
   // removal afterwards: survivors keep their data (the removal code reads and writes scaleExp[num()])
   s.remove(0);
   vp_assert(s.num() == r.n + 1, 8);
   for(int i = 1; i < NVX; ++i) if(i < r.n) vp_assert(survivor<T>(s, r, i, s.number(mk(r.kidx[i]))), 9);
}
extern "C" void h_lprow_addptr() { t_addptr<RowT>(0, 2, 1); t_addptr<RowT>(1, 0, 2); vp_cover(1); }
extern "C" void h_lpcol_addptr() { t_addptr<ColT>(0, 2, 1); t_addptr<ColT>(1, 0, 2); vp_cover(1); }

// ---------------------------------------------------------------------------------------------------- add(set) / add(keys, set)
template<class T> static void t_addset(int keyed)
{
   typename T::Set s(CAP, MEM); build<T>(s);
   typename T::Set o(3, 8);
   for(int j = 0; j < 2; ++j)
   {
      NZT m[NZ]; SV v; placeholder(v, m, 2 - j);
      DataKey k;
      T::add(o, 0, k, 0.0, v, 1.0, 0.0, 0);
      symbolize<T>(o, j);
   }
   Ref r; snap<T>(s, r);
   Ref ro; snap<T>(o, ro);
   DataKey nk[2];
   if(keyed) s.add(nk, o); else s.add(o);
   vp_assert(s.num() == r.n + 2, 1);
   for(int j = 0; j < 2; ++j)
   {
      vp_assert(same_vec(T::vec(s, r.n + j), ro, j), 2);
      vp_assert(T::a(s, r.n + j) == ro.a[j] && T::b(s, r.n + j) == ro.b[j] && T::c(s, r.n + j) == ro.c[j] && s.scaleExp[r.n + j] == ro.e[j], 3);
      if(keyed) vp_assert(nk[j].idx == s.key(r.n + j).idx && s.has(nk[j]) && s.number(nk[j]) == r.n + j, 4);
   }
   all_unchanged<T, 5>(s, r);
   all_unchanged<T, 6>(o, ro);                  // the source set is untouched
   vp_assert(shape<T>(s), 7);
}
// the keyed overload is implemented by calling the plain one
extern "C" void h_lprow_addset() { t_addset<RowT>(1); vp_cover(1); }
extern "C" void h_lpcol_addset() { t_addset<ColT>(1); vp_cover(1); }

// ---------------------------------------------------------------------------------------------------- create
template<class T> static void t_create(int keyed, int nz)
{
   typename T::Set s(CAP, MEM); build<T>(s);
   Ref r; snap<T>(s, r);
   double a = sym_side(false);
   double b = sym_side(true);
   double c = vp_small(-4, 4);
   int e = vp_int_in(-20, 20);
   DataKey k;
   SV& v = T::create(s, keyed, k, nz, a, b, c, e);
   vp_assert(s.num() == r.n + 1, 1);
   vp_assert(&v == &T::vec(s, r.n) && v.size() == 0 && v.max() >= nz, 2);
   vp_assert(T::a(s, r.n) == a && T::b(s, r.n) == b && T::c(s, r.n) == c && s.scaleExp[r.n] == e, 3);
   if(keyed) vp_assert(k.idx == s.key(r.n).idx && s.has(k) && s.number(k) == r.n, 4);
   for(int q = 0; q < NZ; ++q) if(q < nz) v.add(q, 2.0 + q);
   all_unchanged<T, 5>(s, r);
   vp_assert(shape<T>(s), 6);
}
extern "C" void h_lprow_create() { t_create<RowT>(0, 0); t_create<RowT>(1, 3); vp_cover(1); }
extern "C" void h_lpcol_create() { t_create<ColT>(0, 0); t_create<ColT>(1, 3); vp_cover(1); }

// ---------------------------------------------------------------------------------------------------- add2 / xtend wrappers
template<class T> static void t_add2(int t, int bykey)
{
   typename T::Set s(CAP, MEM); build<T>(s);
   Ref r; snap<T>(s, r);
   int idx[2]; double val[2];
   for(int a = 0; a < 2; ++a) { idx[a] = vp_int_in(0, 7); val[a] = sym_val(); }
   if(bykey) { s.xtend(mk(r.kidx[t]), r.sz[t] + 2); s.add2(mk(r.kidx[t]), 2, idx, val); }
   else { s.xtend(t, r.sz[t] + 1); s.add2(t, 2, idx, val); }
   vp_assert(s.num() == r.n, 1);
   for(int i = 0; i < NVX; ++i) if(i < r.n)
   {
      if(i != t) vp_assert(survivor<T>(s, r, i, i), 2);
      else
      {
         const SV& v = T::vec(s, i);
         vp_assert(s.key(i).idx == r.kidx[i] && v.size() == r.sz[i] + 2, 3);
         for(int p = 0; p < NZ; ++p) if(p < r.sz[i]) vp_assert(v.index(p) == r.ix[i][p] && v.value(p) == r.v[i][p], 4);
         for(int a = 0; a < 2; ++a) vp_assert(v.index(r.sz[i] + a) == idx[a] && v.value(r.sz[i] + a) == val[a], 5);
         vp_assert(T::a(s, i) == r.a[i] && T::b(s, i) == r.b[i] && T::c(s, i) == r.c[i] && s.scaleExp[i] == r.e[i], 6);
      }
   }
   vp_assert(shape<T>(s), 7);
}
extern "C" void h_lprow_add2() { for(int t = 0; t < NV; ++t) t_add2<RowT>(t, t & 1); vp_cover(1); }
extern "C" void h_lpcol_add2() { for(int t = 0; t < NV; ++t) t_add2<ColT>(t, (t + 1) & 1); vp_cover(1); }

// ---------------------------------------------------------------------------------------------------- remove one
template<class T> static void t_remove_one(int rm, int bykey)
{
   typename T::Set s(CAP, MEM); build<T>(s);
   Ref r; snap<T>(s, r);
   if(bykey) s.remove(mk(r.kidx[rm])); else s.remove(rm);
   vp_assert(s.num() == r.n - 1, 1);
   vp_assert(!s.has(mk(r.kidx[rm])), 2);
   for(int i = 0; i < NVX; ++i) if(i < r.n && i != rm)
   {
      DataKey k = mk(r.kidx[i]);
      vp_assert(s.has(k), 3);
      int nn = s.number(k);
      vp_assert(survivor<T>(s, r, i, nn), 4);
      if(i < rm) vp_assert(nn == i, 5);
   }
   vp_assert(shape<T>(s), 6);
}
extern "C" void h_lprow_remove_one() { for(int rm = 0; rm < NV; ++rm) t_remove_one<RowT>(rm, rm & 1); vp_cover(1); }
extern "C" void h_lpcol_remove_one() { for(int rm = 0; rm < NV; ++rm) t_remove_one<ColT>(rm, (rm + 1) & 1); vp_cover(1); }

// ---------------------------------------------------------------------------------------------------- remove(perm) / lists
template<class T, int id> static void check_perm(const typename T::Set& s, const Ref& r, const int* del, const int* perm, int ndel)
{
   vp_assert(s.num() == r.n - ndel, id);
   int prev = -1;
   for(int i = 0; i < NVX; ++i) if(i < r.n)
   {
      if(del[i])
      {
         vp_assert(perm[i] < 0, id + 1);
         vp_assert(!s.has(mk(r.kidx[i])), id + 2);
      }
      else
      {  // survivor i moved to perm[i], order preserved, key and ALL data kept
         vp_assert(perm[i] == prev + 1, id + 3);
         prev = perm[i];
         vp_assert(survivor<T>(s, r, i, perm[i]), id + 4);
      }
   }
   vp_assert(shape<T>(s), id + 5);
}
template<class T> static void t_remove_perm(unsigned mask)
{
   typename T::Set s(CAP, MEM); build<T>(s);
   Ref r; snap<T>(s, r);
   int perm[NVX]; int del[NVX]; int ndel = 0;
   for(int i = 0; i < NV; ++i)
   {
      del[i] = (mask >> i) & 1;
      perm[i] = del[i] ? -1 : 5 * i + 3;         // input value of a kept entry: any value >= 0
      if(del[i]) ++ndel;
   }
   s.remove(perm);
   check_perm<T, 1>(s, r, del, perm, ndel);
}
// all deletion masks, spread over three entries per class (masks congruent 0,1,2 mod 3)
#define MASKS(T, R) for(unsigned mask = R; mask < (1u << NV); mask += 3) t_remove_perm<T>(mask)
extern "C" void h_lprow_remove_perm_a() { MASKS(RowT, 0); vp_cover(1); }
extern "C" void h_lprow_remove_perm_b() { MASKS(RowT, 1); vp_cover(1); }
extern "C" void h_lprow_remove_perm_c() { MASKS(RowT, 2); vp_cover(1); }
extern "C" void h_lpcol_remove_perm_a() { MASKS(ColT, 0); vp_cover(1); }
extern "C" void h_lpcol_remove_perm_b() { MASKS(ColT, 1); vp_cover(1); }
extern "C" void h_lpcol_remove_perm_c() { MASKS(ColT, 2); vp_cover(1); }

template<class T> static void t_remove_lists(int withperm, int n, int n0, int n1)
{
   typename T::Set s(CAP, MEM); build<T>(s);
   Ref r; snap<T>(s, r);
   int nums[2] = {n0, n1};
   int perm[NVX]; int del[NVX];
   for(int i = 0; i < NVX; ++i) { del[i] = (n >= 1 && nums[0] == i) || (n >= 2 && nums[1] == i); perm[i] = -7; }
   if(withperm) s.remove(nums, n, perm);
   else
   {
      s.remove(nums, n);
      int j = 0;
      for(int i = 0; i < NVX; ++i) if(i < r.n) perm[i] = del[i] ? -1 : j++;
   }
   check_perm<T, 1>(s, r, del, perm, n);
}
// a: remove(nums, n, perm)   b: remove(nums, n)   c: both, cases in which no survivor has to move (n = 0, last element)
extern "C" void h_lprow_remove_lists_a() { t_remove_lists<RowT>(1, 2, 0, NV - 1); t_remove_lists<RowT>(1, 1, 1, 0); vp_cover(1); }
extern "C" void h_lprow_remove_lists_b() { t_remove_lists<RowT>(0, 2, 1, 0); t_remove_lists<RowT>(0, 1, 0, 0); vp_cover(1); }
extern "C" void h_lprow_remove_lists_c() { t_remove_lists<RowT>(1, 0, 0, 1); t_remove_lists<RowT>(0, 1, NV - 1, 0); vp_cover(1); }
extern "C" void h_lpcol_remove_lists_a() { t_remove_lists<ColT>(1, 2, 0, NV - 1); t_remove_lists<ColT>(1, 1, 1, 0); vp_cover(1); }
extern "C" void h_lpcol_remove_lists_b() { t_remove_lists<ColT>(0, 2, 1, 0); t_remove_lists<ColT>(0, 1, 0, 0); vp_cover(1); }
extern "C" void h_lpcol_remove_lists_c() { t_remove_lists<ColT>(1, 0, 0, 1); t_remove_lists<ColT>(0, 1, NV - 1, 0); vp_cover(1); }

// ---------------------------------------------------------------------------------------------------- clear
template<class T> static void t_clear()
{
   typename T::Set s(CAP, MEM); build<T>(s);
   s.clear();
   vp_assert(s.num() == 0, 1);
   vp_assert(shape<T>(s), 2);
   NZT m[NZ]; SV v; fill(v, m, 2);
   double a = sym_side(false);
   double b = sym_side(true);
   DataKey k;
   T::add(s, 1, k, a, v, b, 3.0, 5);
   vp_assert(s.num() == 1 && s.has(k) && s.number(k) == 0 && same_sv(T::vec(s, k), v), 3);
   vp_assert(T::a(s, 0) == a && T::b(s, 0) == b && T::c(s, 0) == 3.0 && s.scaleExp[0] == 5, 4);
   vp_assert(shape<T>(s), 5);
}
extern "C" void h_lpsets_clear() { t_clear<RowT>(); t_clear<ColT>(); vp_cover(1); }

// ---------------------------------------------------------------------------------------------------- type / value
extern "C" void h_lprow_type_value()
{
   RS s(CAP, MEM); build<RowT>(s);
   Ref r; snap<RowT>(s, r);
   const double inf = (double)infinity;
   for(int i = 0; i < NV; ++i)
   {
      double lo = r.a[i], hi = r.b[i];
      LPRowBase<double>::Type want = hi >= inf ? LPRowBase<double>::GREATER_EQUAL
                                     : lo <= -inf ? LPRowBase<double>::LESS_EQUAL
                                     : lo == hi ? LPRowBase<double>::EQUAL : LPRowBase<double>::RANGE;
      vp_assert(s.type(i) == want, 1);
      vp_assert(s.type(mk(r.kidx[i])) == want, 2);
      if(hi < inf || lo > -inf)
      {  // value(): the finite side, right hand side first
         double wv = hi < inf ? hi : lo;
         vp_assert(s.value(i) == wv, 3);
         vp_assert(s.value(mk(r.kidx[i])) == wv, 4);
      }
      // whole-vector accessors agree with the element accessors
      vp_assert(s.lhs()[i] == lo && s.rhs()[i] == hi && s.obj()[i] == r.c[i], 5);
   }
   all_unchanged<RowT, 6>(s, r);
   vp_cover(1);
}

// ---------------------------------------------------------------------------------------------------- copies (C17-O2)
// SVSetBase<double>::operator= relocates the vectors of the copy with "pointer + (base_this - base_rhs)", a difference of
// addresses of two different allocations, which the solver's memory model cannot represent. In the encoding (only there) it is
// replaced by this transcription of the real function (svsetbase.h, operator=(const SVSetBase<R>&)) in which the same address
// is written as "base_this + (pointer - base_rhs)". Everything it calls (clear, ClassArray/ClassSet assignment, IdList) and
// the LPRowSetBase/LPColSetBase copy constructor / operator= themselves are the real code.
extern "C" SS* m_svset_assign(SS* self, const SS* rhs)
{
   if(self != rhs)
   {
      self->clear(rhs->size());
      if(rhs->size() > 0)
      {
         self->ClassArray<NZT>::operator=(*rhs);
         self->set = rhs->set;
         for(SS::DLPSV* ps = rhs->list.first(); ps; ps = rhs->list.next(ps))
         {
            SS::DLPSV* newps = &self->set[rhs->number(ps)];
            self->list.append(newps);
            newps->setMem(ps->max(), self->get_ptr() + (ps->mem() - rhs->get_const_ptr()));
            newps->set_size(ps->size());
         }
      }
   }
   return self;
}
// copy constructor / operator=: the copy equals the source; mutating one leaves the other unchanged
template<class T> static void t_copy(int assign, int mutate_copy)
{
   typename T::Set s(CAP, MEM); build<T>(s);
   Ref r; snap<T>(s, r);
   typename T::Set* cp;
   if(assign) { cp = new typename T::Set(CAP, MEM); *cp = s; }
   else cp = new typename T::Set(s);
   typename T::Set& c = *cp;
   vp_assert(c.num() == r.n, 1);
   all_unchanged<T, 2>(c, r);
   all_unchanged<T, 3>(s, r);
   for(int i = 0; i < NVX; ++i) if(i < r.n) vp_assert(&T::vec(c, i) != &T::vec(s, i) && T::vec(c, i).mem() != T::vec(s, i).mem(), 4);
   // mutate one of them: overwrite all data of element 0, remove element 1
   typename T::Set& mu = mutate_copy ? c : s;
   const typename T::Set& other = mutate_copy ? s : c;
   SV& v = T::vecw(mu, 0);
   for(int q = 0; q < v.size(); ++q) { v.index(q) = 9; v.value(q) = 77.0; }
   T::aw(mu, 0) = 55.0; T::bw(mu, 0) = 66.0; T::cw(mu, 0) = 44.0; mu.scaleExp[0] = 33;
   mu.remove(1);
   vp_assert(other.num() == r.n, 5);
   all_unchanged<T, 6>(other, r);
}
extern "C" void h_lprow_copy() { t_copy<RowT>(0, 1); t_copy<RowT>(0, 0); vp_cover(1); }
extern "C" void h_lprow_assign() { t_copy<RowT>(1, 1); t_copy<RowT>(1, 0); vp_cover(1); }
extern "C" void h_lpcol_copy() { t_copy<ColT>(0, 1); t_copy<ColT>(0, 0); vp_cover(1); }
extern "C" void h_lpcol_assign() { t_copy<ColT>(1, 1); t_copy<ColT>(1, 0); vp_cover(1); }
