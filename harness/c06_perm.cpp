// C06-O1: SoPlexBase<double>::_idxToPerm / _rangeToPerm - the permutation arrays handed to the removeRows/removeCols(perm)
// entry points by the "index list" and "range" removal variants.
// Kernel style: the two functions do not read `this` (raw typed memory is enough); perm and idx are heap arrays of EXACTLY
// permSize / idxSize ints, so that any access outside perm[0..permSize) or idx[0..idxSize) is a memory-safety failure.
// Precondition taken from the code (asserts in _idxToPerm, compiled out under NDEBUG): 0 <= idx[k] < permSize; duplicates allowed.
// _rangeToPerm has no precondition on start/end: every int pair is allowed (empty, reversed, partly/fully outside ranges).
#include "soplex_all.h"
using namespace soplex;
union SoPlexMem { SoPlex sp; SoPlexMem() {} ~SoPlexMem() {} };
static SoPlexMem mem;
#ifndef PSMAX
#define PSMAX 6
#endif
#ifndef NIMAX
#define NIMAX 4
#endif

template<int PS, int NI> static void t_idx()
{
   int* perm = new int[PS];
   int* idx = new int[NI];
   bool listed[PS + 1];
   for(int i = 0; i < PS; ++i) { perm[i] = vp_nondet_int(); listed[i] = false; }      // arbitrary previous buffer content
   for(int k = 0; k < NI; ++k)
   {
      int v = vp_int_in(0, PS > 0 ? PS - 1 : 0);                                        // caller's contract: valid index
      idx[k] = v; listed[v] = true;
   }
   mem.sp._idxToPerm(idx, NI, perm, PS);
   for(int i = 0; i < PS; ++i)
   {
      if(listed[i]) vp_assert(perm[i] < 0 && perm[i] == -1, 1);   // listed index: marked for removal (documented: perm[i] < 0), value -1
      else vp_assert(perm[i] == i, 2);                            // every other index: identity (>= 0)
   }
   for(int k = 0; k < NI; ++k) vp_assert(idx[k] >= 0 && idx[k] < PS && listed[idx[k]], 3);   // idx is not modified
   delete[] perm; delete[] idx;
}
template<int PS> static void t_range()
{
   int* perm = new int[PS];
   for(int i = 0; i < PS; ++i) perm[i] = vp_nondet_int();
   int start = vp_nondet_int();
   int end = vp_nondet_int();
   mem.sp._rangeToPerm(start, end, perm, PS);
   for(int i = 0; i < PS; ++i)
   {
      bool in = (start <= i && i <= end);
      if(in) vp_assert(perm[i] == -1, 1);
      else vp_assert(perm[i] == i, 2);
   }
   delete[] perm;
}
#define IDX_ROW(PS) \
   case PS: switch(ni) { case 0: t_idx<PS, 0>(); break; case 1: t_idx<PS, 1>(); break; case 2: t_idx<PS, 2>(); break; case 3: t_idx<PS, 3>(); break; \
                         case 4: t_idx<PS, 4>(); break; IDX_MORE(PS) default: break; } break;
#if NIMAX > 4
#define IDX_MORE(PS) case 5: t_idx<PS, 5>(); break; case 6: t_idx<PS, 6>(); break; case 7: t_idx<PS, 7>(); break;
#else
#define IDX_MORE(PS)
#endif
extern "C" void h_c06_idx_to_perm()
{
   int ps = vp_int_in(0, PSMAX);
   int ni = vp_int_in(0, NIMAX);
   vp_assume(ps > 0 || ni == 0);           // no valid index exists for an empty perm
   switch(ps)
   {
   IDX_ROW(0) IDX_ROW(1) IDX_ROW(2) IDX_ROW(3) IDX_ROW(4) IDX_ROW(5) IDX_ROW(6)
   default: break;
   }
   vp_cover(1);
}
extern "C" void h_c06_range_to_perm()
{
   int ps = vp_int_in(0, PSMAX);
   switch(ps)
   {
   case 0: t_range<0>(); break; case 1: t_range<1>(); break; case 2: t_range<2>(); break; case 3: t_range<3>(); break;
   case 4: t_range<4>(); break; case 5: t_range<5>(); break; case 6: t_range<6>(); break;
   default: break;
   }
   vp_cover(1);
}
