// C09-O4: exponent computations of the scaler base class and of the equilibrium scaler.
//   SPxScaler<double>::computeScaleExp(vec, oldScaleExp)   (spxscaler.hpp)  : implemented range 2^e * max_i|a_i*2^old_i| in (1/2, 1]
//   SPxEquiliSC<double>::computeEquiExpVec(set, coExp, exp) (spxequilisc.hpp): same range for every vector of the set, empty/zero => 0
//   SPxScaler<double>::computeExpVec(vals, exps)                             : 2^(e+1) is the binade of the value: 2^e <= v < 2^(e+1)
// Reference: an independent dense maximum and the range condition itself (which determines e uniquely).
// Values are small ints times powers of two (exact); magnitudes stay above 2^-43, far above the zero-epsilon 1e-16
// that both routines use in their GT(x, max, eps) comparison (see "bounds").
#include "lp_build.h"
using namespace soplex; using namespace vph;
#ifndef NV
#define NV 3
#endif
// shape: -DVNR=.. -DVNC=.. (not NR/NC on the command line: lp_build.h uses these names for template parameters)
#ifdef VNR
#define NR VNR
#define NC VNC
#else
#define NR 2
#define NC 2
#endif
#ifndef MASK
#define MASK 0xF
#endif
#ifndef KEXP
#define KEXP 20
#endif
// m * 2^k, m in -7..7, k in -KEXP..KEXP
static double scaled_small(bool nonzero)
{
   int m = vp_int_in(-7, 7);
   int k = vp_int_in(-KEXP, KEXP);
   if(nonzero) vp_assume(m != 0);
   return ldexp((double)m, k);
}
static double dabs(double x) { return x < 0 ? -x : x; }
// the range every routine promises: M == 0 => e == 0, otherwise 1/2 < 2^e * M <= 1
static bool in_range(double M, int e)
{
   if(M == 0.0) return e == 0;
   double r = ldexp(M, e);
   return r > 0.5 && r <= 1.0;
}

extern "C" void h_c09_compute_scale_exp()
{
   Sc sc;
   std::shared_ptr<Tolerances> tol = std::make_shared<Tolerances>();
   sc.setTolerances(tol);
   DSVectorBase<double> v(NV);
   DataArray<int> old(NV + 1);
   double ref[NV];
   int oe[NV + 1];
   for(int i = 0; i <= NV; ++i) { oe[i] = vp_int_in(-KEXP, KEXP); old[i] = oe[i]; }
   // indices NV, NV-1, .. (not sorted, not 0-based: index != position)
   for(int p = 0; p < NV; ++p) v.add(NV - p, 1.0);
   for(int p = 0; p < NV; ++p) { double x = scaled_small(false); v.value(p) = x; ref[p] = x; }
   int e = sc.computeScaleExp(v, old);
   double M = 0.0;
   for(int p = 0; p < NV; ++p) { double x = dabs(ldexp(ref[p], oe[NV - p])); if(x > M) M = x; }
   vp_assert(in_range(M, e), 1);
   // empty vector => 0
   DSVectorBase<double> z(1);
   vp_assert(sc.computeScaleExp(z, old) == 0, 2);
   vp_cover(1);
}

// row set and column set of a real LP; coScaleExp arbitrary
extern "C" void h_c09_equi_exp_vec()
{
   LP lp; Dense<NR, NC> d; build<NR, NC>(lp, d, MASK, 7);
   // spread the entries over many binades
   int sh[NR][NC];
   for(int i = 0; i < NR; ++i) for(int j = 0; j < NC; ++j) { sh[i][j] = vp_int_in(-KEXP, KEXP); d.a[i][j] = ldexp(d.a[i][j], sh[i][j]); }
   for(int i = 0; i < NR; ++i) { SVectorBase<double>& v = lp.rowVector_w(i); for(int p = 0; p < v.size(); ++p) v.value(p) = d.a[i][v.index(p)]; }
   for(int j = 0; j < NC; ++j) { SVectorBase<double>& v = lp.colVector_w(j); for(int p = 0; p < v.size(); ++p) v.value(p) = d.a[v.index(p)][j]; }
   DataArray<int> cex(NC), rex(NR), outr(NR), outc(NC);
   int ce[NC], re[NR];
   for(int j = 0; j < NC; ++j) { ce[j] = vp_int_in(-KEXP, KEXP); cex[j] = ce[j]; outc[j] = 77; }
   for(int i = 0; i < NR; ++i) { re[i] = vp_int_in(-KEXP, KEXP); rex[i] = re[i]; outr[i] = 77; }
   double eps = 1e-16;
   SPxEquiliSC<double>::computeEquiExpVec(lp.rowSet(), cex, outr, eps);
   SPxEquiliSC<double>::computeEquiExpVec(lp.colSet(), rex, outc, eps);
   for(int i = 0; i < NR; ++i)
   {
      double M = 0.0;
      for(int j = 0; j < NC; ++j) { double x = dabs(ldexp(d.a[i][j], ce[j])); if(x > M) M = x; }
      vp_assert(in_range(M, outr[i]), 1);
   }
   for(int j = 0; j < NC; ++j)
   {
      double M = 0.0;
      for(int i = 0; i < NR; ++i) { double x = dabs(ldexp(d.a[i][j], re[i])); if(x > M) M = x; }
      vp_assert(in_range(M, outc[j]), 2);
   }
   vp_cover(1);
}

// computeExpVec: e = frexp-exponent - 1, i.e. 2^e <= v < 2^(e+1) for v > 0
extern "C" void h_c09_compute_exp_vec()
{
   Sc sc;
   std::vector<double> vals(NV);
   DataArray<int> ex(NV);
   double ref[NV];
   for(int p = 0; p < NV; ++p) { double x = scaled_small(true); x = dabs(x); vals[p] = x; ref[p] = x; ex[p] = 77; }
   sc.computeExpVec(vals, ex);
   for(int p = 0; p < NV; ++p)
   {
      vp_assert(ldexp(1.0, ex[p]) <= ref[p], 1);
      vp_assert(ref[p] < ldexp(1.0, ex[p] + 1), 2);
   }
   vp_cover(1);
}
