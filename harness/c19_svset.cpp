// C19-O6 (+ C06-O2 renumbering contract): SVSetBase<double> - kernel style.
// Objects are built by the real constructor, pre-sized (CAP vectors, MEM nonzeros) so that no relocation
// (reMax / memRemax) happens; structure of the pre-state and of each case is concrete, all indices/values are symbolic.
// Reference = snapshot of the abstract content (number -> key, (index,value) list) taken before the operation,
// resp. the harness-owned input vectors for the add operations.
#include <memory>
#include <string>
#include <vector>
#include <iostream>
#include <sstream>
#include <fstream>
#include <map>
#include <set>
#include <algorithm>
#include <functional>
#include <limits>
#include <cmath>
#include <cstring>
#include <cassert>
#define private public
#define protected public
#include "soplex/spxdefines.h"
#include "soplex/svsetbase.h"
#undef private
#undef protected
#include "vp.h"
using namespace soplex;
#ifndef NV
#define NV 3            // number of vectors in the pre-state
#endif
#ifndef SYMSZ
#define SYMSZ 0         // 1 (thorough): sizes of added vectors / requested capacities (create, add1) and one set of kept perm entries symbolic; 0: concrete
#endif
#ifndef SYMIDX
#define SYMIDX 1        // 0 (thorough): nonzero indices concrete (distinct), only the values symbolic - keeps the number of nondet draws per entry below the driver's trace length
#endif
#define NVX (NV + 3)    // bound on the number of vectors ever in the set
#define CAP (NV + 4)    // vector capacity of the set (never exceeded)
#define MEM 16          // nonzero capacity of the set (never exceeded)
#define MEMH 28         // the same for the scenario obligation
#define NZ 6            // bound on nonzeros per vector
typedef SVSetBase<double> SS;
typedef SVectorBase<double> SV;
typedef Nonzero<double> NZT;
static const int SZ[8] = {2, 1, 3, 2, 1, 2, 1, 1};
// Relocation is outside the bounds of these obligations: in the encoding the two relocation routines are replaced by
// models that fail, i.e. "no relocation happens within the stated capacities" is itself checked, not assumed.
extern "C" ptrdiff_t m_no_remax(ClassArray<NZT>* self, int newMax, int newSize) { vp_assert(0, 90); return 0; }
extern "C" ptrdiff_t m_no_setremax(ClassSet<SS::DLPSV>* self, int newmax) { vp_assert(0, 91); return 0; }

static int sym_idx(int dflt) { if(SYMIDX) return vp_int_in(0, 7); return dflt; }
// harness-owned sparse vector with sz symbolic nonzeros (values != 0: SVector assignment drops stored zeros)
static void fill(SV& v, NZT* m, int sz)
{
   v.setMem(sz, m);
   for(int p = 0; p < NZ; ++p) if(p < sz)
   {
      m[p].idx = sym_idx(p);
      double x = vp_small(-4, 4);
      vp_assume(x != 0.0);
      m[p].val = x;
   }
   v.set_size(sz);
}
static void placeholder_sv(SV& v, NZT* m, int sz) { v.setMem(sz, m); for(int q = 0; q < sz; ++q) v.add(q, 1.0); }
// PRE 0: vectors created with create()+add, every second one with one spare slot
// PRE 1: NV+1 vectors added, then number 1 removed (a middle one: predecessor inherits the space, last one renumbered to 1)
// PRE 2: NV+1 vectors added, then number 0 removed (hole at the front of the nonzero memory, last one renumbered to 0)
// The structure is built with concrete placeholder data (SVector assignment/add skip zeros, i.e. branch on the values);
// afterwards every stored nonzero is overwritten in place with a symbolic index and a symbolic nonzero value.
template<int PRE> static void build(SS& s)
{
   if(PRE == 0)
   {
      for(int i = 0; i < NV; ++i)
      {
         SV* p = s.create(SZ[i] + (i & 1));
         for(int q = 0; q < SZ[i]; ++q) p->add(q, 1.0);
      }
   }
   else
   {
      for(int i = 0; i < NV + 1; ++i)
      {
         NZT m[NZ]; SV v; v.setMem(SZ[i], m);
         for(int q = 0; q < SZ[i]; ++q) v.add(q, 1.0);
         s.add(v);
      }
      s.remove(PRE == 1 ? 1 : 0);
   }
   for(int i = 0; i < NV; ++i)
   {
      SV& v = s[i];
      // the layout is what the construction sequence documents (the removed number is taken by the last vector)
      vp_assert(v.size() == ((PRE != 0 && i == (PRE == 1 ? 1 : 0)) ? SZ[NV] : SZ[i]), 80);
      for(int q = 0; q < v.size(); ++q)
      {
         v.index(q) = sym_idx((q + 3 * i) % 8);
         double x = vp_small(-4, 4);
         vp_assume(x != 0.0);
         v.value(q) = x;
      }
   }
}
struct Ref { int n; int kidx[NVX]; int sz[NVX]; int ix[NVX][NZ]; double v[NVX][NZ]; };
static void snap(const SS& s, Ref& r)
{
   r.n = s.num();
   for(int i = 0; i < NVX; ++i) if(i < r.n)
   {
      r.kidx[i] = s.key(i).idx;
      const SV& v = s[i];
      r.sz[i] = v.size();
      for(int p = 0; p < NZ; ++p) if(p < r.sz[i]) { r.ix[i][p] = v.index(p); r.v[i][p] = v.value(p); }
   }
}
static bool same_vec(const SV& v, const Ref& r, int i)
{
   if(v.size() != r.sz[i]) return false;
   bool ok = true;
   for(int p = 0; p < NZ; ++p) if(p < r.sz[i]) ok = ok && v.index(p) == r.ix[i][p] && v.value(p) == r.v[i][p];
   return ok;
}
static bool same_sv(const SV& v, const SV& w)
{
   if(v.size() != w.size()) return false;
   bool ok = true;
   for(int p = 0; p < NZ; ++p) if(p < w.size()) ok = ok && v.index(p) == w.index(p) && v.value(p) == w.value(p);
   return ok;
}
static DataKey mk(int idx) { DataKey k; k.idx = idx; k.info = 0; return k; }
// old vector i (of snapshot r) is still in the set under its old key, has number newnum and its old content
static bool survivor(const SS& s, const Ref& r, int i, int newnum)
{
   DataKey k = mk(r.kidx[i]);
   if(!s.has(k)) return false;
   if(s.number(k) != newnum) return false;
   if(newnum < 0 || newnum >= s.num()) return false;
   if(s.key(newnum).idx != r.kidx[i]) return false;
   if(&s[k] != &s[newnum]) return false;
   return same_vec(s[k], r, i);
}
// storage invariant (what isConsistent() checks when consistency checks are compiled in, plus the list/set correspondence):
// the vectors are chained in memory order without gaps and without overlap inside the used part of the nonzero array,
// and the chain contains exactly the vectors of the set
static bool inv(const SS& s, int memmax)
{
   if(s.max() != CAP || s.memMax() != memmax) return false;            // no relocation happened
   if(s.memSize() < 0 || s.memSize() > s.memMax()) return false;
   if(s.num() < 0 || s.num() > s.max()) return false;
   const NZT* base = s.get_const_ptr();
   int cnt = 0;
   const SS::DLPSV* ps = s.list.first();
   for(int step = 0; step < CAP + 1; ++step)
   {
      if(ps == nullptr) break;
      ++cnt;
      if(ps->size() < 0 || ps->size() > ps->max()) return false;
      if(ps->mem() < base) return false;
      if(ps->mem() + ps->max() > base + s.memSize()) return false;
      const SS::DLPSV* nx = s.list.next(ps);
      if(nx != nullptr) { if(ps->mem() + ps->max() != nx->mem()) return false; }
      else { if(ps->mem() + ps->max() != base + s.memSize()) return false; }
      bool found = false;
      for(int m = 0; m < NVX; ++m) if(m < s.num() && &s[m] == static_cast<const SV*>(ps)) found = true;
      if(!found) return false;
      ps = nx;
   }
   if(ps != nullptr) return false;
   if(cnt != s.num()) return false;
   // dense numbering, key <-> number maps are inverse of each other
   for(int m = 0; m < NVX; ++m) if(m < s.num())
   {
      DataKey k = s.key(m);
      if(k.idx < 0 || k.idx >= CAP) return false;
      if(!s.has(k) || !s.has(m) || s.number(k) != m) return false;
      if(s.number(&s[m]) != m) return false;
   }
   if(s.has(s.num()) || s.has(-1)) return false;
   return true;
}
// (assertion ids must be compile-time constants: template parameter)
template<int id> static void all_unchanged(const SS& s, const Ref& r)
{
   for(int i = 0; i < NVX; ++i) if(i < r.n) vp_assert(survivor(s, r, i, i), id);
}

// All selectors that decide the *structure* of the operation (which vector, how many nonzeros, which deletion mask) are
// concrete and enumerated by plain loops - each case runs on a freshly built set - so that symbolic execution of the
// pointer-heavy real code stays constant propagation; indices and values of all nonzeros are symbolic.
// With -DSYMSZ=1 (thorough) the sizes of added vectors / requested capacities are symbolic as well.
// One entry per operation and pre-state layout (symbolic execution time grows faster than linearly with the number of
// cases per entry, so the cases are spread over several small entries).
#define ENTRIES(NAME, CASE) \
   extern "C" void h_svset_##NAME##_p0() { CASE(0); vp_cover(1); } \
   extern "C" void h_svset_##NAME##_p1() { CASE(1); vp_cover(1); } \
   extern "C" void h_svset_##NAME##_p2() { CASE(2); vp_cover(1); }

// ---------------------------------------------------------------------------------------------------- create
template<int PRE> static void t_create(int want, int withkey)
{
   SS s(CAP, MEM); build<PRE>(s);
   Ref r; snap(s, r);
   DataKey k;
   SV* p = withkey ? s.create(k, want) : s.create(want);
   vp_assert(s.num() == r.n + 1, 2);
   vp_assert(p == &s[r.n], 3);
   vp_assert(p->size() == 0 && p->max() >= want && p->max() >= 0, 4);
   if(withkey) vp_assert(k.idx == s.key(r.n).idx && s.has(k) && s.number(k) == r.n && &s[k] == p, 5);
   for(int i = 0; i < NVX; ++i) if(i < r.n) vp_assert(s.key(r.n).idx != r.kidx[i], 6);
   vp_assert(inv(s, MEM), 8);
   // the new vector owns its memory: filling it to capacity disturbs nobody
   for(int q = 0; q < 4; ++q) if(q < p->max()) p->add(q, 1.0 + q);
   all_unchanged<9>(s, r);
   for(int q = 0; q < 4; ++q) if(q < p->max()) vp_assert(p->index(q) == q && p->value(q) == 1.0 + q, 10);
}
#if SYMSZ
#define CASE(P) { int want = vp_int_in(-1, 3); int wk = vp_int_in(0, 1); t_create<P>(want, wk); }
#else
#define CASE(P) t_create<P>(-1, 1); t_create<P>(0, 0); t_create<P>(3, P & 1)
#endif
ENTRIES(create, CASE)
#undef CASE

// ---------------------------------------------------------------------------------------------------- add one
template<int PRE> static void t_add1(int sz, int withkey)
{
   SS s(CAP, MEM); build<PRE>(s);
   Ref r; snap(s, r);
   NZT m[NZ]; SV v; fill(v, m, sz);
   DataKey k;
   if(withkey) s.add(k, v); else s.add(v);
   vp_assert(s.num() == r.n + 1, 1);
   vp_assert(same_sv(s[r.n], v), 2);
   vp_assert(s[r.n].mem() != v.mem(), 3);
   if(withkey)
   {
      vp_assert(k.idx == s.key(r.n).idx, 4);
      vp_assert(k.idx >= 0 && k.idx < CAP, 5);
      if(k.idx >= 0 && k.idx < CAP) vp_assert(s.has(k) && s.number(k) == r.n && same_sv(s[k], v), 6);
   }
   for(int i = 0; i < NVX; ++i) if(i < r.n) vp_assert(s.key(r.n).idx != r.kidx[i], 7);
   all_unchanged<8>(s, r);
   vp_assert(inv(s, MEM), 9);
}
#if SYMSZ
#define CASE(P) { int sz = vp_int_in(0, 3); t_add1<P>(sz, 1); }
#else
#define CASE(P) t_add1<P>(P == 0 ? 0 : 3, 1); t_add1<P>(2, 0)
#endif
ENTRIES(add1, CASE)
#undef CASE

// ---------------------------------------------------------------------------------------------------- add many
#define NADD 2
template<int PRE, int KEYED> static void t_add_many(int n, int sz0, int sz1)
{
   SS s(CAP, MEM); build<PRE>(s);
   Ref r; snap(s, r);
   NZT m[NADD][NZ]; SV arr[NADD];
   fill(arr[0], m[0], sz0);
   fill(arr[1], m[1], sz1);
   DataKey nk[NADD];                            // default constructed: idx == -1
   if(KEYED) s.add(nk, arr, n); else s.add(arr, n);
   vp_assert(s.num() == r.n + n, 1);
   for(int a = 0; a < NADD; ++a) if(a < n)
   {
      vp_assert(same_sv(s[r.n + a], arr[a]), 2);
      if(KEYED)
      {  // every returned key identifies the corresponding added vector
         vp_assert(nk[a].idx == s.key(r.n + a).idx, 3);
         vp_assert(nk[a].idx >= 0 && nk[a].idx < CAP, 4);
         if(nk[a].idx >= 0 && nk[a].idx < CAP) vp_assert(s.has(nk[a]) && s.number(nk[a]) == r.n + a && same_sv(s[nk[a]], arr[a]), 5);
      }
   }
   all_unchanged<6>(s, r);
   vp_assert(inv(s, MEM), 7);
}
#if SYMSZ
#define CASE(P) t_add_many<P, 0>(2, 2, 1); t_add_many<P, 0>(P == 1 ? 0 : 1, 0, 2)
#else
#define CASE(P) t_add_many<P, 0>(2, 2, 1); t_add_many<P, 0>(P == 1 ? 0 : 1, 0, 2)
#endif
ENTRIES(add_many, CASE)
#undef CASE
// n == 0 is not exercised for the keyed overload (its loop `for(i = num()-1; --n; --i)` then runs out of bounds)
extern "C" void h_svset_add_many_keys()
{
#if SYMSZ
   t_add_many<1, 1>(2, 2, 1);
   t_add_many<1, 1>(1, 1, 2);
#else
   t_add_many<1, 1>(2, 2, 1);
   t_add_many<1, 1>(1, 1, 2);
#endif
   t_add_many<0, 1>(2, 0, 2);
   t_add_many<2, 1>(1, 2, 0);
   vp_cover(1);
}

// ---------------------------------------------------------------------------------------------------- add2 / xtend
// single: add2(svec, idx, val); otherwise add2(svec, n, idx[], val[])
template<int PRE> static void t_add2(int t, int single, int n)
{
   SS s(CAP, MEM); build<PRE>(s);
   Ref r; snap(s, r);
   int idx[2]; double val[2];
   for(int a = 0; a < 2; ++a) { idx[a] = vp_int_in(0, 7); double x = vp_small(-4, 4); vp_assume(x != 0.0); val[a] = x; }
   if(single) { n = 1; s.add2(s[t], idx[0], val[0]); }
   else s.add2(s[t], n, idx, val);
   vp_assert(s.num() == r.n, 1);
   for(int i = 0; i < NVX; ++i) if(i < r.n)
   {
      if(i != t) vp_assert(survivor(s, r, i, i), 2);
      else
      {  // vector t: same key, same number, old entries followed by the new ones
         DataKey k = mk(r.kidx[i]);
         vp_assert(s.has(k) && s.number(k) == i && &s[k] == &s[i], 3);
         const SV& v = s[i];
         vp_assert(v.size() == r.sz[i] + n && v.max() >= v.size(), 4);
         for(int p = 0; p < NZ; ++p) if(p < r.sz[i]) vp_assert(v.index(p) == r.ix[i][p] && v.value(p) == r.v[i][p], 5);
         for(int a = 0; a < 2; ++a) if(a < n) vp_assert(v.index(r.sz[i] + a) == idx[a] && v.value(r.sz[i] + a) == val[a], 6);
      }
   }
   vp_assert(inv(s, MEM), 7);
}
// every member vector (last in memory / not last / with spare room) x {single nonzero, two nonzeros}; once n = 0
#define CASE(P) for(int t = 0; t < NV; ++t) { t_add2<P>(t, 1, 1); t_add2<P>(t, 0, 2); } t_add2<P>(P, 0, 0)
ENTRIES(add2, CASE)
#undef CASE

template<int PRE> static void t_xtend(int t, int newmax)
{
   SS s(CAP, MEM); build<PRE>(s);
   Ref r; snap(s, r);
   s.xtend(s[t], newmax);
   vp_assert(s.num() == r.n, 1);
   all_unchanged<2>(s, r);
   vp_assert(s[t].max() >= newmax, 3);
   vp_assert(inv(s, MEM), 4);
   // the vector owns the promised room: filling it up to newmax disturbs nobody
   SV& v = s[t];
   for(int q = 0; q < 5; ++q) if(v.size() < newmax) v.add(7, 9.0);
   for(int i = 0; i < NVX; ++i) if(i < r.n && i != t) vp_assert(survivor(s, r, i, i), 5);
   for(int p = 0; p < NZ; ++p) if(p < r.sz[t]) vp_assert(v.index(p) == r.ix[t][p] && v.value(p) == r.v[t][p], 6);
}
// every member vector x {newmax 5 (must grow: last-in-memory branch or move-to-end branch), newmax = size+1, no-op}
#define CASE(P) for(int t = 0; t < NV; ++t) { t_xtend<P>(t, 5); t_xtend<P>(t, SZ[0] + 1); } t_xtend<P>(P, 0)
ENTRIES(xtend, CASE)
#undef CASE

// ---------------------------------------------------------------------------------------------------- remove one
template<int PRE> static void t_remove_one(int rm, int how)
{
   SS s(CAP, MEM); build<PRE>(s);
   Ref r; snap(s, r);
   if(how == 0) s.remove(rm);
   else if(how == 1) s.remove(mk(r.kidx[rm]));
   else s.remove(&s[rm]);
   vp_assert(s.num() == r.n - 1, 1);
   vp_assert(!s.has(mk(r.kidx[rm])), 2);
   for(int i = 0; i < NVX; ++i) if(i < r.n && i != rm)
   {
      DataKey k = mk(r.kidx[i]);
      vp_assert(s.has(k), 3);
      int nn = s.number(k);
      vp_assert(survivor(s, r, i, nn), 4);
      if(i < rm) vp_assert(nn == i, 5);          // documented: vectors with a smaller number than the removed one remain unchanged
   }
   vp_assert(inv(s, MEM), 6);
}
// every member vector; the three overloads rotate over the cases
#define CASE(P) for(int rm = 0; rm < NV; ++rm) t_remove_one<P>(rm, (rm + P) % 3)
ENTRIES(remove_one, CASE)
#undef CASE

// ---------------------------------------------------------------------------------------------------- remove(perm)
template<int id> static void check_perm(const SS& s, const Ref& r, const int* del, const int* perm, int ndel)
{
   vp_assert(s.num() == r.n - ndel, id);
   int prev = -1;
   for(int i = 0; i < NVX; ++i) if(i < r.n)
   {
      if(del[i])
      {
         vp_assert(perm[i] < 0, id + 1);
         vp_assert(!s.has(mk(r.kidx[i])), id + 2);
      }
      else
      {  // survivor i moved to perm[i], order preserved (=> perm[i] = number of survivors before i), key and content kept
         vp_assert(perm[i] == prev + 1, id + 3);
         prev = perm[i];
         vp_assert(survivor(s, r, i, perm[i]), id + 4);
      }
   }
   vp_assert(inv(s, MEM), id + 5);
}
template<int PRE> static void t_remove_perm(unsigned mask)
{
   SS s(CAP, MEM); build<PRE>(s);
   Ref r; snap(s, r);
   int perm[NVX]; int del[NVX]; int ndel = 0;
   for(int i = 0; i < NV; ++i)
   {
      del[i] = (mask >> i) & 1;
      // input value of a kept entry: any value >= 0 (symbolic only for one mask of the thorough variant: the real code branches on it)
      int keep = (SYMSZ && mask == 5) ? vp_int_in(0, 1000) : 5 * i + 3;
      perm[i] = del[i] ? -1 : keep;
      if(del[i]) ++ndel;
   }
   s.remove(perm);
   check_perm<1>(s, r, del, perm, ndel);
}
// every deletion mask
#define CASE(P) for(unsigned mask = 0; mask < (1u << NV); ++mask) t_remove_perm<P>(mask)
ENTRIES(remove_perm, CASE)
#undef CASE

// ---------------------------------------------------------------------------------------------------- remove lists
template<int PRE> static void t_remove_lists(int how, int n, int n0, int n1)
{
   SS s(CAP, MEM); build<PRE>(s);
   Ref r; snap(s, r);
   int nums[2]; DataKey keys[2];
   nums[0] = n0; nums[1] = n1;
   keys[0] = mk(r.kidx[nums[0]]); keys[1] = mk(r.kidx[nums[1]]);
   int perm[NVX]; int del[NVX];
   for(int i = 0; i < NVX; ++i) { del[i] = (n >= 1 && nums[0] == i) || (n >= 2 && nums[1] == i); perm[i] = vp_int_in(-5, 5); }
   if(how == 0) s.remove(nums, n, perm);
   else if(how == 1) s.remove(keys, n, perm);
   else
   {
      if(how == 2) s.remove(nums, n); else s.remove(keys, n);
      // no permutation reported: reference permutation = order preserving compaction
      int j = 0;
      for(int i = 0; i < NVX; ++i) if(i < r.n) perm[i] = del[i] ? -1 : j++;
   }
   check_perm<1>(s, r, del, perm, n);
}
#define CASE(P) t_remove_lists<P>(0, 2, 0, NV - 1); t_remove_lists<P>(1, 2, 1, 0); t_remove_lists<P>(2, 1, P, 0); t_remove_lists<P>(3, 2, NV - 1, 1); t_remove_lists<P>(P & 1, 0, 0, 1)
ENTRIES(remove_lists, CASE)
#undef CASE

// ---------------------------------------------------------------------------------------------------- memPack
template<int PRE> static void t_mempack(unsigned mask)
{
   SS s(CAP, MEM); build<PRE>(s);
   // some more removals first
   int perm[NVX];
   for(int i = 0; i < NV; ++i) perm[i] = ((mask >> i) & 1) ? -1 : 0;
   s.remove(perm);
   Ref r; snap(s, r);
   s.memPack();
   vp_assert(s.num() == r.n, 1);
   all_unchanged<2>(s, r);
   int used = 0;
   for(int i = 0; i < NVX; ++i) if(i < r.n) { vp_assert(s[i].max() == s[i].size(), 3); used += r.sz[i]; }
   vp_assert(s.memSize() == used, 4);
   vp_assert(inv(s, MEM), 5);
   // the set is still usable: add one more, nothing else changes
   NZT m[NZ]; SV v; fill(v, m, 2);
   DataKey k; s.add(k, v);
   all_unchanged<6>(s, r);
   vp_assert(s.num() == r.n + 1 && s.number(k) == r.n && same_sv(s[k], v), 7);
   vp_assert(inv(s, MEM), 8);
}
// after every deletion mask
#define CASE(P) for(unsigned mask = 0; mask < (1u << NV); ++mask) t_mempack<P>(mask)
ENTRIES(mempack, CASE)
#undef CASE

// ---------------------------------------------------------------------------------------------------- clear
template<int PRE> static void t_clear()
{
   SS s(CAP, MEM); build<PRE>(s);
   s.clear();
   vp_assert(s.num() == 0 && s.memSize() == 0, 1);
   vp_assert(inv(s, MEM), 2);
   NZT m[NZ]; SV v; fill(v, m, 2);
   DataKey k; s.add(k, v);
   vp_assert(s.num() == 1 && s.has(k) && s.number(k) == 0 && same_sv(s[k], v), 3);
   vp_assert(inv(s, MEM), 4);
}
extern "C" void h_svset_clear() { t_clear<0>(); t_clear<1>(); t_clear<2>(); vp_cover(1); }

// ---------------------------------------------------------------------------------------------------- packing on demand
// The nonzero memory is full (4 vectors x 4 nonzeros = MEM) but one vector has been removed from the middle: a following
// add / add2 must find the room by packing (ensureMem -> memPack) - relocation is excluded by the failing models - and
// nothing may be lost.
static void t_pack(int how)
{
   SS s(CAP, MEM);
   for(int i = 0; i < 4; ++i) { NZT m[NZ]; SV v; placeholder_sv(v, m, 4); s.add(v); }
   s.remove(1);
   for(int i = 0; i < 3; ++i)
   {
      SV& v = s[i];
      vp_assert(v.size() == 4, 80);
      for(int q = 0; q < 4; ++q) { v.index(q) = vp_int_in(0, 7); double x = vp_small(-4, 4); vp_assume(x != 0.0); v.value(q) = x; }
   }
   vp_assert(s.memSize() == MEM && inv(s, MEM), 1);
   Ref r; snap(s, r);
   if(how == 0)
   {
      NZT m[NZ]; SV v; fill(v, m, 3);
      DataKey k; s.add(k, v);
      vp_assert(s.num() == r.n + 1 && s.number(k) == r.n && same_sv(s[k], v), 2);
      all_unchanged<3>(s, r);
   }
   else
   {  // add2 on the vector that is last in memory (number 1 after the renumbering)
      int ix = vp_int_in(0, 7); double x = vp_small(-4, 4); vp_assume(x != 0.0);
      s.add2(s[1], ix, x);
      vp_assert(s.num() == r.n && s[1].size() == 5 && s[1].index(4) == ix && s[1].value(4) == x, 4);
      for(int p = 0; p < 4; ++p) vp_assert(s[1].index(p) == r.ix[1][p] && s[1].value(p) == r.v[1][p], 5);
      vp_assert(survivor(s, r, 0, 0) && survivor(s, r, 2, 2), 6);
   }
   vp_assert(inv(s, MEM), 7);
}
extern "C" void h_svset_pack_on_demand() { t_pack(0); t_pack(1); vp_cover(1); }

// ---------------------------------------------------------------------------------------------------- scenario
// One long concrete operation sequence from the constructor (10 operations, every kind at least once), symbolic data.
// Reference model: unordered collection of (key, content), updated by the harness; checked after every operation.
struct Model { int n; int key[NVX]; int sz[NVX]; int ix[NVX][NZ]; double v[NVX][NZ]; };
template<int id> static void model_check(const SS& s, const Model& M)
{
   vp_assert(s.num() == M.n, id);
   vp_assert(inv(s, MEMH), id + 1);
   for(int i = 0; i < NVX; ++i) if(i < M.n)
   {
      DataKey k = mk(M.key[i]);
      vp_assert(s.has(k), id + 2);
      const SV& v = s[k];
      vp_assert(v.size() == M.sz[i], id + 3);
      for(int p = 0; p < NZ; ++p) if(p < M.sz[i]) vp_assert(v.index(p) == M.ix[i][p] && v.value(p) == M.v[i][p], id + 4);
      for(int j = 0; j < NVX; ++j) if(j < i) vp_assert(M.key[j] != M.key[i], id + 5);
   }
}
// overwrite entries [from, v.size()) of vector k with symbolic data and record them in model slot t
static void symbolize(SS& s, Model& M, int t, int from)
{
   SV& v = s[mk(M.key[t])];
   M.sz[t] = v.size();
   for(int q = from; q < v.size(); ++q)
   {
      int ix = vp_int_in(0, 7); double x = vp_small(-4, 4); vp_assume(x != 0.0);
      v.index(q) = ix; v.value(q) = x; M.ix[t][q] = ix; M.v[t][q] = x;
   }
}
static void model_drop(Model& M, int t)
{
   --M.n;
   M.key[t] = M.key[M.n]; M.sz[t] = M.sz[M.n];
   for(int p = 0; p < NZ; ++p) { M.ix[t][p] = M.ix[M.n][p]; M.v[t][p] = M.v[M.n][p]; }
}
static void placeholder(SV& v, NZT* m, int sz) { v.setMem(sz, m); for(int q = 0; q < sz; ++q) v.add(q, 1.0); }
extern "C" void h_svset_scenario()
{
   SS s(CAP, MEMH);
   Model M; M.n = 0;
   NZT m0[NZ], m1[NZ]; SV v0, v1; DataKey k;
   // 1-3: add(key, svec) x3, sizes 2,1,3
   for(int i = 0; i < 3; ++i)
   {
      placeholder(v0, m0, SZ[i]);
      s.add(k, v0);
      M.key[M.n] = k.idx; ++M.n; symbolize(s, M, M.n - 1, 0);
      model_check<10>(s, M);
   }
   // 4: xtend of the first vector in memory (moves to the end, leaves a hole at the front)
   s.xtend(s[mk(M.key[0])], 4);
   vp_assert(s[mk(M.key[0])].max() >= 4, 1);
   model_check<20>(s, M);
   // 5: add2 of two nonzeros to a middle vector (moves to the end, predecessor inherits the space)
   {
      int idx[2] = {0, 1}; double val[2] = {1.0, 1.0};
      s.add2(s[mk(M.key[2])], 2, idx, val);
      symbolize(s, M, 2, M.sz[2]);
      model_check<30>(s, M);
   }
   // 6: remove by key (slot 1: now the first vector in memory)
   s.remove(mk(M.key[1])); model_drop(M, 1);
   model_check<40>(s, M);
   // 7: create(key, 2) and fill
   {
      SV* p = s.create(k, 2);
      p->add(0, 1.0); p->add(1, 1.0);
      M.key[M.n] = k.idx; ++M.n; symbolize(s, M, M.n - 1, 0);
      model_check<50>(s, M);
   }
   // 8: memPack
   s.memPack();
   model_check<60>(s, M);
   // 9: remove(perm) deleting number 0
   {
      int perm[NVX]; for(int i = 0; i < NVX; ++i) perm[i] = i;
      int gone = s.key(0).idx;
      perm[0] = -1;
      s.remove(perm);
      for(int t = 0; t < NVX; ++t) if(t < M.n && M.key[t] == gone) { model_drop(M, t); break; }
      model_check<70>(s, M);
   }
   // 10: add(svec[], 2)
   {
      SV arr[2]; placeholder(arr[0], m0, 1); placeholder(arr[1], m1, 2);
      s.add(arr, 2);
      M.key[M.n] = s.key(s.num() - 2).idx; ++M.n; symbolize(s, M, M.n - 1, 0);
      M.key[M.n] = s.key(s.num() - 1).idx; ++M.n; symbolize(s, M, M.n - 1, 0);
      model_check<80>(s, M);
   }
   // 11: remove by number of the vector that was extended in step 4
   s.remove(s.number(mk(M.key[0]))); model_drop(M, 0);
   model_check<90>(s, M);
   vp_cover(1);
}
