// C09-O7 (also C06): the single-index modifiers of the SOLVER, SPxSolverBase<double>::changeLower / changeUpper / changeLhs /
// changeRhs / changeObj / changeMaxObj (int, const R&, bool scale) in changesoplex.hpp, called with scale = true on a
// persistently scaled LP: afterwards the unscaled view of the solver's LP (lowerUnscaled, upperUnscaled, lhsUnscaled,
// rhsUnscaled, objUnscaled, unscaled coefficients) shows exactly the new value at the changed place - bit for bit, an infinite
// value stays infinite - and the original data everywhere else.  The new value is arbitrary, in particular it may be equal to
// the number that is STORED internally (the scaled bound) while being different from the current unscaled bound: the
// "nothing changed" early-out of these functions must compare with the unscaled value, otherwise the update is silently lost.
//
// Everything the solver does besides updating the LP data (forceRecompNonbasicValue, changeXStatus, unInit, basis status) is
// cut in the solver build (arbitrary result, no effect): the assertions are about the stored LP data only.
//
// Solver build: `this` is a genuine subclass object (real vtable) whose base-class constructor is replaced by a model that
// really constructs only the SPxLPBase sub-object; the 2x2 LP is built into it by the real adders (lp_build.h) and scaled by the
// real SPxScaler::applyScaling with arbitrary exponents.  Native build: a real solver, the same LP loaded with loadLP(), the same
// scaling applied to the solver's LP.
// Reference: dense copy `d` of the unscaled data, updated by the harness; scaled stored value = ldexp(v, +-exponent).
#include "lp_build.h"
#include <new>
using namespace soplex; using namespace vph;
typedef SPxSolverBase<double> Solver;
#define NR 2
#define NC 2
#define MASK 0xF
#ifndef EMAX
#define EMAX 10
#endif
#ifndef KEXP
#define KEXP 12
#endif
struct TS : public Solver { TS(Solver::Type t, Solver::Representation r) : Solver(t, r) {} };
#ifndef VP_NATIVE
extern "C" void m_solver_ctor(Solver* self, Solver::Type t, Solver::Representation r, Timer::TYPE tt) { new(static_cast<SPxLPBase<double>*>(self)) LP(); }
union SolverMem { TS s; SolverMem() {} ~SolverMem() {} };
static SolverMem mem;
#endif

// solver holding the 2x2 LP d (symbolic small integers / infinite bounds), scaled persistently with arbitrary exponents
static Solver* make_scaled(Dense<NR, NC>& d, Sc& sc, int* ce, int* re)
{
   int mn = vp_int_in(0, 1);
   int cl = vp_int_in(0, 1);
   SPxLPBase<double>::SPxSense sense = mn ? SPxLPBase<double>::MINIMIZE : SPxLPBase<double>::MAXIMIZE;
   Solver::Representation rep = cl ? Solver::COLUMN : Solver::ROW;
#ifdef VP_NATIVE
   LP lp;
   lp.thesense = sense;
   build<NR, NC>(lp, d, MASK, 7);
   static SPxOut out;
   out.setVerbosity(SPxOut::ERROR);
   Solver* s = new TS(Solver::LEAVE, rep);
   s->setOutstream(out);
   s->loadLP(lp);
   s->_tolerances = std::make_shared<Tolerances>();
#else
   Solver* s = new(&mem.s) TS(Solver::LEAVE, rep);
   s->thesense = sense;
   s->theRep = rep;
   build<NR, NC>(static_cast<LP&>(static_cast<SPxLPBase<double>&>(*s)), d, MASK, 7);
#endif
   SPxLPBase<double>& lp0 = *s;
   sc.setup(lp0);                                   // sizes + zeroes the exponent arrays, lp_scaler = &sc
   for(int j = 0; j < NC; ++j) { ce[j] = vp_int_in(-EMAX, EMAX); lp0.LPColSetBase<double>::scaleExp[j] = ce[j]; }
   for(int i = 0; i < NR; ++i) { re[i] = vp_int_in(-EMAX, EMAX); lp0.LPRowSetBase<double>::scaleExp[i] = re[i]; }
   sc.applyScaling(lp0);                            // scales every number, sets _isScaled
   return s;
}
// m*2^k, m in -7..7, k in -KEXP..KEXP
static double fin_val()
{
   int m = vp_int_in(-7, 7);
   int k = vp_int_in(-KEXP, KEXP);
   return ldexp((double)m, k);
}
// finite value or the infinity of the given sign
static double val_or_inf(bool upper)
{
   int inf = vp_int_in(0, 1);
   double v = fin_val();
   return inf ? (upper ? (double)infinity : -(double)infinity) : v;
}
static bool is_inf(double x) { return x >= (double)infinity || x <= -(double)infinity; }
static double user_obj(const Solver* s, double maxobj) { return s->spxSense() == SPxLPBase<double>::MINIMIZE ? -maxobj : maxobj; }

// the whole unscaled view of the solver's LP equals the dense reference; both matrix copies hold the same numbers; the LP is
// still scaled with the same exponents and the same scaler   (assertion ids must be literals)
static void check_view(const Solver* s, const Sc& sc, const Dense<NR, NC>& d, const int* ce, const int* re)
{
   for(int j = 0; j < NC; ++j)
   {
      vp_assert(same_bits(s->lowerUnscaled(j), d.lo[j]), 21);
      vp_assert(same_bits(s->upperUnscaled(j), d.up[j]), 22);
      vp_assert(s->objUnscaled(j) == d.obj[j], 23);
      vp_assert(user_obj(s, s->maxObjUnscaled(j)) == d.obj[j], 28);
   }
   for(int i = 0; i < NR; ++i)
   {
      vp_assert(same_bits(s->lhsUnscaled(i), d.lhs[i]), 24);
      vp_assert(same_bits(s->rhsUnscaled(i), d.rhs[i]), 25);
      for(int j = 0; j < NC; ++j)
      {
         vp_assert(sc.getCoefUnscaled(*s, i, j) == d.a[i][j], 26);
         vp_assert(same_bits(rowcoef(*s, i, j), colcoef(*s, i, j)), 27);
      }
   }
   vp_assert(s->isScaled() && s->lp_scaler == &sc, 10);
   for(int j = 0; j < NC; ++j) vp_assert(s->LPColSetBase<double>::scaleExp[j] == ce[j], 11);
   for(int i = 0; i < NR; ++i) vp_assert(s->LPRowSetBase<double>::scaleExp[i] == re[i], 12);
}

extern "C" void h_sc_lower()
{
   Dense<NR, NC> d; Sc sc; int ce[NC], re[NR];
   Solver* s = make_scaled(d, sc, ce, re);
   int j = vp_int_in(0, NC - 1);
   double v = val_or_inf(false);
   bool key = v == s->lower(j) && v != d.lo[j];            // equal to the stored scaled number, different from the bound
   s->changeLower(j, v, true);
   d.lo[j] = v;
   check_view(s, sc, d, ce, re);
   vp_assert(same_bits(s->lower(j), is_inf(v) ? v : ldexp(v, -ce[j])), 30);     // what is stored: v / 2^colexp
   if(key) vp_cover(2);
   vp_cover(1);
}
extern "C" void h_sc_upper()
{
   Dense<NR, NC> d; Sc sc; int ce[NC], re[NR];
   Solver* s = make_scaled(d, sc, ce, re);
   int j = vp_int_in(0, NC - 1);
   double v = val_or_inf(true);
   bool key = v == s->upper(j) && v != d.up[j];
   s->changeUpper(j, v, true);
   d.up[j] = v;
   check_view(s, sc, d, ce, re);
   vp_assert(same_bits(s->upper(j), is_inf(v) ? v : ldexp(v, -ce[j])), 30);
   if(key) vp_cover(2);
   vp_cover(1);
}
extern "C" void h_sc_lhs()
{
   Dense<NR, NC> d; Sc sc; int ce[NC], re[NR];
   Solver* s = make_scaled(d, sc, ce, re);
   int i = vp_int_in(0, NR - 1);
   double v = val_or_inf(false);
   bool key = v == s->lhs(i) && v != d.lhs[i];
   s->changeLhs(i, v, true);
   d.lhs[i] = v;
   check_view(s, sc, d, ce, re);
   vp_assert(same_bits(s->lhs(i), is_inf(v) ? v : ldexp(v, re[i])), 30);        // what is stored: v * 2^rowexp
   if(key) vp_cover(2);
   vp_cover(1);
}
extern "C" void h_sc_rhs()
{
   Dense<NR, NC> d; Sc sc; int ce[NC], re[NR];
   Solver* s = make_scaled(d, sc, ce, re);
   int i = vp_int_in(0, NR - 1);
   double v = val_or_inf(true);
   bool key = v == s->rhs(i) && v != d.rhs[i];
   s->changeRhs(i, v, true);
   d.rhs[i] = v;
   check_view(s, sc, d, ce, re);
   vp_assert(same_bits(s->rhs(i), is_inf(v) ? v : ldexp(v, re[i])), 30);
   if(key) vp_cover(2);
   vp_cover(1);
}
// objective in the user's sense
extern "C" void h_sc_obj()
{
   Dense<NR, NC> d; Sc sc; int ce[NC], re[NR];
   Solver* s = make_scaled(d, sc, ce, re);
   int j = vp_int_in(0, NC - 1);
   double v = fin_val();
   bool key = (v == s->maxObj(j) || v == -s->maxObj(j)) && v != d.obj[j];
   s->changeObj(j, v, true);
   d.obj[j] = v;
   check_view(s, sc, d, ce, re);
   vp_assert(s->maxObj(j) == ldexp(user_obj(s, v), ce[j]), 30);                 // what is stored: +-v * 2^colexp
   if(key) vp_cover(2);
   vp_cover(1);
}
// objective of the maximisation form
extern "C" void h_sc_maxobj()
{
   Dense<NR, NC> d; Sc sc; int ce[NC], re[NR];
   Solver* s = make_scaled(d, sc, ce, re);
   int j = vp_int_in(0, NC - 1);
   double v = fin_val();
   bool key = v == s->maxObj(j) && v != user_obj(s, d.obj[j]);
   s->changeMaxObj(j, v, true);
   d.obj[j] = user_obj(s, v);
   check_view(s, sc, d, ce, re);
   vp_assert(same_bits(s->maxObjUnscaled(j), v), 31);
   vp_assert(same_bits(s->maxObj(j), ldexp(v, ce[j])), 30);
   if(key) vp_cover(2);
   vp_cover(1);
}
