// C19-O8 (SSVectorBase<double>): the semi-sparse vector = dense values + optional list of the nonzero positions.
// After every operation (a) the dense view operator[] equals a dense reference computed by the harness and (b) when the
// vector says isSetup(), the index list is duplicate-free, in range and contains exactly the positions whose value is
// nonzero ("exact"; the class only promises "at least", which is what is required after operations documented as lazy).
// Kernel style: dimension DIM, 0..NNZ nonzeros at symbolic distinct indices in symbolic list order, integer values -4..4
// (|x| <= epsilon = 1e-16 is "zero" for this class: unambiguous for integer data; setup() is also run on tiny values).
#include <memory>
#include <string>
#include <vector>
#include <iostream>
#include <sstream>
#include <fstream>
#include <map>
#include <set>
#include <algorithm>
#include <functional>
#include <limits>
#include <cmath>
#include <cstring>
#define private public
#define protected public
#include "soplex/spxdefines.h"
#include "soplex/basevectors.h"
#undef private
#undef protected
#include "vp.h"
using namespace soplex;
#ifndef DIM
#define DIM 4
#endif
#ifndef NNZ
#define NNZ 3
#endif
#define CAP 8
#ifndef NV2
#define NV2 2     // number of nonzeros per operand in the symbolic-value flavour of the two-operand obligations
#endif
typedef SVectorBase<double> SV;
typedef SV::Element El;
typedef VectorBase<double> V;
typedef SSVectorBase<double> SSV;
typedef std::shared_ptr<Tolerances> Tol;

struct In { int n; int ix[NNZ]; double va[NNZ]; double d[DIM]; };
// table != nullptr: the values are the CONCRETE numbers table[0..NNZ-1] (only the structure is symbolic)
static void draw(In& in, int nmin, int nmax, bool allow_zero, int vmax = 4, const double* table = nullptr)
{
   if(nmin == nmax) in.n = nmin; else in.n = vp_int_in(nmin, nmax);
   for(int i = 0; i < DIM; ++i) in.d[i] = 0.0;
   for(int k = 0; k < NNZ; ++k)
   {
      in.ix[k] = vp_int_in(0, DIM - 1);
      if(table) in.va[k] = table[k];
      else
      {
         in.va[k] = vp_small(-vmax, vmax);
         if(!allow_zero) vp_assume(in.va[k] != 0.0);
      }
      for(int j = 0; j < k; ++j) vp_assume(in.ix[j] != in.ix[k]);
      if(k < in.n) in.d[in.ix[k]] = in.va[k];
   }
}
static void fill_sv(SV& v, const In& in)
{
   v.set_size(in.n);
   for(int k = 0; k < NNZ; ++k) if(k < in.n) { v.index(k) = in.ix[k]; v.value(k) = in.va[k]; }
}
// how the semi-sparse operand is put into its state
enum Mode { LISTED = 0,    // set up, index list in the (symbolic) order of the draw: built with add(i,x)
            SORTED = 1,    // set up by setup(): index list increasing
            DENSE = 2 };   // not set up: values only
static void fill_ss(SSV& s, const In& in, int mode)
{
   if(mode == LISTED) { for(int k = 0; k < NNZ; ++k) if(k < in.n) s.add(in.ix[k], in.va[k]); }
   else
   {
      double* p = s.altValues();                       // un-sets-up the vector
      for(int i = 0; i < DIM; ++i) p[i] = in.d[i];
      if(mode == SORTED) s.setup();
   }
}
static bool dense_eq(const SSV& s, const double* d)
{
   if(s.dim() != DIM) return false;
   for(int i = 0; i < DIM; ++i) if(!(s[i] == d[i])) return false;
   return true;
}
// index list: in range, no duplicates, only/at least the nonzero positions
static bool list_ok(const SSV& s, const double* d, bool exact, int dim = DIM)
{
   if(!s.isSetup()) return true;
   if(s.num < 0 || s.num > s.len || s.len < dim) return false;
   int nz = 0;
   for(int i = 0; i < dim; ++i) if(d[i] != 0.0) { ++nz; if(s.pos(i) < 0) return false; }
   for(int n = 0; n < dim; ++n) if(n < s.num)
   {
      if(s.idx[n] < 0 || s.idx[n] >= dim) return false;
      for(int m = 0; m < n; ++m) if(s.idx[m] == s.idx[n]) return false;
   }
   if(exact && s.num != nz) return false;
   return true;
}
static double dabs(double x) { return x < 0 ? -x : x; }

// ---- constructor, setup(), unSetup(), forceSetup(), clear(), accessors -------------------------------------------------------------
extern "C" void h_ssv_setup()
{
   Tol tol = std::make_shared<Tolerances>();
   SSV s(DIM, tol);
   double zero[DIM];
   for(int i = 0; i < DIM; ++i) zero[i] = 0.0;
   vp_assert(s.isSetup() && s.size() == 0 && s.dim() == DIM && dense_eq(s, zero) && s.getEpsilon() == 1e-16, 1);
   // arbitrary dense content incl. values that are "zero" for this class (|x| <= epsilon)
   double d[DIM]; double raw[DIM];
   double* p = s.altValues();
   vp_assert(!s.isSetup(), 2);
   for(int i = 0; i < DIM; ++i)
   {
      int kind = vp_int_in(0, 3);
      double x = vp_small(-4, 4);
      raw[i] = kind == 0 ? 1e-17 : (kind == 1 ? -1e-16 : x);
      d[i] = (kind <= 1) ? 0.0 : x;
      p[i] = raw[i];
   }
   s.setup();
   vp_assert(s.isSetup() && dense_eq(s, d) && list_ok(s, d, true), 3);      // tiny values are set to 0, nonzeros are listed
   for(int n = 0; n + 1 < DIM; ++n) if(n + 1 < s.size()) vp_assert(s.index(n) < s.index(n + 1), 4);   // increasing
   for(int n = 0; n < DIM; ++n) if(n < s.size()) vp_assert(s.value(n) == d[s.index(n)] && s.pos(s.index(n)) == n, 5);
   for(int i = 0; i < DIM; ++i) if(d[i] == 0.0) vp_assert(s.pos(i) == -1, 6);
   vp_assert(s.indexMem() == s.idx && s.values() == s.get_ptr() && &s.indices() == static_cast<const IdxSet*>(&s), 7);
   int sz = s.size();
   s.setup();                                               // no-op on a set-up vector
   vp_assert(s.isSetup() && s.size() == sz && dense_eq(s, d), 8);
   s.unSetup();
   vp_assert(!s.isSetup() && dense_eq(s, d), 9);
   s.forceSetup();
   vp_assert(s.isSetup() && s.size() == sz, 10);
   // clear(): from the set-up state and from the dense state
   int unset = vp_int_in(0, 1);
   if(unset) s.unSetup();
   s.clear();
   vp_assert(s.isSetup() && s.size() == 0 && dense_eq(s, zero), 11);
   vp_cover(1);
}

// ---- element edits: setValue, clearIdx, clearNum, add, scaleValue ------------------------------------------------------------------
extern "C" void h_ssv_edit()
{
   Tol tol = std::make_shared<Tolerances>();
   SSV s(DIM, tol);
   In in; draw(in, 0, NNZ, false);
   int mode = vp_int_in(0, 2);
   fill_ss(s, in, mode);
   vp_assert(dense_eq(s, in.d) && list_ok(s, in.d, true) && s.isSetup() == (mode != DENSE), 1);
   int op = vp_int_in(0, 4);
   int i = vp_int_in(0, DIM - 1);
   double x = vp_small(-4, 4);
   int e = vp_int_in(-2, 2);
   if(op == 0) { s.setValue(i, x); in.d[i] = x; }
   else if(op == 1) { s.clearIdx(i); in.d[i] = 0.0; }
   else if(op == 2)
   {  // clearNum(n): n'th listed nonzero
      vp_assume(mode != DENSE && i < in.n);
      int which = s.index(i);
      s.clearNum(i);
      in.d[which] = 0.0;
   }
   else if(op == 3)
   {  // add(i,x): "No nonzero with index i must exist"
      vp_assume(mode != DENSE && in.d[i] == 0.0 && x != 0.0);
      int n0 = s.size();
      s.add(i, x); in.d[i] = x;
      vp_assert(s.size() == n0 + 1 && s.index(n0) == i && s.value(n0) == x, 2);
   }
   else { s.scaleValue(i, e); in.d[i] = ldexp(in.d[i], e); }
   vp_assert(dense_eq(s, in.d), 3);
   vp_assert(s.isSetup() == (mode != DENSE), 4);
   vp_assert(list_ok(s, in.d, true), 5);
   vp_cover(1);
}

// ---- assign(SVector), operator=(SVector) ----------------------------------------------------------------------------------------
extern "C" void h_ssv_assign_sv()
{
   Tol tol = std::make_shared<Tolerances>();
   SSV s(DIM, tol);
   El mem[CAP]; SV v(CAP, mem);
   In in; draw(in, 0, NNZ, true); fill_sv(v, in);
   // assign(): "assigns only the elements of rhs" - on a cleared vector the result is rhs
   SSV& r = s.assign(v);
   vp_assert(&r == &s && s.isSetup() && dense_eq(s, in.d) && list_ok(s, in.d, true), 1);
   int cnt = 0;
   for(int k = 0; k < NNZ; ++k) if(k < in.n && in.va[k] != 0.0) { vp_assert(s.index(cnt) == in.ix[k], 2); ++cnt; }   // listed in the order of rhs
   // operator=(SVector): old content vanishes (set-up or dense old state)
   SSV t(DIM, tol);
   In old; draw(old, 0, NNZ, false);
   int mode = vp_int_in(0, 2);
   fill_ss(t, old, mode);
   t = v;
   vp_assert(t.isSetup() && dense_eq(t, in.d) && list_ok(t, in.d, true), 3);
   vp_assert(v.size() == in.n, 4);
   vp_cover(1);
}

// ---- operator=(SSVector), copy constructor, setup_and_assign, operator=(Vector), SSVector(Vector) -------------------------------------
extern "C" void h_ssv_assign_ssv()
{
   Tol tol = std::make_shared<Tolerances>();
   Tol tol2 = std::make_shared<Tolerances>();
   SSV src(DIM, tol);
   In in; draw(in, 0, NNZ, false);
   int mode = vp_int_in(0, 2);
   fill_ss(src, in, mode);
   // target with old content and other tolerances object
   SSV t(DIM, tol2);
   In old; draw(old, 0, NNZ, false);
   int tmode = vp_int_in(0, 2);
   fill_ss(t, old, tmode);
   int op = vp_int_in(0, 2);
   if(op == 0)
   {
      SSV& r = (t = src);
      vp_assert(&r == &t, 1);
      t = t;
   }
   else if(op == 1)
   {  // setup_and_assign: also sets up the right hand side
      t.setup_and_assign(src);
      vp_assert(src.isSetup() && list_ok(src, in.d, true), 2);
   }
   else
   {  // operator=(VectorBase): dense copy, not set up
      V w(DIM);
      for(int i = 0; i < DIM; ++i) w[i] = in.d[i];
      t = w;
      vp_assert(!t.isSetup(), 3);
   }
   vp_assert(dense_eq(t, in.d) && list_ok(t, in.d, true), 4);
   if(op != 2) vp_assert(t.isSetup() && t._tolerances.get() == tol.get(), 5);
   vp_assert(dense_eq(src, in.d) && list_ok(src, in.d, true), 6);
   // the copy constructor keeps values, list and status; SSVector(VectorBase) is a dense copy
   SSV c(src);
   vp_assert(c.isSetup() == src.isSetup() && dense_eq(c, in.d) && list_ok(c, in.d, true) && c.idx != src.idx && c._tolerances.get() == tol.get(), 7);
   if(src.isSetup()) { vp_assert(c.size() == src.size(), 8); for(int n = 0; n < DIM; ++n) if(n < c.size()) vp_assert(c.index(n) == src.index(n), 9); }
   V w2(DIM);
   for(int i = 0; i < DIM; ++i) w2[i] = in.d[i];
   SSV fromdense(w2);
   vp_assert(!fromdense.isSetup() && dense_eq(fromdense, in.d) && fromdense.len >= DIM, 10);
   vp_cover(1);
}

// ---- multAdd(x, SVector) (sparse update with cancellation marker), multAdd(x, Vector) -------------------------------------------------
// Two flavours (the solver has to split on the index pattern of BOTH operands, and on every pattern prove a floating-point identity):
//  *_structure: symbolic counts/indices/list order/state, CONCRETE values chosen such that coinciding indices cancel (2 + 2*(-1), -4 + 2*2)
//  *_values   : symbolic values and scalar, operands with fewer nonzeros (NV2 of them)
static const double TAB_A[NNZ] = { 2.0, -4.0, 3.0 };
static const double TAB_B[NNZ] = { -1.0, 2.0, 0.0 };
static void ssv_multadd(bool concrete_values)
{
   Tol tol = std::make_shared<Tolerances>();
   SSV s(DIM, tol);
   In in; draw(in, 0, concrete_values ? NNZ : NV2, false, 4, concrete_values ? TAB_A : nullptr);
   int mode = vp_int_in(0, 2);
   fill_ss(s, in, mode);
   double x = 2.0;
   if(!concrete_values) x = vp_small(-4, 4);
   int which = vp_int_in(0, 1);
   El mem[CAP]; SV v(CAP, mem); In b; draw(b, 0, concrete_values ? NNZ : NV2, true, 4, concrete_values ? TAB_B : nullptr);
   if(which == 0) { fill_sv(v, b); s.multAdd(x, v); }
   else
   {
      V w(DIM);
      for(int i = 0; i < DIM; ++i) w[i] = b.d[i];
      s.multAdd(x, w);
   }
   for(int i = 0; i < DIM; ++i) in.d[i] += x * b.d[i];
   vp_assert(dense_eq(s, in.d), 1);                         // cancelled entries are exact zeros (no marker value is left behind)
   vp_assert(s.isSetup() == (mode != DENSE), 2);
   vp_assert(list_ok(s, in.d, true), 3);
   vp_cover(1);
}
extern "C" void h_ssv_multadd_structure() { ssv_multadd(true); }
extern "C" void h_ssv_multadd_values() { ssv_multadd(false); }

// ---- += / -= with Vector, SVector, SSVector operands; *= x ------------------------------------------------------------------------------
static const double TAB_C[NNZ] = { -2.0, 4.0, 3.0 };     // with TAB_A: += cancels at coinciding indices of entries 0 and 1, -= at entry 2
static void ssv_addsub(bool concrete_values)
{
   Tol tol = std::make_shared<Tolerances>();
   SSV s(DIM, tol);
   In in; draw(in, 0, concrete_values ? NNZ : NV2, false, 4, concrete_values ? TAB_A : nullptr);
   int mode = vp_int_in(0, 2);
   fill_ss(s, in, mode);
   In b; draw(b, 0, concrete_values ? NNZ : NV2, false, 4, concrete_values ? TAB_C : nullptr);
   int kind = vp_int_in(0, 2);
   int minus = vp_int_in(0, 1);
   int bmode = vp_int_in(0, 2);
   El mem[CAP]; SV v(CAP, mem); V w(DIM); SSV ss(DIM, tol);
   if(kind == 0)
   {
      for(int i = 0; i < DIM; ++i) w[i] = b.d[i];
      if(minus) s -= w; else s += w;
   }
   else if(kind == 1)
   {
      fill_sv(v, b);
      if(minus) s -= v; else s += v;
   }
   else
   {
      if(!minus) vp_assume(bmode != DENSE);                  // operator+=(SSVector) requires a set-up operand (assert in the code)
      fill_ss(ss, b, bmode);
      if(minus) s -= ss; else s += ss;
      vp_assert(dense_eq(ss, b.d) && list_ok(ss, b.d, true), 1);
   }
   for(int i = 0; i < DIM; ++i) in.d[i] = minus ? in.d[i] - b.d[i] : in.d[i] + b.d[i];
   vp_assert(dense_eq(s, in.d), 2);
   vp_assert(s.isSetup() == (mode != DENSE), 3);
   vp_assert(list_ok(s, in.d, true), 4);
   // scaling (needs a set-up vector)
   double x = -3.0;
   if(!concrete_values) { x = vp_small(-4, 4); vp_assume(x != 0.0); }
   if(s.isSetup())
   {
      s *= x;
      for(int i = 0; i < DIM; ++i) in.d[i] *= x;
      vp_assert(dense_eq(s, in.d) && list_ok(s, in.d, true), 5);
   }
   vp_cover(1);
}
extern "C" void h_ssv_addsub_structure() { ssv_addsub(true); }
extern "C" void h_ssv_addsub_values() { ssv_addsub(false); }

// ---- maxAbs, length2 in both states; SSVector * SSVector; assignPWproduct4setup -----------------------------------------------------------
#ifndef VDOT
#define VDOT 1
#endif
static void ssv_products(bool sorted)
{
   Tol tol = std::make_shared<Tolerances>();
   SSV a(DIM, tol), b(DIM, tol), p(DIM, tol);
   In ia, ib; draw(ia, 0, NNZ, false, VDOT); draw(ib, 0, NNZ, false, VDOT);
   fill_ss(a, ia, sorted ? SORTED : LISTED);
   fill_ss(b, ib, sorted ? SORTED : LISTED);
   double dot = 0.0; double pw[DIM];
   for(int i = 0; i < DIM; ++i) { dot += ia.d[i] * ib.d[i]; pw[i] = ia.d[i] * ib.d[i]; }
   int which = vp_int_in(0, 1);
   if(which == 0) vp_assert(a * b == dot, 1);
   else
   {
      In old; draw(old, 0, NNZ, false);
      fill_ss(p, old, LISTED);
      SSV& r = p.assignPWproduct4setup(a, b);
      vp_assert(&r == &p && p.isSetup() && dense_eq(p, pw) && list_ok(p, pw, true), 2);
   }
   vp_assert(dense_eq(a, ia.d) && dense_eq(b, ib.d) && list_ok(a, ia.d, true) && list_ok(b, ib.d, true), 3);
   vp_cover(1);
}
extern "C" void h_ssv_products_sorted() { ssv_products(true); }
extern "C" void h_ssv_products_anyorder() { ssv_products(false); }

extern "C" void h_ssv_norms()
{
   Tol tol = std::make_shared<Tolerances>();
   SSV s(DIM, tol);
   In in; draw(in, 0, NNZ, false, 2);
   int mode = vp_int_in(0, 2);
   fill_ss(s, in, mode);
   double mx = 0.0, l2 = 0.0;
   for(int i = 0; i < DIM; ++i) { if(dabs(in.d[i]) > mx) mx = dabs(in.d[i]); l2 += in.d[i] * in.d[i]; }
   vp_assert(s.maxAbs() == mx, 1);
   vp_assert(s.length2() == l2, 2);
   vp_cover(1);
}

// ---- reDim, reMem, setSize -------------------------------------------------------------------------------------------------------
template<int ND> static void ssv_redim()
{
   Tol tol = std::make_shared<Tolerances>();
   SSV s(DIM, tol);
   In in; draw(in, 0, NNZ, false);
   int mode = vp_int_in(0, 1);                               // set up (listed / sorted)
   fill_ss(s, in, mode);
   s.reDim(ND);
   double d2[DIM + 2];
   for(int i = 0; i < DIM + 2; ++i) d2[i] = (i < DIM && i < ND) ? in.d[i] : 0.0;
   vp_assert(s.dim() == ND && s.isSetup(), 1);
   for(int i = 0; i < ND; ++i) vp_assert(s[i] == d2[i], 2);
   // list: exactly the surviving nonzeros, room for every position
   vp_assert(list_ok(s, d2, true, ND), 3);
   // the new positions are usable
   s.setValue(ND - 1, 3.0);
   vp_assert(s[ND - 1] == 3.0 && s.pos(ND - 1) >= 0, 4);
   // setSize(n): "sets number of nonzeros (thereby unSetup)"
   s.setSize(1);
   vp_assert(!s.isSetup() && s.num == 1, 5);
}
extern "C" void h_ssv_redim()
{
   ssv_redim<1>(); ssv_redim<2>(); ssv_redim<DIM>(); ssv_redim<DIM + 1>(); ssv_redim<DIM + 2>();
   vp_cover(1);
}
