// lp_build.h - small real SPxLPBase<double> objects for harnesses, built through the real adders.
// Sparsity pattern is concrete (bit mask), values are symbolic and assumed nonzero (a stored zero is not a nonzero).
#pragma once
#include "soplex_all.h"
namespace vph {
using namespace soplex;
struct LP : public SPxLPBase<double>
{
   DataArray<int>& cexp() { return LPColSetBase<double>::scaleExp; }
   DataArray<int>& rexp() { return LPRowSetBase<double>::scaleExp; }
};
struct Sc : public SPxScaler<double>
{
   Sc() : SPxScaler<double>("vp") {}
   SPxScaler<double>* clone() const override { return nullptr; }
   void scale(SPxLPBase<double>& lp, bool persistent) override {}
};
// dense reference copy of an LP
template<int NR, int NC> struct Dense
{
   double a[NR][NC]; double lhs[NR], rhs[NR], lo[NC], up[NC], obj[NC];
};
// value kinds
static inline double val_small(int k) { double v = vp_small(-k, k); return v; }
static inline double bound_or_inf(int k, bool upper)
{
   int inf = vp_int_in(0, 1);
   double v = vp_small(-k, k);
   return inf ? (upper ? (double)infinity : -(double)infinity) : v;
}
// builds an NR x NC LP with the given pattern mask (bit i*NC+j set => a_ij is a nonzero).
// The structure is built by the real adders with CONCRETE placeholder data (so that symbolic execution of the
// construction is plain constant propagation); afterwards every stored number is overwritten in place, through the
// real write accessors, with a symbolic small integer (nonzeros assumed != 0).
template<int NR, int NC> static inline void build(LP& lp, Dense<NR, NC>& d, unsigned mask, int k)
{
   {  // pre-size the dense arrays of both sets: otherwise every add() re-allocates and copies them (measured: 2x3 build
      // 13.8M SAT variables without, 0.9M with)
      LPColSetBase<double>& cs = lp; cs.low.reDim(NC); cs.up.reDim(NC); cs.object.reDim(NC); cs.scaleExp.reSize(NC);
      LPRowSetBase<double>& rs = lp; rs.left.reDim(NR); rs.right.reDim(NR); rs.object.reDim(NR); rs.scaleExp.reSize(NR);
      cs.low.reDim(0); cs.up.reDim(0); cs.object.reDim(0); cs.scaleExp.reSize(0);
      rs.left.reDim(0); rs.right.reDim(0); rs.object.reDim(0); rs.scaleExp.reSize(0);
   }
#ifdef VP_LP_VIA_ADDROW
   // through the public adders (doAddCol/doAddRow maintain the mirrored copies): slower to execute symbolically
   for(int j = 0; j < NC; ++j)
   {
      DSVectorBase<double> c(NR);
      lp.addCol(LPColBase<double>(1.0, c, 1.0, 0.0));
   }
   for(int i = 0; i < NR; ++i)
   {
      DSVectorBase<double> r(NC);
      for(int j = 0; j < NC; ++j) if(mask & (1u << (i * NC + j))) r.add(j, 1.0);
      lp.addRow(LPRowBase<double>(0.0, r, 1.0));
   }
#else
   // through the two base-class adders: the row copy and the column copy are filled separately with the same
   // matrix, which is the state addCol/addRow produce (same vectors, same order of nonzeros by increasing index)
   for(int j = 0; j < NC; ++j)
   {
      DSVectorBase<double> c(NR);
      for(int i = 0; i < NR; ++i) if(mask & (1u << (i * NC + j))) c.add(i, 1.0);
      lp.LPColSetBase<double>::add(1.0, 0.0, c, 1.0);
   }
   for(int i = 0; i < NR; ++i)
   {
      DSVectorBase<double> r(NC);
      for(int j = 0; j < NC; ++j) if(mask & (1u << (i * NC + j))) r.add(j, 1.0);
      lp.LPRowSetBase<double>::add(0.0, r, 1.0);
   }
#endif
   for(int j = 0; j < NC; ++j)
   {
      d.obj[j] = val_small(k); d.lo[j] = bound_or_inf(k, false); d.up[j] = bound_or_inf(k, true);
      vp_assume(d.lo[j] <= d.up[j]);
      lp.maxObj_w(j) = (lp.spxSense() == SPxLPBase<double>::MINIMIZE) ? -d.obj[j] : d.obj[j];
      lp.lower_w(j) = d.lo[j]; lp.upper_w(j) = d.up[j];
   }
   for(int i = 0; i < NR; ++i)
   {
      d.lhs[i] = bound_or_inf(k, false); d.rhs[i] = bound_or_inf(k, true);
      vp_assume(d.lhs[i] <= d.rhs[i]);
      lp.lhs_w(i) = d.lhs[i]; lp.rhs_w(i) = d.rhs[i];
      for(int j = 0; j < NC; ++j)
      {
         d.a[i][j] = 0.0;
         if(mask & (1u << (i * NC + j))) { double v = val_small(k); vp_assume(v != 0.0); d.a[i][j] = v; }
      }
   }
   for(int i = 0; i < NR; ++i) { SVectorBase<double>& v = lp.rowVector_w(i); for(int p = 0; p < v.size(); ++p) v.value(p) = d.a[i][v.index(p)]; }
   for(int j = 0; j < NC; ++j) { SVectorBase<double>& v = lp.colVector_w(j); for(int p = 0; p < v.size(); ++p) v.value(p) = d.a[v.index(p)][j]; }
}
// element (i,j) of the LP as seen through the row copy / the column copy
static inline double rowcoef(const SPxLPBase<double>& lp, int i, int j) { return lp.rowVector(i)[j]; }
static inline double colcoef(const SPxLPBase<double>& lp, int i, int j) { return lp.colVector(j)[i]; }
static inline bool same_bits(double a, double b) { return std::memcmp(&a, &b, sizeof a) == 0; }
}
