// C06 / C09: adding a column / a row to a PERSISTENTLY SCALED LP.
//   SPxLPBase<double>::addCol(const LPColBase<double>&, scale=true)            -> doAddCol(col, true)
//   SPxLPBase<double>::addCol(obj, lower, colVec, upper, scale=true)           -> doAddCol(obj, lower, vec, upper, true)
//   SPxLPBase<double>::addRow(const LPRowBase<double>&, scale=true)            -> doAddRow(row, true)
//   SPxLPBase<double>::addRow(lhs, rowVec, rhs, scale=true)                    -> doAddRow(lhs, vec, rhs, true)
// Kernel style on a real SPxLPBase<double> (harness/lp_build.h) that has been scaled by SPxScaler::applyScaling with
// arbitrary row/column exponents. The new column/row is given in UNSCALED terms (that is the contract of scale=true); the
// code chooses its exponent itself (computeScaleExp) and stores scaled data. Asserted: the UNSCALED VIEW of the enlarged LP
// (lowerUnscaled/upperUnscaled/objUnscaled, lhsUnscaled/rhsUnscaled, getColVectorUnscaled/getRowVectorUnscaled of the new
// column/row, getCoefUnscaled, and the row copy unscaled by the harness with the exponents found in the LP) shows exactly the data passed in for the new column/row, bit for bit,
// exactly the old data everywhere else, and both matrix copies hold identical numbers. The value of the new exponent is
// NOT asserted, only that it is applied consistently.
// Reference = dense copy `d` of the LP taken before scaling + the arguments of the call.
//
// Abstraction (solver build only): SVectorBase<double>::operator=(const SVectorBase&), ::add(n, idx[], val[]) and
// ::add(i, val) skip entries whose value is 0.0; on symbolic values that branch makes vector SIZES symbolic. They are replaced
// by models that copy every entry and ASSERT that the entry is nonzero (assertions 90/91/92), which is the real behaviour
// under that condition; the native replay runs the real functions.
#include "lp_build.h"
using namespace soplex; using namespace vph;
#ifdef VNR
#define NR VNR
#define NC VNC
#else
#define NR 2
#define NC 2
#endif
#ifndef MASK
#define MASK 0xF          // pattern of the existing NR x NC matrix
#endif
#ifndef CMASK
#define CMASK 0x3         // rows in which the new column has a nonzero (bit i)
#endif
#ifndef RMASK
#define RMASK 0x3         // columns in which the new row has a nonzero (bit j)
#endif
#ifndef EMAX
#define EMAX 30
#endif
#ifndef KEXP
#define KEXP 10
#endif
#define HAS(i, j) ((MASK >> ((i) * NC + (j))) & 1u)

extern "C" {
   SVectorBase<double>& m_sv_assign(SVectorBase<double>* self, const SVectorBase<double>& sv)
   {
      if(self != &sv)
      {
         int n = sv.size();
         for(int i = 0; i < n; ++i)
         {
            vp_assert(sv.m_elem[i].val != 0.0, 90);           // condition under which the model is the real function
            self->m_elem[i] = sv.m_elem[i];
         }
         self->set_size(n);
      }
      return *self;
   }
   void m_sv_add1(SVectorBase<double>* self, int i, const double& v)
   {
      vp_assert(v != 0.0, 92);
      int n = self->size();
      self->m_elem[n].idx = i;
      self->m_elem[n].val = v;
      self->set_size(n + 1);
   }
   void m_sv_addn(SVectorBase<double>* self, int n, const int idx[], const double val[])
   {
      if(n <= 0) return;
      int sz = self->size();
      for(int k = 0; k < n; ++k)
      {
         vp_assert(val[k] != 0.0, 91);
         self->m_elem[sz + k].idx = idx[k];
         self->m_elem[sz + k].val = val[k];
      }
      self->set_size(sz + n);
   }
}

static void scaled_lp(LP& lp, Dense<NR, NC>& d, Sc& sc)
{
   int mn = vp_int_in(0, 1);
   lp.changeSense(mn ? SPxLPBase<double>::MINIMIZE : SPxLPBase<double>::MAXIMIZE);
   {  // room for one more column and row in the dense arrays (no re-allocation inside the add under test; see lp_build.h)
      LPColSetBase<double>& cs = lp; cs.low.reDim(NC + 1); cs.up.reDim(NC + 1); cs.object.reDim(NC + 1); cs.scaleExp.reSize(NC + 1);
      LPRowSetBase<double>& rs = lp; rs.left.reDim(NR + 1); rs.right.reDim(NR + 1); rs.object.reDim(NR + 1); rs.scaleExp.reSize(NR + 1);
      cs.low.reDim(0); cs.up.reDim(0); cs.object.reDim(0); cs.scaleExp.reSize(0);
      rs.left.reDim(0); rs.right.reDim(0); rs.object.reDim(0); rs.scaleExp.reSize(0);
   }
   build<NR, NC>(lp, d, MASK, 7);
   std::shared_ptr<Tolerances> tol = std::make_shared<Tolerances>();
   sc.setTolerances(tol);
   lp.setTolerances(tol);
   sc.setup(lp);                                   // sizes + zeroes the exponent arrays, lp.lp_scaler = &sc
   for(int j = 0; j < NC; ++j) { int e = vp_int_in(-EMAX, EMAX); lp.cexp()[j] = e; }
   for(int i = 0; i < NR; ++i) { int e = vp_int_in(-EMAX, EMAX); lp.rexp()[i] = e; }
   sc.applyScaling(lp);
}
// m*2^k, m in -7..7, k in -KEXP..KEXP
static double fin_val(bool nonzero)
{
   int m = vp_int_in(-7, 7);
   int k = vp_int_in(-KEXP, KEXP);
   if(nonzero) vp_assume(m != 0);
   return ldexp((double)m, k);
}
static double val_or_inf(bool upper)
{
   int inf = vp_int_in(0, 1);
   double v = fin_val(false);
   return inf ? (upper ? (double)infinity : -(double)infinity) : v;
}
// sparse vector with the concrete pattern `mask` over n positions; values symbolic nonzero, also stored in dense[]
static void sym_vector(DSVectorBase<double>& v, unsigned mask, int n, double* dense)
{
   for(int i = 0; i < n; ++i)
   {
      dense[i] = 0.0;
      if((mask >> i) & 1u) v.add(i, 1.0);                      // concrete placeholder: structure stays concrete
   }
   for(int p = 0; p < v.size(); ++p)
   {
      double x = fin_val(true);
      v.value(p) = x;
      dense[v.index(p)] = x;
   }
}
// the matrix entry (i,j) of the unscaled view, through the column copy (real getter) and through the row copy (exponents read
// from the LP, applied by the harness) must both be `want`; the two copies hold the same scaled number
static void check_entry(const LP& lp, const Sc& sc, int i, int j, double want)
{
   LP& w = const_cast<LP&>(lp);
   vp_assert(same_bits(rowcoef(lp, i, j), colcoef(lp, i, j)), 27);
   vp_assert(sc.getCoefUnscaled(lp, i, j) == want, 26);
   vp_assert(ldexp(rowcoef(lp, i, j), -w.rexp()[i] - w.cexp()[j]) == want, 28);
}
// the sparse vector `got` (from getColVectorUnscaled / getRowVectorUnscaled) has exactly the pattern `mask`, indices ascending,
// and the values dense[] bit for bit
static void check_vector(const DSVectorBase<double>& got, unsigned mask, int n, const double* dense)
{
   int k = 0;
   for(int i = 0; i < n; ++i) if((mask >> i) & 1u)
      {
         vp_assert(k < got.size() && got.index(k) == i && same_bits(got.value(k), dense[i]), 31);
         ++k;
      }
   vp_assert(got.size() == k, 32);
}
static void check_col(const LP& lp, int j, double lo, double up, double obj)
{
   vp_assert(same_bits(lp.lowerUnscaled(j), lo), 21);
   vp_assert(same_bits(lp.upperUnscaled(j), up), 22);
   vp_assert(lp.objUnscaled(j) == obj, 23);
}
static void check_row(const LP& lp, int i, double lhs, double rhs)
{
   vp_assert(same_bits(lp.lhsUnscaled(i), lhs), 24);
   vp_assert(same_bits(lp.rhsUnscaled(i), rhs), 25);
}

template <int FORM> static void add_col()
{
   LP lp; Dense<NR, NC> d; Sc sc;
   scaled_lp(lp, d, sc);
   int ce[NC], re[NR];
   for(int j = 0; j < NC; ++j) ce[j] = lp.cexp()[j];
   for(int i = 0; i < NR; ++i) re[i] = lp.rexp()[i];
   // the new column, in unscaled terms
   double cv[NR];
   DSVectorBase<double> vec(NR);
   sym_vector(vec, CMASK, NR, cv);
   double lo = val_or_inf(false);
   double up = val_or_inf(true);
   double obj = fin_val(false);
   vp_assume(lo <= up);
   if(FORM == 0) lp.addCol(LPColBase<double>(obj, vec, up, lo), true);
   else lp.addCol(obj, lo, vec, up, true);
   vp_assert(lp.nCols() == NC + 1 && lp.nRows() == NR && lp.isScaled(), 1);
   int nnz = 0;
   for(int i = 0; i < NR; ++i) if((CMASK >> i) & 1u) ++nnz;
   vp_assert(lp.colVector(NC).size() == nnz, 2);
   // existing exponents untouched
   for(int j = 0; j < NC; ++j) vp_assert(lp.cexp()[j] == ce[j], 3);
   for(int i = 0; i < NR; ++i) vp_assert(lp.rexp()[i] == re[i], 4);
   // new column: exactly what was passed in
   check_col(lp, NC, lo, up, obj);
   for(int i = 0; i < NR; ++i) check_entry(lp, sc, i, NC, cv[i]);
   {
      DSVectorBase<double> got(NR);
      lp.getColVectorUnscaled(NC, got);
      check_vector(got, CMASK, NR, cv);
   }
   // everything else unchanged
   for(int j = 0; j < NC; ++j) check_col(lp, j, d.lo[j], d.up[j], d.obj[j]);
   for(int i = 0; i < NR; ++i)
   {
      check_row(lp, i, d.lhs[i], d.rhs[i]);
      for(int j = 0; j < NC; ++j) check_entry(lp, sc, i, j, d.a[i][j]);
      int cnt = ((CMASK >> i) & 1u) ? 1 : 0;
      for(int j = 0; j < NC; ++j) if(HAS(i, j)) ++cnt;
      vp_assert(lp.rowVector(i).size() == cnt, 5);
   }
   vp_cover(1);
}
template <int FORM> static void add_row()
{
   LP lp; Dense<NR, NC> d; Sc sc;
   scaled_lp(lp, d, sc);
   int ce[NC], re[NR];
   for(int j = 0; j < NC; ++j) ce[j] = lp.cexp()[j];
   for(int i = 0; i < NR; ++i) re[i] = lp.rexp()[i];
   double rv[NC];
   DSVectorBase<double> vec(NC);
   sym_vector(vec, RMASK, NC, rv);
   double lhs = val_or_inf(false);
   double rhs = val_or_inf(true);
   vp_assume(lhs <= rhs);
   if(FORM == 0) lp.addRow(LPRowBase<double>(lhs, vec, rhs), true);
   else lp.addRow(lhs, vec, rhs, true);
   vp_assert(lp.nRows() == NR + 1 && lp.nCols() == NC && lp.isScaled(), 1);
   int nnz = 0;
   for(int j = 0; j < NC; ++j) if((RMASK >> j) & 1u) ++nnz;
   vp_assert(lp.rowVector(NR).size() == nnz, 2);
   for(int j = 0; j < NC; ++j) vp_assert(lp.cexp()[j] == ce[j], 3);
   for(int i = 0; i < NR; ++i) vp_assert(lp.rexp()[i] == re[i], 4);
   check_row(lp, NR, lhs, rhs);
   for(int j = 0; j < NC; ++j) check_entry(lp, sc, NR, j, rv[j]);
   {
      DSVectorBase<double> got(NC);
      lp.getRowVectorUnscaled(NR, got);
      check_vector(got, RMASK, NC, rv);
   }
   for(int i = 0; i < NR; ++i)
   {
      check_row(lp, i, d.lhs[i], d.rhs[i]);
      for(int j = 0; j < NC; ++j) check_entry(lp, sc, i, j, d.a[i][j]);
   }
   for(int j = 0; j < NC; ++j)
   {
      check_col(lp, j, d.lo[j], d.up[j], d.obj[j]);
      int cnt = ((RMASK >> j) & 1u) ? 1 : 0;
      for(int i = 0; i < NR; ++i) if(HAS(i, j)) ++cnt;
      vp_assert(lp.colVector(j).size() == cnt, 5);
   }
   vp_cover(1);
}
extern "C" void h_c06_addcol_scaled() { add_col<0>(); }
extern "C" void h_c06_addcol_scaled_parts() { add_col<1>(); }
extern "C" void h_c06_addrow_scaled() { add_row<0>(); }
extern "C" void h_c06_addrow_scaled_parts() { add_row<1>(); }
