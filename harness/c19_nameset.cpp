// C19-O5 / C13-O4 / C17-O1: NameSet (src/soplex/nameset.h, nameset.cpp) against a reference list of strings.
// The NameSet is built by its real constructor with NMAX entries / MEMMAX bytes, large enough that neither reMax() nor
// memRemax() (nor, unless it is the function under test, memPack()), nor the rehash inside DataHashTable::add is needed:
// these functions are replaced (ll2c "replace") by models that assert "not reached" (ids 99/98), so the solver PROVES that
// no relocation happens within the bounds instead of assuming it.
// Names: NUL-terminated strings of length 0..MAXL drawn with repetition from a concrete pool (see below), duplicates and the
// empty string included.
// Copy construction / assignment of NameSet are declared private and not defined ("Blocked"): nothing to check.
//
// nameset.cpp is included here (not via repo_srcs) because NameSet::add/memPack copy the text with spxSnprintf(), a varargs
// function (vsnprintf) that the IR->C translator cannot encode; in the solver build it is replaced by a 4-argument model of
// snprintf(t, len, "%s", s). The native build (replay / validation) uses the real spxSnprintf.
#include <string.h>
#include <vector>
#include <algorithm>
#include <iostream>
#include <iterator>
#include "soplex/spxdefines.h"
#include "soplex/spxalloc.h"
#include "soplex/array.h"
#include "soplex/dataarray.h"
#include "vp.h"
#ifndef VP_NATIVE
static inline int vp_snprintf_s(char* t, size_t len, const char* fmt, const char* s)
{
   (void)fmt;                                   // only "%s" is used by nameset.cpp
   size_t i = 0;
   while(i + 1 < len && s[i] != '\0') { t[i] = s[i]; ++i; }
   t[i] = '\0';
   return (int)i;
}
#define spxSnprintf vp_snprintf_s
// NameSet::memPack copies the packed block back with memcpy(mem, newmem, newlast), newlast symbolic: the solver's built-in
// memcpy with a symbolic length exhausts memory, a byte loop (bounded by MEMMAX) does not.
static inline void* vp_memcpy_loop(void* d, const void* s, size_t n)
{
   char* dd = (char*)d; const char* ss = (const char*)s;
   for(size_t i = 0; i < n; ++i) dd[i] = ss[i];
   return d;
}
#endif
#define private public
#define protected public
#include "soplex/dataset.h"
#include "soplex/datahashtable.h"
#include "soplex/nameset.h"
#undef private
#undef protected
#ifndef VP_NATIVE
#define memcpy vp_memcpy_loop
#endif
#include "soplex/nameset.cpp"
#ifndef VP_NATIVE
#undef memcpy
#endif
using namespace soplex;

#ifndef NMAX
#define NMAX 6        // NameSet max(): hash table slots; up to 4 names stay below the fill factor 0.7
#endif
#ifndef MEMMAX
#define MEMMAX 64     // bytes of string memory
#endif
#ifndef MAXL
#define MAXL 4        // maximal name length
#endif
#ifndef CAP
#define CAP 4         // maximal number of names ever added in one obligation
#endif
#ifndef HIST
#define HIST 4
#endif
#ifndef NB
#define NB 3          // names in the pre-built set of the single-operation obligations
#endif

// Models for the ll2c "replace" directive: within the stated bounds the relocating functions must not be reached at all; the
// model turns "not reached" into a checked property (id 99) instead of an assumption. NameSet::reMax is never encoded
// (DataSet::reMax subtracts pointers of different allocations, which the solver's memory model rejects); memRemax/memPack
// are replaced in c19_nameset.json; in c19_nameset_mem.json memPack is real (memRemax stays a checked "not reached").
extern "C" void m_ns_remax(NameSet* self, int newmax) { (void)self; (void)newmax; vp_assert(0, 99); }
extern "C" void m_ns_memremax(NameSet* self, int newmax) { (void)self; (void)newmax; vp_assert(0, 99); }
extern "C" void m_ns_mempack(NameSet* self) { (void)self; vp_assert(0, 99); }
// the automatic rehash inside DataHashTable::add (fill factor 0.7 of NMAX slots) must not be needed either
extern "C" void m_ht_remax(DataHashTable<NameSet::Name, DataKey>* self, int newSize, int newHashSize) { (void)self; (void)newSize; (void)newHashSize; vp_assert(0, 98); }

// std::allocator<Elem>::allocate for the hash table slots: operator new gives the solver an untyped byte array, and slots that
// contain pointers (Name::name) then cost a byte-wise pointer reconstruction per access. The model allocates the same memory
// as a typed array. (Library model, solver build only.)
typedef DataHashTable<NameSet::Name, DataKey>::Elem NEL;
extern "C" NEL* m_alloc_elems(std::__new_allocator<NEL>* self, unsigned long n, const void* hint)
{
   (void)self; (void)hint;
   return (NEL*)malloc(n * sizeof(NEL));
}

struct Str { char c[MAXL + 1]; };
// Names are drawn (with repetition) from a pool of concrete strings. Fully symbolic bytes are out of reach: relating the
// hash of a looked-up string to the hash of its stored copy means proving two 32-bit remainder circuits equal, on which the
// SAT solver does not terminate (measured: one name, no verdict in 15 min). The pool is chosen to stress the table instead:
// with the real hash function and NMAX = 6 slots, five names share home slot 1 ("", "b", "aa", "abc", "aaaa"), two share
// slot 4 ("e", "\xff"), "a" lives in slot 0, which lies on the probe path of slot 1 (increment 1523 % 6 = 5: 1,0,5,4,3,2).
// It contains the empty string, proper prefixes of other names and a byte >= 0x80 (the hash sign-extends chars).
#if MAXL >= 6
#define NPOOL 12
static const char* const pool[NPOOL] = { "", "b", "aa", "a", "abc", "aaaa", "e", "\xff", "abcdef", "zzzz", "a\x80", "abcde" };
#else
#define NPOOL 8
static const char* const pool[NPOOL] = { "", "b", "aa", "a", "abc", "aaaa", "e", "\xff" };
#endif
#ifndef HPOOL
#define HPOOL 4       // the multi-step obligations (history, self-composition) draw from the first HPOOL pool entries only:
#endif                // "", "b", "aa" share home slot 1 and "a" (slot 0) is the next slot on their probe path
static void draw(Str& s, int npool = NPOOL)
{
   int which = vp_int_in(0, npool - 1);
   for(int j = 0; j <= MAXL; ++j) s.c[j] = '\0';
   for(int i = 0; i < NPOOL; ++i) if(i == which) { for(int j = 0; j <= MAXL && pool[i][j] != '\0'; ++j) s.c[j] = pool[i][j]; }
}
static bool eq(const Str& a, const Str& b)
{
   for(int i = 0; i <= MAXL; ++i) if(a.c[i] != b.c[i]) return false;
   return true;
}
// compares the C string p (inside the NameSet) with s, byte by byte incl. the terminator
static bool same(const char* p, const Str& s)
{
   for(int i = 0; i <= MAXL; ++i)
   {
      if(p[i] != s.c[i]) return false;
      if(s.c[i] == '\0') return true;
   }
   return true;
}
static int slen(const Str& s) { int n = 0; while(n < MAXL && s.c[n] != '\0') ++n; return n; }

// reference model: the names in number order with the key handed out on insertion.
// All accesses use concrete indices (select/store loops), so that the solver sees plain scalars.
struct Ref { int n; Str name[CAP]; int kidx[CAP]; };
static int find(const Ref& r, const Str& s)
{
   for(int i = 0; i < CAP; ++i) if(i < r.n && eq(r.name[i], s)) return i;
   return -1;
}
static void ref_get(const Ref& r, int pos, Str& s, int& k)
{
   for(int j = 0; j <= MAXL; ++j) s.c[j] = '\0';
   k = -1;
   for(int i = 0; i < CAP; ++i) if(i == pos) { for(int j = 0; j <= MAXL; ++j) s.c[j] = r.name[i].c[j]; k = r.kidx[i]; }
}
static void ref_put(Ref& r, int pos, const Str& s, int k)
{
   for(int i = 0; i < CAP; ++i) if(i == pos) { for(int j = 0; j <= MAXL; ++j) r.name[i].c[j] = s.c[j]; r.kidx[i] = k; }
}
static void ref_append(Ref& r, const Str& s, int k) { ref_put(r, r.n, s, k); ++r.n; }
static void ref_remove(Ref& r, int i)   // DataSet (documented): the last element moves into the hole
{
   Str last; int k;
   ref_get(r, r.n - 1, last, k);
   ref_put(r, i, last, k);
   --r.n;
}
// add through the real NameSet::add(key, str) and through the model; returns whether the name was new
// (assert ids are literals: the solver build takes them from the call site)
static bool add_both(NameSet& ns, Ref& r, const Str& s)
{
   int at = find(r, s);
   DataKey k;
   int num0 = ns.num();
   ns.add(k, s.c);
   if(at >= 0)
   {
      vp_assert(ns.num() == num0, 41);                                  // nameset.cpp: a name that is present is not added again
      return false;
   }
   vp_assert(ns.num() == num0 + 1, 42);
   vp_assert(k.isValid() && ns.has(k) && ns.number(k) == num0, 43);   // fresh key, number num()-1
   for(int i = 0; i < CAP; ++i) if(i < r.n) vp_assert(r.kidx[i] != k.idx, 44);
   ref_append(r, s, k.idx);
   return true;
}
// queries by number and by key on all registered names (no hashing involved: cheap)
static void check_all(const NameSet& ns, const Ref& r)
{
   vp_assert(ns.num() == r.n, 51);
   vp_assert(ns.max() == NMAX && ns.memMax() == MEMMAX, 52);           // no relocation happened
   vp_assert(!ns.has(r.n) && !ns.has(-1), 53);
   for(int i = 0; i < CAP; ++i) if(i < r.n)
   {
      DataKey k = ns.key(i);
      vp_assert(ns.has(i) && k.idx == r.kidx[i] && ns.has(k) && ns.number(k) == i, 54);
      vp_assert(same(ns[i], r.name[i]) && same(ns[k], r.name[i]), 55);
   }
}
// queries by name for an ARBITRARY string q (it may or may not be one of the registered names, so this covers "every
// registered name is found under its number" as well as "absent/removed names are not found")
static void check_probe(const NameSet& ns, const Ref& r, const Str& q, bool full = true)
{
   int at = find(r, q);
   vp_assert(ns.number(q.c) == at, 61);                             // -1 for absent names (number() itself calls has())
   if(full)
   {
      DataKey k = ns.key(q.c);
      int kx = -1;
      for(int i = 0; i < CAP; ++i) if(i == at) kx = r.kidx[i];
      vp_assert(k.idx == kx, 62);                                   // documented: invalid DataKey() (idx -1) for absent names
   }
}
static void build(NameSet& ns, Ref& r, int nb)
{
   r.n = 0;
   for(int i = 0; i < nb; ++i) { Str s; draw(s); add_both(ns, r, s); }
}

// ---- bounded history from the constructor -------------------------------------------------------------------------------
// HIST symbolic operations add(key,name) / remove(name) / remove(num) (remove(key) and add(name) are one-line wrappers of these,
// exercised by the single-operation obligations). Absent names / duplicate adds make an operation a no-op, so histories shorter
// than HIST are included and the final check covers every intermediate state of a shorter history.
extern "C" void h_ns_history()
{
   NameSet ns(NMAX, MEMMAX);
   Ref r; r.n = 0;
   for(int step = 0; step < HIST; ++step)
   {
      int op = vp_int_in(0, 2);
      Str s; draw(s, HPOOL);
      if(op == 0) add_both(ns, r, s);
      else if(op == 1)
      {  // remove(str): absent names are ignored
         int at = find(r, s);
         ns.remove(s.c);
         if(at >= 0) ref_remove(r, at);
      }
      else if(r.n > 0)
      {
         int i = vp_int_in(0, CAP - 1); vp_assume(i < r.n);
         ns.remove(i);
         ref_remove(r, i);
      }
      vp_assert(ns.num() == r.n, 5);
   }
   check_all(ns, r);
   Str q; draw(q, HPOOL);
   check_probe(ns, r, q, false);
   vp_cover(1);
}

// ---- single operations on a set of up to NB symbolic names ---------------------------------------------------------------
extern "C" void h_ns_lookup()
{
   NameSet ns(NMAX, MEMMAX); Ref r; build(ns, r, NB);
   check_all(ns, r);
   Str q; draw(q);
   check_probe(ns, r, q);
   vp_assert(ns.has(q.c) == (find(r, q) >= 0), 30);
   vp_cover(1);
}
extern "C" void h_ns_remove_name()
{
   NameSet ns(NMAX, MEMMAX); Ref r; build(ns, r, NB);
   Str q; draw(q);
   int at = find(r, q);
   ns.remove(q.c);
   if(at >= 0) ref_remove(r, at);
   check_all(ns, r);
   Str p; draw(p);
   check_probe(ns, r, p, false);             // arbitrary name: the removed one is gone, all others are still found
   vp_cover(1);
}
// a removed name can be registered again: it gets a fresh key and the last number
extern "C" void h_ns_readd()
{
   NameSet ns(NMAX, MEMMAX); Ref r; build(ns, r, NB);
   Str q; draw(q);
   vp_assume(find(r, q) >= 0);
   ns.remove(q.c);
   ref_remove(r, find(r, q));
   add_both(ns, r, q);
   check_all(ns, r);
   vp_assert(ns.number(q.c) == r.n - 1, 60);
   vp_cover(1);
}
// the list removals; afterwards (arbitrary string p): found iff it is a survivor, under a number j that holds its text and its
// original key; numbers are dense; removed keys are invalid
static void check_survivors(const NameSet& ns, const Ref& r0, const int* del, const Str& p)
{
   int left = 0;
   for(int i = 0; i < CAP; ++i) if(i < r0.n && !del[i]) ++left;
   vp_assert(ns.num() == left, 71);
   int at = find(r0, p);
   int gone = 1; int kx = -1;
   for(int i = 0; i < CAP; ++i) if(i == at) { gone = del[i]; kx = r0.kidx[i]; }
   int j = ns.number(p.c);
   if(at < 0 || gone) vp_assert(j == -1, 72);
   else
   {
      vp_assert(0 <= j && j < left, 73);
      vp_assert(ns.key(j).idx == kx && same(ns[j], p), 74);
   }
   for(int i = 0; i < CAP; ++i) if(i < r0.n)
   {
      DataKey k; k.idx = r0.kidx[i]; k.info = 0;
      if(del[i]) vp_assert(!ns.has(k), 75);
      else
      {
         vp_assert(ns.has(k), 76);
         int jj = ns.number(k);
         vp_assert(0 <= jj && jj < left && ns.key(jj).idx == k.idx && same(ns[jj], r0.name[i]) && same(ns[k], r0.name[i]), 77);
      }
   }
}
extern "C" void h_ns_remove_dstat()
{
   NameSet ns(NMAX, MEMMAX); Ref r; build(ns, r, NB);
   int dstat[CAP]; int del[CAP];
   for(int i = 0; i < CAP; ++i) { del[i] = vp_int_in(0, 1); dstat[i] = del[i] ? -1 : vp_int_in(0, 1000); }
   ns.remove(dstat);
   Str p; draw(p);
   check_survivors(ns, r, del, p);
   // DataSet::remove(perm) (documented): perm[i] is the new number of survivor i, order preserved
   int prev = -1;
   for(int i = 0; i < CAP; ++i) if(i < r.n)
   {
      DataKey k; k.idx = r.kidx[i]; k.info = 0;
      if(del[i]) vp_assert(dstat[i] < 0, 10);
      else { vp_assert(dstat[i] > prev && dstat[i] == ns.number(k), 11); prev = dstat[i]; }
   }
   vp_cover(1);
}
extern "C" void h_ns_remove_nums()
{
   NameSet ns(NMAX, MEMMAX); Ref r; build(ns, r, NB);
   int nums[2]; int del[CAP];
   int n = vp_int_in(0, 2);
   nums[0] = vp_int_in(0, CAP - 1); nums[1] = vp_int_in(0, CAP - 1);
   vp_assume(n < 1 || nums[0] < r.n); vp_assume(n < 2 || (nums[1] < r.n && nums[1] != nums[0]));
   for(int i = 0; i < CAP; ++i) del[i] = (n >= 1 && nums[0] == i) || (n >= 2 && nums[1] == i);
   ns.remove(nums, n);
   Str p; draw(p);
   check_survivors(ns, r, del, p);
   vp_cover(1);
}
extern "C" void h_ns_remove_keys()
{
   NameSet ns(NMAX, MEMMAX); Ref r; build(ns, r, NB);
   int nums[2]; int del[CAP]; DataKey keys[2];
   int n = vp_int_in(0, 2);
   nums[0] = vp_int_in(0, CAP - 1); nums[1] = vp_int_in(0, CAP - 1);
   vp_assume(n < 1 || nums[0] < r.n); vp_assume(n < 2 || (nums[1] < r.n && nums[1] != nums[0]));
   for(int i = 0; i < CAP; ++i) del[i] = (n >= 1 && nums[0] == i) || (n >= 2 && nums[1] == i);
   for(int j = 0; j < 2; ++j)
   {
      Str t; int kx; ref_get(r, nums[j], t, kx);
      keys[j].idx = (j < n) ? kx : -1; keys[j].info = 0;
   }
   ns.remove(keys, n);
   Str p; draw(p);
   check_survivors(ns, r, del, p);
   vp_cover(1);
}
extern "C" void h_ns_clear()
{
   NameSet ns(NMAX, MEMMAX); Ref r; build(ns, r, NB);
   ns.clear();
   vp_assert(ns.num() == 0 && ns.memSize() == 0 && ns.size() == 0, 1);
   r.n = 0;
   Str p; draw(p);
   check_probe(ns, r, p);        // nothing is found any more
   Str q; draw(q);
   ns.add(q.c);                      // usable again (add without key): first name gets number 0 and a valid key
   vp_assert(ns.num() == 1 && ns.key(0).isValid(), 40);
   ref_append(r, q, ns.key(0).idx);
   check_all(ns, r);
   check_probe(ns, r, p, false);
   vp_cover(1);
}
// memPack(): garbage collection of the string memory after a removal keeps all names, keys and numbers
extern "C" void h_ns_mempack()
{
   NameSet ns(NMAX, MEMMAX); Ref r; build(ns, r, NB);
   int bytes0 = ns.memSize();
   if(r.n > 0)
   {
      int i = vp_int_in(0, CAP - 1); vp_assume(i < r.n);
      ns.remove(i); ref_remove(r, i);
   }
   vp_assert(ns.memSize() == bytes0, 1);          // removal leaves a hole
   ns.memPack();
   int need = 0;
   for(int i = 0; i < CAP; ++i) if(i < r.n) need += slen(r.name[i]) + 1;
   vp_assert(ns.memSize() == need, 2);            // exactly the bytes of the remaining names
   check_all(ns, r);
   Str q; draw(q);
   check_probe(ns, r, q);
   add_both(ns, r, q);
   check_all(ns, r);
   vp_cover(1);
}
// add() running out of string memory: with MEMSMALL = 11 bytes two names always fit, a third one fits only after the hole left
// by a removed name has been garbage collected: add() calls memPack() itself (witness 2), and never needs memRemax().
#ifndef MEMSMALL
#define MEMSMALL 11
#endif
extern "C" void h_ns_add_packs()
{
   NameSet ns(NMAX, MEMSMALL);
   Ref r; r.n = 0;
   for(int i = 0; i < 2; ++i)
   {
      Str s; draw(s);
      int at = find(r, s);
      DataKey k;
      ns.add(k, s.c);
      if(at < 0) ref_append(r, s, k.idx);
   }
   ns.remove(0); ref_remove(r, 0);               // leaves a hole at the start of the string memory
   int used0 = ns.memSize();
   Str s; draw(s);
   int at = find(r, s);
   DataKey k;
   ns.add(k, s.c);
   if(at < 0) ref_append(r, s, k.idx);
   vp_assert(ns.num() == r.n && ns.memSize() <= ns.memMax() && ns.memMax() == MEMSMALL && ns.max() == NMAX, 1);
   for(int j = 0; j < CAP; ++j) if(j < r.n) vp_assert(same(ns[j], r.name[j]) && ns.key(j).idx == r.kidx[j], 2);
   Str q; draw(q);
   vp_assert(ns.number(q.c) == find(r, q), 4);
   if(at < 0 && ns.memSize() < used0 + slen(s) + 1) vp_cover(2);   // the add did garbage-collect
   vp_cover(1);
}
// add(const NameSet&) / add(DataKey[], const NameSet&): union; names already present are skipped
#ifndef NB2
#define NB2 2      // names in the source set
#endif
#ifndef NB1
#define NB1 1      // names already in the destination set
#endif
extern "C" void h_ns_add_set()
{
   NameSet ns(NMAX, MEMMAX); Ref r; build(ns, r, NB1);
   NameSet other(NMAX, MEMMAX);
   Ref o; build(other, o, NB2);
   int withkeys = vp_int_in(0, 1);
   DataKey keys[NB2];
   int n0 = r.n;
   if(withkeys) ns.add(keys, other); else ns.add(other);
   for(int i = 0; i < NB2; ++i) if(i < o.n && find(r, o.name[i]) < 0)
   {
      int kx = ns.key(r.n).idx;
      if(withkeys) vp_assert(keys[i].idx == kx, 1);
      ref_append(r, o.name[i], kx);
   }
   for(int i = 0; i < CAP; ++i) if(i < n0) for(int j = 0; j < CAP; ++j) if(n0 <= j && j < r.n) vp_assert(r.kidx[i] != r.kidx[j], 2);
   check_all(ns, r);
   Str q; draw(q);
   check_probe(ns, r, q, false);
   vp_assert(other.num() == o.n, 3);             // the source set is unchanged
   for(int i = 0; i < NB2; ++i) if(i < o.n) vp_assert(same(other[i], o.name[i]) && other.key(i).idx == o.kidx[i], 4);
   vp_cover(1);
}

// ---- C17-O1 self-composition: the same operation sequence on two separately constructed NameSets gives equal answers ------
#ifndef HIST2
#define HIST2 2
#endif
extern "C" void h_ns_selfcomp()
{
   NameSet a(NMAX, MEMMAX);
   NameSet b(NMAX, MEMMAX);
   for(int step = 0; step < HIST2; ++step)
   {
      int op = vp_int_in(0, 2);
      Str s; draw(s, HPOOL);
      if(op == 0)
      {
         DataKey ka; DataKey kb;
         a.add(ka, s.c); b.add(kb, s.c);
         vp_assert(ka.idx == kb.idx && ka.info == kb.info, 1);
      }
      else if(op == 1) { a.remove(s.c); b.remove(s.c); }
      else
      {
         int i = vp_int_in(0, CAP - 1);
         if(a.has(i)) a.remove(i);
         if(b.has(i)) b.remove(i);
      }
      vp_assert(a.num() == b.num() && a.size() == b.size() && a.memSize() == b.memSize(), 2);
   }
   vp_assert(a.max() == b.max() && a.memMax() == b.memMax(), 2);
   Str q; draw(q, HPOOL);
   int na = a.number(q.c);
   int nb = b.number(q.c);
   vp_assert(na == nb, 3);
   for(int i = 0; i < CAP; ++i)
   {
      vp_assert(a.has(i) == b.has(i), 5);
      if(a.has(i) && b.has(i))
      {
         vp_assert(a.key(i).idx == b.key(i).idx && a.key(i).info == b.key(i).info, 6);
         vp_assert(strcmp(a[i], b[i]) == 0, 7);
      }
   }
   vp_cover(1);
}
