// C01-O2 / C02-O3 (store half): SoPlexBase<double>::_storeSolutionReal + _unscaleSolutionReal
// C01-O3: _verifySolutionReal      C16-O5: _verifyObjLimitReal
// Contract style. The REAL _storeSolutionReal/_unscaleSolutionReal/_verifySolutionReal/_verifyObjLimitReal run; the simplex
// solver's extraction functions, the violation getters and the re-solve are recording models (explicit specialisations, the same
// in the solver build and in the native replay build); scaler and simplifier are recording subclasses reached through the real
// virtual calls. `this` is typed zero memory (solver build) / a real SoPlex object with a real LP (native build).
#include "soplex_all.h"
using namespace soplex;
typedef SoPlex::Settings ST;
typedef SPxSolverBase<double> Solver;
typedef SPxSimplifier<double> Simp;
typedef SPxBasisBase<double> Basis;
typedef VectorBase<double> Vec;
typedef SPxLPBase<double> LP;

#define NC 3
#define NR 2
union SoPlexMem { SoPlex sp; SoPlexMem() {} ~SoPlexMem() {} };
static SoPlexMem mem;
union LPMem { LP lp; LPMem() {} ~LPMem() {} };
static LPMem lpmem;

// ---- call log ----
enum Kind { K_GETRAY = 1, K_GETFARKAS, K_GETPRIMAL, K_GETSLACKS, K_GETDUAL, K_GETREDCOST, K_GETBASIS,
            K_UPRIMAL, K_USLACKS, K_UDUAL, K_UREDCOST, K_URAY, K_UFARKAS,
            K_UNSIMPLIFY, K_SIMPBASIS, K_LOAD, K_SETBASIS, K_PREPROC, K_VBOUND, K_VROW, K_VDUAL, K_VREDCOST, K_UNSCALELP, K_TOGGLE
          };
struct KRec { int cnt; int firstSeq, lastSeq; const void* fa; const void* fb; const void* la; const void* lb; int farg, larg; };
#define K_MAX 25
static KRec g_k[K_MAX];                                                 // per kind: number of calls, position and arguments of the first and the last one
static int g_seq;
static void rec(int kind, const void* a = 0, const void* b = 0, int arg = 0)
{
   KRec& k = g_k[kind];
   if(k.cnt == 0) { k.firstSeq = g_seq; k.fa = a; k.fb = b; k.farg = arg; }
   k.lastSeq = g_seq; k.la = a; k.lb = b; k.larg = arg;
   ++k.cnt; ++g_seq;
}
static void reset_log() { for(int i = 0; i < K_MAX; ++i) { g_k[i].cnt = 0; g_k[i].firstSeq = -1; g_k[i].lastSeq = -1; g_k[i].fa = g_k[i].fb = g_k[i].la = g_k[i].lb = 0; g_k[i].farg = g_k[i].larg = 0; } g_seq = 0; }
static int count(int kind) { return g_k[kind].cnt; }
static int first(int kind) { return g_k[kind].firstSeq; }
static int last(int kind) { return g_k[kind].lastSeq; }
// ---- scripted environment ----
static int g_basis_status;
static double g_shift, g_obj;
static bool g_viol_ok[4];
static double g_viol[4];
static int g_resolves;
static void fill(Vec& v, int n, double base) { v.reDim(n, false); for(int i = 0; i < n; ++i) v[i] = base + i; }
static bool holds(const Vec& v, int n, double base) { if(v.dim() != n) return false; for(int i = 0; i < n; ++i) if(v[i] != base + i) return false; return true; }

namespace soplex
{
template <> Basis::SPxStatus Basis::status() const { return (Basis::SPxStatus)g_basis_status; }
template <> double Solver::shift() const { return g_shift; }
template <> double Solver::objValue() { return g_obj; }
template <> Solver::Status Solver::getPrimalray(Vec& v) const { rec(K_GETRAY, &v); fill(v, NC, 500); return Solver::UNBOUNDED; }
template <> Solver::Status Solver::getDualfarkas(Vec& v) const { rec(K_GETFARKAS, &v); fill(v, NR, 600); return Solver::INFEASIBLE; }
template <> Solver::Status Solver::getPrimalSol(Vec& v) const { rec(K_GETPRIMAL, &v); fill(v, NC, 100); return Solver::OPTIMAL; }
template <> Solver::Status Solver::getSlacks(Vec& v) const { rec(K_GETSLACKS, &v); fill(v, NR, 200); return Solver::OPTIMAL; }
template <> Solver::Status Solver::getDualSol(Vec& v) const { rec(K_GETDUAL, &v); fill(v, NR, 300); return Solver::OPTIMAL; }
template <> Solver::Status Solver::getRedCostSol(Vec& v) const { rec(K_GETREDCOST, &v); fill(v, NC, 400); return Solver::OPTIMAL; }
template <> Solver::Status Solver::getBasis(Solver::VarStatus r[], Solver::VarStatus c[], const int nr, const int nc) const { rec(K_GETBASIS); return Solver::OPTIMAL; }
template <> void Solver::setBasis(const Solver::VarStatus r[], const Solver::VarStatus c[]) { rec(K_SETBASIS); }
template <> void Solver::setBasisStatus(Basis::SPxStatus stat) {}
template <> void Solver::forceRecompNonbasicValue() {}
template <> void Solver::unscaleLPandReloadBasis() { rec(K_UNSCALELP); }
template <> void Solver::toggleTerminationValue(bool enable) { rec(K_TOGGLE, 0, 0, enable); }
template <> void SoPlex::_loadRealLP(bool initBasis) { rec(K_LOAD, 0, 0, initBasis); _isRealLPLoaded = true; _realLP = &_solver; }
template <> void SoPlex::_preprocessAndSolveReal(bool applySimplifier, volatile bool* interrupt) { rec(K_PREPROC, 0, 0, applySimplifier); ++g_resolves; }
static bool viol(int k, int kind, double& maxviol, double& sumviol)
{
   rec(kind);
   if(!g_viol_ok[k]) return false;
   maxviol = g_viol[k]; sumviol += g_viol[k];
   return true;
}
template <> bool SoPlex::getBoundViolation(double& m, double& s) { return viol(0, K_VBOUND, m, s); }
template <> bool SoPlex::getRowViolation(double& m, double& s) { return viol(1, K_VROW, m, s); }
template <> bool SoPlex::getDualViolation(double& m, double& s) { return viol(2, K_VDUAL, m, s); }
template <> bool SoPlex::getRedCostViolation(double& m, double& s) { return viol(3, K_VREDCOST, m, s); }
}

// scaler: records which unscale function got which LP and which vector
struct FakeScaler : public SPxScaler<double>
{
   FakeScaler() : SPxScaler<double>("fake") {}
   virtual SPxScaler<double>* clone() const { return 0; }
   virtual void scale(LP& lp, bool persistent) {}
   virtual void unscalePrimal(const LP& lp, Vec& x) const { rec(K_UPRIMAL, &lp, &x); }
   virtual void unscaleSlacks(const LP& lp, Vec& x) const { rec(K_USLACKS, &lp, &x); }
   virtual void unscaleDual(const LP& lp, Vec& x) const { rec(K_UDUAL, &lp, &x); }
   virtual void unscaleRedCost(const LP& lp, Vec& x) const { rec(K_UREDCOST, &lp, &x); }
   virtual void unscalePrimalray(const LP& lp, Vec& x) const { rec(K_URAY, &lp, &x); }
   virtual void unscaleDualray(const LP& lp, Vec& x) const { rec(K_UFARKAS, &lp, &x); }
};
// simplifier: records the vectors handed to unsimplify, offers its own unsimplified vectors
static bool g_unsimplify_throws;
struct FakeSimplifier : public Simp
{
   Vec up, us, ud, ur;
   const void* arg[4]; bool optimalFlag; int calls;
   FakeSimplifier() : Simp("fake"), calls(0) { fill(up, NC, 1100); fill(us, NR, 1200); fill(ud, NR, 1300); fill(ur, NC, 1400); }
   virtual Simp* clone() const { return 0; }
   virtual Result simplify(LP& lp, Real remainingTime, bool keepbounds, uint32_t seed) { return OKAY; }
   virtual void unsimplify(const Vec& x, const Vec& y, const Vec& s, const Vec& r, const Solver::VarStatus rows[], const Solver::VarStatus cols[], bool isOptimal)
   {
      rec(K_UNSIMPLIFY, &x, &y, isOptimal); arg[0] = &x; arg[1] = &y; arg[2] = &s; arg[3] = &r; optimalFlag = isOptimal; ++calls;
      if(g_unsimplify_throws) throw SPxInternalCodeException("fake unsimplify failure");
   }
   virtual Result result() const { return OKAY; }
   virtual bool isUnsimplified() const { return false; }
   virtual const Vec& unsimplifiedPrimal() { return up; }
   virtual const Vec& unsimplifiedDual() { return ud; }
   virtual const Vec& unsimplifiedSlacks() { return us; }
   virtual const Vec& unsimplifiedRedCost() { return ur; }
   virtual Solver::VarStatus getBasisRowStatus(int) const { return Solver::BASIC; }
   virtual Solver::VarStatus getBasisColStatus(int) const { return Solver::BASIC; }
   virtual void getBasis(Solver::VarStatus[], Solver::VarStatus[], const int, const int) const { rec(K_SIMPBASIS); }
};

struct Cfg { int status; bool loaded, solverScaled, lpScaled, hasScaler, hasSimp, verify; double feastol, opttol; };
static Tolerances* g_tol;
// SoPlex object with an NC x NR real LP, in the requested "after the simplex solve" state
static SoPlex* make(const Cfg& c, FakeScaler* sc, FakeSimplifier* sm)
{
#ifdef VP_NATIVE
   SoPlex* sp = new SoPlex();
   sp->setIntParam(SoPlex::VERBOSITY, 0);
   for(int j = 0; j < NC; ++j) sp->addColReal(LPCol(0.0, DSVector(), 1.0, 0.0));
   for(int i = 0; i < NR; ++i) sp->addRowReal(LPRow(0.0, DSVector(), 1.0));
   if(!c.loaded) { LP* copy = 0; spx_alloc(copy); sp->_realLP = new(copy) LP(sp->_solver); }
   sp->_solver.tolerances()->setFloatingPointFeastol(c.feastol);
   sp->_solver.tolerances()->setFloatingPointOpttol(c.opttol);
#else
   SoPlex* sp = &mem.sp;
   sp->_currentSettings = new ST();
   LP* slp = &sp->_solver;
   static_cast<LPColSetBase<double>*>(slp)->SVSetBase<double>::set.thenum = NC;
   static_cast<LPRowSetBase<double>*>(slp)->SVSetBase<double>::set.thenum = NR;
   static_cast<LPColSetBase<double>*>(&lpmem.lp)->SVSetBase<double>::set.thenum = NC;
   static_cast<LPRowSetBase<double>*>(&lpmem.lp)->SVSetBase<double>::set.thenum = NR;
   sp->_realLP = c.loaded ? slp : &lpmem.lp;
   g_tol = new Tolerances();
   g_tol->setFloatingPointFeastol(c.feastol);
   g_tol->setFloatingPointOpttol(c.opttol);
   *(Tolerances**)&sp->_solver._tolerances = g_tol;                    // shared_ptr without control block: {ptr, nullptr}
#endif
   sp->_status = (Solver::Status)c.status;
   sp->_isRealLPLoaded = c.loaded;
   sp->_isRealLPScaled = c.lpScaled;
   sp->_solver.setScalingInfo(c.solverScaled);
   sp->_scaler = c.hasScaler ? sc : 0;
   sp->_simplifier = c.hasSimp ? sm : 0;
   sp->_hasSolReal = false;
   sp->_hasBasis = false;
   sp->_hasSolRational = false;
   return sp;
}
static void draw_tols(Cfg& c)
{
   c.feastol = vp_nondet_double();
   vp_assume(c.feastol > 0.0 && c.feastol <= 1.0);
   c.opttol = vp_nondet_double();
   vp_assume(c.opttol > 0.0 && c.opttol <= 1.0);
}
static void draw_viols()
{
   for(int k = 0; k < 4; ++k)
   {
      g_viol_ok[k] = vp_nondet_bool();
      double v = vp_nondet_double();
      vp_assume(v >= 0.0);                                             // a violation: not NaN, not negative (may be +inf)
      g_viol[k] = v;
   }
}

// ------------------------------------------------------------------------------------------------------------
// The shape of the situation (is the original LP in the solver? is there a simplifier? does unsimplify fail?) decides which heap
// objects exist, so it is a compile-time variant; everything else is symbolic.
#ifndef ST_LOADED
#define ST_LOADED 1
#define ST_SIMP 0
#define ST_THROWS 0
#endif
extern "C" void h_c01_store()
{
   Cfg c;
   c.status = vp_int_in(-15, 5);
   c.loaded = ST_LOADED;
   c.solverScaled = vp_nondet_bool();
   c.lpScaled = vp_nondet_bool();
   c.hasScaler = vp_nondet_bool();
   c.hasSimp = ST_SIMP;
   c.verify = vp_nondet_bool();
   draw_tols(c);
   draw_viols();
   g_basis_status = vp_int_in(-4, 5);
   g_shift = vp_small(0, 2);
   g_obj = vp_small(-8, 8);
   g_unsimplify_throws = ST_THROWS;
   // invariants of the state after a simplex solve (the function's own assert()s and those of _preprocessAndSolveReal):
   vp_assume(!c.hasSimp || !c.loaded);                                 // a simplified LP is never the original one
   vp_assume(c.loaded || c.hasSimp || (c.hasScaler && c.solverScaled));      // a copy exists only because of simplifier or internal scaling
   vp_assume(!c.solverScaled || c.hasScaler);                          // scaled LPs come from a scaler
   vp_assume(!c.lpScaled || c.hasScaler);
   vp_assume(!c.loaded || c.lpScaled == c.solverScaled);               // loaded: the original LP *is* the solver's LP
   FakeScaler* sc = new FakeScaler();
   FakeSimplifier* sm = new FakeSimplifier();
   SoPlex* sp = make(c, sc, sm);
   const LP* solverLP = &sp->_solver;
   const LP* origLP = sp->_realLP;
   SolBase<double>& sol = sp->_solReal;
   reset_log(); g_resolves = 0;
   sp->_storeSolutionReal(c.verify);
   const bool threw = c.hasSimp && g_unsimplify_throws;

   // (A) C02-O3: proof flags and fetches
   const bool wantRay = c.status == Solver::UNBOUNDED && c.loaded;
   const bool wantFarkas = c.status == Solver::INFEASIBLE && c.loaded;
   vp_assert(sol._hasPrimalRay == wantRay && sol._hasDualFarkas == wantFarkas, 10);
   vp_assert(count(K_GETRAY) == (wantRay ? 1 : 0) && count(K_GETFARKAS) == (wantFarkas ? 1 : 0), 11);
   if(wantRay) vp_assert(g_k[K_GETRAY].fa == &sol._primalRay && holds(sol._primalRay, NC, 500), 12);
   if(wantFarkas) vp_assert(g_k[K_GETFARKAS].fa == &sol._dualFarkas && holds(sol._dualFarkas, NR, 600), 13);
   vp_assert(sp->_hasSolReal, 14);                                      // a solution (possibly infeasible) is always stored
   vp_assert(sp->hasPrimalRay() == wantRay && sp->hasDualFarkas() == wantFarkas, 15);

   // (B) each solution vector is fetched once into its own slot
   vp_assert(count(K_GETPRIMAL) == 1 && count(K_GETSLACKS) == 1 && count(K_GETDUAL) == 1 && count(K_GETREDCOST) == 1 && count(K_GETBASIS) == 1, 20);
   vp_assert(g_k[K_GETPRIMAL].fa == &sol._primal && g_k[K_GETSLACKS].fa == &sol._slacks && g_k[K_GETDUAL].fa == &sol._dual && g_k[K_GETREDCOST].fa == &sol._redCost, 21);
   vp_assert(sol._objVal == g_obj, 22);

   // (C) C01-O2: unscaling: one pass per active scaling layer, each vector through its own function, with the LP that carries the scaling
   const bool layer1 = c.solverScaled && !c.loaded;                    // internal scaling of the solver's copy
   const bool layer2 = c.lpScaled && !threw;                           // persistent scaling of the original LP
   const int passes = (layer1 ? 1 : 0) + (layer2 ? 1 : 0);
   vp_assert(count(K_UPRIMAL) == passes && count(K_USLACKS) == passes && count(K_UDUAL) == passes && count(K_UREDCOST) == passes, 30);
   // (at most two passes: the first and the last call of every kind cover all calls)
   if(count(K_UPRIMAL)) vp_assert(g_k[K_UPRIMAL].fb == &sol._primal && g_k[K_UPRIMAL].lb == &sol._primal, 31);
   if(count(K_USLACKS)) vp_assert(g_k[K_USLACKS].fb == &sol._slacks && g_k[K_USLACKS].lb == &sol._slacks, 32);
   if(count(K_UDUAL)) vp_assert(g_k[K_UDUAL].fb == &sol._dual && g_k[K_UDUAL].lb == &sol._dual, 33);
   if(count(K_UREDCOST)) vp_assert(g_k[K_UREDCOST].fb == &sol._redCost && g_k[K_UREDCOST].lb == &sol._redCost, 34);
   if(count(K_URAY)) vp_assert(g_k[K_URAY].fb == &sol._primalRay && g_k[K_URAY].fa == solverLP, 35);
   if(count(K_UFARKAS)) vp_assert(g_k[K_UFARKAS].fb == &sol._dualFarkas && g_k[K_UFARKAS].fa == solverLP, 36);
   // within a pass all four functions get the same LP
   if(passes > 0) vp_assert(g_k[K_USLACKS].fa == g_k[K_UPRIMAL].fa && g_k[K_UDUAL].fa == g_k[K_UPRIMAL].fa && g_k[K_UREDCOST].fa == g_k[K_UPRIMAL].fa
                            && g_k[K_USLACKS].la == g_k[K_UPRIMAL].la && g_k[K_UDUAL].la == g_k[K_UPRIMAL].la && g_k[K_UREDCOST].la == g_k[K_UPRIMAL].la, 41);
   if(layer1) vp_assert(g_k[K_UPRIMAL].fa == solverLP && first(K_UPRIMAL) > first(K_GETPRIMAL) && (!c.hasSimp || first(K_UPRIMAL) < first(K_UNSIMPLIFY)), 37);
   if(layer2)
   {
      // the last pass: after unsimplifying, on the original LP (which by then is the loaded one)
      vp_assert(g_k[K_UPRIMAL].la == solverLP && sp->_realLP == solverLP && origLP != 0, 38);
      if(c.hasSimp) vp_assert(last(K_UPRIMAL) > first(K_UNSIMPLIFY), 39);
   }
   // rays are unscaled together with the persistent layer, exactly when they exist
   vp_assert(count(K_URAY) == ((wantRay && layer2) ? 1 : 0) && count(K_UFARKAS) == ((wantFarkas && layer2) ? 1 : 0), 40);

   // (D) simplifier: gets the (unscaled) transformed vectors in the order primal, dual, slacks, redcost; its unsimplified vectors are stored
   vp_assert(sm->calls == (c.hasSimp ? 1 : 0), 50);
   if(c.hasSimp)
   {
      vp_assert(sm->arg[0] == &sol._primal && sm->arg[1] == &sol._dual && sm->arg[2] == &sol._slacks && sm->arg[3] == &sol._redCost, 51);
      vp_assert(sm->optimalFlag == (c.status == Solver::OPTIMAL), 52);
   }
   if(c.hasSimp && !threw)
   {
      vp_assert(holds(sol._primal, NC, 1100) && holds(sol._slacks, NR, 1200) && holds(sol._dual, NR, 1300) && holds(sol._redCost, NC, 1400), 53);
      vp_assert(count(K_SIMPBASIS) == 1 && count(K_LOAD) == 1 && count(K_SETBASIS) == 1 && first(K_LOAD) < first(K_SETBASIS), 54);
   }
   if(!c.hasSimp)
   {
      vp_assert(holds(sol._primal, NC, 100) && holds(sol._slacks, NR, 200) && holds(sol._dual, NR, 300) && holds(sol._redCost, NC, 400), 55);
      vp_assert(count(K_LOAD) == (c.loaded ? 0 : 1), 56);                // internal scaling only: the original LP is loaded back
   }
   if(threw)
   {
      // unsimplify failed: no basis, the original LP is solved again without preprocessing, nothing else happens
      vp_assert(!sp->_hasBasis && g_resolves == 1 && last(K_PREPROC) == g_seq - 1 && g_k[K_PREPROC].larg == 0, 57);
      vp_assert(count(K_VBOUND) + count(K_VDUAL) == 0, 58);
   }
   else
   {
      vp_assert(sp->_hasBasis && sp->_isRealLPLoaded && sp->_realLP == solverLP, 59);
      // (E) verification gate: chosen by status, and it alone decides about a re-solve
      const bool objlim = c.status == Solver::ABORT_VALUE;
      if(!c.verify) vp_assert(count(K_VBOUND) + count(K_VROW) + count(K_VDUAL) + count(K_VREDCOST) == 0 && g_resolves == 0, 60);
      else if(objlim) vp_assert(count(K_VBOUND) + count(K_VROW) == 0 && count(K_VDUAL) == 1 && count(K_VREDCOST) == 1, 61);
      else vp_assert(count(K_VBOUND) == 1 && count(K_VROW) == 1 && count(K_VDUAL) == 1 && count(K_VREDCOST) == 1, 62);
      if(c.verify && !objlim)
      {
         const bool over = (g_viol_ok[0] && g_viol[0] > c.feastol) || (g_viol_ok[1] && g_viol[1] > c.feastol) || (g_viol_ok[2] && g_viol[2] > c.opttol) || (g_viol_ok[3] && g_viol[3] > c.opttol);
         const bool under = (!g_viol_ok[0] || g_viol[0] < c.feastol) && (!g_viol_ok[1] || g_viol[1] < c.feastol) && (!g_viol_ok[2] || g_viol[2] < c.opttol) && (!g_viol_ok[3] || g_viol[3] < c.opttol);
         if(over) vp_assert(g_resolves == 1, 63);
         if(under) vp_assert(g_resolves == 0, 64);
      }
      // all verification happens on the final, fully unscaled and unsimplified vectors
      if(c.verify) vp_assert(first(K_VDUAL) > first(K_GETREDCOST) && (passes == 0 || first(K_VDUAL) > first(K_UREDCOST)) && (!c.hasSimp || first(K_VDUAL) > first(K_UNSIMPLIFY)), 65);
   }
   vp_cover(1);
}

// ------------------------------------------------------------------------------------------------------------
// C01-O3: _verifySolutionReal / C16-O5: _verifyObjLimitReal, called directly with arbitrary violations and tolerances
static SoPlex* make_verify(Cfg& c, FakeScaler* sc, FakeSimplifier* sm)
{
   c.status = vp_int_in(-15, 5);
   c.loaded = true;                                                     // both functions run after the original LP was loaded back
   c.lpScaled = vp_nondet_bool();
   c.solverScaled = c.lpScaled;
   c.hasScaler = vp_nondet_bool();
   c.hasSimp = vp_nondet_bool();
   c.verify = true;
   draw_tols(c);
   draw_viols();
   vp_assume(!c.lpScaled || c.hasScaler);
   SoPlex* sp = make(c, sc, sm);
   sp->_hasSolReal = true;
   return sp;
}
extern "C" void h_c01_verify_solution()
{
   Cfg c;
   FakeScaler* sc = new FakeScaler();
   FakeSimplifier* sm = new FakeSimplifier();
   SoPlex* sp = make_verify(c, sc, sm);
   int unscaleCalls0 = vp_int_in(0, 1000);
   sp->_unscaleCalls = unscaleCalls0;
   reset_log(); g_resolves = 0;
   sp->_verifySolutionReal();
   vp_assert(count(K_VBOUND) == 1 && count(K_VROW) == 1 && count(K_VDUAL) == 1 && count(K_VREDCOST) == 1, 2);
   const double bv = g_viol_ok[0] ? g_viol[0] : 0.0, rv = g_viol_ok[1] ? g_viol[1] : 0.0, dv = g_viol_ok[2] ? g_viol[2] : 0.0, cv = g_viol_ok[3] ? g_viol[3] : 0.0;
   const bool over = bv > c.feastol || rv > c.feastol || dv > c.opttol || cv > c.opttol;
   const bool under = bv < c.feastol && rv < c.feastol && dv < c.opttol && cv < c.opttol;
   if(over) vp_assert(g_resolves == 1, 3);                              // a violated tolerance is never accepted
   if(under) vp_assert(g_resolves == 0 && g_seq == 4, 4);                 // a clean solution is never re-solved, nothing is touched
   vp_assert(g_resolves <= 1, 5);
   if(g_resolves == 1)
   {
      // the re-solve is without simplifier; a persistently scaled LP is unscaled first (exactly once) and the fact recorded
      vp_assert(last(K_PREPROC) == g_seq - 1 && g_k[K_PREPROC].larg == 0, 6);
      vp_assert(count(K_UNSCALELP) == (c.lpScaled ? 1 : 0) && !sp->_isRealLPScaled && sp->_unscaleCalls == unscaleCalls0 + (c.lpScaled ? 1 : 0), 7);
      if(c.lpScaled) vp_assert(first(K_UNSCALELP) < first(K_PREPROC), 8);
      vp_assert(count(K_TOGGLE) == 0, 9);
   }
   else vp_assert(sp->_isRealLPScaled == c.lpScaled && sp->_unscaleCalls == unscaleCalls0, 10);
   vp_cover(1);
}
extern "C" void h_c16_verify_objlimit()
{
   Cfg c;
   FakeScaler* sc = new FakeScaler();
   FakeSimplifier* sm = new FakeSimplifier();
   SoPlex* sp = make_verify(c, sc, sm);
   int unscaleCalls0 = vp_int_in(0, 1000);
   sp->_unscaleCalls = unscaleCalls0;
   reset_log(); g_resolves = 0;
   sp->_verifyObjLimitReal();
   vp_assert(count(K_VBOUND) == 0 && count(K_VROW) == 0 && count(K_VDUAL) == 1 && count(K_VREDCOST) == 1, 2);   // only dual feasibility matters for the objective limit
   const bool dualfeasible = g_viol_ok[2] && g_viol_ok[3];
   const bool over = !dualfeasible || g_viol[2] > c.opttol || g_viol[3] > c.opttol;
   const bool under = dualfeasible && g_viol[2] < c.opttol && g_viol[3] < c.opttol;
   if(over) vp_assert(g_resolves == 1, 3);                              // objective-limit verdict without dual feasibility is never accepted
   if(under) vp_assert(g_resolves == 0 && g_seq == 2, 4);
   vp_assert(g_resolves <= 1, 5);
   if(g_resolves == 1)
   {
      vp_assert(last(K_PREPROC) == g_seq - 1 && g_k[K_PREPROC].larg == 0, 6);
      // escalation: first drop scaler/simplifier (unscaling a persistently scaled LP); only when they are already off, switch the objective limit off
      const bool plain = !c.hasScaler && !c.hasSimp;
      vp_assert(count(K_TOGGLE) == (plain ? 1 : 0), 7);
      if(plain) vp_assert(g_k[K_TOGGLE].farg == 0 && first(K_TOGGLE) < first(K_PREPROC), 8);
      vp_assert(count(K_UNSCALELP) == ((!plain && c.lpScaled) ? 1 : 0), 9);
      if(!plain && c.lpScaled) vp_assert(!sp->_isRealLPScaled && sp->_unscaleCalls == unscaleCalls0 + 1 && first(K_UNSCALELP) < first(K_PREPROC), 10);
   }
   else vp_assert(count(K_TOGGLE) == 0 && count(K_UNSCALELP) == 0 && sp->_isRealLPScaled == c.lpScaled, 11);
   vp_cover(1);
}
