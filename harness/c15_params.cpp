// C15-O1/O2: parameter setters - range rejection is atomic, accepted values are what the getter returns
// Contract style: `this` is raw (zero) memory, only _currentSettings is set up with a real Settings object;
// every callee of the setters other than the parameter accessors is CUT (arbitrary result, no side effects).
#include "soplex_all.h"
using namespace soplex;
union SoPlexMem { SoPlex sp; SoPlexMem() {} ~SoPlexMem() {} };
static SoPlexMem mem;
typedef SoPlex::Settings ST;

struct Saved { bool b[SoPlex::BOOLPARAM_COUNT]; int i[SoPlex::INTPARAM_COUNT]; double r[SoPlex::REALPARAM_COUNT]; };
static void save(const ST* st, Saved& s)
{
   for(int i = 0; i < SoPlex::BOOLPARAM_COUNT; ++i) s.b[i] = st->_boolParamValues[i];
   for(int i = 0; i < SoPlex::INTPARAM_COUNT; ++i) s.i[i] = st->_intParamValues[i];
   for(int i = 0; i < SoPlex::REALPARAM_COUNT; ++i) s.r[i] = st->_realParamValues[i];
}
static bool same_bits(double a, double b) { return std::memcmp(&a, &b, sizeof a) == 0; }
// arbitrary current settings, every value inside its documented range
static void draw(Saved& d, bool inrange)
{
   for(int i = 0; i < SoPlex::BOOLPARAM_COUNT; ++i) d.b[i] = vp_nondet_bool();
   for(int i = 0; i < SoPlex::INTPARAM_COUNT; ++i)
   {
      int x = vp_nondet_int();
      if(inrange) vp_assume(x >= ST::intParam.lower[i] && x <= ST::intParam.upper[i]);
      if(inrange && i == SoPlex::OBJSENSE) vp_assume(x != 0);          // only enumerated choices are reachable states
      d.i[i] = x;
   }
   for(int i = 0; i < SoPlex::REALPARAM_COUNT; ++i)
   {
      double x = vp_nondet_double();
      if(inrange) vp_assume(x >= ST::realParam.lower[i] && x <= ST::realParam.upper[i]);
      d.r[i] = x;
   }
}
// solver build: `this` is raw zero memory with a real Settings object holding the drawn values.
// native build (replay against the real code): a real SoPlex object; the drawn values are applied through the public setters.
static SoPlex* make_solver(const Saved& d)
{
#ifdef VP_NATIVE
   SoPlex* sp = new SoPlex();
   sp->setIntParam(SoPlex::VERBOSITY, 0);
   for(int i = 0; i < SoPlex::BOOLPARAM_COUNT; ++i) sp->setBoolParam((SoPlex::BoolParam)i, d.b[i]);
   for(int i = 0; i < SoPlex::INTPARAM_COUNT; ++i) if(i != SoPlex::VERBOSITY) sp->setIntParam((SoPlex::IntParam)i, d.i[i]);
   for(int i = 0; i < SoPlex::REALPARAM_COUNT; ++i) sp->setRealParam((SoPlex::RealParam)i, d.r[i]);
   return sp;
#else
   SoPlex* sp = &mem.sp;
   ST* st = new ST();
   for(int i = 0; i < SoPlex::BOOLPARAM_COUNT; ++i) st->_boolParamValues[i] = d.b[i];
   for(int i = 0; i < SoPlex::INTPARAM_COUNT; ++i) st->_intParamValues[i] = d.i[i];
   for(int i = 0; i < SoPlex::REALPARAM_COUNT; ++i) st->_realParamValues[i] = d.r[i];
   sp->_currentSettings = st;
   return sp;
#endif
}
// everything except (kind,idx) is unchanged
static void assert_others_unchanged(const ST* st, const Saved& s, int kind, int idx, int id)
{
   for(int i = 0; i < SoPlex::BOOLPARAM_COUNT; ++i) if(!(kind == 0 && i == idx)) vp_assert(st->_boolParamValues[i] == s.b[i], id);
   for(int i = 0; i < SoPlex::INTPARAM_COUNT; ++i) if(!(kind == 1 && i == idx)) vp_assert(st->_intParamValues[i] == s.i[i], id + 1);
   for(int i = 0; i < SoPlex::REALPARAM_COUNT; ++i) if(!(kind == 2 && i == idx)) vp_assert(same_bits(st->_realParamValues[i], s.r[i]), id + 2);
}

extern "C" void h_c15_set_int()
{
   Saved d; draw(d, true);
   SoPlex* sp = make_solver(d);
   ST* st = sp->_currentSettings;
   Saved s0; save(st, s0);
   int p = vp_int_in(0, SoPlex::INTPARAM_COUNT - 1);
   int v = vp_nondet_int();
   bool init = vp_nondet_bool();
   bool ok = sp->setIntParam((SoPlex::IntParam)p, v, init);
   bool inrange = v >= ST::intParam.lower[p] && v <= ST::intParam.upper[p];
   if(!inrange) vp_assert(!ok || (!init && v == s0.i[p]), 1);     // out of range => rejected
   // "not among the enumerated choices" => rejected: the objective sense is the one parameter whose choices {-1,+1} are not
   // a contiguous range
   if(p == SoPlex::OBJSENSE && v != SoPlex::OBJSENSE_MINIMIZE && v != SoPlex::OBJSENSE_MAXIMIZE) vp_assert(!ok || (!init && v == s0.i[p]), 4);
   if(!ok) assert_others_unchanged(st, s0, -1, -1, 10);            // rejected => nothing changed (atomic)
   else
   {
      assert_others_unchanged(st, s0, 1, p, 20);                   // accepted => only this parameter changed
      vp_assert(sp->intParam((SoPlex::IntParam)p) == v, 2);        // and the getter returns the value
      vp_assert(inrange, 3);
   }
   vp_cover(1);
}
extern "C" void h_c15_set_bool()
{
   Saved d; draw(d, true);
   SoPlex* sp = make_solver(d);
   ST* st = sp->_currentSettings;
   Saved s0; save(st, s0);
   int p = vp_int_in(0, SoPlex::BOOLPARAM_COUNT - 1);
   bool v = vp_nondet_bool();
   bool init = vp_nondet_bool();
   bool ok = sp->setBoolParam((SoPlex::BoolParam)p, v, init);
   if(!ok) assert_others_unchanged(st, s0, -1, -1, 10);
   else
   {
      assert_others_unchanged(st, s0, 0, p, 20);
      vp_assert(sp->boolParam((SoPlex::BoolParam)p) == v, 2);
   }
   vp_cover(1);
}
extern "C" void h_c15_set_real()
{
   Saved d; draw(d, true);
   SoPlex* sp = make_solver(d);
   ST* st = sp->_currentSettings;
   Saved s0; save(st, s0);
   int p = vp_int_in(0, SoPlex::REALPARAM_COUNT - 1);
   double v = vp_nondet_double();                                    // includes +-inf and NaN
   bool init = vp_nondet_bool();
   bool ok = sp->setRealParam((SoPlex::RealParam)p, v, init);
   bool inrange = v >= ST::realParam.lower[p] && v <= ST::realParam.upper[p];
   if(!inrange) vp_assert(!ok || (!init && v == s0.r[p]), 1);
   if(!ok) assert_others_unchanged(st, s0, -1, -1, 10);
   else
   {
      assert_others_unchanged(st, s0, 2, p, 20);
      vp_assert(inrange, 3);
      vp_assert(sp->realParam((SoPlex::RealParam)p) == v, 2);
   }
   vp_cover(1);
}
// O2: constructor yields exactly the static default tables, each default within its range
extern "C" void h_c15_defaults()
{
   ST st;
   for(int i = 0; i < SoPlex::BOOLPARAM_COUNT; ++i) vp_assert(st._boolParamValues[i] == ST::boolParam.defaultValue[i], 1);
   for(int i = 0; i < SoPlex::INTPARAM_COUNT; ++i)
   {
      vp_assert(st._intParamValues[i] == ST::intParam.defaultValue[i], 2);
      vp_assert(ST::intParam.lower[i] <= ST::intParam.defaultValue[i] && ST::intParam.defaultValue[i] <= ST::intParam.upper[i], 3);
   }
   for(int i = 0; i < SoPlex::REALPARAM_COUNT; ++i)
   {
      vp_assert(st._realParamValues[i] == ST::realParam.defaultValue[i], 4);
      vp_assert(ST::realParam.lower[i] <= ST::realParam.defaultValue[i] && ST::realParam.defaultValue[i] <= ST::realParam.upper[i], 5);
   }
   // assignment copies every value
   Saved sa; draw(sa, false);
   ST* a = new ST();
   for(int i = 0; i < SoPlex::BOOLPARAM_COUNT; ++i) a->_boolParamValues[i] = sa.b[i];
   for(int i = 0; i < SoPlex::INTPARAM_COUNT; ++i) a->_intParamValues[i] = sa.i[i];
   for(int i = 0; i < SoPlex::REALPARAM_COUNT; ++i) a->_realParamValues[i] = sa.r[i];
   ST b; b = *a;
   assert_others_unchanged(&b, sa, -1, -1, 10);
   vp_cover(1);
}
