// C08 part b: DoubletonEquationPS, ZeroObjColSingletonPS, FreeColSingletonPS, FreeZeroObjVariablePS, ForceConstraintPS.
// Same method and conventions as c08_poststeps_a.cpp (whose common part - dense reference LP, KKT checker, drawing of the
// reduced solution - is included here).
#define C08_COMMON_ONLY
#include "c08_poststeps_a.cpp"
static inline bool is_pow2_scale(double v) { return v == 1.0 || v == 2.0 || v == 4.0 || v == 8.0 || v == 16.0; }
static inline double dabs(double v) { return v < 0 ? -v : v; }
static inline double dmax3(double a, double b, double c) { double m = a > b ? a : b; return m > c ? m : c; }

// ---------------------------------------------------------------------------------------------------------------------
// DoubletonEquationPS (simplifyCols step 5): column j is a singleton in the equation row i = { a_ij x_j + a_ik x_k = lhs },
// c_j != 0, x_j has a finite bound. The bounds of x_j are transferred to x_k (only if strictly tighter), the PostStep is
// constructed from the LP with the NEW bounds of k and the OLD bounds of j, then x_j is made free. Nothing is removed.
#ifndef DE_NC
#define DE_NC 2
#endif
extern "C" void h_c08_doubleton()
{
   const int I = 0, J = 0, K = 1, nr = 2, nc = DE_NC;
   // row 0 = {j,k}; the other row contains k (and the third column if there is one); j occurs in row 0 only
   unsigned mask = (1u << (0 * nc + J)) | (1u << (0 * nc + K)) | (1u << (1 * nc + K)); if(nc > 2) mask |= 1u << (1 * nc + 2);
   LP lp; set_sense(lp); Dense<2, DE_NC> d; build<2, DE_NC>(lp, d, mask, KV);
   double aij = d.a[I][J], aik = d.a[I][K]; vp_assume(is_pm12(aij) && is_pm12(aik));
   vp_assume(d.lhs[I] == d.rhs[I]);                                   // equation (finite: -inf != +inf)
   vp_assume(d.obj[J] != 0.0);
   vp_assume(d.lo[J] > -INF() || d.up[J] < INF());
   vp_assume(d.lo[J] < d.up[J]);                                      // a fixed column is removed by fixColumn before (step 3)
   DLP p; dlp_from<2, DE_NC>(p, d, IS_MIN);
   double lhs = p.lhs[I], lo, up, oldLo = p.lo[K], oldUp = p.up[K];
   if(aij * aik > 0.0) { lo = p.up[J] >= INF() ? -INF() : (lhs - aij * p.up[J]) / aik; up = p.lo[J] <= -INF() ? INF() : (lhs - aij * p.lo[J]) / aik; }
   else                { lo = p.lo[J] <= -INF() ? -INF() : (lhs - aij * p.lo[J]) / aik; up = p.up[J] >= INF() ? INF() : (lhs - aij * p.up[J]) / aik; }
   DLP q = p;
   if(lo > oldLo) { q.lo[K] = lo; lp.lower_w(K) = lo; }
   if(up < oldUp) { q.up[K] = up; lp.upper_w(K) = up; }
   vp_assume(q.lo[K] <= q.up[K]);                                      // otherwise the simplifier reports INFEASIBLE
   SM::DoubletonEquationPS ps(lp, J, K, I, oldLo, oldUp, mk_tols());
   q.lo[J] = -INF(); q.up[J] = INF();
   DSol z; draw_reduced(q, z);
   Work w(nr, nc); load_work(w, q, z, nr, nc);
   int ck0 = z.cs[K];
   ps.execute(w.x, w.y, w.s, w.r, w.cS, w.rS, true);
   check_kkt(p, w);
   for(int j = 0; j < nc; ++j) vp_assert(w.x[j] == z.x[j], 10);       // primal solution unchanged => same objective
   if(ck0 != ST_BA && w.cS[K] == ST_BA && w.cS[J] == ST_LO) vp_cover(2);
   if(ck0 != ST_BA && w.cS[K] == ST_BA && w.cS[J] == ST_UP) vp_cover(3);
   if(ck0 == ST_FX) vp_cover(4);
   vp_cover(1);
}

// ---------------------------------------------------------------------------------------------------------------------
// FreeColSingletonPS (simplifyCols step 6): x_j free, singleton in row i, c_j != 0. For an inequality row the side the
// objective pushes to is chosen (slackVal; UNBOUNDED verdict if it is infinite). The costs of the other columns of row i
// become c_k - c_j a_ik / a_ij, then row i and column j are removed (row first), objoffset += slackVal * obj_j / a_ij.
#ifndef FS_I
#define FS_I 0
#define FS_J 0
#endif
extern "C" void h_c08_freecolsingleton()
{
   const int I = FS_I, J = FS_J;
   unsigned mask = 0; for(int i = 0; i < PNR; ++i) for(int j = 0; j < PNC; ++j) if(j != J || i == I) mask |= 1u << (i * PNC + j);
   LP lp; set_sense(lp); Dense<PNR, PNC> d; build<PNR, PNC>(lp, d, mask, KV);
   double aij = d.a[I][J]; vp_assume(is_pm12(aij));
   vp_assume(d.lo[J] <= -INF() && d.up[J] >= INF());
   vp_assume(d.obj[J] != 0.0);
   vp_assume(d.lhs[I] > -INF() || d.rhs[I] < INF());
   DLP p; dlp_from<PNR, PNC>(p, d, IS_MIN);
   double slackVal = p.lhs[I];
   if(p.lhs[I] != p.rhs[I])
   {
      double push = p.c[J] / aij;                                      // min-sense cost of the row activity after substitution
      if(push < 0.0) { vp_assume(p.rhs[I] < INF()); slackVal = p.rhs[I]; }
      else           { vp_assume(p.lhs[I] > -INF()); slackVal = p.lhs[I]; }
   }
   SM sm; sm.m_objoffset = 0.0;
   SM::FreeColSingletonPS ps(lp, sm, J, I, slackVal, mk_tols());
   DLP q = p;
   for(int k = 0; k < PNC; ++k) if(k != J) q.c[k] = p.c[k] - p.c[J] * p.a[I][k] / aij;
   dlp_remove_row(q, I); dlp_remove_col(q, J);
   DSol z; draw_reduced(q, z);
   // exactness domain: the code computes x_j = ((slackVal/scale) - (val/scale)) * scale / a_ij with scale = max(|slackVal|,|val|,1)
   { double val = 0.0; for(int k = 0; k < PNC; ++k) if(k != J) val += p.a[I][k] * z.x[k == PNC - 1 && J != PNC - 1 ? J : k];
     vp_assume(is_pow2_scale(dmax3(dabs(slackVal), dabs(val), 1.0))); }
   Work w(PNR, PNC); load_work(w, q, z, PNR, PNC);
   ps.execute(w.x, w.y, w.s, w.r, w.cS, w.rS, true);
   check_kkt(p, w);
   double x[MC]; for(int j = 0; j < PNC; ++j) x[j] = w.x[j];
   vp_assert(dlp_obj(p, x) == dlp_obj(q, z.x) + slackVal * p.c[J] / aij, 10);
   vp_assert(sm.m_objoffset == slackVal * (d.obj[J] / aij), 11);
   vp_assert(w.cS[J] == ST_BA && w.s[I] == slackVal, 12);
   if(w.rS[I] == ST_LO) vp_cover(2);
   if(w.rS[I] == ST_UP) vp_cover(3);
   if(w.rS[I] == ST_FX) vp_cover(4);
   vp_cover(1);
}

// ---------------------------------------------------------------------------------------------------------------------
// ZeroObjColSingletonPS (simplifyCols step 4): c_j == 0, x_j singleton in row i with lower < upper: the sides of row i are
// relaxed by the range of a_ij x_j (infinite if the needed bound is infinite), the PostStep is constructed from the LP with the
// OLD sides, column j is removed. (If the row became free it is removed by a separate FreeConstraintPS step afterwards; then
// that step has been undone before this one is executed, so the row is present here.)
#ifndef ZS_I
#define ZS_I 0
#define ZS_J 0
#endif
extern "C" void h_c08_zeroobjcolsingleton()
{
   const int I = ZS_I, J = ZS_J;
   unsigned mask = 0; for(int i = 0; i < PNR; ++i) for(int j = 0; j < PNC; ++j) if(j != J || i == I) mask |= 1u << (i * PNC + j);
   LP lp; set_sense(lp); Dense<PNR, PNC> d; build<PNR, PNC>(lp, d, mask, KV);
   double aij = d.a[I][J]; vp_assume(is_pm12(aij));
   vp_assume(d.obj[J] == 0.0);
   vp_assume(d.lo[J] < d.up[J]);
   DLP p; dlp_from<PNR, PNC>(p, d, IS_MIN);
   {  // FreeZeroObjVariablePS (step 2) has precedence: x_j is not unconstrained below/above
      bool loFree = aij > 0.0 ? p.lhs[I] <= -INF() : p.rhs[I] >= INF(), upFree = aij > 0.0 ? p.rhs[I] >= INF() : p.lhs[I] <= -INF();
      vp_assume(!(loFree && p.lo[J] <= -INF()) && !(upFree && p.up[J] >= INF()));
   }
   double lhs = -INF(), rhs = INF();
   if(aij > 0.0) { if(p.lhs[I] > -INF() && p.up[J] < INF()) lhs = p.lhs[I] - aij * p.up[J]; if(p.rhs[I] < INF() && p.lo[J] > -INF()) rhs = p.rhs[I] - aij * p.lo[J]; }
   else          { if(p.lhs[I] > -INF() && p.lo[J] > -INF()) lhs = p.lhs[I] - aij * p.lo[J]; if(p.rhs[I] < INF() && p.up[J] < INF()) rhs = p.rhs[I] - aij * p.up[J]; }
   SM sm;
   SM::ZeroObjColSingletonPS ps(lp, sm, J, I, mk_tols());
   DLP q = p; q.lhs[I] = lhs; q.rhs[I] = rhs; dlp_remove_col(q, J);
   DSol z; draw_reduced(q, z);
   vp_assume(is_pow2_scale(dmax3(dabs(p.lhs[I]), dabs(z.s[I]), 1.0)) || p.lhs[I] <= -INF());      // exactness domain of (lhs/scale - s/scale)*scale
   vp_assume(is_pow2_scale(dmax3(dabs(p.rhs[I]), dabs(z.s[I]), 1.0)) || p.rhs[I] >= INF());
   Work w(PNR, PNC); load_work(w, q, z, PNR, PNC);
   int ri0 = z.rs[I];
   ps.execute(w.x, w.y, w.s, w.r, w.cS, w.rS, true);
   check_kkt(p, w);
   double x[MC]; for(int j = 0; j < PNC; ++j) x[j] = w.x[j];
   vp_assert(dlp_obj(p, x) == dlp_obj(q, z.x), 10);
   if(ri0 == ST_BA && w.cS[J] == ST_BA) vp_cover(2);
   if(ri0 == ST_LO) vp_cover(3);
   if(ri0 == ST_UP) vp_cover(4);
   vp_cover(1);
}

// ---------------------------------------------------------------------------------------------------------------------
// FreeZeroObjVariablePS (simplifyCols step 2, third case): c_j == 0 and x_j can be moved to -inf (loFree: lower = -inf and every
// row of the column allows it: a_ij > 0 => lhs_i = -inf, a_ij < 0 => rhs_i = +inf) or to +inf (mirror image): all rows of the
// column are removed (decreasing index, each with last-row swap), then the column.
#ifndef FZ_ROWS
#define FZ_ROWS 1        // column J=0 occurs in rows 0..FZ_ROWS-1; the remaining rows contain the other columns only
#endif
extern "C" void h_c08_freezeroobj()
{
   const int J = 0;
   unsigned mask = 0; for(int i = 0; i < PNR; ++i) for(int j = 0; j < PNC; ++j) if(j != J || i < FZ_ROWS) mask |= 1u << (i * PNC + j);
   LP lp; set_sense(lp); Dense<PNR, PNC> d; build<PNR, PNC>(lp, d, mask, KV);
   int loFree = vp_int_in(0, 1);
   vp_assume(d.obj[J] == 0.0);
   vp_assume(d.lo[J] < d.up[J]);
   for(int i = 0; i < FZ_ROWS; ++i) vp_assume(is_pm12(d.a[i][J]));
   if(loFree) { vp_assume(d.lo[J] <= -INF()); for(int i = 0; i < FZ_ROWS; ++i) vp_assume(d.a[i][J] > 0.0 ? d.lhs[i] <= -INF() : d.rhs[i] >= INF()); }
   else       { vp_assume(d.up[J] >= INF());  for(int i = 0; i < FZ_ROWS; ++i) vp_assume(d.a[i][J] > 0.0 ? d.rhs[i] >= INF() : d.lhs[i] <= -INF()); }
   DLP p; dlp_from<PNR, PNC>(p, d, IS_MIN);
   DSVectorBase<double> col_idx_sorted(lp.colVector(J));              // built by increasing row index: already sorted
   SM::FreeZeroObjVariablePS ps(lp, J, loFree != 0, col_idx_sorted, mk_tols());
   DLP q = p; for(int i = FZ_ROWS - 1; i >= 0; --i) dlp_remove_row(q, i);
   dlp_remove_col(q, J);
   DSol z; draw_reduced(q, z);
   // exactness domain of ((side/scale) - (val/scale)) * scale / a_ij
   for(int i = 0; i < FZ_ROWS; ++i)
   {
      double val = 0.0; for(int k = 0; k < PNC; ++k) if(k != J) val += p.a[i][k] * z.x[k == PNC - 1 ? J : k];
      double side = (loFree ? (p.a[i][J] > 0.0) : (p.a[i][J] < 0.0)) ? p.rhs[i] : p.lhs[i];
      vp_assume(side >= INF() || side <= -INF() || is_pow2_scale(dmax3(dabs(side), dabs(val), 1.0)));
   }
   Work w(PNR, PNC); load_work(w, q, z, PNR, PNC);
   ps.execute(w.x, w.y, w.s, w.r, w.cS, w.rS, true);
   check_kkt(p, w);
   double x[MC]; for(int j = 0; j < PNC; ++j) x[j] = w.x[j];
   vp_assert(dlp_obj(p, x) == dlp_obj(q, z.x), 10);
   if(w.cS[J] == ST_BA) vp_cover(2);
   if(w.cS[J] == ST_UP) vp_cover(3);
   if(w.cS[J] == ST_LO) vp_cover(4);
   vp_cover(1);
}

// ---------------------------------------------------------------------------------------------------------------------
// ForceConstraintPS (simplifyRows step 8): the maximal activity of row i (all needed bounds finite) equals lhs_i (lhsFixed) resp.
// the minimal activity equals rhs_i: every column of the row is fixed at the bound attaining it (lower := upper or upper := lower),
// the PostStep is constructed from the LP with the collapsed bounds (old bounds passed as arrays), the row is removed.
#ifndef FO_LHS
#define FO_LHS 1
#endif
extern "C" void h_c08_forceconstraint()
{
   const int I = 0;
   LP lp; set_sense(lp); Dense<PNR, PNC> d; build<PNR, PNC>(lp, d, (1u << (PNR * PNC)) - 1, KV);
   for(int j = 0; j < PNC; ++j) vp_assume(is_pm12(d.a[I][j]));
   DLP p; dlp_from<PNR, PNC>(p, d, IS_MIN);
   double bnd = 0.0;
   for(int j = 0; j < PNC; ++j)
   {
      bool toUpper = FO_LHS ? p.a[I][j] > 0.0 : p.a[I][j] < 0.0;
      if(toUpper) { vp_assume(p.up[j] < INF()); bnd += p.a[I][j] * p.up[j]; } else { vp_assume(p.lo[j] > -INF()); bnd += p.a[I][j] * p.lo[j]; }
   }
   vp_assume(bnd == (FO_LHS ? p.lhs[I] : p.rhs[I]));
   DataArray<bool> fixedCol(PNC); Array<double> lowers(PNC), uppers(PNC);
   DLP q = p;
   for(int j = 0; j < PNC; ++j)      // the row was built by increasing column index: position k in the row = column k
   {
      bool toUpper = FO_LHS ? p.a[I][j] > 0.0 : p.a[I][j] < 0.0;
      fixedCol[j] = !(p.lo[j] == p.up[j]); lowers[j] = p.lo[j]; uppers[j] = p.up[j];
      if(toUpper) { q.lo[j] = p.up[j]; lp.lower_w(j) = p.up[j]; } else { q.up[j] = p.lo[j]; lp.upper_w(j) = p.lo[j]; }
   }
   SM::ForceConstraintPS ps(lp, I, FO_LHS != 0, fixedCol, lowers, uppers, mk_tols());
   dlp_remove_row(q, I);
   DSol z; draw_reduced(q, z);
   Work w(PNR, PNC); load_work(w, q, z, PNR, PNC);
   ps.execute(w.x, w.y, w.s, w.r, w.cS, w.rS, true);
   check_kkt(p, w);
   for(int j = 0; j < PNC; ++j) vp_assert(w.x[j] == z.x[j], 10);
   if(w.rS[I] == ST_BA) vp_cover(2);
   if(w.rS[I] != ST_BA) vp_cover(3);
   vp_cover(1);
}
