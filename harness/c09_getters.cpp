// C09-O2: on a scaled LP the unscaled getters return the pre-scaling data bit for bit.
// The LP is a real SPxLPBase<double> (lp_build.h), the scaler a real SPxScaler<double> registered through the real
// setup(); exponents are arbitrary (-EMAX..EMAX), applyScaling is the real one. Reference = the dense copy `d`
// taken before scaling.  Entries:
//   h_c09_getters_vectors : getColVectorUnscaled/getRowVectorUnscaled (-> SPxScaler::getColUnscaled/getRowUnscaled)
//   h_c09_getters_absmax  : get{Col,Row}{Max,Min}AbsUnscaled
//   h_c09_getters_nzo     : SPxLPBase::maxAbsNzo(true)/minAbsNzo(true)   (thorough tier)
//   h_c09_getters_scalars : SPxLPBase::{lower,upper,lhs,rhs,obj,maxObj}Unscaled(i) incl. infinite bounds, and the vector forms
//                           get{Lower,Upper,Lhs,Rhs}Unscaled(vec), maxObjUnscaled(vec), getObjUnscaled(vec) on the FINITE entries
//   h_c09_getters_vecinf  : the vector forms on the INFINITE entries: an infinite bound/side must still be infinite
#include "lp_build.h"
using namespace soplex; using namespace vph;
// shape: -DVNR=.. -DVNC=.. (not NR/NC on the command line: lp_build.h uses these names for template parameters)
#ifdef VNR
#define NR VNR
#define NC VNC
#else
#define NR 2
#define NC 2
#endif
#ifndef MASK
#define MASK 0xF
#endif
#ifndef EMAX
#define EMAX 30
#endif
#define HAS(i, j) ((MASK >> ((i) * NC + (j))) & 1u)
static double dabs(double x) { return x < 0 ? -x : x; }
static bool is_pinf(double x) { return x >= (double)infinity; }
static bool is_minf(double x) { return x <= -(double)infinity; }

// real LP + real scaler registered with it, arbitrary exponents, scaled by the real applyScaling
static void scaled_lp(LP& lp, Dense<NR, NC>& d, Sc& sc, int* ce, int* re)
{
   int mn = vp_int_in(0, 1);
   lp.changeSense(mn ? SPxLPBase<double>::MINIMIZE : SPxLPBase<double>::MAXIMIZE);
   build<NR, NC>(lp, d, MASK, 7);
   std::shared_ptr<Tolerances> tol = std::make_shared<Tolerances>();
   sc.setTolerances(tol);
   sc.setup(lp);                                   // sizes + zeroes the exponent arrays, lp.lp_scaler = &sc
   for(int j = 0; j < NC; ++j) { ce[j] = vp_int_in(-EMAX, EMAX); lp.cexp()[j] = ce[j]; }
   for(int i = 0; i < NR; ++i) { re[i] = vp_int_in(-EMAX, EMAX); lp.rexp()[i] = re[i]; }
   sc.applyScaling(lp);
}

// Environment model for DSVectorBase<double>::setMax (ll2c "replace"): the result vectors are pre-sized, so the capacity never
// has to grow (asserted), and the model leaves the memory where it is. Reason: DSVectorBase::add calls makeMem(1) with a size that
// depends on "value != 0" tests on symbolic data, so the (infeasible) reallocation path would otherwise be encoded at every add.
extern "C" void m_dsv_setmax(DSVectorBase<double>* self, int newmax)
{
   int siz = self->size();
   int len = (newmax < siz) ? siz : newmax;
   vp_assert(len <= self->max(), 90);
}

extern "C" void h_c09_getters_vectors()
{
   LP lp; Dense<NR, NC> d; Sc sc; int ce[NC], re[NR];
   scaled_lp(lp, d, sc, ce, re);
   vp_assert(lp.isScaled(), 1);
   for(int j = 0; j < NC; ++j)
   {
      DSVectorBase<double> v(NR + 1);
      lp.getColVectorUnscaled(j, v);
      int cnt = 0;
      for(int i = 0; i < NR; ++i)
      {
         if(HAS(i, j)) { ++cnt; vp_assert(v.pos(i) >= 0 && same_bits(v[i], d.a[i][j]), 2); }
         else vp_assert(v.pos(i) < 0, 3);
      }
      vp_assert(v.size() == cnt, 4);
   }
   for(int i = 0; i < NR; ++i)
   {
      DSVectorBase<double> v(NC + 1);
      lp.getRowVectorUnscaled(i, v);
      int cnt = 0;
      for(int j = 0; j < NC; ++j)
      {
         if(HAS(i, j)) { ++cnt; vp_assert(v.pos(j) >= 0 && same_bits(v[j], d.a[i][j]), 7); }
         else vp_assert(v.pos(j) < 0, 8);
      }
      vp_assert(v.size() == cnt, 9);
   }
   vp_cover(1);
}

// max/min absolute value of the unscaled rows/columns against a dense reference over the original matrix
extern "C" void h_c09_getters_absmax()
{
   LP lp; Dense<NR, NC> d; Sc sc; int ce[NC], re[NR];
   scaled_lp(lp, d, sc, ce, re);
   for(int j = 0; j < NC; ++j)
   {
      double mx = 0.0, mi = (double)infinity;
      for(int i = 0; i < NR; ++i) if(HAS(i, j)) { double x = dabs(d.a[i][j]); if(x > mx) mx = x; if(x < mi) mi = x; }
      vp_assert(same_bits(sc.getColMaxAbsUnscaled(lp, j), mx), 5);
      vp_assert(same_bits(sc.getColMinAbsUnscaled(lp, j), mi), 6);
   }
   for(int i = 0; i < NR; ++i)
   {
      double mx = 0.0, mi = (double)infinity;
      for(int j = 0; j < NC; ++j) if(HAS(i, j)) { double x = dabs(d.a[i][j]); if(x > mx) mx = x; if(x < mi) mi = x; }
      vp_assert(same_bits(sc.getRowMaxAbsUnscaled(lp, i), mx), 10);
      vp_assert(same_bits(sc.getRowMinAbsUnscaled(lp, i), mi), 11);
   }
   vp_cover(1);
}
// SPxLPBase::maxAbsNzo(true)/minAbsNzo(true) on the scaled LP = max/min absolute nonzero of the original matrix
extern "C" void h_c09_getters_nzo()
{
   LP lp; Dense<NR, NC> d; Sc sc; int ce[NC], re[NR];
   scaled_lp(lp, d, sc, ce, re);
   double allmax = 0.0, allmin = (double)infinity;
   for(int j = 0; j < NC; ++j) for(int i = 0; i < NR; ++i) if(HAS(i, j)) { double x = dabs(d.a[i][j]); if(x > allmax) allmax = x; if(x < allmin) allmin = x; }
   vp_assert(same_bits(lp.maxAbsNzo(true), allmax), 12);
   vp_assert(same_bits(lp.minAbsNzo(true), allmin), 13);
   vp_cover(1);
}

static double user_obj(const LP& lp, double maxobj) { return lp.spxSense() == SPxLPBase<double>::MINIMIZE ? -maxobj : maxobj; }

extern "C" void h_c09_getters_scalars()
{
   LP lp; Dense<NR, NC> d; Sc sc; int ce[NC], re[NR];
   scaled_lp(lp, d, sc, ce, re);
   VectorBase<double> lo(NC), up(NC), mo(NC), ob(NC), lh(NR), rh(NR);
   lp.getLowerUnscaled(lo); lp.getUpperUnscaled(up); lp.maxObjUnscaled(mo); lp.getObjUnscaled(ob);
   lp.getLhsUnscaled(lh); lp.getRhsUnscaled(rh);
   for(int j = 0; j < NC; ++j)
   {
      // scalar forms: finite values bit for bit, infinite stays the same infinity
      vp_assert(same_bits(lp.lowerUnscaled(j), d.lo[j]), 1);
      vp_assert(same_bits(lp.upperUnscaled(j), d.up[j]), 2);
      vp_assert(lp.objUnscaled(j) == d.obj[j], 3);
      vp_assert(user_obj(lp, lp.maxObjUnscaled(j)) == d.obj[j], 4);
      // vector forms, finite entries
      if(!is_minf(d.lo[j])) vp_assert(same_bits(lo[j], d.lo[j]), 5);
      if(!is_pinf(d.up[j])) vp_assert(same_bits(up[j], d.up[j]), 6);
      vp_assert(user_obj(lp, mo[j]) == d.obj[j], 7);
      vp_assert(ob[j] == d.obj[j], 8);
   }
   for(int i = 0; i < NR; ++i)
   {
      vp_assert(same_bits(lp.lhsUnscaled(i), d.lhs[i]), 9);
      vp_assert(same_bits(lp.rhsUnscaled(i), d.rhs[i]), 10);
      if(!is_minf(d.lhs[i])) vp_assert(same_bits(lh[i], d.lhs[i]), 11);
      if(!is_pinf(d.rhs[i])) vp_assert(same_bits(rh[i], d.rhs[i]), 12);
   }
   vp_cover(1);
}

// the vector forms on infinite entries: what the user reads for an infinite bound must still be infinite
extern "C" void h_c09_getters_vecinf()
{
   LP lp; Dense<NR, NC> d; Sc sc; int ce[NC], re[NR];
   scaled_lp(lp, d, sc, ce, re);
   VectorBase<double> lo(NC), up(NC), lh(NR), rh(NR);
   lp.getLowerUnscaled(lo); lp.getUpperUnscaled(up);
   lp.getLhsUnscaled(lh); lp.getRhsUnscaled(rh);
   for(int j = 0; j < NC; ++j)
   {
      if(is_minf(d.lo[j])) vp_assert(is_minf(lo[j]), 1);
      if(is_pinf(d.up[j])) vp_assert(is_pinf(up[j]), 2);
   }
   for(int i = 0; i < NR; ++i)
   {
      if(is_minf(d.lhs[i])) vp_assert(is_minf(lh[i]), 3);
      if(is_pinf(d.rhs[i])) vp_assert(is_pinf(rh[i]), 4);
   }
   vp_cover(1);
}
