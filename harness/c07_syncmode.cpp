// C07-O3: setIntParam(SYNCMODE, v) - transitions between SYNCMODE_ONLYREAL / SYNCMODE_AUTO / SYNCMODE_MANUAL (soplex.hpp 6235-6264)
// soplex.h: ONLYREAL "store only real LP", AUTO "automatic sync of real and rational LP", MANUAL "user sync of real and rational LP".
//
// Contract style. Solver build: `this` is typed zero memory with a real Settings object; _realLP / _rationalLP are raw objects;
// _syncLPRational / _syncLPReal / _ensureRationalLP / SPxLPRational::changeSense / SPxLPReal::spxSense are replaced by recording
// models; the abstract fact "the two LPs are in sync" is a shadow flag (arbitrary in MANUAL mode, true in AUTO mode, set by the
// sync models). Native build (replay on the real code): a real SoPlex object with a small LP brought into the same abstract
// state through the public API; "in sync" is then the real areLPsInSync(), the sense is read from the real rational LP.
#include "soplex_all.h"
#include <new>
using namespace soplex;
typedef SoPlex SP;
typedef SPxLPBase<double> RLP;
typedef SPxLPBase<Rational> QLP;

union SoPlexMem { SP sp; SoPlexMem() {} ~SoPlexMem() {} };
#ifndef VP_NATIVE
static SoPlexMem mem;
union RLPMem { RLP lp; RLPMem() {} ~RLPMem() {} };
static RLPMem rlpmem;
#endif
static bool g_synced;            // shadow: real and rational LP hold the same data
static bool g_maximize;          // sense of the real LP
static int g_nsyncQ, g_nsyncR, g_nensure, g_nsense, g_senseArg, g_ndtor;

#ifndef VP_NATIVE
// stand-in rational LP: raw memory plus a genuine vtable (the base constructor is replaced by a no-op), so that the virtual
// calls setIntParam makes on it (changeSense, destructor) are recorded
struct FakeQ : public QLP
{
   void changeSense(QLP::SPxSense sns) override { g_nsense++; g_senseArg = (int)sns; }
   ~FakeQ() override { g_ndtor++; }
};
static QLP* new_fakeq() { void* m = malloc(sizeof(FakeQ)); return new(m) FakeQ(); }
extern "C" {
void m_qlp_ctor(QLP* self) { }
void m_ensureRationalLP(SP* self)
{
   g_nensure++;
   if(self->_rationalLP == nullptr) self->_rationalLP = new_fakeq();
}
void m_syncLPRational(SP* self, bool time)
{
   g_nsyncQ++;
   if(self->_rationalLP == nullptr) self->_rationalLP = new_fakeq();
   g_synced = true;
}
RLP::SPxSense m_rlp_spxSense(const RLP* self) { return g_maximize ? RLP::MAXIMIZE : RLP::MINIMIZE; }
}
#endif

static SP* make_solver(int prev, bool synced)
{
#ifdef VP_NATIVE
   SP* sp = new SP();
   sp->setIntParam(SP::VERBOSITY, 0);
   sp->setIntParam(SP::OBJSENSE, g_maximize ? SP::OBJSENSE_MAXIMIZE : SP::OBJSENSE_MINIMIZE);
   DSVectorReal dummy;
   sp->addColReal(LPColReal(1.0, dummy, 4.0, 0.0));
   DSVectorReal r1(1); r1.add(0, 1.0);
   sp->addRowReal(LPRowReal(1.0, r1, 3.0));
   if(prev == SP::SYNCMODE_AUTO) sp->setIntParam(SP::SYNCMODE, SP::SYNCMODE_AUTO);
   if(prev == SP::SYNCMODE_MANUAL)
   {
      sp->setIntParam(SP::SYNCMODE, SP::SYNCMODE_MANUAL);
      sp->syncLPRational();
      if(!synced) sp->changeLowerReal(0, 0.5);     // MANUAL: only the real LP is changed
   }
#else
   SP* sp = &mem.sp;
   SP::Settings* st = new SP::Settings();
   st->_intParamValues[SP::SYNCMODE] = prev;
   sp->_currentSettings = st;
   sp->_realLP = &rlpmem.lp;
   sp->_rationalLP = prev == SP::SYNCMODE_ONLYREAL ? nullptr : new_fakeq();
   g_synced = synced;
#endif
   return sp;
}
static bool synced_now(SP* sp)
{
#ifdef VP_NATIVE
   // (not areLPsInSync: it accepts any real value next to an exactly representable rational, see isAdjacentTo in rational.h)
   if(sp->_rationalLP == nullptr || sp->numRowsRational() != sp->numRows() || sp->numColsRational() != sp->numCols()) return false;
   for(int j = 0; j < sp->numCols(); ++j)
      if((double)sp->lowerRational(j) != sp->lowerReal(j) || (double)sp->upperRational(j) != sp->upperReal(j) || (double)sp->objRational(j) != sp->objReal(j)) return false;
   for(int i = 0; i < sp->numRows(); ++i)
      if((double)sp->lhsRational(i) != sp->lhsReal(i) || (double)sp->rhsRational(i) != sp->rhsReal(i)) return false;
   return (int)sp->_rationalLP->spxSense() == (int)sp->_realLP->spxSense();
#else
   return sp->_rationalLP != nullptr && g_synced;
#endif
}

static void check_syncmode(bool strictAuto)
{
   int prev = vp_int_in(0, 2);
   bool synced0 = vp_nondet_bool();
   if(prev == SP::SYNCMODE_AUTO) synced0 = true;        // AUTO keeps the LPs in sync (C07-O1)
   if(prev == SP::SYNCMODE_ONLYREAL) synced0 = false;   // there is no rational LP
   g_maximize = vp_nondet_bool();
   int v = vp_int_in(-1, 3);
   bool init = vp_nondet_bool();
   SP* sp = make_solver(prev, synced0);
   const QLP* q0 = sp->_rationalLP;
   bool ok = sp->setIntParam(SP::SYNCMODE, v, init);
   bool valid = v >= 0 && v <= 2;
   vp_assert(ok == valid, 1);
   if(!valid || (!init && v == prev))
   {
      // rejected, or nothing to do: no effect
      vp_assert(sp->intParam(SP::SYNCMODE) == prev, 2);
      vp_assert(sp->_rationalLP == q0, 3);
#ifndef VP_NATIVE
      vp_assert(g_nsyncQ == 0 && g_nsyncR == 0 && g_nensure == 0 && g_nsense == 0, 4);
#endif
   }
   else
   {
      vp_assert(sp->intParam(SP::SYNCMODE) == v, 5);
      // the rational LP exists exactly in the modes that need it
      vp_assert((sp->_rationalLP != nullptr) == (v != SP::SYNCMODE_ONLYREAL), 6);
      if(v == SP::SYNCMODE_AUTO)
      {
         // coming from ONLYREAL the rational LP is (re)built from the real LP
         if(prev == SP::SYNCMODE_ONLYREAL) vp_assert(synced_now(sp), 7);
         // AUTO promises that the two LPs are kept identical from now on: they must be identical when the mode is entered
         if(strictAuto) vp_assert(synced_now(sp), 8);
#ifndef VP_NATIVE
         vp_assert(g_nsyncR == 0, 9);                          // the user's real LP is never overwritten by a mode switch
         vp_assert(g_nsyncQ == (prev == SP::SYNCMODE_ONLYREAL ? 1 : 0) || strictAuto, 10);
#endif
      }
      if(v == SP::SYNCMODE_MANUAL)
      {
         // "user sync": the switch itself copies nothing, but the rational LP gets the optimisation sense of the real LP
         if(prev == SP::SYNCMODE_MANUAL) vp_assert(synced_now(sp) == synced0, 11);
#ifdef VP_NATIVE
         vp_assert((sp->_rationalLP->spxSense() == QLP::MAXIMIZE) == g_maximize, 12);
#else
         vp_assert(g_nsense == 1 && g_senseArg == (int)(g_maximize ? QLP::MAXIMIZE : QLP::MINIMIZE), 12);
         vp_assert(g_nsyncQ == 0 && g_nsyncR == 0, 13);
         vp_assert(prev != SP::SYNCMODE_ONLYREAL || g_nensure >= 1, 14);
#endif
      }
#ifndef VP_NATIVE
      // the old rational LP is destroyed exactly when leaving for ONLYREAL
      if(v == SP::SYNCMODE_ONLYREAL) vp_assert(g_nsyncQ == 0 && g_nensure == 0 && g_ndtor == (prev != SP::SYNCMODE_ONLYREAL ? 1 : 0), 15);
      else vp_assert(g_ndtor == 0, 16);
#endif
   }
   vp_cover(1);
}
extern "C" void h_syncmode() { check_syncmode(false); }
extern "C" void h_syncmode_auto_in_sync() { check_syncmode(true); }
