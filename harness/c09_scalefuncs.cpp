// C09-O3: data changed while (persistent) scaling is active is stored consistently with the existing scale factors.
//   h_c09_scale_inverse   : scaleObj/scaleElement/scaleLower/scaleUpper/scaleLhs/scaleRhs are inverse to the corresponding unscaled
//                           getter (store scaleX(v) through the write accessor, read XUnscaled == v bit for bit), finite v
//   h_c09_change_scalar   : SPxLPBase::changeLower/Upper/Lhs/Rhs/Obj/MaxObj(idx, v, scale=true): afterwards the unscaled view
//                           shows exactly the new value (infinite stays infinite), everything else is unchanged
//   h_c09_change_element  : SPxLPBase::changeElement(i, j, v, scale=true): same, and both matrix copies agree
//   h_c09_change_vectors  : the vector forms changeLower/Upper/Lhs/Rhs/Obj/MaxObj(vec, scale=true), finite values: unscaled view == vec
//   h_c09_change_vecinf   : the vector forms with infinite entries: the bound STORED in the scaled LP must still be infinite
//                           (as applyScaling, the scalar change* and unscale() all assume), likewise scaleLower/Upper/Lhs/Rhs(+-infinity)
// Reference = dense copy `d` of the LP taken before scaling, updated by the harness.
#include "lp_build.h"
using namespace soplex; using namespace vph;
// shape: -DVNR=.. -DVNC=.. (not NR/NC on the command line: lp_build.h uses these names for template parameters)
#ifdef VNR
#define NR VNR
#define NC VNC
#else
#define NR 2
#define NC 2
#endif
#ifndef MASK
#define MASK 0xF
#endif
#ifndef EMAX
#define EMAX 30
#endif
#ifndef KEXP
#define KEXP 10
#endif
#ifndef TI
#define TI 1
#define TJ 0
#endif
#define HAS(i, j) ((MASK >> ((i) * NC + (j))) & 1u)
static bool is_pinf(double x) { return x >= (double)infinity; }
static bool is_minf(double x) { return x <= -(double)infinity; }

static void scaled_lp(LP& lp, Dense<NR, NC>& d, Sc& sc, int* ce, int* re)
{
   int mn = vp_int_in(0, 1);
   lp.changeSense(mn ? SPxLPBase<double>::MINIMIZE : SPxLPBase<double>::MAXIMIZE);
   build<NR, NC>(lp, d, MASK, 7);
   std::shared_ptr<Tolerances> tol = std::make_shared<Tolerances>();
   sc.setTolerances(tol);
   lp.setTolerances(tol);
   sc.setup(lp);                                   // sizes + zeroes the exponent arrays, lp.lp_scaler = &sc
   for(int j = 0; j < NC; ++j) { ce[j] = vp_int_in(-EMAX, EMAX); lp.cexp()[j] = ce[j]; }
   for(int i = 0; i < NR; ++i) { re[i] = vp_int_in(-EMAX, EMAX); lp.rexp()[i] = re[i]; }
   sc.applyScaling(lp);
}
// m*2^k, m in -7..7, k in -KEXP..KEXP
static double fin_val(bool nonzero)
{
   int m = vp_int_in(-7, 7);
   int k = vp_int_in(-KEXP, KEXP);
   if(nonzero) vp_assume(m != 0);
   return ldexp((double)m, k);
}
// finite value or the infinity of the given sign
static double val_or_inf(bool upper)
{
   int inf = vp_int_in(0, 1);
   double v = fin_val(false);
   return inf ? (upper ? (double)infinity : -(double)infinity) : v;
}
static double user_obj(const LP& lp, double maxobj) { return lp.spxSense() == SPxLPBase<double>::MINIMIZE ? -maxobj : maxobj; }

// the whole unscaled view of the scaled LP (through the scaler's scalar getters) equals the dense reference;
// both matrix copies hold the same numbers   (assertion ids 21..27; ids must be literals)
static void assert_view(const LP& lp, const Sc& sc, const Dense<NR, NC>& d)
{
   for(int j = 0; j < NC; ++j)
   {
      vp_assert(same_bits(sc.lowerUnscaled(lp, j), d.lo[j]), 21);
      vp_assert(same_bits(sc.upperUnscaled(lp, j), d.up[j]), 22);
      vp_assert(user_obj(lp, sc.maxObjUnscaled(lp, j)) == d.obj[j], 23);
   }
   for(int i = 0; i < NR; ++i)
   {
      vp_assert(same_bits(sc.lhsUnscaled(lp, i), d.lhs[i]), 24);
      vp_assert(same_bits(sc.rhsUnscaled(lp, i), d.rhs[i]), 25);
      for(int j = 0; j < NC; ++j)
      {
         vp_assert(sc.getCoefUnscaled(lp, i, j) == d.a[i][j], 26);
         vp_assert(same_bits(rowcoef(lp, i, j), colcoef(lp, i, j)), 27);
      }
   }
}

extern "C" void h_c09_scale_inverse()
{
   LP lp; Dense<NR, NC> d; Sc sc; int ce[NC], re[NR];
   scaled_lp(lp, d, sc, ce, re);
   VectorBase<double> ov(NC);
   double oref[NC];
   for(int j = 0; j < NC; ++j)
   {
      double vl = fin_val(false);
      double vu = fin_val(false);
      double vo = fin_val(false);
      lp.lower_w(j) = sc.scaleLower(lp, j, vl);
      lp.upper_w(j) = sc.scaleUpper(lp, j, vu);
      lp.maxObj_w(j) = sc.scaleObj(lp, j, vo);
      vp_assert(same_bits(sc.lowerUnscaled(lp, j), vl), 1);
      vp_assert(same_bits(sc.upperUnscaled(lp, j), vu), 2);
      vp_assert(same_bits(sc.maxObjUnscaled(lp, j), vo), 3);
      oref[j] = fin_val(false);
      ov[j] = oref[j];
   }
   for(int i = 0; i < NR; ++i)
   {
      double vl = fin_val(false);
      double vr = fin_val(false);
      lp.lhs_w(i) = sc.scaleLhs(lp, i, vl);
      lp.rhs_w(i) = sc.scaleRhs(lp, i, vr);
      vp_assert(same_bits(sc.lhsUnscaled(lp, i), vl), 4);
      vp_assert(same_bits(sc.rhsUnscaled(lp, i), vr), 5);
      for(int j = 0; j < NC; ++j) if(HAS(i, j))
      {
         double va = fin_val(true);
         SVectorBase<double>& col = lp.colVector_w(j);
         col.value(col.pos(i)) = sc.scaleElement(lp, i, j, va);
         vp_assert(same_bits(sc.getCoefUnscaled(lp, i, j), va), 6);
      }
   }
   // vector form of scaleObj
   sc.scaleObj(lp, ov);
   for(int j = 0; j < NC; ++j)
   {
      lp.maxObj_w(j) = ov[j];
      vp_assert(same_bits(sc.maxObjUnscaled(lp, j), oref[j]), 7);
   }
   vp_cover(1);
}

extern "C" void h_c09_change_scalar()
{
   LP lp; Dense<NR, NC> d; Sc sc; int ce[NC], re[NR];
   scaled_lp(lp, d, sc, ce, re);
   int j1 = vp_int_in(0, NC - 1); double v1 = val_or_inf(false);
   lp.changeLower(j1, v1, true);              d.lo[j1] = v1;
   int j2 = vp_int_in(0, NC - 1); double v2 = val_or_inf(true);
   lp.changeUpper(j2, v2, true);              d.up[j2] = v2;
   int i3 = vp_int_in(0, NR - 1); double v3 = val_or_inf(false);
   lp.changeLhs(i3, v3, true);                d.lhs[i3] = v3;
   int i4 = vp_int_in(0, NR - 1); double v4 = val_or_inf(true);
   lp.changeRhs(i4, v4, true);                d.rhs[i4] = v4;
   int j5 = vp_int_in(0, NC - 1); double v5 = fin_val(false);
   lp.changeObj(j5, v5, true);                d.obj[j5] = v5;
   int j6 = vp_int_in(0, NC - 1); double v6 = fin_val(false);
   lp.changeMaxObj(j6, v6, true);             d.obj[j6] = user_obj(lp, v6);
   assert_view(lp, sc, d);
   vp_assert(lp.isScaled(), 10);
   for(int j = 0; j < NC; ++j) vp_assert(lp.cexp()[j] == ce[j], 11);
   for(int i = 0; i < NR; ++i) vp_assert(lp.rexp()[i] == re[i], 12);
   vp_cover(1);
}

// changeElement(i, j, v, scale=true): an existing nonzero is replaced by another nonzero (no structural change: no relocation
// inside the SVSets); target position (TI,TJ) concrete
extern "C" void h_c09_change_element()
{
   LP lp; Dense<NR, NC> d; Sc sc; int ce[NC], re[NR];
   scaled_lp(lp, d, sc, ce, re);
   const int i7 = TI, j7 = TJ;                 // concrete target (a symbolic position makes the SVSet lookups explode)
   vp_assume(HAS(i7, j7));
   double v7 = fin_val(true);
   lp.changeElement(i7, j7, v7, true);        d.a[i7][j7] = v7;
   assert_view(lp, sc, d);
   vp_assert(lp.isScaled(), 10);
   for(int i = 0; i < NR; ++i)
   {
      int cnt = 0;
      for(int j = 0; j < NC; ++j) if(HAS(i, j)) ++cnt;
      vp_assert(lp.rowVector(i).size() == cnt, 11);            // no nonzero added or removed
   }
   vp_cover(1);
}

static void change_vectors(bool allow_inf)
{
   LP lp; Dense<NR, NC> d; Sc sc; int ce[NC], re[NR];
   scaled_lp(lp, d, sc, ce, re);
   VectorBase<double> lo(NC), up(NC), ob(NC), lh(NR), rh(NR);
   for(int j = 0; j < NC; ++j)
   {
      double a = allow_inf ? val_or_inf(false) : fin_val(false);
      double b = allow_inf ? val_or_inf(true) : fin_val(false);
      double c = fin_val(false);
      lo[j] = a; up[j] = b; ob[j] = c;
      d.lo[j] = a; d.up[j] = b; d.obj[j] = c;
   }
   for(int i = 0; i < NR; ++i)
   {
      double a = allow_inf ? val_or_inf(false) : fin_val(false);
      double b = allow_inf ? val_or_inf(true) : fin_val(false);
      lh[i] = a; rh[i] = b;
      d.lhs[i] = a; d.rhs[i] = b;
   }
   lp.changeLower(lo, true);
   lp.changeUpper(up, true);
   lp.changeLhs(lh, true);
   lp.changeRhs(rh, true);
   if(!allow_inf)
   {
      int which = vp_int_in(0, 1);
      if(which) lp.changeObj(ob, true);
      else
      {
         lp.changeMaxObj(ob, true);
         for(int j = 0; j < NC; ++j) d.obj[j] = user_obj(lp, d.obj[j]);
      }
      assert_view(lp, sc, d);
   }
   else
   {
      // infinite entries: what is stored in the scaled LP must still be infinite, and so must the unscaled view
      for(int j = 0; j < NC; ++j)
      {
         if(is_minf(d.lo[j])) { vp_assert(is_minf(lp.lower(j)), 1); vp_assert(is_minf(sc.lowerUnscaled(lp, j)), 2); }
         if(is_pinf(d.up[j])) { vp_assert(is_pinf(lp.upper(j)), 3); vp_assert(is_pinf(sc.upperUnscaled(lp, j)), 4); }
         vp_assert(is_minf(sc.scaleLower(lp, j, -(double)infinity)), 9);
         vp_assert(is_pinf(sc.scaleUpper(lp, j, (double)infinity)), 10);
      }
      for(int i = 0; i < NR; ++i)
      {
         if(is_minf(d.lhs[i])) { vp_assert(is_minf(lp.lhs(i)), 5); vp_assert(is_minf(sc.lhsUnscaled(lp, i)), 6); }
         if(is_pinf(d.rhs[i])) { vp_assert(is_pinf(lp.rhs(i)), 7); vp_assert(is_pinf(sc.rhsUnscaled(lp, i)), 8); }
         vp_assert(is_minf(sc.scaleLhs(lp, i, -(double)infinity)), 11);
         vp_assert(is_pinf(sc.scaleRhs(lp, i, (double)infinity)), 12);
      }
   }
   vp_cover(1);
}
extern "C" void h_c09_change_vectors() { change_vectors(false); }
extern "C" void h_c09_change_vecinf() { change_vectors(true); }
