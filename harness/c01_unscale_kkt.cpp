// C01-O1 (scaling leg) = C09-O5: an exact primal-dual solution of the SCALED LP becomes, through the real
// SPxScaler::unscalePrimal/unscaleSlacks/unscaleDual/unscaleRedCost, an exact primal-dual solution of the ORIGINAL LP
// with the same objective value.
//
// Convention: the LP is a MINIMIZATION problem  min c^T x,  lhs <= A x <= rhs,  lo <= x <= up ; SPxLPBase stores maxObj = -c,
// so the (min-)objective of the scaled LP is c' = -lp.maxObj().  KKT conditions (all exact, no tolerance):
//    (P) lo <= x <= up,  s = A x,  lhs <= s <= rhs                                              -> h_c01_unscale_kkt_primal (+ objective value)
//    (D) r = c - A^T y,  r_j > 0 => x_j = lo_j,  r_j < 0 => x_j = up_j,  y_i > 0 => s_i = lhs_i,  y_i < 0 => s_i = rhs_i   -> h_c01_unscale_kkt_dual
// x', y' of the scaled LP are arbitrary m*2^k; s' = A'x' and r' = c' - A'^T y' are computed from the scaled LP's own stored data (row
// copy for s', column copy for r'); the inequality/complementarity conditions are ASSUMED on the scaled data as stored in the LP object;
// the corresponding conditions are ASSERTED for the vectors produced by the real unscale* routines on the dense copy `d` of the
// ORIGINAL data: the oracle is the KKT algebra, not the exponent formula.  In (D) the primal part (x', s') is an arbitrary pair of
// vectors (its consistency s' = A'x' is the business of (P)).
// All numbers are small ints times small powers of two, so every sum/product below is exact in double arithmetic.
// The algebraic identities are asserted BEFORE the assumptions are made (they hold for arbitrary x', y'), which keeps the solver's
// work per property small.  With -DEXPS={..} the exponent vector is concrete: with symbolic exponents the SAT back end needs
// about a minute per dot product to see that a floating-point sum of products is invariant under the scaling (measured).
#include "lp_build.h"
using namespace soplex; using namespace vph;
// shape: -DVNR=.. -DVNC=.. (not NR/NC on the command line: lp_build.h uses these names for template parameters)
#ifdef VNR
#define NR VNR
#define NC VNC
#else
#define NR 2
#define NC 2
#endif
#ifndef MASK
#define MASK 0xF
#endif
#ifndef EMAX
#define EMAX 4
#endif
#ifndef DMAX
#define DMAX 4
#endif
#ifndef KMAX
#define KMAX 4
#endif
#ifndef MMAX
#define MMAX 7
#endif
#define HAS(i, j) ((MASK >> ((i) * NC + (j))) & 1u)

// arbitrary m*2^k, m in -MMAX..MMAX, k in -KMAX..KMAX.  MMAX == 1 (quick tier): 0 or +-2^k built from the constants +-1.0, so that
// the mantissa is a constant for the solver and the floating-point products below need no multiplier reasoning.
static double arb()
{
   int m = vp_int_in(-MMAX, MMAX);
   int k = vp_int_in(-KMAX, KMAX);
#if MMAX == 1
   double one = (m < 0) ? -1.0 : 1.0;
   return (m == 0) ? 0.0 : ldexp(one, k);
#else
   return ldexp((double)m, k);
#endif
}
// real minimization LP, real scaler, scaled by the real applyScaling
static void scaled_min_lp(LP& lp, Dense<NR, NC>& d, Sc& sc, int* ce, int* re)
{
   lp.changeSense(SPxLPBase<double>::MINIMIZE);
   build<NR, NC>(lp, d, MASK, DMAX);                 // d.obj = c (user's min objective); lp.maxObj = -c
   sc.setup(lp);
#ifdef EXPS
   static const int XE[NC + NR] = EXPS;              // {column exponents..., row exponents...}
   for(int j = 0; j < NC; ++j) { ce[j] = XE[j]; lp.cexp()[j] = ce[j]; }
   for(int i = 0; i < NR; ++i) { re[i] = XE[NC + i]; lp.rexp()[i] = re[i]; }
#else
   for(int j = 0; j < NC; ++j) { ce[j] = vp_int_in(-EMAX, EMAX); lp.cexp()[j] = ce[j]; }
   for(int i = 0; i < NR; ++i) { re[i] = vp_int_in(-EMAX, EMAX); lp.rexp()[i] = re[i]; }
#endif
   sc.applyScaling(lp);
}

extern "C" void h_c01_unscale_kkt_primal()
{
   LP lp; Dense<NR, NC> d; Sc sc; int ce[NC], re[NR];
   scaled_min_lp(lp, d, sc, ce, re);
   VectorBase<double> x(NC), s(NR);
   double xs[NC], ss[NR];
   for(int j = 0; j < NC; ++j) { xs[j] = arb(); x[j] = xs[j]; }
   // slack and objective value w.r.t. the SCALED LP as stored
   double objs = 0.0;
   for(int i = 0; i < NR; ++i)
   {
      double a = 0.0;
      for(int j = 0; j < NC; ++j) if(HAS(i, j)) a += rowcoef(lp, i, j) * xs[j];
      ss[i] = a; s[i] = a;
   }
   for(int j = 0; j < NC; ++j) objs += (-lp.maxObj(j)) * xs[j];

   sc.unscalePrimal(lp, x);                           // the real routines
   sc.unscaleSlacks(lp, s);

   // identities on the ORIGINAL data
   double obj = 0.0;
   for(int i = 0; i < NR; ++i)
   {
      double a = 0.0;
      for(int j = 0; j < NC; ++j) if(HAS(i, j)) a += d.a[i][j] * x[j];
      vp_assert(s[i] == a, 5);                                   // slack = row activity
   }
   for(int j = 0; j < NC; ++j) obj += d.obj[j] * x[j];
   vp_assert(obj == objs, 9);                                    // objective value unchanged
   // primal feasibility: assumed for the scaled LP as stored, asserted for the original LP
   for(int j = 0; j < NC; ++j) vp_assume(lp.lower(j) <= xs[j] && xs[j] <= lp.upper(j));
   for(int i = 0; i < NR; ++i) vp_assume(lp.lhs(i) <= ss[i] && ss[i] <= lp.rhs(i));
   for(int j = 0; j < NC; ++j) vp_assert(d.lo[j] <= x[j] && x[j] <= d.up[j], 1);
   for(int i = 0; i < NR; ++i) vp_assert(d.lhs[i] <= s[i] && s[i] <= d.rhs[i], 6);
   vp_cover(1);
}

extern "C" void h_c01_unscale_kkt_dual()
{
   LP lp; Dense<NR, NC> d; Sc sc; int ce[NC], re[NR];
   scaled_min_lp(lp, d, sc, ce, re);
   VectorBase<double> x(NC), s(NR), y(NR), r(NC);
   double xs[NC], ss[NR], ys[NR], rs[NC];
   for(int j = 0; j < NC; ++j) { xs[j] = arb(); x[j] = xs[j]; }
   for(int i = 0; i < NR; ++i) { ss[i] = arb(); s[i] = ss[i]; }
   for(int i = 0; i < NR; ++i) { ys[i] = arb(); y[i] = ys[i]; }
   // reduced cost w.r.t. the SCALED LP as stored (column copy)
   for(int j = 0; j < NC; ++j)
   {
      double a = 0.0;
      for(int i = 0; i < NR; ++i) if(HAS(i, j)) a += colcoef(lp, i, j) * ys[i];
      rs[j] = (-lp.maxObj(j)) - a; r[j] = rs[j];
   }

   sc.unscalePrimal(lp, x);                           // the real routines
   sc.unscaleSlacks(lp, s);
   sc.unscaleDual(lp, y);
   sc.unscaleRedCost(lp, r);

   // stationarity on the ORIGINAL data
   for(int j = 0; j < NC; ++j)
   {
      double a = 0.0;
      for(int i = 0; i < NR; ++i) if(HAS(i, j)) a += d.a[i][j] * y[i];
      vp_assert(r[j] == d.obj[j] - a, 2);
   }
   // dual sign conditions / complementarity (minimization): assumed for the scaled LP as stored, asserted for the original LP
   for(int j = 0; j < NC; ++j)
   {
      vp_assume(!(rs[j] > 0.0) || xs[j] == lp.lower(j));
      vp_assume(!(rs[j] < 0.0) || xs[j] == lp.upper(j));
   }
   for(int i = 0; i < NR; ++i)
   {
      vp_assume(!(ys[i] > 0.0) || ss[i] == lp.lhs(i));
      vp_assume(!(ys[i] < 0.0) || ss[i] == lp.rhs(i));
   }
   for(int j = 0; j < NC; ++j)
   {
      vp_assert(!(r[j] > 0.0) || x[j] == d.lo[j], 3);
      vp_assert(!(r[j] < 0.0) || x[j] == d.up[j], 4);
   }
   for(int i = 0; i < NR; ++i)
   {
      vp_assert(!(y[i] > 0.0) || s[i] == d.lhs[i], 7);
      vp_assert(!(y[i] < 0.0) || s[i] == d.rhs[i], 8);
   }
   vp_cover(1);
}
