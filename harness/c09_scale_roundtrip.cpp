// C09-O1/O2: applyScaling then unscale reproduces the LP bit for bit; unscaled getters on the scaled LP return the original data
#include "lp_build.h"
using namespace soplex; using namespace vph;
#ifndef NR
#define NR 2
#define NC 2
#endif
#ifndef MASK
#define MASK 0xF
#endif
#ifndef EMAX
#define EMAX 30
#endif
static void set_exps(LP& lp, int* ce, int* re)
{
   lp.cexp().reSize(NC); lp.rexp().reSize(NR);
   for(int j = 0; j < NC; ++j) { ce[j] = vp_int_in(-EMAX, EMAX); lp.cexp()[j] = ce[j]; }
   for(int i = 0; i < NR; ++i) { re[i] = vp_int_in(-EMAX, EMAX); lp.rexp()[i] = re[i]; }
}
extern "C" void h_c09_roundtrip()
{
   LP lp; Dense<NR, NC> d; build<NR, NC>(lp, d, MASK, 8);
   int ce[NC], re[NR]; set_exps(lp, ce, re);
   Sc sc;
   sc.applyScaling(lp);
   vp_assert(lp.isScaled(), 1);
   // scaled data is the original times powers of two (exactly)
   for(int i = 0; i < NR; ++i) for(int j = 0; j < NC; ++j)
   {
      vp_assert(rowcoef(lp, i, j) == ldexp(d.a[i][j], re[i] + ce[j]), 2);
      vp_assert(colcoef(lp, i, j) == ldexp(d.a[i][j], re[i] + ce[j]), 3);
   }
   // unscaled getters on the scaled LP give back the original data bit for bit
   for(int j = 0; j < NC; ++j)
   {
      vp_assert(same_bits(sc.lowerUnscaled(lp, j), d.lo[j]) && same_bits(sc.upperUnscaled(lp, j), d.up[j]), 4);
      vp_assert(same_bits(sc.maxObjUnscaled(lp, j), lp.spxSense() == SPxLPBase<double>::MINIMIZE ? -d.obj[j] : d.obj[j]) || (d.obj[j] == 0.0 && sc.maxObjUnscaled(lp, j) == 0.0), 5);
   }
   for(int i = 0; i < NR; ++i)
   {
      vp_assert(same_bits(sc.lhsUnscaled(lp, i), d.lhs[i]) && same_bits(sc.rhsUnscaled(lp, i), d.rhs[i]), 6);
      for(int j = 0; j < NC; ++j) vp_assert(sc.getCoefUnscaled(lp, i, j) == d.a[i][j], 7);
   }
   sc.unscale(lp);
   vp_assert(!lp.isScaled(), 8);
   for(int i = 0; i < NR; ++i)
   {
      for(int j = 0; j < NC; ++j) { vp_assert(same_bits(rowcoef(lp, i, j), d.a[i][j]) || d.a[i][j] == 0.0, 9); vp_assert(same_bits(colcoef(lp, i, j), d.a[i][j]) || d.a[i][j] == 0.0, 10); }
      vp_assert(same_bits(lp.lhs(i), d.lhs[i]) && same_bits(lp.rhs(i), d.rhs[i]), 11);
   }
   for(int j = 0; j < NC; ++j)
   {
      vp_assert(same_bits(lp.lower(j), d.lo[j]) && same_bits(lp.upper(j), d.up[j]), 12);
      vp_assert(lp.obj(j) == d.obj[j], 13);
   }
   vp_cover(1);
}
