// C05-O2: the basis-inverse queries of SoPlexBase<double> on a (persistently) scaled LP:
//   getBasisInverseRowReal, getBasisInverseColReal, getBasisInverseTimesVecReal, multBasis, multBasisTranspose   (src/soplex.hpp)
// agree with the basis matrix B of the LP the CALLER sees (unscale=true: the unscaled LP; unscale=false or LP not scaled: the
// matrix the solver holds), and (inds, ninds) lists exactly the nonzero positions of the result.
//
// What is encoded: ONLY the wrapper logic (which exponents are applied to which positions before/after the LU solve, the copy
// into coef/inds/ninds). The LU solves SPxBasisBase<double>::coSolve(SSVector&, const SVector&), solve(SSVector&, const SVector&),
// solve(Vector&, const Vector&) are REPLACED by exact models (m_cosolve_ss, m_solve_ss, m_solve_vv) for the 2x2 matrix L the
// solver holds (L = Bs if the LP is scaled, else B); multBaseWith/multWithBase are the real code on a scripted matrix[] array
// holding the columns of L. In the NATIVE build nothing is replaced: a real SoPlex object with the real LP, really scaled by
// SPxScaler::applyScaling with the scripted exponents, basis set through setBasis, basis order as scripted, real LU.
//
// Derivation of the scaled basis matrix (spxscaler.hpp applyScaling: every stored a_ij becomes a_ij * 2^(rowexp_i + colexp_j),
// i.e. A' = R A C with R = diag(2^rowexp), C = diag(2^colexp); the slack column of row i is the unit vector e_i in the scaled
// and in the unscaled LP alike - SPxSolverBase::vector(SPxRowId) returns unitVecs[i] in column representation):
//   position k holds structural column j :  Bs e_k = R (A e_j) 2^colexp_j  = R (B e_k) 2^colexp_j
//   position k holds the slack of row i  :  Bs e_k = e_i = R e_i 2^(-rowexp_i) = R (B e_k) 2^(-rowexp_i)
//   => Bs = R B Ct,  Ct = diag(ct_k), ct_k = 2^colexp_j resp. 2^(-rowexp_i);   Bs[i][k] = ldexp(B[i][k], rowexp_i + log2 ct_k).
// The assertions are stated in the caller's space and never use the wrapper's exponent formulas:
//   row query:   coef^T M = e_r^T        column query:  M coef = e_c        solve: sol == v for rhs = M v
//   multBasis:   vec == M v              multBasisTranspose: vec == M^T v
// with M = B when (unscale && scaled), M = L otherwise.
// Shape of B (bound): a signed scaled permutation - column k has its one nonzero +-2^eB[k] in row p[k] (p = identity or swap);
// then every product with B, Bs is an ldexp and every operation of the models, of the real LU (native) and of the reference is
// exact: the assertions are exact equalities. (A general integer 2x2 B with exact adjugate/determinant models was tried first:
// the floating-point multiplications make the solver run > 15 min per obligation.)
#include "lp_build.h"
#include <new>
using namespace soplex; using namespace vph;
typedef SPxSolverBase<double> Solver;
typedef SPxBasisBase<double> Basis;
typedef Solver::VarStatus VS;
#define NR 2
#ifndef NC
#define NC 3
#endif
#ifndef EMAX
#define EMAX 6
#endif
#ifndef BMAX
#define BMAX 4
#endif
#define CANARY 77.0
#define ICANARY 0x5A5A5A5A

struct Script
{
   int scaled;                // _solver.isScaled()
   int unscale;               // the caller's flag
   int kind[NR], num[NR];     // basis position k holds: kind 0 = structural column num[k], kind 1 = the slack of row num[k]
   int rexp[NR], cexp[NC];    // scaling exponents (arbitrary, also when the LP is not scaled: then they must be ignored)
   // unscaled basis matrix B = signed scaled permutation: column k (basis position k) has its one nonzero sB[k] * 2^eB[k] in row p[k]
   int p[NR], sB[NR], eB[NR];
   int eS[NR];                // exponent of the nonzero of column k of the scaled basis matrix Bs = R B Ct
   int eL[NR];                // ... of the matrix L the solver holds
   int eM[NR];                // ... of the matrix M the caller sees
   double nb[NR];             // entries of the nonbasic structural columns (native LP only)
   int xmode, xorder;         // post-state of the sparse solution vector left by the LU model (setup or not, index order)
};
static Script sc;
static int g_calls;           // LU model calls
static const void* g_self;
static inline double sgn(int k, double x) { return sc.sB[k] > 0 ? x : -x; }
static inline double sel(const double* a, int i) { double r = 0.0; for(int q = 0; q < NR; ++q) if(q == i) r = a[q]; return r; }
static inline double Mval(int i, int k) { return sc.p[k] == i ? ldexp(sgn(k, 1.0), sc.eM[k]) : 0.0; }      // M[i][k]
static inline double Lval(int i, int k) { return sc.p[k] == i ? ldexp(sgn(k, 1.0), sc.eL[k]) : 0.0; }      // L[i][k]

enum SlackMode { COLS_ONLY, WITH_SLACK };
static void draw_script(SlackMode sm)
{
   sc.scaled = vp_int_in(0, 1);
   sc.unscale = vp_int_in(0, 1);
   int nslack = 0;
   for(int k = 0; k < NR; ++k)
   {
      sc.kind[k] = (sm == COLS_ONLY) ? 0 : vp_int_in(0, 1);
      sc.num[k] = vp_int_in(0, NC - 1);
      if(sc.kind[k]) vp_assume(sc.num[k] < NR);
      nslack += sc.kind[k];
      for(int l = 0; l < k; ++l) vp_assume(!(sc.kind[l] == sc.kind[k] && sc.num[l] == sc.num[k]));   // distinct basic variables
   }
   if(sm == WITH_SLACK) vp_assume(nslack >= 1);
   for(int i = 0; i < NR; ++i) sc.rexp[i] = vp_int_in(-EMAX, EMAX);
   for(int j = 0; j < NC; ++j) sc.cexp[j] = vp_int_in(-EMAX, EMAX);
   int swap = vp_int_in(0, 1);
   sc.p[0] = swap ? 1 : 0; sc.p[1] = swap ? 0 : 1;
   for(int k = 0; k < NR; ++k)
   {
      int neg = vp_int_in(0, 1);
      sc.sB[k] = neg ? -1 : 1;
      sc.eB[k] = vp_int_in(-BMAX, BMAX);
      // a slack column is the unit vector of its row
      if(sc.kind[k]) vp_assume(sc.p[k] == sc.num[k] && sc.sB[k] == 1 && sc.eB[k] == 0);
   }
   for(int i = 0; i < NR; ++i) sc.nb[i] = vp_small(-4, 4);
   for(int k = 0; k < NR; ++k)
   {
      int ct = 0, re = 0;
      for(int j = 0; j < NC; ++j) if(j == sc.num[k]) ct = sc.kind[k] ? -sc.rexp[j < NR ? j : 0] : sc.cexp[j];
      for(int i = 0; i < NR; ++i) if(i == sc.p[k]) re = sc.rexp[i];
      sc.eS[k] = sc.eB[k] + re + ct;                              // Bs = R B Ct
      sc.eL[k] = sc.scaled ? sc.eS[k] : sc.eB[k];
      sc.eM[k] = (sc.scaled && !sc.unscale) ? sc.eS[k] : sc.eB[k];
   }
   sc.xmode = vp_int_in(0, 1);
   sc.xorder = vp_int_in(0, 1);
}

#ifndef VP_NATIVE
// ---- exact LU models for L (solver build only)
static void dense_of(const SVectorBase<double>& v, double d[NR])
{
   for(int i = 0; i < NR; ++i) d[i] = 0.0;
   for(int p = 0; p < v.size(); ++p)
   {
      int i = v.index(p);
      vp_assert(i >= 0 && i < NR, 90);
      for(int q = 0; q < NR; ++q) if(q == i) d[q] = v.value(p);
   }
}
static void put_ss(SSVectorBase<double>& x, const double y[NR])
{
   vp_assert(x.dim() == NR, 91);
   x.clear();
   double* val = x.altValues();
   for(int i = 0; i < NR; ++i) val[i] = y[i];
   if(sc.xmode == 1)
   {
      int* idx = x.altIndexMem();
      int n = 0;
      if(sc.xorder == 0) { for(int i = 0; i < NR; ++i) if(y[i] != 0.0) idx[n++] = i; }
      else { for(int i = NR - 1; i >= 0; --i) if(y[i] != 0.0) idx[n++] = i; }
      x.setSize(n);
      if(n > 0) x.forceSetup();
   }
}
// y^T L = d^T :  y[p[k]] * L[p[k]][k] = d[k]
static void left_solve(const double d[NR], double y[NR])
{
   for(int k = 0; k < NR; ++k) { double t = ldexp(sgn(k, d[k]), -sc.eL[k]); for(int i = 0; i < NR; ++i) if(i == sc.p[k]) y[i] = t; }
}
// L x = d :  L[p[k]][k] * x[k] = d[p[k]]
static void right_solve(const double d[NR], double y[NR])
{
   for(int k = 0; k < NR; ++k) y[k] = ldexp(sgn(k, sel(d, sc.p[k])), -sc.eL[k]);
}
extern "C" void m_cosolve_ss(Basis* self, SSVectorBase<double>& x, const SVectorBase<double>& rhs)
{
   ++g_calls; g_self = self;
   double d[NR], y[NR];
   dense_of(rhs, d); left_solve(d, y); put_ss(x, y);
}
extern "C" void m_solve_ss(Basis* self, SSVectorBase<double>& x, const SVectorBase<double>& rhs)
{
   ++g_calls; g_self = self;
   double d[NR], y[NR];
   dense_of(rhs, d); right_solve(d, y); put_ss(x, y);
}
extern "C" void m_solve_vv(Basis* self, VectorBase<double>& x, const VectorBase<double>& rhs)
{
   ++g_calls; g_self = self;
   vp_assert(x.dim() == NR && rhs.dim() == NR, 92);
   double d[NR], y[NR];
   for(int i = 0; i < NR; ++i) d[i] = rhs[i];
   right_solve(d, y);
   for(int i = 0; i < NR; ++i) x[i] = y[i];
}
union SoPlexMem { SoPlex sp; SoPlexMem() {} ~SoPlexMem() {} };
static SoPlexMem mem;
static DSVectorBase<double>* g_cols[NR];
#endif
static Sc g_scaler;

static SoPlex* make_soplex()
{
#ifdef VP_NATIVE
   SoPlex* sp = new SoPlex();
   sp->setIntParam(SoPlex::VERBOSITY, 0);
   // the LP: column j = the basis column of the position that holds j, nonbasic columns = nb
   double A[NR][NC];
   for(int j = 0; j < NC; ++j) for(int i = 0; i < NR; ++i) A[i][j] = sc.nb[i];
   for(int k = 0; k < NR; ++k) if(!sc.kind[k]) for(int i = 0; i < NR; ++i) A[i][sc.num[k]] = (i == sc.p[k]) ? ldexp((double)sc.sB[k], sc.eB[k]) : 0.0;
   DSVectorBase<double> e(1);
   for(int j = 0; j < NC; ++j) sp->addColReal(LPColBase<double>(0.0, e, (double)infinity, 0.0));
   for(int i = 0; i < NR; ++i)
   {
      DSVectorBase<double> r(NC);
      for(int j = 0; j < NC; ++j) r.add(j, A[i][j]);
      sp->addRowReal(LPRowBase<double>(0.0, r, (double)infinity));
   }
   Solver* s = &sp->_solver;
   s->setRep(Solver::COLUMN);
   // persistent scaling with the scripted exponents: the real applyScaling on the loaded LP (what _scaler->scale(_solver, true) ends with)
   g_scaler.setup(*s);
   for(int i = 0; i < NR; ++i) s->LPRowSetBase<double>::scaleExp[i] = sc.rexp[i];
   for(int j = 0; j < NC; ++j) s->LPColSetBase<double>::scaleExp[j] = sc.cexp[j];
   if(sc.scaled) g_scaler.applyScaling(*s);
   sp->_scaler = &g_scaler;
   sp->_isRealLPScaled = sc.scaled;
   VS rs[NR], cs[NC];
   for(int i = 0; i < NR; ++i) rs[i] = Solver::ON_LOWER;
   for(int j = 0; j < NC; ++j) cs[j] = Solver::ON_LOWER;
   for(int k = 0; k < NR; ++k) { if(sc.kind[k]) rs[sc.num[k]] = Solver::BASIC; else cs[sc.num[k]] = Solver::BASIC; }
   sp->setBasis(rs, cs);
   if(!sp->_hasBasis || !sp->_isRealLPLoaded || s->rep() != Solver::COLUMN || s->isScaled() != (sc.scaled != 0)) { printf("native setup failed\n"); exit(3); }
   // basis positions as scripted; the factorization is (re)computed from them on the first solve
   for(int k = 0; k < NR; ++k) s->theBaseId[k] = sc.kind[k] ? SPxId(s->rId(sc.num[k])) : SPxId(s->cId(sc.num[k]));
   s->Basis::loadMatrixVecs();
   return sp;
#else
   SoPlex* sp = &mem.sp;
   Solver* s = &sp->_solver;
   LP* lp = new(static_cast<SPxLPBase<double>*>(s)) LP();           // the LP part of the solver is a real, constructed LP (ids, sizes)
   {
      LPColSetBase<double>& cs = *lp; LPRowSetBase<double>& rs = *lp;
      cs.low.reDim(NC); cs.up.reDim(NC); cs.object.reDim(NC); cs.scaleExp.reSize(NC);
      rs.left.reDim(NR); rs.right.reDim(NR); rs.object.reDim(NR); rs.scaleExp.reSize(NR);
      DSVectorBase<double> e(1);
      for(int j = 0; j < NC; ++j) cs.add(0.0, 0.0, e, 1.0);
      for(int i = 0; i < NR; ++i) rs.add(0.0, e, 1.0);
   }
   *(Tolerances**)&sp->_tolerances = new Tolerances();              // shared_ptr without control block: {ptr, nullptr}
   s->Basis::theLP = s;
   s->theRep = Solver::COLUMN;
   s->Basis::thestatus = Basis::REGULAR;
   new(&s->theBaseId) DataArray<SPxId>(NR, NR);
   for(int k = 0; k < NR; ++k) s->theBaseId[k] = sc.kind[k] ? SPxId(s->rId(sc.num[k])) : SPxId(s->cId(sc.num[k]));
   new(&s->unitVecs) Array<UnitVectorBase<double> >(NR);
   for(int i = 0; i < NR; ++i) s->unitVecs[i] = UnitVectorBase<double>(i);
   // matrix[] = the columns of L (structure built with placeholders, numbers written in place)
   new(&s->matrix) DataArray<const SVectorBase<double>*>(NR, NR);
   for(int k = 0; k < NR; ++k)
   {
      g_cols[k] = new DSVectorBase<double>(NR);
      g_cols[k]->add(0, 1.0);
      g_cols[k]->index(0) = sc.p[k];
      g_cols[k]->value(0) = Lval(sc.p[k], k);
      s->matrix[k] = g_cols[k];
   }
   s->matrixIsSetup = true;
   s->factorized = true;
   // scaler: the real setup (points the scaler to the LP's exponent arrays), then the scripted exponents
   g_scaler.setup(*s);
   for(int i = 0; i < NR; ++i) s->LPRowSetBase<double>::scaleExp[i] = sc.rexp[i];
   for(int j = 0; j < NC; ++j) s->LPColSetBase<double>::scaleExp[j] = sc.cexp[j];
   s->_isScaled = sc.scaled;
   sp->_scaler = &g_scaler;
   sp->_realLP = s;
   sp->_hasBasis = true;
   sp->_isRealLPLoaded = true;
   return sp;
#endif
}
static void after_call(SoPlex* sp, int expect_calls)
{
#ifndef VP_NATIVE
   vp_assert(g_calls == expect_calls, 95);
   if(expect_calls > 0) vp_assert(g_self == (const void*)static_cast<Basis*>(&sp->_solver), 96);
#endif
}
// (inds, ninds) = exactly the nonzero positions of coef, each once
static void check_sparsity(const double* coef, const int* inds, int ninds)
{
   int nnz = 0;
   for(int i = 0; i < NR; ++i) if(coef[i] != 0.0) ++nnz;
   vp_assert(ninds == nnz, 20);
   vp_assert(ninds >= 0 && ninds <= NR, 21);
   for(int t = 0; t < NR; ++t) if(t < ninds)
   {
      int ix = inds[t];
      vp_assert(ix >= 0 && ix < NR, 22);
      for(int i = 0; i < NR; ++i) if(i == ix) vp_assert(coef[i] != 0.0, 23);
      for(int u = 0; u < t; ++u) vp_assert(inds[u] != ix, 24);
   }
}
// query row (isrow) or column q of the inverse; outmode 0: (inds, ninds) given, coef zero-initialised by the caller;
// 1: dense (both null); 2: dense, ninds given (must become -1)
static void check_rowcol(SlackMode sm, bool isrow)
{
   draw_script(sm);
   int q = vp_int_in(0, NR - 1);
   int outmode = vp_int_in(0, 2);
   SoPlex* sp = make_soplex();
   double coef[NR + 2]; int inds[NR + 2]; int ninds = ICANARY;
   for(int i = 0; i < NR + 2; ++i) { coef[i] = CANARY; inds[i] = ICANARY; }
   if(outmode == 0) for(int i = 0; i < NR; ++i) coef[1 + i] = 0.0;
   int* pi = outmode == 0 ? inds + 1 : nullptr;
   int* pn = outmode == 1 ? nullptr : &ninds;
   bool ok = isrow ? sp->getBasisInverseRowReal(q, coef + 1, pi, pn, sc.unscale != 0) : sp->getBasisInverseColReal(q, coef + 1, pi, pn, sc.unscale != 0);
   vp_assert(ok, 1);
   after_call(sp, 1);
   vp_assert(coef[0] == CANARY && coef[NR + 1] == CANARY && inds[0] == ICANARY && inds[NR + 1] == ICANARY, 2);
   const double* c = coef + 1;
   if(isrow)    // coef^T M = e_q^T ; column k of M has its one nonzero in row p[k]: (coef^T M)_k = coef[p[k]] * M[p[k]][k]
      for(int k = 0; k < NR; ++k) vp_assert(ldexp(sgn(k, sel(c, sc.p[k])), sc.eM[k]) == (k == q ? 1.0 : 0.0), 3);
   else         // M coef = e_q ; row p[k] of M has its one nonzero in column k: (M coef)_p[k] = M[p[k]][k] * coef[k]
      for(int k = 0; k < NR; ++k) vp_assert(ldexp(sgn(k, c[k]), sc.eM[k]) == (sc.p[k] == q ? 1.0 : 0.0), 4);
   if(outmode == 0) check_sparsity(c, inds + 1, ninds);
   else
   {
      if(outmode == 2) vp_assert(ninds == -1, 5);
      for(int t = 0; t < NR + 2; ++t) vp_assert(inds[t] == ICANARY, 6);
   }
}
extern "C" void h_c05_invrow_col_cols() { check_rowcol(COLS_ONLY, true); vp_cover(1); }
extern "C" void h_c05_invrow_col_slack() { check_rowcol(WITH_SLACK, true); vp_cover(1); }
extern "C" void h_c05_invcol_col_cols() { check_rowcol(COLS_ONLY, false); vp_cover(1); }
extern "C" void h_c05_invcol_col_slack() { check_rowcol(WITH_SLACK, false); vp_cover(1); }

// what 0 = getBasisInverseTimesVecReal, 1 = multBasis, 2 = multBasisTranspose
static void check_vec(SlackMode sm, int what)
{
   draw_script(sm);
   double v[NR];
   for(int i = 0; i < NR; ++i) v[i] = vp_small(-BMAX, BMAX);
   SoPlex* sp = make_soplex();
   double Mv[NR], Mtv[NR];
   for(int k = 0; k < NR; ++k) { double t = ldexp(sgn(k, v[k]), sc.eM[k]); for(int i = 0; i < NR; ++i) if(i == sc.p[k]) Mv[i] = t; }   // (M v)_p[k] = M[p[k]][k] v[k]
   for(int k = 0; k < NR; ++k) Mtv[k] = ldexp(sgn(k, sel(v, sc.p[k])), sc.eM[k]);                                                          // (M^T v)_k = M[p[k]][k] v[p[k]]
   double a[NR + 2], b[NR + 2];
   for(int i = 0; i < NR + 2; ++i) { a[i] = CANARY; b[i] = CANARY; }
   if(what == 0)
   {
      for(int i = 0; i < NR; ++i) a[1 + i] = Mv[i];
      bool ok = sp->getBasisInverseTimesVecReal(a + 1, b + 1, sc.unscale != 0);
      vp_assert(ok, 1);
      after_call(sp, 1);
      for(int i = 0; i < NR; ++i) vp_assert(b[1 + i] == v[i], 7);               // B^-1 (B v) = v
   }
   else
   {
      for(int i = 0; i < NR; ++i) a[1 + i] = v[i];
      bool ok = what == 1 ? sp->multBasis(a + 1, sc.unscale != 0) : sp->multBasisTranspose(a + 1, sc.unscale != 0);
      vp_assert(ok, 1);
      after_call(sp, 0);
      if(what == 1) for(int i = 0; i < NR; ++i) vp_assert(a[1 + i] == Mv[i], 8);
      else for(int i = 0; i < NR; ++i) vp_assert(a[1 + i] == Mtv[i], 9);
      for(int i = 0; i < NR; ++i) vp_assert(b[1 + i] == CANARY, 10);
   }
   vp_assert(a[0] == CANARY && a[NR + 1] == CANARY && b[0] == CANARY && b[NR + 1] == CANARY, 2);
}
extern "C" void h_c05_invvec_col_cols() { check_vec(COLS_ONLY, 0); vp_cover(1); }
extern "C" void h_c05_invvec_col_slack() { check_vec(WITH_SLACK, 0); vp_cover(1); }
extern "C" void h_c05_mult_col_cols() { check_vec(COLS_ONLY, 1); vp_cover(1); }
extern "C" void h_c05_mult_col_slack() { check_vec(WITH_SLACK, 1); vp_cover(1); }
extern "C" void h_c05_multt_col_cols() { check_vec(COLS_ONLY, 2); vp_cover(1); }
extern "C" void h_c05_multt_col_slack() { check_vec(WITH_SLACK, 2); vp_cover(1); }
