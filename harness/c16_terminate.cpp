// C16-O4: SPxSolverBase<double>::terminate() (spxsolve.hpp) - the per-iteration stopping test of the simplex loop:
//   terminal basis status / time limit / objective limit of the DUAL simplex.
// Contract style. `this` is a genuine subclass TS of SPxSolverBase<double> whose virtual callees value(), shift(), noViols(),
// factorizeAndRecompute(), factorize(), unShift(), compute{Enter,Leave}CoPrhs() are overridden by scripted models (every call
// returns the next, arbitrary, script entry); the non-virtual callees (isTimeLimitReached, dim, computeFrhs, computePvec,
// computeTest, computeCoTest, SPxBasisBase::solve/coSolve) are explicit member specialisations (same code in the solver build
// and in the native replay build). Solver build: the base-class constructor is replaced by a no-op (typed zero memory + real
// vtable), only the fields terminate() reads are initialised; native build: a really constructed object.
//
// Reference (documentation, not the code):
//   soplex.h   OBJLIMIT_LOWER "lower limit on objective value", OBJLIMIT_UPPER "upper limit on objective value";
//   spxsolver.h setTerminationValue "set objective limit", Type/Representation table (type()*rep() > 0 <=> DUAL simplex),
//   comment block in terminate(): MINIMIZATION: stop if objLimit <= current objective value of the DUAL LP,
//                                 MAXIMIZATION: stop if objLimit >= current objective value; only without bound shifts and
//                                 violations ("we can trust the current objective value"); "check time limit and objective
//                                 limit only for non-terminal bases".
#include "soplex_all.h"
#include <new>
using namespace soplex;
typedef SPxSolverBase<double> Solver;
typedef SPxBasisBase<double> Basis;

#define NS 6
struct Script
{
   double value[NS], shift[NS], tol[NS];
   unsigned char noviol[NS];
   unsigned char timeup;
   int dim;
   int nvalue, nshift, nnoviol, ntime;          // calls so far
   int nfac;                                    // factorizeAndRecompute() calls
   int value_at_fac, shift_at_fac, noviol_at_fac;   // call counters at the moment of the last factorizeAndRecompute()
   int nrefresh;                                // calls of the periodic-refresh callees
};
static Script S;
static inline int clampi(int k) { return k < NS ? k : NS - 1; }

struct TS : public Solver
{
   TS() : Solver() {}
   double value() override { int k = clampi(S.nvalue); S.nvalue++; return S.value[k]; }
   double shift() const override { int k = clampi(S.nshift); S.nshift++; return S.shift[k]; }
   bool noViols(double tol) const override { int k = clampi(S.nnoviol); S.nnoviol++; S.tol[k] = tol; return S.noviol[k] != 0; }
   void factorizeAndRecompute() override { S.nfac++; S.value_at_fac = S.nvalue; S.shift_at_fac = S.nshift; S.noviol_at_fac = S.nnoviol; }
   void factorize() override { S.nrefresh++; }
   void unShift() override { S.nrefresh++; }
   void computeEnterCoPrhs() override { S.nrefresh++; }
   void computeLeaveCoPrhs() override { S.nrefresh++; }
};
namespace soplex
{
template <> bool Solver::isTimeLimitReached(const bool forceCheck) { S.ntime++; return S.timeup != 0; }
template <> int Solver::dim() const { return S.dim; }
template <> void Solver::computeFrhs() { S.nrefresh++; }
template <> void Solver::computePvec() { S.nrefresh++; }
template <> void Solver::computeTest() { S.nrefresh++; }
template <> void Solver::computeCoTest() { S.nrefresh++; }
template <> void Basis::solve(VectorBase<double>& x, const VectorBase<double>& rhs) { S.nrefresh++; }
template <> void Basis::coSolve(VectorBase<double>& x, const VectorBase<double>& rhs) { S.nrefresh++; }
}
#ifndef VP_NATIVE
extern "C" void m_solver_ctor(Solver* self, Solver::Type t, Solver::Representation r, Timer::TYPE tt) { }
union TSMem { TS s; TSMem() {} ~TSMem() {} };
static TSMem mem;
union OutMem { SPxOut o; OutMem() {} ~OutMem() {} };
static OutMem outmem;
#endif

struct In
{
   int sense, type, rep, bstat, iter, lastiter, m0, pricing, updcount;
   double objLimit;
};
static double not_nan() { double v = vp_nondet_double(); vp_assume(v == v); return v; }
static TS* make(In& in)
{
   for(int k = 0; k < NS; ++k)
   {
      S.value[k] = vp_nondet_double();                       // anything, NaN included
      S.shift[k] = not_nan();
      vp_assume(S.shift[k] >= 0.0);                          // "total current shift amount"
      S.noviol[k] = vp_nondet_bool();
      S.tol[k] = 0.0;
   }
   S.timeup = vp_nondet_bool();
   S.dim = vp_int_in(0, 4000);
   S.nvalue = S.nshift = S.nnoviol = S.ntime = S.nfac = S.nrefresh = 0;
   S.value_at_fac = S.shift_at_fac = S.noviol_at_fac = 0;
   int mx = vp_int_in(0, 1);
   in.sense = mx ? SPxLPBase<double>::MAXIMIZE : SPxLPBase<double>::MINIMIZE;
   int lv = vp_int_in(0, 1);
   in.type = lv ? Solver::LEAVE : Solver::ENTER;
   int cl = vp_int_in(0, 1);
   in.rep = cl ? Solver::COLUMN : Solver::ROW;
   in.bstat = vp_int_in(Basis::NO_PROBLEM, Basis::INFEASIBLE);
   in.iter = vp_int_in(0, 1 << 24);
   in.lastiter = vp_int_in(0, 1 << 24);
   in.m0 = vp_int_in(Solver::ERROR, Solver::OPTIMAL_UNSCALED_VIOLATIONS);
   in.pricing = vp_int_in(0, 1);
   in.updcount = vp_int_in(0, 3);
   in.objLimit = not_nan();
#ifdef VP_NATIVE
   TS* s = new TS();
   static SPxOut out;
   out.setVerbosity(SPxOut::ERROR);
   s->setOutstream(out);
   s->Solver::_tolerances = std::make_shared<Tolerances>();
#else
   TS* s = new(&mem.s) TS();
   s->Solver::spxout = &outmem.o;
   s->SPxLPBase<double>::spxout = &outmem.o;
   s->Basis::spxout = &outmem.o;
   *(Tolerances**)&s->Solver::_tolerances = new Tolerances();          // shared_ptr without control block: {ptr, nullptr}
#endif
   s->thesense = (SPxLPBase<double>::SPxSense)in.sense;
   s->theType = (Solver::Type)in.type;
   s->theRep = (Solver::Representation)in.rep;
   s->thePricing = (Solver::Pricing)in.pricing;
   s->Basis::thestatus = (Basis::SPxStatus)in.bstat;
   s->Basis::iterCount = in.iter;
   s->Basis::lastIterCount = in.lastiter;
   s->Basis::updateCount = in.updcount;
   s->m_status = (Solver::Status)in.m0;
   s->objLimit = in.objLimit;
   return s;
}
static bool beyond(int sense, double value, double limit)
{
   // MINIMIZE: the dual objective value is a lower bound on the optimum and increases: beyond the (upper) limit <=> value >= limit
   // MAXIMIZE: mirrored
   return sense == SPxLPBase<double>::MINIMIZE ? (value >= limit) : (value <= limit);
}

// every outcome of one terminate() call is justified by the scripted environment
extern "C" void h_c16_terminate()
{
   In in; TS* s = make(in);
   const double inf = (double)infinity;
   Tolerances* tl = *(Tolerances**)&s->Solver::_tolerances;
   const double eps = tl->epsilon();                          // configured zero tolerance
   const double opttol = tl->floatingPointOpttol();           // configured optimality tolerance
   bool r = s->terminate();
   int st = s->m_status;
#ifdef VP_NATIVE
   if(getenv("VP_DEBUG"))
   {
      printf("sense=%d type=%d rep=%d bstat=%d iter=%d dim=%d m0=%d objLimit=%.17g timeup=%d -> r=%d status=%d  calls: value=%d shift=%d noviol=%d fac=%d(at %d/%d/%d) time=%d\n",
             in.sense, in.type, in.rep, in.bstat, in.iter, S.dim, in.m0, in.objLimit, (int)S.timeup, (int)r, st, S.nvalue, S.nshift, S.nnoviol, S.nfac, S.value_at_fac, S.shift_at_fac, S.noviol_at_fac, S.ntime);
      for(int k = 0; k < NS; ++k) printf("  script[%d]: value=%.17g shift=%.17g noviol=%d tol=%.17g\n", k, S.value[k], S.shift[k], (int)S.noviol[k], S.tol[k]);
   }
#endif
   const bool terminal = in.bstat >= Basis::OPTIMAL || in.bstat <= Basis::SINGULAR;
   const bool dual = in.type * in.rep > 0;                   // table in the documentation of SPxSolverBase::Type
   // nothing but the status fields is touched
   vp_assert(s->objLimit == in.objLimit && s->thesense == in.sense && s->theType == in.type && s->theRep == in.rep, 1);
   vp_assert(s->Basis::iterCount == in.iter && s->Basis::thestatus == in.bstat, 2);
   vp_assert(S.ntime <= 1, 3);                                // the clock is consulted at most once per iteration
   if(!r)
   {
      vp_assert(st == in.m0, 4);                              // "continue" leaves the solver status alone
      vp_assert(!terminal, 5);
      vp_assert(!S.timeup, 6);                                // a reached time limit is never ignored on a non-terminal basis
      vp_assert(s->Basis::lastIterCount == in.iter, 7);
   }
   else
   {
      vp_assert(st == Solver::UNKNOWN || st == Solver::ABORT_TIME || st == Solver::ABORT_VALUE, 8);
      if(terminal) vp_assert(st == Solver::UNKNOWN && S.ntime == 0, 9);   // limits are checked for non-terminal bases only
      if(st == Solver::UNKNOWN) vp_assert(terminal, 10);
      if(st == Solver::ABORT_TIME) vp_assert(!terminal && S.ntime == 1 && S.timeup, 11);
      if(!terminal && S.timeup) vp_assert(st == Solver::ABORT_TIME, 12);
   }
   if(r && st == Solver::ABORT_VALUE)
   {
      vp_assert(!terminal && !S.timeup, 20);
      vp_assert(dual, 21);                                    // the objective limit is a limit for the dual simplex only
      vp_assert(S.nvalue >= 1 && S.nshift >= 1 && S.nnoviol >= 1, 22);
      // the decision rests on readings taken after the last refactorization (later readings, e.g. for log messages, may follow)
      vp_assert(S.nvalue <= NS && S.nshift <= NS && S.nnoviol <= NS, 23);
      vp_assert(S.nvalue > S.value_at_fac && S.nshift > S.shift_at_fac && S.nnoviol > S.noviol_at_fac, 24);
      bool vok = false, sok = false, nok = false; double v = 0.0;
      for(int k = 0; k < NS; ++k)
      {
         if(k >= S.value_at_fac && k < S.nvalue && beyond(in.sense, S.value[k], in.objLimit)) { vok = true; v = S.value[k]; }
         if(k >= S.shift_at_fac && k < S.nshift && S.shift[k] < eps) sok = true;
         if(k >= S.noviol_at_fac && k < S.nnoviol && S.noviol[k] && S.tol[k] <= opttol) nok = true;
      }
      vp_assert(vok, 25);                                     // C16: the value really lies beyond the limit, in the direction of optimisation
      vp_assert(sok, 26);                                     // no bound shifts: the objective value can be trusted
      vp_assert(nok, 27);                                     // dual feasible within (at most) the optimality tolerance
      // "no limit" never stops: +infinity for MINIMIZE (OBJLIMIT_UPPER), -infinity for MAXIMIZE (OBJLIMIT_LOWER)
      if(in.sense == SPxLPBase<double>::MINIMIZE) vp_assert(in.objLimit < inf, 29);
      else vp_assert(in.objLimit > -inf || !(v > -inf), 30);
   }
   vp_cover(1);
}

// completeness: a trustworthy dual objective value beyond a finite limit does stop the solve, for both senses
extern "C" void h_c16_terminate_hit()
{
   In in; TS* s = make(in);
   const double inf = (double)infinity;
   double v = not_nan();
   for(int k = 0; k < NS; ++k) { S.value[k] = v; S.shift[k] = 0.0; S.noviol[k] = 1; }
   S.timeup = 0;
   vp_assume(in.bstat > Basis::SINGULAR && in.bstat < Basis::OPTIMAL);
   vp_assume(in.type * in.rep > 0);
   vp_assume(in.objLimit > -inf && in.objLimit < inf);
   bool hit = beyond(in.sense, v, in.objLimit);
   bool r = s->terminate();
   if(hit)
   {
      vp_assert(r && s->m_status == Solver::ABORT_VALUE, 1);
      vp_assert(S.nfac >= 1, 2);                              // "ensure that solution is accurate" before giving up
   }
   else
   {
      vp_assert(!r && s->m_status == in.m0, 3);
      vp_assert(s->Basis::lastIterCount == in.iter, 4);
   }
   vp_cover(1);
}

// the primal simplex and the unlimited case never stop on the objective value, whatever the callees report
extern "C" void h_c16_terminate_nolimit()
{
   In in; TS* s = make(in);
   const double inf = (double)infinity;
   S.timeup = 0;
   vp_assume(in.bstat > Basis::SINGULAR && in.bstat < Basis::OPTIMAL);
   for(int k = 0; k < NS; ++k) vp_assume(S.value[k] > -inf && S.value[k] < inf);     // finite objective values
   bool primal = in.type * in.rep < 0;
   bool unlimited = in.sense == SPxLPBase<double>::MINIMIZE ? in.objLimit >= inf : in.objLimit <= -inf;
   vp_assume(primal || unlimited);
   bool r = s->terminate();
   vp_assert(!r, 1);
   vp_assert(s->m_status == in.m0, 2);
   vp_cover(1);
}
