// C04-O5: re-derivation of the basis descriptor status after a bound / side change in SPxSolverBase<double>
// (changesoplex.hpp): the helpers changeLowerStatus / changeUpperStatus / changeLhsStatus / changeRhsStatus and the public
// single-index entry points changeLower / changeUpper / changeBounds / changeLhs / changeRhs / changeRange that drive them.
//
// Solver build: `this` is a genuine subclass object (real vtable) whose base-class constructor is replaced by a model that
// really constructs only the SPxLPBase sub-object (empty matrix; only bounds and sides matter); the rest is typed zero memory,
// the descriptor is a real Desc, the bound-cost vectors are dimensioned. Native build: a real object with the same LP loaded.
//
// Reference: table in the documentation of SPxBasisBase::Desc::Status (spxbasis.h):
//   P_ON_UPPER  needs u < inf;  P_ON_LOWER needs l > -inf;  P_FIXED needs -inf < l = u < inf;  P_FREE needs l = -inf, u = inf;
//   dual statuses: D_ON_BOTH (-inf < l != u < inf), D_ON_UPPER (l finite, u = inf), D_ON_LOWER (l = -inf, u finite),
//   D_FREE (l = u finite), D_UNDEFINED (both infinite);
//   "For a column basis, primal Statuses correspond to nonbasic variables, while dual ones are basic. This is reversed for
//   a row basis."  A bound change does not move a variable into or out of the basis: primal stays primal, dual stays dual.
#include "lp_build.h"
#include <new>
using namespace soplex; using namespace vph;
typedef SPxSolverBase<double> Solver;
typedef SPxBasisBase<double> Basis;
typedef Basis::Desc Desc;
#ifndef VNR
#define VNR 2
#define VNC 2
#endif
struct Bnd { double lhs[VNR], rhs[VNR], lo[VNC], up[VNC]; };
static void build_bounds(SPxLPBase<double>& lp, Bnd& d)
{
   LPColSetBase<double>& cs = lp; LPRowSetBase<double>& rs = lp;
   cs.low.reDim(VNC); cs.up.reDim(VNC); cs.object.reDim(VNC); cs.scaleExp.reSize(VNC);
   rs.left.reDim(VNR); rs.right.reDim(VNR); rs.object.reDim(VNR); rs.scaleExp.reSize(VNR);
   DSVectorBase<double> e(1);
   for(int j = 0; j < VNC; ++j) cs.add(0.0, 0.0, e, 1.0);
   for(int i = 0; i < VNR; ++i) rs.add(0.0, e, 1.0);
   for(int j = 0; j < VNC; ++j)
   {
      d.lo[j] = bound_or_inf(4, false); d.up[j] = bound_or_inf(4, true);
      vp_assume(d.lo[j] <= d.up[j]);
      lp.lower_w(j) = d.lo[j]; lp.upper_w(j) = d.up[j];
      lp.maxObj_w(j) = vp_small(-2, 2);
   }
   for(int i = 0; i < VNR; ++i)
   {
      d.lhs[i] = bound_or_inf(4, false); d.rhs[i] = bound_or_inf(4, true);
      vp_assume(d.lhs[i] <= d.rhs[i]);
      lp.lhs_w(i) = d.lhs[i]; lp.rhs_w(i) = d.rhs[i];
      lp.maxRowObj_w(i) = vp_small(-2, 2);
   }
}
// a genuine subclass: real vtable (the helpers and entry points are virtual and call each other through it)
struct TS : public Solver { TS(Solver::Type t, Solver::Representation r) : Solver(t, r) {} };
#ifndef VP_NATIVE
// solver build: the base-class constructor is replaced by this model - only the LP part is really constructed, the rest of
// the object stays typed zero memory
extern "C" void m_solver_ctor(Solver* self, Solver::Type t, Solver::Representation r, Timer::TYPE tt) { new(static_cast<SPxLPBase<double>*>(self)) LP(); }
union SolverMem { TS s; SolverMem() {} ~SolverMem() {} };
static SolverMem mem;
#endif

static const int ALLST[9] = { Desc::P_ON_LOWER, Desc::P_ON_UPPER, Desc::P_FREE, Desc::P_FIXED, Desc::D_FREE, Desc::D_ON_UPPER, Desc::D_ON_LOWER, Desc::D_ON_BOTH, Desc::D_UNDEFINED };
static bool fin_lo(double x) { return x > -(double)infinity; }
static bool fin_up(double x) { return x < (double)infinity; }
static int ref_dual(double lo, double up)
{
   if(fin_lo(lo) && fin_up(up)) return lo == up ? Desc::D_FREE : Desc::D_ON_BOTH;
   if(fin_lo(lo)) return Desc::D_ON_UPPER;
   if(fin_up(up)) return Desc::D_ON_LOWER;
   return Desc::D_UNDEFINED;
}
// the status is consistent with the bound pair (documentation table; C04: not nonbasic at an infinite bound, not marked fixed
// while the bounds differ)
static bool valid_status(int st, double lo, double up)
{
   switch(st)
   {
   case Desc::P_ON_LOWER: return fin_lo(lo);
   case Desc::P_ON_UPPER: return fin_up(up);
   case Desc::P_FIXED: return fin_lo(lo) && fin_up(up) && lo == up;
   case Desc::P_FREE: return !fin_lo(lo) && !fin_up(up);
   default: return st > 0 && st == ref_dual(lo, up);
   }
}
struct Pre { int rep; int rs[VNR], cs[VNC]; int bstat; };
// solver with LP bounds d (symbolic), a descriptor whose entries are arbitrary statuses valid for d, arbitrary representation,
// arbitrary "nonbasic value up to date" / "initialized" flags and shift
static Solver* make_solver(Bnd& d, Pre& p)
{
   int cl = vp_int_in(0, 1);
   p.rep = cl ? Solver::COLUMN : Solver::ROW;
#ifdef VP_NATIVE
   LP lp; build_bounds(lp, d);
   static SPxOut out;
   out.setVerbosity(SPxOut::ERROR);
   Solver* s = new TS(Solver::LEAVE, (Solver::Representation)p.rep);
   s->setOutstream(out);
   s->loadLP(lp);
   s->_tolerances = std::make_shared<Tolerances>();
#else
   Solver* s = new(&mem.s) TS(Solver::LEAVE, (Solver::Representation)p.rep);
   build_bounds(*s, d);
   s->Basis::theLP = s;
   s->theRep = (Solver::Representation)p.rep;
   new(&s->Basis::thedesc) Desc();
   s->Basis::thedesc.reSize(VNR, VNC);
   *(Tolerances**)&s->_tolerances = new Tolerances();         // shared_ptr without control block: {ptr, nullptr}
#endif
   s->theURbound.reDim(VNR); s->theLRbound.reDim(VNR); s->theUCbound.reDim(VNC); s->theLCbound.reDim(VNC);
   for(int i = 0; i < VNR; ++i) { s->theURbound[i] = vp_small(-2, 2); s->theLRbound[i] = vp_small(-2, 2); }
   for(int j = 0; j < VNC; ++j) { s->theUCbound[j] = vp_small(-2, 2); s->theLCbound[j] = vp_small(-2, 2); }
   for(int i = 0; i < VNR; ++i)
   {
      int k = vp_int_in(0, 8); p.rs[i] = ALLST[k];
      vp_assume(valid_status(p.rs[i], d.lhs[i], d.rhs[i]));
      s->Basis::thedesc.rowStatus(i) = (Desc::Status)p.rs[i];
   }
   for(int j = 0; j < VNC; ++j)
   {
      int k = vp_int_in(0, 8); p.cs[j] = ALLST[k];
      vp_assume(valid_status(p.cs[j], d.lo[j], d.up[j]));
      s->Basis::thedesc.colStatus(j) = (Desc::Status)p.cs[j];
   }
   p.bstat = vp_int_in(Basis::SINGULAR, Basis::INFEASIBLE);          // a basis is available (status > NO_PROBLEM)
   s->Basis::thestatus = (Basis::SPxStatus)p.bstat;
   s->m_nonbasicValueUpToDate = vp_nondet_bool();
   s->m_nonbasicValue = vp_small(-4, 4);
   s->initialized = vp_nondet_bool();
   s->theShift = vp_small(0, 2);
   return s;
}
// post-condition shared by all entries: LP bounds are `want`, every status is valid for them, nobody changed sides of the basis
static void check_all(Solver* s, const Bnd& want, const Pre& p)
{
   for(int j = 0; j < VNC; ++j)
   {
      int st = s->Basis::thedesc.colStatus(j);
      vp_assert(s->lower(j) == want.lo[j] && s->upper(j) == want.up[j], 1);
      vp_assert(valid_status(st, want.lo[j], want.up[j]), 2);           // C04
      vp_assert((st < 0) == (p.cs[j] < 0), 3);                          // primal stays primal, dual stays dual
   }
   for(int i = 0; i < VNR; ++i)
   {
      int st = s->Basis::thedesc.rowStatus(i);
      vp_assert(s->lhs(i) == want.lhs[i] && s->rhs(i) == want.rhs[i], 4);
      vp_assert(valid_status(st, want.lhs[i], want.rhs[i]), 5);
      vp_assert((st < 0) == (p.rs[i] < 0), 6);
   }
   vp_assert(s->Basis::thestatus == p.bstat && s->theRep == p.rep, 7);
}

// ---- the four helpers: the LP already holds the new bound (that is when the entry points call them), the descriptor still
// holds a status that was valid for the old bound
extern "C" void h_c04_chg_lower_status()
{
   Bnd d; Pre p; Solver* s = make_solver(d, p);
   int j = vp_int_in(0, VNC - 1);
   double nl = bound_or_inf(4, false);
   vp_assume(nl <= d.up[j]);
   double old = d.lo[j];
   s->lower_w(j) = nl; d.lo[j] = nl;
   s->changeLowerStatus(j, nl, old);
   check_all(s, d, p);
   for(int k = 0; k < VNC; ++k) if(k != j) vp_assert(s->Basis::thedesc.colStatus(k) == p.cs[k], 10);
   for(int k = 0; k < VNR; ++k) vp_assert(s->Basis::thedesc.rowStatus(k) == p.rs[k], 11);
   vp_cover(1);
}
extern "C" void h_c04_chg_upper_status()
{
   Bnd d; Pre p; Solver* s = make_solver(d, p);
   int j = vp_int_in(0, VNC - 1);
   double nu = bound_or_inf(4, true);
   vp_assume(d.lo[j] <= nu);
   double old = d.up[j];
   s->upper_w(j) = nu; d.up[j] = nu;
   s->changeUpperStatus(j, nu, old);
   check_all(s, d, p);
   for(int k = 0; k < VNC; ++k) if(k != j) vp_assert(s->Basis::thedesc.colStatus(k) == p.cs[k], 10);
   for(int k = 0; k < VNR; ++k) vp_assert(s->Basis::thedesc.rowStatus(k) == p.rs[k], 11);
   vp_cover(1);
}
extern "C" void h_c04_chg_lhs_status()
{
   Bnd d; Pre p; Solver* s = make_solver(d, p);
   int i = vp_int_in(0, VNR - 1);
   double nl = bound_or_inf(4, false);
   vp_assume(nl <= d.rhs[i]);
   double old = d.lhs[i];
   s->lhs_w(i) = nl; d.lhs[i] = nl;
   s->changeLhsStatus(i, nl, old);
   check_all(s, d, p);
   for(int k = 0; k < VNC; ++k) vp_assert(s->Basis::thedesc.colStatus(k) == p.cs[k], 10);
   for(int k = 0; k < VNR; ++k) if(k != i) vp_assert(s->Basis::thedesc.rowStatus(k) == p.rs[k], 11);
   vp_cover(1);
}
extern "C" void h_c04_chg_rhs_status()
{
   Bnd d; Pre p; Solver* s = make_solver(d, p);
   int i = vp_int_in(0, VNR - 1);
   double nu = bound_or_inf(4, true);
   vp_assume(d.lhs[i] <= nu);
   double old = d.rhs[i];
   s->rhs_w(i) = nu; d.rhs[i] = nu;
   s->changeRhsStatus(i, nu, old);
   check_all(s, d, p);
   for(int k = 0; k < VNC; ++k) vp_assert(s->Basis::thedesc.colStatus(k) == p.cs[k], 10);
   for(int k = 0; k < VNR; ++k) if(k != i) vp_assert(s->Basis::thedesc.rowStatus(k) == p.rs[k], 11);
   vp_cover(1);
}

// ---- the public single-index entry points (scale = false): LP changed, statuses valid for the new bounds
// which: 0 changeLower 1 changeUpper 2 changeBounds
extern "C" void h_c04_chg_col_entry()
{
   Bnd d; Pre p; Solver* s = make_solver(d, p);
   int which = vp_int_in(0, 2);
   int j = vp_int_in(0, VNC - 1);
   double nl = bound_or_inf(4, false);
   double nu = bound_or_inf(4, true);
   if(which == 0) { vp_assume(nl <= d.up[j]); d.lo[j] = nl; s->changeLower(j, nl, false); }
   else if(which == 1) { vp_assume(d.lo[j] <= nu); d.up[j] = nu; s->changeUpper(j, nu, false); }
   else { vp_assume(nl <= nu); d.lo[j] = nl; d.up[j] = nu; s->changeBounds(j, nl, nu, false); }
   check_all(s, d, p);
   vp_cover(1);
}
// which: 0 changeLhs 1 changeRhs 2 changeRange
extern "C" void h_c04_chg_row_entry()
{
   Bnd d; Pre p; Solver* s = make_solver(d, p);
   int which = vp_int_in(0, 2);
   int i = vp_int_in(0, VNR - 1);
   double nl = bound_or_inf(4, false);
   double nu = bound_or_inf(4, true);
   if(which == 0) { vp_assume(nl <= d.rhs[i]); d.lhs[i] = nl; s->changeLhs(i, nl, false); }
   else if(which == 1) { vp_assume(d.lhs[i] <= nu); d.rhs[i] = nu; s->changeRhs(i, nu, false); }
   else { vp_assume(nl <= nu); d.lhs[i] = nl; d.rhs[i] = nu; s->changeRange(i, nl, nu, false); }
   check_all(s, d, p);
   vp_cover(1);
}
