// C19-O5: DataHashTable<HashItem,Info> (open addressing with RELEASED markers) against a map model.
//  - inductive steps from an arbitrary valid table state (tiny concrete table, colliding harness hash function)
//  - bounded histories from the constructor (incl. the classical "delete in the middle of a collision chain" scenario)
//  - reMax() (explicit and the automatic one inside add()) keeps all entries: concrete table structure, symbolic payload
// HashItem = int, Info = int, hash(v) = v % HMOD (forced collisions), table size TS, probing increment
// chosen by the real constructor (autoHashSize() -> 1523, i.e. step 1523 % TS) or given explicitly (HS > 0).
#include <vector>
#include <algorithm>
#include <iostream>
#include <iterator>
#include "soplex/spxdefines.h"
#include "soplex/array.h"
#include "soplex/dataarray.h"   // datahashtable.h uses DataArray without including it
#define private public
#define protected public
#include "soplex/datahashtable.h"
#undef private
#undef protected
#include "vp.h"
using namespace soplex;
#ifndef TS
#define TS 5          // number of slots
#endif
#ifndef NV
#define NV 6          // item universe 0..NV-1
#endif
#ifndef HMOD
#define HMOD 2        // hash = v % HMOD
#endif
#ifndef HS
#define HS 0          // 0: automatic hash size (as NameSet uses it)
#endif
#ifndef HIST
#define HIST 4
#endif
#ifndef SHRINK_MAXUSED
#define SHRINK_MAXUSED TS
#endif
#ifndef NEWTS
#define NEWTS 7       // explicit reMax target
#endif
// HashItem = int: operator== is built in and assignments are plain scalar stores (a struct item would be copied by memcpy
// into a slot at a symbolic index, which is much more expensive to encode).
typedef int HI;
static int hfun(const HI* h) { return *h % HMOD; }
typedef DataHashTable<HI, int> HT;
typedef HT::Elem EL;

// Typed models of three libstdc++ helpers that copy/fill trivially-copyable vector elements bytewise (used by the std::vector
// copy / growth inside DataHashTable::reMax): the same operation written element by element, which the solver encodes field
// by field. Used (ll2c "replace") only by c19_hashtable_remax.json; the native build always runs the real libstdc++.
static inline void copy_elem(EL* d, const EL* s) { d->item = s->item; d->info = s->info; d->stat = s->stat; }
extern "C" EL* m_copy_elems(const EL* first, const EL* last, EL* result)
{
   while(first != last) { copy_elem(result, first); ++first; ++result; }
   return result;
}
extern "C" EL* m_relocate_elems(EL* first, EL* last, EL* result, std::allocator<EL>& alloc)
{
   (void)alloc;
   while(first != last) { copy_elem(result, first); ++first; ++result; }
   return result;
}
extern "C" void m_fill_elems(EL* first, EL* last, const EL& value)
{
   for(; first != last; ++first) copy_elem(first, &value);
}

// abstract content computed by a plain scan over the slots (independent of the probing logic)
struct Map { int pres[NV]; int inf[NV]; int n; };
// accessors with concrete indices only (a symbolic index into a struct member array is encoded byte-wise by the solver)
static int mpres(const Map& m, int v) { int r = 0; for(int w = 0; w < NV; ++w) if(w == v) r = m.pres[w]; return r; }
static void mset(Map& m, int v, int pres, int inf) { for(int w = 0; w < NV; ++w) if(w == v) { m.pres[w] = pres; m.inf[w] = inf; } }
static void scan(const HT& t, Map& m)
{
   m.n = 0;
   for(int v = 0; v < NV; ++v) { m.pres[v] = 0; m.inf[v] = 0; }
   for(int i = 0; i < t.m_elem.size(); ++i)
      if(t.m_elem[i].stat == EL::USED)
      {
         for(int v = 0; v < NV; ++v) if(t.m_elem[i].item == v) { m.pres[v]++; m.inf[v] = t.m_elem[i].info; }
         m.n++;
      }
}
// representation invariant: every USED slot is reachable from its home slot without crossing a FREE slot, no item twice,
// m_used counts the USED slots
static bool inv(const HT& t, int size)
{
   if(t.m_elem.size() != size) return false;
   if(t.m_hashsize < 1) return false;
   int cnt = 0;
   for(int i = 0; i < size; ++i)
   {
      int st = (int)t.m_elem[i].stat;
      if(st != EL::FREE && st != EL::RELEASED && st != EL::USED) return false;
      if(st != EL::USED) continue;
      ++cnt;
      int v = t.m_elem[i].item;
      if(v < 0 || v >= NV) return false;
      int p = (v % HMOD) % size; bool ok = false;
      for(int s = 0; s < size; ++s)
      {
         if(p == i) { ok = true; break; }
         if(t.m_elem[p].stat == EL::FREE) break;
         p = (p + t.m_hashsize) % size;
      }
      if(!ok) return false;
      for(int j = 0; j < i; ++j) if(t.m_elem[j].stat == EL::USED && t.m_elem[j].item == v) return false;
   }
   return cnt == t.m_used;
}
static void havoc(HT& t)
{
   for(int i = 0; i < TS; ++i)
   {
      int st = vp_int_in(0, 2);
      t.m_elem[i].stat = st == 0 ? EL::FREE : (st == 1 ? EL::RELEASED : EL::USED);
      t.m_elem[i].item = vp_int_in(0, NV - 1);
      t.m_elem[i].info = vp_int_in(-9, 9);
   }
   t.m_used = vp_int_in(0, TS);
}
// real lookups agree with the map (full: has, get and operator[]; otherwise get only - one probe sequence per item)
// (assert ids must be literals: the solver build takes them from the call site)
static void check_lookups(const HT& t, const Map& m, bool full = true)
{
   for(int w = 0; w < NV; ++w)
   {
      HI h = w;
      const int* g = t.get(h);
      vp_assert((g != nullptr) == (m.pres[w] != 0), 31);
      if(g != nullptr && m.pres[w]) vp_assert(*g == m.inf[w], 32);
      if(full)
      {
         bool has = t.has(h);
         vp_assert(has == (m.pres[w] != 0), 33);
         if(has && m.pres[w]) vp_assert(t[h] == m.inf[w], 34);
      }
   }
}

extern "C" void h_ht_lookup_step()
{
   HT t(hfun, TS, HS); int step0 = t.m_hashsize;
   havoc(t); vp_assume(inv(t, TS));
   Map m; scan(t, m);
   check_lookups(t, m);
   vp_assert(t.m_hashsize == step0 && inv(t, TS), 5);
   vp_cover(1);
}
extern "C" void h_ht_add_step()
{
   HT t(hfun, TS, HS); int step0 = t.m_hashsize;
   havoc(t); vp_assume(inv(t, TS));
   vp_assume((double)t.m_used < TS * SOPLEX_HASHTABLE_FILLFACTOR);      // bound: no automatic reMax
   Map m; scan(t, m);
   HI h = vp_int_in(0, NV - 1); int info = vp_int_in(-9, 9);
   vp_assume(!mpres(m, h));                                             // documented precondition of add()
   t.add(h, info);
   vp_assert(inv(t, TS) && t.m_hashsize == step0, 1);
   Map m1; scan(t, m1);
   vp_assert(m1.n == m.n + 1, 2);
   for(int w = 0; w < NV; ++w)
   {
      if(w == h) vp_assert(m1.pres[w] == 1 && m1.inf[w] == info, 3);
      else vp_assert(m1.pres[w] == m.pres[w] && (!m.pres[w] || m1.inf[w] == m.inf[w]), 4);
   }
   check_lookups(t, m1);
   vp_cover(1);
}
extern "C" void h_ht_remove_step()
{
   HT t(hfun, TS, HS); int step0 = t.m_hashsize;
   havoc(t); vp_assume(inv(t, TS));
   Map m; scan(t, m);
   HI h = vp_int_in(0, NV - 1);
   t.remove(h);                                                          // absent item: documented no-op
   vp_assert(inv(t, TS) && t.m_hashsize == step0, 1);
   Map m1; scan(t, m1);
   vp_assert(m1.n == m.n - (mpres(m, h) ? 1 : 0), 2);
   for(int w = 0; w < NV; ++w)
   {
      if(w == h) vp_assert(m1.pres[w] == 0, 3);
      else vp_assert(m1.pres[w] == m.pres[w] && (!m.pres[w] || m1.inf[w] == m.inf[w]), 4);
   }
   check_lookups(t, m1);
   vp_cover(1);
}
extern "C" void h_ht_clear_step()
{
   HT t(hfun, TS, HS);
   havoc(t); vp_assume(inv(t, TS));
   t.clear();
   vp_assert(inv(t, TS) && t.m_used == 0, 1);
   Map m1; scan(t, m1);
   vp_assert(m1.n == 0, 2);
   check_lookups(t, m1);
   vp_cover(1);
}
// bounded history from the constructor against an array model; after every operation every item of the universe is looked up
extern "C" void h_ht_history()
{
   HT t(hfun, TS, HS);
   Map m; m.n = 0; for(int v = 0; v < NV; ++v) { m.pres[v] = 0; m.inf[v] = 0; }
   for(int s = 0; s < HIST; ++s)
   {
      int op = vp_int_in(0, 3);
      HI h = vp_int_in(0, NV - 1);
      if(op == 0 || op == 3)
      {
         int info = vp_int_in(-9, 9);
         vp_assume(!mpres(m, h));
         vp_assume((double)m.n < TS * SOPLEX_HASHTABLE_FILLFACTOR);      // bound: no automatic reMax in this obligation
         t.add(h, info);
         mset(m, h, 1, info); m.n++;
      }
      else if(op == 1)
      {
         t.remove(h);
         if(mpres(m, h)) { mset(m, h, 0, 0); m.n--; }
      }
      else
      {
         t.clear();
         for(int v = 0; v < NV; ++v) m.pres[v] = 0;
         m.n = 0;
      }
      vp_assert(t.m_used == m.n && t.m_elem.size() == TS, 1);
      check_lookups(t, m, false);
   }
   vp_cover(1);
}
// the automatic reMax inside add(): TS0 slots, the items 0,2,4,1,3 (three share a home slot) are added in this order with
// symbolic infos, item order[KREM] is removed after the second add; the 4th add exceeds the fill factor and rehashes.
// Structure concrete, payload symbolic: with a symbolic structure the solver does not get through the rehash (see report).
#ifndef TS0
#define TS0 3
#endif
#ifndef GROWN
#define GROWN 5
#endif
#ifndef KREM
#define KREM 1
#endif
extern "C" void h_ht_autogrow()
{
   HT t(hfun, TS0, HS);
   Map m; m.n = 0; for(int v = 0; v < NV; ++v) { m.pres[v] = 0; m.inf[v] = 0; }
   static const int order[5] = { 0, 2, 4, 1, 3 };
   for(int s = 0; s < GROWN; ++s)
   {
      int info = vp_int_in(-9, 9);
      HI h = order[s];
      t.add(h, info);
      m.pres[order[s]] = 1; m.inf[order[s]] = info; m.n++;
      if(s == 1 && KREM >= 0 && KREM <= 1) { HI r = order[KREM]; t.remove(r); m.pres[order[KREM]] = 0; m.n--; }
      vp_assert(t.m_used == m.n && t.m_used <= t.m_elem.size(), 1);
      check_lookups(t, m, false);
   }
   vp_assert(t.m_elem.size() > TS0, 6);          // the table has grown
   vp_cover(1);
}
// reMax on a table built by a concrete insertion order (items 0,2,4,1,3: three share a home slot), symbolic infos, one removal
// at a concrete position KREM of the collision chain (leaves a RELEASED slot). Structure concrete, payload symbolic.
extern "C" void h_ht_remax_kernel()
{
   HT t(hfun, TS, HS);
   Map m; m.n = 0; for(int v = 0; v < NV; ++v) { m.pres[v] = 0; m.inf[v] = 0; }
   static const int order[5] = { 0, 2, 4, 1, 3 };
   for(int k = 0; k < 3; ++k)
   {
      int take = 1;
      int info = vp_int_in(-9, 9);
      if(take) { HI h = order[k]; t.add(h, info); m.pres[order[k]] = 1; m.inf[order[k]] = info; m.n++; }
   }
   int rem = KREM;                               // concrete position of the RELEASED slot: head (0), middle (1), tail (2) of the chain
   for(int k = 0; k < 3; ++k) if(k == rem && m.pres[order[k]]) { HI h = order[k]; t.remove(h); m.pres[order[k]] = 0; m.n--; }
   for(int k = 3; k < 5; ++k)
   {
      int info = vp_int_in(-9, 9);
      HI h = order[k]; t.add(h, info); m.pres[order[k]] = 1; m.inf[order[k]] = info; m.n++;
   }
   vp_assert(t.m_elem.size() == TS, 1);          // no automatic rehash so far
   vp_assert(t.m_used == m.n, 2);
#ifdef KSHRINK
   t.reMax(-1);                                  // documented: resized to m_used only (then grown again by the refill)
   vp_assert(t.m_used == m.n && t.m_elem.size() >= m.n, 3);
#else
   t.reMax(NEWTS);
   vp_assert(t.m_used == m.n && t.m_elem.size() == NEWTS, 3);
#endif
   check_lookups(t, m);
   vp_cover(1);
}
