// C19-O8 (DSVectorBase<double>): the dynamic sparse vector manages its own memory; growing beyond the initial capacity
// (makeMem -> setMax -> spx_realloc) keeps the contents, and construction / assignment from the other vector kinds give
// the same values as the source.  Kernel style.  All sizes that drive allocation are CONCRETE: nonzeros are appended with
// the concrete placeholder value 1.0 at SYMBOLIC distinct indices and overwritten in place with symbolic integer values
// -4..4 afterwards (a test "value != 0" on symbolic data inside add() would make every later reallocation size symbolic).
#include <memory>
#include <string>
#include <vector>
#include <iostream>
#include <sstream>
#include <fstream>
#include <map>
#include <set>
#include <algorithm>
#include <functional>
#include <limits>
#include <cmath>
#include <cstring>
#define private public
#define protected public
#include "soplex/spxdefines.h"
#include "soplex/basevectors.h"
#undef private
#undef protected
#include "vp.h"
using namespace soplex;
#ifndef DIM
#define DIM 6
#endif
#ifndef NG
#define NG 5          // number of nonzeros appended one by one (initial capacity 2)
#endif
#ifndef NNZ
#define NNZ 3
#endif
#define CAP 8
typedef SVectorBase<double> SV;
typedef DSVectorBase<double> DSV;
typedef SV::Element El;

template<int N> struct In { int ix[N]; double va[N]; double d[DIM]; };
template<int N> static void draw(In<N>& in, bool allow_zero)
{
   for(int i = 0; i < DIM; ++i) in.d[i] = 0.0;
   for(int k = 0; k < N; ++k)
   {
      in.ix[k] = vp_int_in(0, DIM - 1);
      in.va[k] = vp_small(-4, 4);
      if(!allow_zero) vp_assume(in.va[k] != 0.0);
      for(int j = 0; j < k; ++j) vp_assume(in.ix[j] != in.ix[k]);
      in.d[in.ix[k]] = in.va[k];
   }
}
template<int N> static void fill(SV& v, const In<N>& in, int n)
{
   v.set_size(n);
   for(int k = 0; k < n; ++k) { v.index(k) = in.ix[k]; v.value(k) = in.va[k]; }
}
static bool dense_eq(const SV& v, const double* d)
{
   for(int i = 0; i < DIM; ++i) if(!(v[i] == d[i])) return false;
   return true;
}
static bool owns(const DSV& v) { return v.mem() == v.theelem && v.theelem != nullptr; }     // = isConsistent() (compiled out in this build)

// ---- growth: add(i,x) one by one beyond the initial capacity, add(i), setMax up and down -------------------------------------------
extern "C" void h_dsv_growth()
{
   DSV v(2);
   vp_assert(v.size() == 0 && v.max() == 2 && owns(v), 1);
   In<NG> in; draw(in, true);
   for(int k = 0; k < NG; ++k)
   {
      v.add(in.ix[k], 1.0);
      vp_assert(v.size() == k + 1 && v.max() >= k + 1 && owns(v), 2);
      // everything stored so far survived the (possible) reallocation
      for(int j = 0; j <= k; ++j) vp_assert(v.index(j) == in.ix[j] && v.value(j) == 1.0, 3);
   }
   for(int k = 0; k < NG; ++k) v.value(k) = in.va[k];
   vp_assert(dense_eq(v, in.d), 4);
   // setMax: more memory, less memory (never below size()): contents unchanged
   v.setMax(NG + 3);
   vp_assert(v.max() == NG + 3 && v.size() == NG && owns(v) && dense_eq(v, in.d), 5);
   v.setMax(1);
   vp_assert(v.max() == NG && v.size() == NG && owns(v) && dense_eq(v, in.d), 6);
   for(int k = 0; k < NG; ++k) vp_assert(v.index(k) == in.ix[k] && v.value(k) == in.va[k], 7);
   // add(i) (uninitialised value) grows too
   int fresh = vp_int_in(0, DIM + 2);
   v.add(fresh);
   vp_assert(v.size() == NG + 1 && v.max() >= NG + 1 && v.index(NG) == fresh && owns(v), 8);
   for(int k = 0; k < NG; ++k) vp_assert(v.index(k) == in.ix[k] && v.value(k) == in.va[k], 9);
   // a zero value is not stored (but room is made)
   v.add(0, 0.0);
   vp_assert(v.size() == NG + 1 && owns(v), 10);
   vp_cover(1);
}

// ---- add(n, idx[], val[]) onto a full vector: grows, keeps the old nonzeros, appends the nonzero new ones ----------------------------
extern "C" void h_dsv_add_arrays()
{
   DSV v(2);
   In<NNZ + 2> in; draw(in, true);
   v.add(in.ix[0], 1.0); v.add(in.ix[1], 1.0);            // full: size 2, max 2
   v.value(0) = in.va[0]; v.value(1) = in.va[1];
   v.add(NNZ, in.ix + 2, in.va + 2);                        // symbolic values: zeros are skipped
   int cnt = 2;
   for(int k = 2; k < NNZ + 2; ++k) if(in.va[k] != 0.0)
   {
      vp_assert(cnt < v.size() && v.index(cnt) == in.ix[k] && v.value(cnt) == in.va[k], 1);
      ++cnt;
   }
   vp_assert(v.size() == cnt && v.max() >= 2 + NNZ && owns(v), 2);
   vp_assert(v.index(0) == in.ix[0] && v.value(0) == in.va[0] && v.index(1) == in.ix[1] && v.value(1) == in.va[1], 3);
   vp_assert(dense_eq(v, in.d), 4);
   vp_cover(1);
}

// ---- construction and assignment from SVectorBase / DSVectorBase ------------------------------------------------------------------
#ifndef NSRC
#define NSRC NNZ       // concrete number of stored entries of the source (stored zeros allowed)
#endif
extern "C" void h_dsv_copy_assign()
{
   El mem[CAP]; SV src(CAP, mem);
   In<NNZ> in; draw(in, true); fill(src, in, NSRC);
   if(NSRC == 0) for(int i = 0; i < DIM; ++i) in.d[i] = 0.0;
   // the same data as a DSVectorBase (placeholder construction: its size is concrete for the symbolic execution)
   DSV dsrc(NSRC + 1);
   for(int k = 0; k < NSRC; ++k) dsrc.add(in.ix[k], 1.0);
   for(int k = 0; k < NSRC; ++k) dsrc.value(k) = in.va[k];
   int nz = 0;
   for(int k = 0; k < NSRC; ++k) if(in.va[k] != 0.0) ++nz;
   // explicit DSVectorBase(const SVectorBase&)
   DSV a(src);
   vp_assert(owns(a) && a.size() == nz && a.max() >= nz && dense_eq(a, in.d), 1);
   // copy constructor
   DSV b(dsrc);
   vp_assert(owns(b) && b.mem() != dsrc.mem() && b.size() == nz && b.max() >= nz && dense_eq(b, in.d), 2);
   // operator=(SVectorBase) into a too small vector with old content (grows), and into a big one
   DSV c(1); c.add(DIM + 1, 5.0);
   DSV& r = (c = src);
   vp_assert(&r == &c && owns(c) && c.size() == nz && c.max() >= nz && dense_eq(c, in.d) && c[DIM + 1] == 0.0, 3);
   DSV e(CAP); e.add(DIM + 1, 5.0);
   e = src;
   vp_assert(owns(e) && e.size() == nz && e.max() == CAP && dense_eq(e, in.d) && e[DIM + 1] == 0.0, 4);
   // operator=(DSVectorBase) into a too small vector, self-assignment
   DSV f(1); f.add(DIM + 1, 5.0);
   f = dsrc;
   vp_assert(owns(f) && f.mem() != dsrc.mem() && f.size() == nz && f.max() >= nz && dense_eq(f, in.d) && f[DIM + 1] == 0.0, 5);
   f = f;
   vp_assert(owns(f) && f.size() == nz && dense_eq(f, in.d), 6);
   // nonzeros arrive in the order of the source, stored zeros are dropped
   int cnt = 0;
   for(int k = 0; k < NSRC; ++k) if(in.va[k] != 0.0)
   {
      vp_assert(a.index(cnt) == in.ix[k] && a.value(cnt) == in.va[k] && c.index(cnt) == in.ix[k] && c.value(cnt) == in.va[k], 7);
      vp_assert(b.index(cnt) == in.ix[k] && b.value(cnt) == in.va[k] && f.index(cnt) == in.ix[k] && f.value(cnt) == in.va[k], 8);
      ++cnt;
   }
   // sources untouched; copies are independent of them
   vp_assert(src.size() == NSRC && dsrc.size() == NSRC && dense_eq(src, in.d) && dense_eq(dsrc, in.d), 9);
   if(NSRC > 0) { src.value(0) = 9.0; dsrc.value(0) = 9.0; vp_assert(dense_eq(a, in.d) && dense_eq(b, in.d) && dense_eq(c, in.d) && dense_eq(f, in.d), 10); }
   vp_cover(1);
}

// ---- construction and assignment from a dense VectorBase -----------------------------------------------------------------------
extern "C" void h_dsv_from_dense()
{
   VectorBase<double> w(DIM); double wd[DIM]; int nz = 0;
   for(int i = 0; i < DIM; ++i) { wd[i] = vp_small(-4, 4); w[i] = wd[i]; if(wd[i] != 0.0) ++nz; }
   DSV a(w);
   vp_assert(owns(a) && a.size() == nz && a.max() >= nz && dense_eq(a, wd), 1);
   for(int p = 0; p < DIM; ++p) if(p < a.size()) vp_assert(a.value(p) != 0.0, 2);
   DSV b(1); b.add(DIM + 1, 5.0);
   b = w;
   vp_assert(owns(b) && b.size() == nz && b.max() >= nz && dense_eq(b, wd) && b[DIM + 1] == 0.0, 3);
   VectorBase<double> none(0);
   DSV z(none);
   vp_assert(owns(z) && z.size() == 0 && z.dim() == 0, 4);
   vp_cover(1);
}

// ---- add(const SVectorBase&): "Append nonzeros of sv" ---------------------------------------------------------------------------
extern "C" void h_dsv_add_svector()
{
   El mem[CAP]; SV src(CAP, mem);
   In<NNZ + 1> in; draw(in, false); fill(src, in, NNZ);      // src = the first NNZ entries; entry NNZ is the old content of v
   DSV v(2);
   v.add(in.ix[NNZ], 1.0); v.value(0) = in.va[NNZ];
   v.add(src);
   vp_assert(owns(v) && v.size() == NNZ + 1, 1);
   vp_assert(v.index(0) == in.ix[NNZ] && v.value(0) == in.va[NNZ], 2);
   vp_assert(dense_eq(v, in.d), 3);
   vp_cover(1);
}
