// C04-O3 / C05-O1: the four basis queries of SoPlexBase<double> - getBasis(rows, cols), basisRowStatus(i), basisColStatus(j),
// getBasisInd(bind) - describe one and the same basic set, in all four branches:
//   (a) no basis, (b) basis stored in _basisStatusRows/Cols (real LP not loaded), (c) LP loaded, COLUMN representation,
//   (d) LP loaded, ROW representation (bind = complement of the row basis).
// Solver build: `this` is raw zero memory; the LP is a really constructed SPxLPBase (for (c),(d): the base subobject of the raw
// _solver member), the descriptor / basis-id array / stored status arrays are real DataArrays filled from the script; everything
// the queries call in SPxSolverBase / SPxBasisBase / SPxLPBase is the real code.
// Native build: a real SoPlex object, LP and a first basis set through the public API, then the scripted state is written into
// the descriptor / id array / flags (the queries are read-only).
// Assumed invariant of the scripted state (exactly this, nothing more): the basis has numRows basic entries; in (c) the basis-id
// array enumerates exactly the rows/columns with a dual (D_*) descriptor status, each once; in (b) the stored arrays have the LP's sizes.
#include "lp_build.h"
#include <new>
using namespace soplex; using namespace vph;
typedef SPxSolverBase<double> Solver;
typedef SPxBasisBase<double> Basis;
typedef Basis::Desc Desc;
typedef Solver::VarStatus VS;
#ifndef VNR
#define VNR 2
#define VNC 3
#endif
#define CANARY 0x5A5A5A5A
struct Bnd { double lhs[VNR], rhs[VNR], lo[VNC], up[VNC]; };
static void draw_bounds(Bnd& d)
{
   for(int j = 0; j < VNC; ++j) { d.lo[j] = bound_or_inf(8, false); d.up[j] = bound_or_inf(8, true); vp_assume(d.lo[j] <= d.up[j]); }
   for(int i = 0; i < VNR; ++i) { d.lhs[i] = bound_or_inf(8, false); d.rhs[i] = bound_or_inf(8, true); vp_assume(d.lhs[i] <= d.rhs[i]); }
}
// LP with an empty matrix (only dimensions, bounds and sides matter here), built by the real base-class adders into pre-sized vectors
static void build_bounds(SPxLPBase<double>& lp, const Bnd& d)
{
   LPColSetBase<double>& cs = lp; LPRowSetBase<double>& rs = lp;
   cs.low.reDim(VNC); cs.up.reDim(VNC); cs.object.reDim(VNC); cs.scaleExp.reSize(VNC);
   rs.left.reDim(VNR); rs.right.reDim(VNR); rs.object.reDim(VNR); rs.scaleExp.reSize(VNR);
   DSVectorBase<double> e(1);
   for(int j = 0; j < VNC; ++j) cs.add(0.0, 0.0, e, 1.0);
   for(int i = 0; i < VNR; ++i) rs.add(0.0, e, 1.0);
   for(int j = 0; j < VNC; ++j) { lp.lower_w(j) = d.lo[j]; lp.upper_w(j) = d.up[j]; }
   for(int i = 0; i < VNR; ++i) { lp.lhs_w(i) = d.lhs[i]; lp.rhs_w(i) = d.rhs[i]; }
}
// the script: abstract basic set + concrete status per variable + order of the basic variables in the basis-id array
enum Mode { NOBASIS, STORED, COLREP, ROWREP };
struct Script
{
   Bnd d;
   int loadedflag;              // NOBASIS only: value of _isRealLPLoaded (irrelevant for the result)
   int rb[VNR], cb[VNC];        // 1 = basic (the reference basic set)
   int rvs[VNR], cvs[VNC];      // STORED: the stored VarStatus
   int rds[VNR], cds[VNC];      // COLREP/ROWREP: the descriptor status
   int ord[VNR];                // COLREP: variable at basis position k (0..VNR-1 rows, VNR.. columns)
};
static const int dualst[5] = { Desc::D_FREE, Desc::D_ON_UPPER, Desc::D_ON_LOWER, Desc::D_ON_BOTH, Desc::D_UNDEFINED };
static const int primst[4] = { Desc::P_ON_LOWER, Desc::P_ON_UPPER, Desc::P_FREE, Desc::P_FIXED };
static const int nonbasvs[5] = { Solver::ON_UPPER, Solver::ON_LOWER, Solver::FIXED, Solver::ZERO, Solver::UNDEFINED };
static void draw_script(Script& sc, Mode mode)
{
   draw_bounds(sc.d);
   sc.loadedflag = vp_int_in(0, 1);
   int nb = 0;
   for(int i = 0; i < VNR; ++i) { sc.rb[i] = vp_int_in(0, 1); nb += sc.rb[i]; }
   for(int j = 0; j < VNC; ++j) { sc.cb[j] = vp_int_in(0, 1); nb += sc.cb[j]; }
   if(mode != NOBASIS) vp_assume(nb == VNR);
   for(int i = 0; i < VNR; ++i)
   {
      int kd = vp_int_in(0, 4);
      int kp = vp_int_in(0, 3);
      int kv = vp_int_in(0, 4);
      sc.rds[i] = sc.rb[i] ? dualst[kd] : primst[kp];
      sc.rvs[i] = sc.rb[i] ? (int)Solver::BASIC : nonbasvs[kv];
   }
   for(int j = 0; j < VNC; ++j)
   {
      int kd = vp_int_in(0, 4);
      int kp = vp_int_in(0, 3);
      int kv = vp_int_in(0, 4);
      sc.cds[j] = sc.cb[j] ? dualst[kd] : primst[kp];
      sc.cvs[j] = sc.cb[j] ? (int)Solver::BASIC : nonbasvs[kv];
   }
   for(int k = 0; k < VNR; ++k)
   {
      sc.ord[k] = vp_int_in(0, VNR + VNC - 1);
      if(mode == COLREP)
      {
         int v = sc.ord[k];
         bool basic = false;
         for(int i = 0; i < VNR; ++i) if(v == i && sc.rb[i]) basic = true;
         for(int j = 0; j < VNC; ++j) if(v == VNR + j && sc.cb[j]) basic = true;
         vp_assume(basic);
         for(int l = 0; l < k; ++l) vp_assume(sc.ord[l] != v);
      }
   }
}
union SoPlexMem { SoPlex sp; SoPlexMem() {} ~SoPlexMem() {} };
static SoPlexMem mem;
union SettingsMem { SoPlex::Settings st; SettingsMem() {} ~SettingsMem() {} };
static SettingsMem stmem;

static SoPlex* make_soplex(const Script& sc, Mode mode)
{
#ifdef VP_NATIVE
   SoPlex* sp = new SoPlex();
   sp->setIntParam(SoPlex::VERBOSITY, 0);
   DSVectorBase<double> e(1);
   for(int j = 0; j < VNC; ++j) sp->addColReal(LPColBase<double>(0.0, e, sc.d.up[j], sc.d.lo[j]));
   for(int i = 0; i < VNR; ++i) sp->addRowReal(LPRowBase<double>(sc.d.lhs[i], e, sc.d.rhs[i]));
   if(mode == NOBASIS) { sp->_isRealLPLoaded = sc.loadedflag; return sp; }
   sp->_solver.setRep(mode == ROWREP ? Solver::ROW : Solver::COLUMN);
   // a first basis through the public API: sizes the descriptor and the id array
   VS r0[VNR], c0[VNC];
   for(int i = 0; i < VNR; ++i) r0[i] = Solver::BASIC;
   for(int j = 0; j < VNC; ++j) c0[j] = sc.d.lo[j] > -(double)infinity ? Solver::ON_LOWER : sc.d.up[j] < (double)infinity ? Solver::ON_UPPER : Solver::ZERO;
   sp->setBasis(r0, c0);
   if(!sp->_hasBasis || sp->_solver.rep() != (mode == ROWREP ? Solver::ROW : Solver::COLUMN)) { printf("native setup failed\n"); exit(3); }
   if(mode == STORED)
   {
      sp->_isRealLPLoaded = false;
      sp->_basisStatusRows.reSize(VNR); sp->_basisStatusCols.reSize(VNC);
      for(int i = 0; i < VNR; ++i) sp->_basisStatusRows[i] = (VS)sc.rvs[i];
      for(int j = 0; j < VNC; ++j) sp->_basisStatusCols[j] = (VS)sc.cvs[j];
      return sp;
   }
   Solver* s = &sp->_solver;
   for(int i = 0; i < VNR; ++i) s->thedesc.rowStatus(i) = (Desc::Status)sc.rds[i];
   for(int j = 0; j < VNC; ++j) s->thedesc.colStatus(j) = (Desc::Status)sc.cds[j];
   if(mode == COLREP)
      for(int k = 0; k < VNR; ++k) s->theBaseId[k] = sc.ord[k] < VNR ? SPxId(s->rId(sc.ord[k])) : SPxId(s->cId(sc.ord[k] - VNR));
   return sp;
#else
   SoPlex* sp = &mem.sp;
   stmem.st._realParamValues[SoPlex::INFTY] = (double)infinity;
   sp->_currentSettings = &stmem.st;
   new(&sp->_basisStatusRows) DataArray<VS>(VNR, VNR);
   new(&sp->_basisStatusCols) DataArray<VS>(VNC, VNC);
   if(mode == NOBASIS || mode == STORED)
   {
      LP* lp = new LP();
      build_bounds(*lp, sc.d);
      sp->_realLP = lp;
      sp->_hasBasis = (mode == STORED);
      sp->_isRealLPLoaded = (mode == STORED) ? false : (sc.loadedflag != 0);
      for(int i = 0; i < VNR; ++i) sp->_basisStatusRows[i] = (VS)sc.rvs[i];
      for(int j = 0; j < VNC; ++j) sp->_basisStatusCols[j] = (VS)sc.cvs[j];
      return sp;
   }
   Solver* s = &sp->_solver;
   LP* lp = new(static_cast<SPxLPBase<double>*>(s)) LP();     // the LP part of the solver is a real, constructed LP
   build_bounds(*lp, sc.d);
   Solver::Representation rep = (mode == ROWREP) ? Solver::ROW : Solver::COLUMN;
   s->Basis::theLP = s;
   s->theRep = rep;
   s->thevectors = rep == Solver::COLUMN ? s->colSet() : s->rowSet();          // as SPxSolverBase::initRep()
   s->thecovectors = rep == Solver::COLUMN ? s->rowSet() : s->colSet();
   s->Basis::thestatus = Basis::REGULAR;
   new(&s->thedesc.rowstat) DataArray<Desc::Status>(VNR, VNR);
   new(&s->thedesc.colstat) DataArray<Desc::Status>(VNC, VNC);
   s->thedesc.stat = rep == Solver::ROW ? &s->thedesc.rowstat : &s->thedesc.colstat;   // as SPxBasisBase::setRep()
   s->thedesc.costat = rep == Solver::ROW ? &s->thedesc.colstat : &s->thedesc.rowstat;
   for(int i = 0; i < VNR; ++i) s->thedesc.rowStatus(i) = (Desc::Status)sc.rds[i];
   for(int j = 0; j < VNC; ++j) s->thedesc.colStatus(j) = (Desc::Status)sc.cds[j];
   if(mode == COLREP)
   {
      new(&s->theBaseId) DataArray<SPxId>(VNR, VNR);
      for(int k = 0; k < VNR; ++k) s->theBaseId[k] = sc.ord[k] < VNR ? SPxId(s->rId(sc.ord[k])) : SPxId(s->cId(sc.ord[k] - VNR));
   }
   sp->_realLP = s;
   sp->_hasBasis = true;
   sp->_isRealLPLoaded = true;
   return sp;
#endif
}
// reference: VarStatus a descriptor status stands for
static int ref_vs(int st)
{
   if(st > 0) return Solver::BASIC;
   return st == Desc::P_ON_LOWER ? Solver::ON_LOWER : st == Desc::P_ON_UPPER ? Solver::ON_UPPER : st == Desc::P_FIXED ? Solver::FIXED : Solver::ZERO;
}
static void check(Mode mode)
{
   static Script sc;
   draw_script(sc, mode);
   SoPlex* sp = make_soplex(sc, mode);
   // expected status per variable
   int er[VNR], ec[VNC];
   for(int i = 0; i < VNR; ++i) er[i] = mode == NOBASIS ? (int)Solver::BASIC : mode == STORED ? sc.rvs[i] : ref_vs(sc.rds[i]);
   for(int j = 0; j < VNC; ++j)
      ec[j] = mode == NOBASIS ? (sc.d.lo[j] > -(double)infinity ? (int)Solver::ON_LOWER : sc.d.up[j] < (double)infinity ? (int)Solver::ON_UPPER : (int)Solver::ZERO)
              : mode == STORED ? sc.cvs[j] : ref_vs(sc.cds[j]);
   int eb_r[VNR], eb_c[VNC];    // the reference basic set
   for(int i = 0; i < VNR; ++i) eb_r[i] = mode == NOBASIS ? 1 : sc.rb[i];
   for(int j = 0; j < VNC; ++j) eb_c[j] = mode == NOBASIS ? 0 : sc.cb[j];

   vp_assert(sp->hasBasis() == (mode != NOBASIS), 1);
   vp_assert(sp->numRows() == VNR && sp->numCols() == VNC, 2);
   // array query, into exact-size arrays guarded by canaries
   VS rbuf[VNR + 2], cbuf[VNC + 2];
   for(int i = 0; i < VNR + 2; ++i) rbuf[i] = (VS)7;
   for(int j = 0; j < VNC + 2; ++j) cbuf[j] = (VS)7;
   sp->getBasis(rbuf + 1, cbuf + 1);
   vp_assert(rbuf[0] == (VS)7 && rbuf[VNR + 1] == (VS)7 && cbuf[0] == (VS)7 && cbuf[VNC + 1] == (VS)7, 3);
   for(int i = 0; i < VNR; ++i) { vp_assert(rbuf[1 + i] == er[i], 4); vp_assert((rbuf[1 + i] == Solver::BASIC) == (eb_r[i] != 0), 5); }
   for(int j = 0; j < VNC; ++j) { vp_assert(cbuf[1 + j] == ec[j], 6); vp_assert((cbuf[1 + j] == Solver::BASIC) == (eb_c[j] != 0), 7); }
   // per-variable queries agree with the array query
   for(int i = 0; i < VNR; ++i) vp_assert(sp->basisRowStatus(i) == rbuf[1 + i], 8);
   for(int j = 0; j < VNC; ++j) vp_assert(sp->basisColStatus(j) == cbuf[1 + j], 9);
   // documented answers for indices outside the LP: a new row would be basic, a new column nonbasic at zero
   vp_assert(sp->basisRowStatus(-1) == Solver::BASIC && sp->basisRowStatus(VNR) == Solver::BASIC, 10);
   vp_assert(sp->basisColStatus(-1) == Solver::ZERO && sp->basisColStatus(VNC) == Solver::ZERO, 11);
   // index query: written exactly numRows times, inside the array, encodes exactly the reference basic set
   int bbuf[VNR + 2];
   for(int k = 0; k < VNR + 2; ++k) bbuf[k] = CANARY;
   sp->getBasisInd(bbuf + 1);
   vp_assert(bbuf[0] == CANARY && bbuf[VNR + 1] == CANARY, 12);
   int seen_r[VNR], seen_c[VNC];
   for(int i = 0; i < VNR; ++i) seen_r[i] = 0;
   for(int j = 0; j < VNC; ++j) seen_c[j] = 0;
   for(int k = 0; k < VNR; ++k)
   {
      int b = bbuf[1 + k];
      vp_assert(b != CANARY, 13);                                   // written
      vp_assert(b >= -VNR && b < VNC, 14);                          // a row (-1-i) or a column (j) of the LP
      for(int i = 0; i < VNR; ++i) if(b == -1 - i) { vp_assert(eb_r[i] != 0, 15); vp_assert(seen_r[i] == 0, 16); seen_r[i] = 1; }
      for(int j = 0; j < VNC; ++j) if(b == j) { vp_assert(eb_c[j] != 0, 17); vp_assert(seen_c[j] == 0, 18); seen_c[j] = 1; }
   }
   // (numRows distinct basic entries and the basic set has numRows elements => equality); checked explicitly all the same
   for(int i = 0; i < VNR; ++i) vp_assert(seen_r[i] == (eb_r[i] != 0), 19);
   for(int j = 0; j < VNC; ++j) vp_assert(seen_c[j] == (eb_c[j] != 0), 20);
   // COLUMN representation: position k names the k-th basis id (C05 relies on this order); no basis: the slack basis in row order
   if(mode == COLREP) for(int k = 0; k < VNR; ++k) vp_assert(bbuf[1 + k] == (sc.ord[k] < VNR ? -1 - sc.ord[k] : sc.ord[k] - VNR), 21);
   if(mode == NOBASIS) for(int k = 0; k < VNR; ++k) vp_assert(bbuf[1 + k] == -1 - k, 22);
}
extern "C" void h_c04_getbasis_nobasis() { check(NOBASIS); vp_cover(1); }
extern "C" void h_c04_getbasis_stored() { check(STORED); vp_cover(1); }
extern "C" void h_c04_getbasis_column() { check(COLREP); vp_cover(1); }
extern "C" void h_c04_getbasis_row() { check(ROWREP); vp_cover(1); }

// C04-O6: setBasis while the real LP is not loaded stores the arrays; every query then returns exactly what was set
extern "C" void h_c04_setbasis_stored()
{
   static Script sc;
   draw_bounds(sc.d);
   int had = vp_int_in(0, 1);
   int rs[VNR], cs[VNC];
   for(int i = 0; i < VNR; ++i) rs[i] = vp_int_in(Solver::ON_UPPER, Solver::UNDEFINED);
   for(int j = 0; j < VNC; ++j) cs[j] = vp_int_in(Solver::ON_UPPER, Solver::UNDEFINED);
#ifdef VP_NATIVE
   SoPlex* sp = new SoPlex();
   sp->setIntParam(SoPlex::VERBOSITY, 0);
   DSVectorBase<double> e(1);
   for(int j = 0; j < VNC; ++j) sp->addColReal(LPColBase<double>(0.0, e, sc.d.up[j], sc.d.lo[j]));
   for(int i = 0; i < VNR; ++i) sp->addRowReal(LPRowBase<double>(sc.d.lhs[i], e, sc.d.rhs[i]));
   sp->_isRealLPLoaded = false;
   sp->_hasBasis = had;
#else
   SoPlex* sp = &mem.sp;
   stmem.st._realParamValues[SoPlex::INFTY] = (double)infinity;
   sp->_currentSettings = &stmem.st;
   new(&sp->_basisStatusRows) DataArray<VS>(0, VNR);       // empty, capacity for the LP (no reallocation)
   new(&sp->_basisStatusCols) DataArray<VS>(0, VNC);
   LP* lp = new LP();
   build_bounds(*lp, sc.d);
   sp->_realLP = lp;
   sp->_isRealLPLoaded = false;
   sp->_hasBasis = had;
#endif
   VS rin[VNR], cin[VNC];
   for(int i = 0; i < VNR; ++i) rin[i] = (VS)rs[i];
   for(int j = 0; j < VNC; ++j) cin[j] = (VS)cs[j];
   sp->setBasis(rin, cin);
   vp_assert(sp->hasBasis(), 1);
   vp_assert(!sp->_isRealLPLoaded, 2);
   vp_assert(sp->_basisStatusRows.size() == VNR && sp->_basisStatusCols.size() == VNC, 3);
   VS rout[VNR], cout_[VNC];
   sp->getBasis(rout, cout_);
   for(int i = 0; i < VNR; ++i) { vp_assert(rout[i] == rs[i], 4); vp_assert(sp->basisRowStatus(i) == rs[i], 5); vp_assert(rin[i] == rs[i], 6); }
   for(int j = 0; j < VNC; ++j) { vp_assert(cout_[j] == cs[j], 7); vp_assert(sp->basisColStatus(j) == cs[j], 8); vp_assert(cin[j] == cs[j], 9); }
   vp_cover(1);
}
