// STATUS (hw-parsers): NOT ENABLED - there is deliberately no c12_ratfromstring.json. The harness translates and the models are
// complete, but symbolic execution of the real libstdc++ std::string code (find_first_of/substr/erase/insert/append and
// std::search on a string whose LENGTH depends on symbolic bytes) did not finish the first loop-bound discovery run within
// 30 min even for literals of length <= 4 (CBMC 6.11, unwind 8). To enable: add a spec with the ll2c directives listed at the
// end of this file.
// C12-O1: soplex::ratFromString (src/soplex/rational.h) turns every numeric literal into exactly the rational it denotes.
// The real string manipulation (std::string code of libstdc++, std::search, std::stoi) is translated as is. GMP is not
// modelled; instead the SIX functions through which ratFromString touches Boost's gmp_rational are replaced by a
// mini-rational that lives inside the real object's 32 bytes:
//    gmp_rational(), =(const char*)  [parses "[-]digits[/digits]", throws otherwise like Boost], =(gmp_rational&&),
//    =(double) [kept as "a double"], ~gmp_rational(), number::operator*=(const double&) [records the double factor]
// and libm/libc by  pow(10,k) = the correctly rounded double (table), strtol = exact, errno.
// The result is therefore  num/den * factor  with factor a double; it is compared EXACTLY (integer cross-multiplication)
// with  sign * M * 10^(E - fracdigits)  computed by an independent reference parser.
// Native build: the real ratFromString with real GMP, compared with the reference value built from integers.
#include "soplex_all.h"
#include <cerrno>
using namespace soplex;
typedef boost::multiprecision::backends::gmp_rational GR;

#ifndef LEN
#define LEN 5
#endif

// ------------------------------------------------------------------ mini rational inside the gmp_rational object
struct Mini { long num; long den; double mul; long flags; };
enum { F_MUL = 1, F_DOUBLE = 2 };
static_assert(sizeof(GR) >= sizeof(Mini), "mini rational must fit");
struct BadRat { int x; };
static Mini* mini(GR* g) { return reinterpret_cast<Mini*>(g); }
extern "C" void m_gr_ctor(GR* self) { Mini* m = mini(self); m->num = 0; m->den = 1; m->mul = 1.0; m->flags = 0; }
extern "C" void m_gr_dtor(GR* self) { }
extern "C" GR& m_gr_assign_move(GR* self, GR&& o) { *mini(self) = *mini(&o); return *self; }
extern "C" GR& m_gr_assign_double(GR* self, double d) { Mini* m = mini(self); m->num = 0; m->den = 1; m->mul = d; m->flags = F_DOUBLE; return *self; }
extern "C" GR& m_gr_assign_str(GR* self, const char* s)
{
   // what mpq_set_str(.., 10) accepts here: optional '-', digits, optional '/' digits (digits non-empty); anything else throws
   Mini* m = mini(self);
   int i = 0; bool neg = false;
   if(s[i] == '-') { neg = true; ++i; }
   long n = 0; int nd = 0;
   while(s[i] >= '0' && s[i] <= '9') { n = n * 10 + (s[i] - '0'); ++i; ++nd; vp_assume(nd <= LEN + 1); }
   long d = 1;
   bool ok = nd > 0;
   if(ok && s[i] == '/')
   {
      ++i; d = 0; int dd = 0;
      while(s[i] >= '0' && s[i] <= '9') { d = d * 10 + (s[i] - '0'); ++i; ++dd; vp_assume(dd <= LEN + 1); }
      ok = dd > 0;
   }
   if(!ok || s[i] != '\0') throw BadRat();
   m->num = neg ? -n : n; m->den = d; m->mul = 1.0; m->flags = 0;
   return *self;
}
extern "C" Rational& m_muleq(Rational* self, const double& d)
{
   Mini* m = mini(&self->backend());
   m->mul = d; m->flags |= F_MUL;
   return *self;
}
// pow(10, k): exact for 0 <= k <= 22, the correctly rounded double for -22 <= k < 0 (decimal literals are correctly rounded)
static const double P10[] = {1e0, 1e1, 1e2, 1e3, 1e4, 1e5, 1e6, 1e7, 1e8, 1e9, 1e10, 1e11, 1e12, 1e13, 1e14, 1e15, 1e16, 1e17, 1e18, 1e19, 1e20, 1e21, 1e22};
static const double N10[] = {1e-0, 1e-1, 1e-2, 1e-3, 1e-4, 1e-5, 1e-6, 1e-7, 1e-8, 1e-9, 1e-10, 1e-11, 1e-12, 1e-13, 1e-14, 1e-15, 1e-16, 1e-17, 1e-18, 1e-19, 1e-20, 1e-21, 1e-22};
extern "C" double m_pow(double b, double e)
{
   vp_assume(b == 10.0);
   vp_assume(e >= -22.0 && e <= 22.0);                 // bound on the exponent, stated
   int k = (int)e;
   vp_assume((double)k == e);
   return k >= 0 ? P10[k] : N10[-k];
}
static int g_errno;
extern "C" int* m_errno_location() { return &g_errno; }
extern "C" long m_strtol(const char* s, char** end, int base)
{
   int i = 0; bool neg = false; bool any = false; long v = 0;
   while(s[i] == ' ' || (s[i] >= 9 && s[i] <= 13)) ++i;
   if(s[i] == '+' || s[i] == '-') { neg = s[i] == '-'; ++i; }
   while(s[i] >= '0' && s[i] <= '9') { v = v * 10 + (s[i] - '0'); any = true; ++i; }
   if(end != nullptr) *end = (char*)(any ? s + i : s);
   return neg ? -v : v;
}

// ------------------------------------------------------------------ reference: the grammar and the value
//    decimal : sign? digits* ( '.' digits* )? ( [eE] sign? digits+ )?    with at least one mantissa digit
//    fraction: sign? digits+ '/' digits+                                with a nonzero denominator
struct Lit { bool ok; bool neg; long M; int frac; int E; bool isfrac; long den; };
static bool dg(int c) { return c >= '0' && c <= '9'; }
static Lit reference(const char* s)
{
   Lit l; l.ok = false; l.neg = false; l.M = 0; l.frac = 0; l.E = 0; l.isfrac = false; l.den = 1;
   int i = 0;
   if(s[i] == '+' || s[i] == '-') { l.neg = s[i] == '-'; ++i; }
   int nd = 0;
   while(dg(s[i])) { l.M = l.M * 10 + (s[i] - '0'); ++i; ++nd; }
   if(s[i] == '/')
   {
      if(nd == 0) return l;
      ++i; int dd = 0; l.den = 0;
      while(dg(s[i])) { l.den = l.den * 10 + (s[i] - '0'); ++i; ++dd; }
      if(dd == 0 || l.den == 0 || s[i] != '\0') return l;
      l.isfrac = true; l.ok = true;
      return l;
   }
   if(s[i] == '.')
   {
      ++i;
      while(dg(s[i])) { l.M = l.M * 10 + (s[i] - '0'); ++i; ++nd; ++l.frac; }
   }
   if(nd == 0) return l;
   if(s[i] == 'e' || s[i] == 'E')
   {
      ++i; bool eneg = false;
      if(s[i] == '+' || s[i] == '-') { eneg = s[i] == '-'; ++i; }
      int ed = 0; int e = 0;
      while(dg(s[i])) { e = e * 10 + (s[i] - '0'); ++i; ++ed; }
      if(ed == 0) return l;
      l.E = eneg ? -e : e;
   }
   if(s[i] != '\0') return l;
   l.ok = true;
   return l;
}
static long p10(int k) { long v = 1; for(int i = 0; i < 18; ++i) if(i < k) v *= 10; return v; }

extern "C" void h_ratfromstring()
{
   // arbitrary text of length n <= LEN over the alphabet of the grammar, in an exactly sized heap object
   static const char ALPHA[] = "0123456789+-.eE/";
   char* b = (char*)malloc((size_t)LEN + 1);
   int p = vp_int_in(0, LEN - 1);
   for(int i = 0; i < LEN; ++i)
   {
      int c = vp_int_in(0, 15);
      b[i] = ALPHA[c];
   }
   b[LEN] = '\0';
   const char* txt = b + p;                            // literal of length LEN-p (1..LEN)
   Lit l = reference(txt);
   vp_assume(l.ok);                                    // a literal of the grammar
   vp_assume(l.E >= -9 && l.E <= 9);                   // bound: one exponent digit
   g_errno = 0;
   bool threw = false;
#ifndef VP_NATIVE
   Mini res; res.num = 0; res.den = 1; res.mul = 1.0; res.flags = 0;
   try
   {
      Rational r = ratFromString(txt);
      res = *mini(&r.backend());
   }
   catch(...) { threw = true; }
   vp_assert(!threw, 1);                               // every literal of the grammar is accepted
   if(!threw)
   {
      vp_assert((res.flags & F_DOUBLE) == 0, 2);
      // result = num/den * f ; expected = s*M/den_ref (fraction) or s*M*10^(E-frac)
      long sM = l.neg ? -l.M : l.M;
      bool exact;
      if((res.flags & F_MUL) == 0 || sM == 0 || res.num == 0)
      {
         // no factor (or a zero value): plain rational
         long en = sM, ed = l.den;
         int sh = l.E - l.frac;
         if(!l.isfrac) { if(sh >= 0) en = sM * p10(sh); else ed = p10(-sh); }
         bool fz = (res.flags & F_MUL) != 0 && res.mul == 0.0;
         exact = fz ? (en == 0) : (res.num * ed == en * res.den && res.den != 0);
      }
      else
      {
         // a double factor: it must be an integer power of ten to give a decimal value exactly (a double with a
         // fractional part is k/2^j and never equals 10^-n)
         double f = res.mul;
         bool isint = f >= 1.0 && f <= 1e9 && (double)(long)f == f;
         if(!isint) exact = false;
         else
         {
            long F = (long)f;
            int sh = l.E - l.frac;
            long en = sM, ed = 1;
            if(sh >= 0) en = sM * p10(sh); else ed = p10(-sh);
            exact = res.den != 0 && res.num * F * ed == en * res.den;
         }
      }
      vp_assert(exact, 3);                             // the literal is read exactly
   }
#else
   Rational r;
   try { r = ratFromString(txt); }
   catch(...) { threw = true; }
   vp_assert(!threw, 1);
   Rational ex(l.neg ? -l.M : l.M);
   if(l.isfrac) ex /= Rational(l.den);
   else
   {
      int sh = l.E - l.frac;
      for(int i = 0; i < (sh >= 0 ? sh : -sh); ++i) { if(sh >= 0) ex *= 10; else ex /= 10; }
   }
   vp_assert(r == ex, 3);
#endif
   vp_cover(1);
   free(b);
}

/* ll2c directives used in the experiment:
  cut *
  keep soplex::ratFromString | keep soplex::findSubStringIC | keep std:: | keep __gnu_cxx:: | keep boost::multiprecision::number<
  keep operator new | keep operator delete | cut std::basic_ostream | cut std::ios_base | cut std::basic_ios | cut std::operator<<
  replace gmp_rational::gmp_rational() => m_gr_ctor
  replace gmp_rational::~gmp_rational() => m_gr_dtor
  replace gmp_rational::operator=(boost::multiprecision::backends::gmp_rational&&) => m_gr_assign_move
  replace gmp_rational::operator=(double) => m_gr_assign_double
  replace gmp_rational::operator=(char const*) => m_gr_assign_str
  replace expression_template_option)0>::operator*=<double>(double const&) => m_muleq
  replace =pow => m_pow | replace =strtol => m_strtol | replace =__errno_location => m_errno_location
  repo_srcs: soplex/spxdefines.cpp ; native_srcs: all ; defs: -DLEN=4 ; unwind 8
*/
