// C07-O1: every public real modifier under SYNCMODE_AUTO performs the matching rational-LP call with the same
// indices / permutation / (converted) values and keeps _rowTypes/_colTypes equal to the classification of the NEW
// rational bounds. The machinery (stand-in LPs, conversion tokens, reference model) is in c06_modifiers.cpp.
#define VP_C07 1
#include "c06_modifiers.cpp"
