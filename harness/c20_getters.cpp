// C20-O2: reading functions of the C interface (src/soplex_interface.cpp) return exactly what the C++ getters return and write only
// inside the caller's arrays.
//
// Solver build (contract style): the handle is typed zero memory (no constructor run).  The C++ getters the wrappers call are REPLACEd by
// scripted models that return harness-chosen symbolic values (and log the arguments they received); for the solution getters
// (getPrimalReal/getDualReal/getRedCostReal) the REAL SoPlexBase<double>::get*Real(R*,int) is kept and only its callees are modelled
// (numCols/numRows scripted, _syncRealSolution cut, solution vectors of the raw object constructed in place with scripted values).
// Output arrays are heap objects of EXACTLY the announced length, pre-filled with a sentinel, so that every write outside them is caught
// by the built-in checks and "nothing else written" is an assertion.
// Native build (replay): a real SoPlex object with a small LP built (and optionally solved) from the same drawn values; the expected
// values are obtained through the C++ API of that object.
#include "soplex_all.h"
#include "soplex_interface.h"
using namespace soplex;
#ifndef NMAX
#define NMAX 3
#endif
#define CAP 8                      // DSVector's default capacity
#define SENT (-777.0)
typedef SoPlexBase<double> SP;
typedef Nonzero<double> NZ;
static bool same_bits(double a, double b) { unsigned long x, y; std::memcpy(&x, &a, 8); std::memcpy(&y, &b, 8); return x == y; }

// the scripted state of the object behind the handle
struct Script
{
   int n;                          // number of columns
   int m;                          // number of rows (== n except in the solution obligation, where it is independent)
   bool has_sol;
   double v[NMAX], w[NMAX];        // LP data / scripted vector values
   int ival; double dval;          // scripted scalar results
   int rn; int ridx[NMAX]; double rval[NMAX];      // scripted row vector
};
static Script S;
// what the models saw
static int ncalls; static const void* seen_self; static int seen_which; static int seen_i; static int seen_j; static const void* seen_ptr;
enum { G_NONE = 0, G_NUMROWS, G_NUMCOLS, G_STATUS, G_ITERS, G_TIME, G_OBJVAL, G_INTPARAM, G_ROWSTAT, G_COLSTAT, G_OPTIMIZE, G_LOWER, G_UPPER, G_OBJ,
       G_ROWVEC, G_LHS, G_RHS, G_LHSQ, G_RHSQ
     };
static void* hA;
static int cur_n;                   // S.n as a compile-time-like constant inside a case split

#ifndef VP_NATIVE
union Mem { SoPlex sp; Mem() {} ~Mem() {} };
static Mem mem;
static void saw(int which, const void* self) { ncalls++; seen_which = which; seen_self = self; }
static Rational* q_lhs; static Rational* q_rhs;
extern "C" {
   void m_alloc_nz(NZ*& p, int n) { vp_assert(n >= 0 && n <= CAP, 90); p = (NZ*)malloc(CAP * sizeof(NZ)); }
   void m_realloc_nz(NZ*& p, int n)
   {
      vp_assert(n >= 0 && n <= CAP, 91);
      NZ* q = (NZ*)malloc(CAP * sizeof(NZ));
      for(int k = 0; k < CAP; ++k) q[k] = p[k];
      free(p);
      p = q;
   }
   int m_numRows(const SP* self) { if(seen_which == G_NONE) saw(G_NUMROWS, self); return S.m; }          // also used inside getDualReal
   int m_numCols(const SP* self) { if(seen_which == G_NONE) saw(G_NUMCOLS, self); return S.n; }
   int m_status(const SP* self) { saw(G_STATUS, self); return S.ival; }
   int m_numIterations(const SP* self) { saw(G_ITERS, self); return S.ival; }
   double m_solveTime(const SP* self) { saw(G_TIME, self); return S.dval; }
   double m_objValueReal(SP* self) { saw(G_OBJVAL, self); return S.dval; }
   int m_intParam(const SP* self, SP::IntParam p) { saw(G_INTPARAM, self); seen_i = (int)p; return S.ival; }
   int m_basisRowStatus(const SP* self, int i) { saw(G_ROWSTAT, self); seen_i = i; return S.ival; }
   int m_basisColStatus(const SP* self, int i) { saw(G_COLSTAT, self); seen_i = i; return S.ival; }
   int m_optimize(SP* self, volatile bool* interrupt) { saw(G_OPTIMIZE, self); seen_ptr = (const void*)interrupt; return S.ival; }
   // like the real getters: the argument becomes a copy of the LP's vector, i.e. it has numCols entries afterwards
   // (cur_n is S.n as a constant of the current case split: heap objects of symbolic size are intractable)
   static void give(VectorBase<double>& out, const double* src) { VectorBase<double> t(cur_n); for(int j = 0; j < cur_n; ++j) t[j] = src[j]; out = t; }
   void m_getLowerReal(const SP* self, VectorBase<double>& out) { saw(G_LOWER, self); give(out, S.v); }
   void m_getUpperReal(const SP* self, VectorBase<double>& out) { saw(G_UPPER, self); give(out, S.w); }
   void m_getObjReal(const SP* self, VectorBase<double>& out) { saw(G_OBJ, self); give(out, S.v); }
   void m_getRowVectorReal(const SP* self, int i, DSVectorBase<double>& row)
   {
      saw(G_ROWVEC, self); seen_i = i;
      row.clear();
      for(int k = 0; k < S.rn; ++k) row.add(S.ridx[k], S.rval[k]);
   }
   double m_lhsReal(const SP* self, int i) { ncalls++; seen_self = self; seen_i = i; return S.v[0]; }
   double m_rhsReal(const SP* self, int i) { ncalls++; seen_self = self; seen_j = i; return S.w[0]; }
}
#endif

// ------------------------------------------------------------------------------------------------------------------------------
// draws the script (same draws in both builds) and creates the object
static void setup(bool solve, bool indep_rows = false)
{
   S.n = vp_int_in(0, NMAX);
   S.m = S.n;
   if(indep_rows) S.m = vp_int_in(0, NMAX);
   S.has_sol = vp_nondet_bool();
   for(int j = 0; j < NMAX; ++j) S.v[j] = vp_small(0, 4);
   for(int j = 0; j < NMAX; ++j) S.w[j] = vp_small(0, 4);
   S.ival = vp_nondet_int();
   S.dval = vp_nondet_double();
   ncalls = 0; seen_which = G_NONE; seen_self = 0; seen_i = -12345; seen_j = -12345; seen_ptr = 0;
#ifdef VP_NATIVE
   SoPlex* A = (SoPlex*)SoPlex_create(); hA = A;
   A->setIntParam(SoPlex::VERBOSITY, 0);
   A->setIntParam(SoPlex::OBJSENSE, SoPlex::OBJSENSE_MAXIMIZE);
   // max sum (1+v_j) x_j  s.t.  x_i + [x_{i+1}] <= 1 + w_i,  x >= 0  (bounded, feasible)
   // independent row count: S.n columns (with finite upper bounds: fewer rows than columns must not make it unbounded) and S.m rows
   // (row i >= n: x_{i mod n} <= 1 + w_i, or an empty row if there is no column), so that the dual vector has S.m entries
   for(int j = 0; j < S.n; ++j) { DSVector e(1); A->addColReal(LPCol(1.0 + S.v[j], e, indep_rows ? 10.0 + S.w[j] : (double)infinity, S.v[j] - 4.0)); }
   for(int i = 0; i < S.m; ++i)
   {
      DSVector r(2);
      if(i < S.n) { r.add(i, 1.0); if(i + 1 < S.n) r.add(i + 1, 2.0); }
      else if(S.n > 0) r.add(i % S.n, 1.0);
      A->addRowReal(LPRow(-infinity, r, 1.0 + S.w[i]));
   }
   if(solve && S.has_sol) A->optimize();
#else
   hA = &mem.sp;
#endif
}
static double* sentinel_array(int n)
{
   double* a = (double*)malloc(n * sizeof(double));
   for(int i = 0; i < n; ++i) a[i] = SENT;
   return a;
}

// ------------------------------------------------------------------------------------------------------------------------------
// scalar getters: result and arguments passed through unchanged
extern "C" void h_c20_get_scalar()
{
   setup(true);
   int fn = vp_int_in(0, 9);
   int arg = vp_int_in(0, NMAX - 1);
   int code = vp_int_in(0, SoPlex::INTPARAM_COUNT - 1);
   int ri = 0; double rd = 0.0; int which = G_NONE; bool isd = false;
   switch(fn)
   {
   case 0: ri = SoPlex_numRows(hA); which = G_NUMROWS; break;
   case 1: ri = SoPlex_numCols(hA); which = G_NUMCOLS; break;
   case 2: ri = SoPlex_getStatus(hA); which = G_STATUS; break;
   case 3: ri = SoPlex_getNumIterations(hA); which = G_ITERS; break;
   case 4: rd = SoPlex_getSolvingTime(hA); which = G_TIME; isd = true; break;
   case 5: rd = SoPlex_objValueReal(hA); which = G_OBJVAL; isd = true; break;
   case 6: ri = SoPlex_getIntParam(hA, code); which = G_INTPARAM; break;
   case 7: ri = SoPlex_basisRowStatus(hA, arg); which = G_ROWSTAT; break;
   case 8: ri = SoPlex_basisColStatus(hA, arg); which = G_COLSTAT; break;
   default: ri = SoPlex_getStatus(hA); which = G_STATUS; break;
   }
   int ei = 0; double ed = 0.0;
#ifdef VP_NATIVE
   SoPlex* A = (SoPlex*)hA;
   bool argok = arg < S.n;             // the C++ accessors are only defined for existing rows/columns
   switch(fn)
   {
   case 0: ei = A->numRows(); break;
   case 1: ei = A->numCols(); break;
   case 2: ei = (int)A->status(); break;
   case 3: ei = A->numIterations(); break;
   case 4: ed = rd; break;                 // wall-clock: not reproducible
   case 5: ed = A->objValueReal(); break;
   case 6: ei = A->intParam((SoPlex::IntParam)code); break;
   case 7: ei = (int)A->basisRowStatus(arg); break;
   case 8: ei = (int)A->basisColStatus(arg); break;
   default: ei = (int)A->status(); break;
   }
   (void)argok;
#else
   ei = fn <= 1 ? S.n : S.ival; ed = S.dval;
   vp_assert(ncalls == 1 && seen_which == which && seen_self == hA, 1);
   if(fn == 6) vp_assert(seen_i == code, 2);
   if(fn == 7 || fn == 8) vp_assert(seen_i == arg, 2);
#endif
   if(isd) vp_assert(same_bits(rd, ed), 3);
   else vp_assert(ri == ei, 3);
   vp_cover(1);
}
// SoPlex_optimize: status code of optimize() passed through, optimize() called once without interrupt flag
extern "C" void h_c20_optimize()
{
   setup(false);
   int r = SoPlex_optimize(hA);
#ifdef VP_NATIVE
   vp_assert(r == (int)((SoPlex*)hA)->status(), 3);
#else
   vp_assert(ncalls == 1 && seen_which == G_OPTIMIZE && seen_self == hA && seen_ptr == 0, 1);
   vp_assert(r == S.ival, 3);
#endif
   vp_cover(1);
}

// ------------------------------------------------------------------------------------------------------------------------------
// solution vectors: SoPlex_getPrimalReal / getDualReal / getRedCostReal into a buffer of exactly dim doubles
struct Exp { bool ok; int need; double val[NMAX]; };
static void body_solution(int fn, int n, int m, int dim)
{
   Exp e; e.need = fn == 1 ? m : n;                  // duals: one entry per row; primal and reduced costs: one per column
#ifdef VP_NATIVE
   SoPlex* A = (SoPlex*)hA;
   VectorBase<double> x(fn == 1 ? A->numRows() : A->numCols());
   bool got = fn == 0 ? A->getPrimal(x) : fn == 1 ? A->getDual(x) : A->getRedCost(x);
   e.ok = got && dim >= e.need;
   for(int j = 0; j < e.need; ++j) e.val[j] = x[j];
#else
   // the solution vectors of the raw object have been constructed by sol_cols(n) / sol_rows(m)
   e.ok = S.has_sol && dim >= e.need;
   for(int j = 0; j < e.need; ++j) e.val[j] = fn == 0 ? S.v[j] : fn == 1 ? S.w[j] : S.v[j] - S.w[j];
#endif
   double* buf = sentinel_array(dim);
   if(fn == 0) SoPlex_getPrimalReal(hA, buf, dim);
   else if(fn == 1) SoPlex_getDualReal(hA, buf, dim);
   else SoPlex_getRedCostReal(hA, buf, dim);
   for(int i = 0; i < dim; ++i)
   {
      if(e.ok && i < e.need) vp_assert(same_bits(buf[i], e.val[i]), 4);     // the solution values, bit for bit
      else vp_assert(same_bits(buf[i], SENT), 5);                           // nothing else written
   }
   free(buf);
}
// solver build: scripted solution of the raw object; primal and reduced costs have one entry per column, duals one per row.
// Constructed once per level of the case split (not once per leaf): fewer heap objects, same concrete sizes on every path.
static void sol_cols(int n)
{
#ifndef VP_NATIVE
   SoPlex* sp = &mem.sp;
   sp->_hasSolReal = S.has_sol; sp->_hasSolRational = false;
   new(&sp->_solReal._primal) VectorBase<double>(n);
   new(&sp->_solReal._redCost) VectorBase<double>(n);
   for(int j = 0; j < n; ++j) { sp->_solReal._primal[j] = S.v[j]; sp->_solReal._redCost[j] = S.v[j] - S.w[j]; }
#endif
}
static void sol_rows(int m)
{
#ifndef VP_NATIVE
   SoPlex* sp = &mem.sp;
   new(&sp->_solReal._dual) VectorBase<double>(m);
   for(int i = 0; i < m; ++i) sp->_solReal._dual[i] = S.w[i];
#endif
}
extern "C" void h_c20_get_solution()
{
   setup(true, true);                     // numbers of rows and columns independent of each other
   int fn = vp_int_in(0, 2);
   int dim = vp_int_in(0, NMAX);          // smaller than, equal to and larger than the LP dimension
   for(int n = 0; n <= NMAX; ++n) if(S.n == n)
      {
         sol_cols(n);
         for(int m = 0; m <= NMAX; ++m) if(S.m == m)
            {
               sol_rows(m);
               for(int d = 0; d <= NMAX; ++d) if(dim == d) body_solution(fn, n, m, d);
            }
      }
   vp_cover(1);
}

// ------------------------------------------------------------------------------------------------------------------------------
// LP vectors: SoPlex_getLowerReal / getUpperReal / getObjReal into a buffer of exactly dim doubles
static void body_lpvec(int fn, int n, int dim)
{
   cur_n = n;
   double exp[NMAX];
#ifdef VP_NATIVE
   SoPlex* A = (SoPlex*)hA;
   for(int j = 0; j < n; ++j) exp[j] = fn == 0 ? A->lowerReal(j) : fn == 1 ? A->upperReal(j) : A->objReal(j);
#else
   for(int j = 0; j < n; ++j) exp[j] = fn == 1 ? S.w[j] : S.v[j];
#endif
   double* buf = sentinel_array(dim);
   if(fn == 0) SoPlex_getLowerReal(hA, buf, dim);
   else if(fn == 1) SoPlex_getUpperReal(hA, buf, dim);
   else SoPlex_getObjReal(hA, buf, dim);
#ifndef VP_NATIVE
   vp_assert(ncalls == 1 && seen_which == (fn == 0 ? G_LOWER : fn == 1 ? G_UPPER : G_OBJ) && seen_self == hA, 1);
#endif
   for(int i = 0; i < dim && i < n; ++i) vp_assert(same_bits(buf[i], exp[i]), 4);
   free(buf);
}
// dim <= number of columns
extern "C" void h_c20_get_lpvec()
{
   setup(false);
   int fn = vp_int_in(0, 2);
   int dim = vp_int_in(0, NMAX);
   vp_assume(dim <= S.n);
   for(int n = 0; n <= NMAX; ++n) for(int d = 0; d <= n; ++d) if(S.n == n && dim == d) body_lpvec(fn, n, d);
   vp_cover(1);
}
// dim > number of columns ("dimension argument larger than needed"): the first numCols entries are the values and no memory outside
// the buffer or the LP's vectors is touched
extern "C" void h_c20_get_lpvec_large()
{
   setup(false);
   int fn = vp_int_in(0, 2);
   int dim = vp_int_in(1, NMAX);
   vp_assume(dim > S.n);
   for(int n = 0; n < NMAX; ++n) for(int d = n + 1; d <= NMAX; ++d) if(S.n == n && dim == d) body_lpvec(fn, n, d);
   vp_cover(1);
}

// ------------------------------------------------------------------------------------------------------------------------------
// SoPlex_getRowVectorReal(i, &nnz, indices, coefs) (arrays with room for numCols entries) and SoPlex_getRowBoundsReal(i, &lb, &ub)
static void body_rowvec(int n, int i)
{
   cur_n = n;
   int en = 0; int eidx[NMAX]; double eval[NMAX];
#ifdef VP_NATIVE
   SoPlex* A = (SoPlex*)hA;
   const SVectorBase<double>& r = A->rowVectorRealInternal(i);
   en = r.size();
   for(int k = 0; k < en; ++k) { eidx[k] = r.index(k); eval[k] = r.value(k); }
#else
   en = S.rn;
   for(int k = 0; k < en; ++k) { eidx[k] = S.ridx[k]; eval[k] = S.rval[k]; }
#endif
   int nnz = -1;
   long* indices = (long*)malloc(n * sizeof(long));
   double* coefs = sentinel_array(n);
   for(int k = 0; k < n; ++k) indices[k] = -7;
   SoPlex_getRowVectorReal(hA, i, &nnz, indices, coefs);
#ifndef VP_NATIVE
   vp_assert(ncalls == 1 && seen_which == G_ROWVEC && seen_self == hA && seen_i == i, 1);
#endif
   vp_assert(nnz == en, 3);
   for(int k = 0; k < n; ++k)
   {
      if(k < en) vp_assert(indices[k] == eidx[k] && same_bits(coefs[k], eval[k]), 4);
      else vp_assert(indices[k] == -7 && same_bits(coefs[k], SENT), 5);
   }
   free(indices); free(coefs);
}
extern "C" void h_c20_get_rowvec()
{
   setup(false);
   vp_assume(S.n >= 1);
   int i = vp_int_in(0, NMAX - 1);
   vp_assume(i < S.n);
   // scripted row: rn <= n entries with ascending indices
   S.rn = vp_int_in(0, NMAX);
   vp_assume(S.rn <= S.n);
   for(int k = 0; k < NMAX; ++k) { S.ridx[k] = k; S.rval[k] = vp_small(1, 5); }
   for(int n = 1; n <= NMAX; ++n) if(S.n == n) body_rowvec(n, i);
   vp_cover(1);
}
extern "C" void h_c20_get_rowbounds()
{
   setup(false);
   vp_assume(S.n >= 1);
   int i = vp_int_in(0, NMAX - 1);
   vp_assume(i < S.n);
   double* lb = sentinel_array(1);
   double* ub = sentinel_array(1);
   SoPlex_getRowBoundsReal(hA, i, lb, ub);
   double el, eu;
#ifdef VP_NATIVE
   el = ((SoPlex*)hA)->lhsReal(i); eu = ((SoPlex*)hA)->rhsReal(i);
#else
   el = S.v[0]; eu = S.w[0];
   vp_assert(ncalls == 2 && seen_self == hA && seen_i == i && seen_j == i, 1);
#endif
   vp_assert(same_bits(*lb, el), 6);
   vp_assert(same_bits(*ub, eu), 7);
   free(lb); free(ub);
   vp_cover(1);
}
