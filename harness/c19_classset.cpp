// C19-O1 (+ C17-O2): ClassSet<T> for a small class T with user-provided constructors and assignment.
// Inductive steps from an arbitrary state satisfying the FULL representation invariant (the free list is described, which
// isConsistent() does not do) + bounded histories from the constructor as cross-check. Pre-sized: no reMax relocation in the
// step/history obligations (themax == CAP throughout, asserted by inv()); reMax has its own obligation.
#include "vp.h"
#include "soplex/spxdefines.h"
#include "soplex/classset.h"
using namespace soplex;
#ifndef CAP
#define CAP 4
#endif
#ifndef HIST
#define HIST 4
#endif
// element class: not trivially copyable (user-provided copy operations), carries a second field that must travel with the first
struct Elem
{
   int v; int w;
   Elem() : v(0), w(0) {}
   Elem(int a) : v(a), w(3 * a + 1) {}
   Elem(const Elem& o) : v(o.v), w(o.w) {}
   Elem& operator=(const Elem& o) { v = o.v; w = o.w; return *this; }
   bool is(int a) const { return v == a && w == 3 * a + 1; }
};
struct CS : public ClassSet<Elem>
{
   CS(int m) : ClassSet<Elem>(m) {}
   CS(const CS& o) : ClassSet<Elem>(o) {}
   // full representation invariant for capacity mx
   bool inv(int mx = CAP) const
   {
      if(themax != mx) return false;
      if(!(0 <= thenum && thenum <= thesize && thesize <= themax)) return false;
      for(int i = 0; i < thenum; ++i)
      {
         int ix = thekey[i].idx;
         if(ix < 0 || ix >= thesize) return false;
         if(theitem[ix].info != i) return false;
      }
      int cnt = 0; int f = firstfree;
      for(int steps = 0; steps <= mx; ++steps)
      {
         if(f == -themax - 1) break;
         if(f >= 0 || f < -themax - 1) return false;
         int ix = -f - 1;
         if(ix < 0 || ix >= thesize) return false;
         if(theitem[ix].info >= 0) return false;
         ++cnt;
         f = theitem[ix].info;
      }
      if(f != -themax - 1) return false;
      if(cnt != thesize - thenum) return false;
      int used = 0;
      for(int i = 0; i < thesize; ++i) if(theitem[i].info >= 0) ++used;
      return used == thenum;
   }
   void havoc(int csize = -1)
   {  // csize >= 0: thesize is that concrete number (needed where thesize drives an allocation decision), otherwise arbitrary
      thesize = vp_nondet_int(); thenum = vp_nondet_int(); firstfree = vp_nondet_int();
      if(csize >= 0) thesize = csize;
      for(int i = 0; i < CAP; ++i)
      {
         int a = vp_int_in(-100, 100);
         theitem[i].data = Elem(a); theitem[i].info = vp_nondet_int(); thekey[i].idx = vp_nondet_int(); thekey[i].info = 0;
      }
   }
   const void* itemMem() const { return theitem; }
   const void* keyMem() const { return thekey; }
};
// abstract content: number -> (key idx, value)
struct Snap { int n; int size; int idx[CAP]; int val[CAP]; };
static void snap(const CS& ds, Snap& s)
{
   s.n = ds.num(); s.size = ds.size();
   for(int i = 0; i < CAP; ++i) if(i < s.n) { s.idx[i] = ds.key(i).idx; s.val[i] = ds[i].v; }
}
static bool equalsSnap(const CS& ds, const Snap& s)
{
   if(ds.num() != s.n) return false;
   for(int i = 0; i < CAP; ++i) if(i < s.n)
   {
      if(ds.key(i).idx != s.idx[i]) return false;
      if(!ds[i].is(s.val[i])) return false;
      DataKey k; k.idx = s.idx[i]; k.info = 0;
      if(!ds.has(k) || ds.number(k) != i || !ds[k].is(s.val[i])) return false;
   }
   return true;
}
static DataKey mk(int idx) { DataKey k; k.idx = idx; k.info = 0; return k; }

extern "C" void h_classset_add_step()
{
   CS ds(CAP); ds.havoc(); vp_assume(ds.inv()); vp_assume(ds.num() < ds.max());
   Snap s0; snap(ds, s0);
   DataKey k; int v = vp_int_in(-100, 100);
   Elem e(v);
   int withkey = vp_int_in(0, 1);
   if(withkey) ds.add(k, e); else { ds.add(e); k = ds.key(s0.n); }
   vp_assert(ds.inv(), 1);
   vp_assert(ds.num() == s0.n + 1, 2);
   vp_assert(ds.has(k) && ds[k].is(v) && ds.number(k) == s0.n && ds[s0.n].is(v), 3);
   for(int i = 0; i < CAP; ++i) if(i < s0.n)
   {  // old keys still identify their element, numbers unchanged, new key distinct
      vp_assert(ds.key(i).idx == s0.idx[i] && ds[i].is(s0.val[i]), 4);
      vp_assert(k.idx != s0.idx[i], 5);
   }
   vp_cover(1);
}
extern "C" void h_classset_create_step()
{
   CS ds(CAP); ds.havoc(); vp_assume(ds.inv()); vp_assume(ds.num() < ds.max());
   Snap s0; snap(ds, s0);
   DataKey k; Elem* p = ds.create(k);
   *p = Elem(77);
   vp_assert(ds.inv(), 1);
   vp_assert(ds.num() == s0.n + 1 && ds.number(k) == s0.n && ds[k].is(77) && &ds[k] == p, 2);
   vp_assert(ds.has(p) && ds.number(p) == s0.n && ds.key(p).idx == k.idx, 4);   // lookup by element address
   for(int i = 0; i < CAP; ++i) if(i < s0.n) vp_assert(ds.key(i).idx == s0.idx[i] && ds[i].is(s0.val[i]) && k.idx != s0.idx[i], 3);
   vp_cover(1);
}
extern "C" void h_classset_remove_num_step()
{
   CS ds(CAP); ds.havoc(); vp_assume(ds.inv());
   Snap s0; snap(ds, s0);
   int r = vp_int_in(-1, CAP);                           // documented no-op for numbers that are not in the set (has(removenum))
   ds.remove(r);
   vp_assert(ds.inv(), 1);
   if(r < 0 || r >= s0.n) { vp_assert(equalsSnap(ds, s0), 6); }
   else
   {
      vp_assert(ds.num() == s0.n - 1, 2);
      vp_assert(!ds.has(mk(s0.idx[r])), 3);
      // documented: the last element moves into the hole; all others keep their number; every survivor keeps key and value
      for(int i = 0; i < CAP; ++i) if(i < s0.n && i != r)
      {
         DataKey ki = mk(s0.idx[i]);
         vp_assert(ds.has(ki) && ds[ki].is(s0.val[i]), 4);
         int expect = (i == s0.n - 1) ? r : i;
         vp_assert(ds.number(ki) == expect, 5);
      }
   }
   vp_cover(1);
}
extern "C" void h_classset_remove_key_step()
{
   CS ds(CAP); ds.havoc(); vp_assume(ds.inv());
   Snap s0; snap(ds, s0);
   int r = vp_int_in(0, CAP - 1); vp_assume(r < s0.n);
   DataKey kr = ds.key(r);
   ds.remove(kr);
   vp_assert(ds.inv() && ds.num() == s0.n - 1, 1);
   vp_assert(!ds.has(kr), 3);
   for(int i = 0; i < CAP; ++i) if(i < s0.n && i != r)
   {
      DataKey ki = mk(s0.idx[i]);
      vp_assert(ds.has(ki) && ds[ki].is(s0.val[i]), 2);
   }
   vp_cover(1);
}
extern "C" void h_classset_remove_perm_step()
{
   CS ds(CAP); ds.havoc(); vp_assume(ds.inv());
   Snap s0; snap(ds, s0);
   int perm[CAP]; int del[CAP]; int ndel = 0;
   for(int i = 0; i < CAP; ++i)
   {
      del[i] = vp_int_in(0, 1);
      int keep = vp_int_in(0, 1000);
      perm[i] = del[i] ? -1 : keep;
      if(i < s0.n && del[i]) ++ndel;
   }
   ds.remove(perm);
   vp_assert(ds.inv(), 1);
   vp_assert(ds.num() == s0.n - ndel, 2);
   int prev = -1;
   for(int i = 0; i < CAP; ++i) if(i < s0.n)
   {
      DataKey ki = mk(s0.idx[i]);
      if(del[i]) { vp_assert(perm[i] < 0, 3); vp_assert(!ds.has(ki), 4); }
      else
      {  // survivor i moved to perm[i]; order preserved; key and value kept
         vp_assert(perm[i] > prev && perm[i] < ds.num(), 5);
         prev = perm[i];
         vp_assert(ds.has(ki) && ds.number(ki) == perm[i] && ds[ki].is(s0.val[i]), 6);
      }
   }
   vp_cover(1);
}
extern "C" void h_classset_add_many_clear_step()
{
   CS ds(CAP); ds.havoc(); vp_assume(ds.inv());
   Snap s0; snap(ds, s0);
   int a0 = vp_int_in(-9, 9); int a1 = vp_int_in(-9, 9);
   Elem items[2] = { Elem(a0), Elem(a1) }; DataKey nk[2];
   int n = vp_int_in(0, 2); vp_assume(s0.n + n <= CAP);
   int withkey = vp_int_in(0, 1);
   if(withkey) ds.add(nk, items, n);
   else { ds.add(items, n); for(int i = 0; i < 2; ++i) if(i < n) nk[i] = ds.key(s0.n + i); }
   vp_assert(ds.inv() && ds.num() == s0.n + n, 1);
   for(int i = 0; i < 2; ++i) if(i < n) vp_assert(ds.number(nk[i]) == s0.n + i && ds[nk[i]].is(i ? a1 : a0), 2);
   if(n == 2) vp_assert(nk[0].idx != nk[1].idx, 5);
   for(int i = 0; i < CAP; ++i) if(i < s0.n) vp_assert(ds.key(i).idx == s0.idx[i] && ds[i].is(s0.val[i]), 3);
   vp_cover(1);
   ds.clear();
   vp_assert(ds.inv() && ds.num() == 0 && ds.size() == 0, 4);
}
// add(const ClassSet&) / add(keys, const ClassSet&): all elements of another set appended in its number order
extern "C" void h_classset_add_set_step()
{
   CS ds(CAP); ds.havoc(); vp_assume(ds.inv());
   CS other(CAP); other.havoc(); vp_assume(other.inv());
   Snap s0; snap(ds, s0); Snap o0; snap(other, o0);
   vp_assume(s0.n + o0.n <= CAP);
   DataKey nk[CAP];
   int withkey = vp_int_in(0, 1);
   if(withkey) ds.add(nk, other); else ds.add(other);
   vp_assert(ds.inv() && ds.num() == s0.n + o0.n, 1);
   vp_assert(equalsSnap(other, o0) && other.inv(), 2);
   for(int i = 0; i < CAP; ++i) if(i < s0.n) vp_assert(ds.key(i).idx == s0.idx[i] && ds[i].is(s0.val[i]), 3);
   for(int j = 0; j < CAP; ++j) if(j < o0.n)
   {
      vp_assert(ds[s0.n + j].is(o0.val[j]), 4);
      if(withkey) vp_assert(ds.key(s0.n + j).idx == nk[j].idx, 5);
   }
   vp_cover(1);
}
extern "C" void h_classset_remove_lists_step()
{
   CS ds(CAP); ds.havoc(); vp_assume(ds.inv());
   Snap s0; snap(ds, s0);
   // remove(int nums[], int n, perm) / remove(DataKey keys[], int n, perm): distinct elements
   int nums[2]; int n = vp_int_in(0, 2);
   nums[0] = vp_int_in(0, CAP - 1); nums[1] = vp_int_in(0, CAP - 1);
   vp_assume(n < 1 || nums[0] < s0.n); vp_assume(n < 2 || (nums[1] < s0.n && nums[1] != nums[0]));
   int perm[CAP];
   int bykey = vp_int_in(0, 1);
   if(bykey)
   {
      DataKey keys[2];
      for(int j = 0; j < 2; ++j) keys[j] = mk(j < n ? s0.idx[nums[j]] : 0);
      ds.remove(keys, n, perm);
   }
   else ds.remove(nums, n, perm);
   vp_assert(ds.inv() && ds.num() == s0.n - n, 1);
   int prev = -1;
   for(int i = 0; i < CAP; ++i) if(i < s0.n)
   {
      bool d = (n >= 1 && nums[0] == i) || (n >= 2 && nums[1] == i);
      DataKey ki = mk(s0.idx[i]);
      if(d) vp_assert(perm[i] < 0 && !ds.has(ki), 2);
      else { vp_assert(perm[i] > prev, 4); prev = perm[i]; vp_assert(ds.has(ki) && ds.number(ki) == perm[i] && ds[ki].is(s0.val[i]), 3); }
   }
   vp_cover(1);
}
// bounded history from the constructor: k symbolic operations; abstract model = list of (key idx,value)
extern "C" void h_classset_history()
{
   CS ds(CAP);
   int mkx[CAP]; int mv[CAP]; int mn = 0;   // model: number -> (key idx, value)
   for(int step = 0; step < HIST; ++step)
   {
      int op = vp_int_in(0, 3);
      if(op == 0 && mn < CAP)
      {
         DataKey k; int v = vp_int_in(-9, 9); ds.add(k, Elem(v));
         for(int i = 0; i < CAP; ++i) if(i < mn) vp_assert(mkx[i] != k.idx, 1);
         mkx[mn] = k.idx; mv[mn] = v; ++mn;
      }
      else if(op == 1 && mn > 0)
      {
         int r = vp_int_in(0, CAP - 1); vp_assume(r < mn);
         ds.remove(r);
         mkx[r] = mkx[mn - 1]; mv[r] = mv[mn - 1]; --mn;
      }
      else if(op == 2 && mn > 0)
      {
         int r = vp_int_in(0, CAP - 1); vp_assume(r < mn);
         ds.remove(mk(mkx[r]));
         mkx[r] = mkx[mn - 1]; mv[r] = mv[mn - 1]; --mn;
      }
      else if(op == 3)
      {  // removal by permutation: survivors keep their relative order
         int perm[CAP]; int j = 0;
         for(int i = 0; i < CAP; ++i) { int d = vp_int_in(0, 1); perm[i] = d ? -1 : 1; }
         int dl[CAP]; for(int i = 0; i < CAP; ++i) dl[i] = perm[i] < 0;
         ds.remove(perm);
         for(int i = 0; i < CAP; ++i) if(i < mn && !dl[i]) { vp_assert(perm[i] == j, 5); mkx[j] = mkx[i]; mv[j] = mv[i]; ++j; }
         mn = j;
      }
      vp_assert(ds.inv(), 2);
      vp_assert(ds.num() == mn, 3);
      for(int i = 0; i < CAP; ++i) if(i < mn) vp_assert(ds.key(i).idx == mkx[i] && ds[i].is(mv[i]) && ds.number(mk(mkx[i])) == i, 4);
   }
   vp_cover(1);
}
// remove(keys,n) / remove(nums,n) without perm argument (allocate a DataArray<int>(num()) internally): concrete element count
extern "C" void h_classset_remove_lists_noperm()
{
   CS ds(CAP);
   DataKey k[CAP]; int v[CAP];
   for(int i = 0; i < CAP; ++i) { v[i] = vp_int_in(-9, 9); ds.add(k[i], Elem(v[i])); }
   int a = vp_int_in(0, CAP - 1); int b = vp_int_in(0, CAP - 1); vp_assume(a != b);
   int bykey = vp_int_in(0, 1);
   if(bykey) { DataKey ks[2] = { k[a], k[b] }; ds.remove(ks, 2); }
   else { int ns[2] = { a, b }; ds.remove(ns, 2); }
   vp_assert(ds.inv() && ds.num() == CAP - 2, 1);
   int j = 0;
   for(int i = 0; i < CAP; ++i)
   {
      if(i == a || i == b) vp_assert(!ds.has(k[i]), 2);
      else { vp_assert(ds.has(k[i]) && ds.number(k[i]) == j && ds[j].is(v[i]), 3); ++j; }
   }
   vp_cover(1);
}
// reMax: growing the capacity loses nothing (keys, numbers, values, free slots) - kernel style with a concrete shape:
// CAP symbolic elements added, the one at position A removed (A dispatched over all positions: hole inside the item array or
// shrunken size), then reMax(CAP+2), three more adds, a removal and a clamped reMax(0). Allocation sizes are concrete.
template<int A, int SHRINK> static void remax_body()
{
   CS ds(CAP);
   DataKey k[CAP]; int v[CAP];
   for(int i = 0; i < CAP; ++i) { v[i] = vp_int_in(-9, 9); ds.add(k[i], Elem(v[i])); }
   ds.remove(k[A]);
   Snap s0; snap(ds, s0);
   ds.reMax(CAP + 2);
   vp_assert(ds.inv(CAP + 2) && ds.max() == CAP + 2, 1);
   vp_assert(equalsSnap(ds, s0), 2);
   // the enlarged set takes CAP+2 elements; new keys are distinct from the live ones
   DataKey nk[3];
   for(int j = 0; j < 3; ++j)
   {
      ds.add(nk[j], Elem(20 + j));
      for(int i = 0; i < CAP; ++i) if(i < s0.n) vp_assert(nk[j].idx != s0.idx[i], 3);
   }
   vp_assert(ds.inv(CAP + 2) && ds.num() == CAP + 2, 4);
   for(int i = 0; i < CAP; ++i) if(i < s0.n) vp_assert(ds[mk(s0.idx[i])].is(s0.val[i]) && ds.number(mk(s0.idx[i])) == i, 5);
   for(int j = 0; j < 3; ++j) vp_assert(ds[nk[j]].is(20 + j) && ds.number(nk[j]) == s0.n + j, 6);
   if(!SHRINK) return;
   // documented: reMax below size() is clamped to size(); here size() == CAP+1 < max() == CAP+2, i.e. the capacity shrinks
   ds.remove(CAP + 1);
   ds.reMax(0);
   vp_assert(ds.max() == ds.size() && ds.max() == CAP + 1 && ds.inv(CAP + 1) && ds.num() == CAP + 1, 7);
   for(int i = 0; i < CAP; ++i) if(i < s0.n) vp_assert(ds[mk(s0.idx[i])].is(s0.val[i]) && ds.number(mk(s0.idx[i])) == i, 8);
}
template<int SHRINK> static void remax_dispatch()
{
   int a = vp_int_in(0, CAP - 1);
   if(a == 0) remax_body<0, SHRINK>(); else if(a == 1) remax_body<1, SHRINK>(); else if(a == 2) remax_body<2, SHRINK>();
#if CAP >= 6
   else if(a == 3) remax_body<3, SHRINK>(); else if(a == 4) remax_body<4, SHRINK>();
#endif
   else remax_body < CAP - 1, SHRINK > ();
   vp_cover(1);
}
extern "C" void h_classset_remax() { remax_dispatch<0>(); }
extern "C" void h_classset_remax_shrink() { remax_dispatch<1>(); }

// ---------------------------------------------------------------- C17-O2: copies are equal and independent
static void mutate(CS& s)
{  // one arbitrary in-capacity mutation through the public interface + overwrite of all live values
   for(int i = 0; i < CAP; ++i) if(i < s.num()) s[i] = Elem(55);
   int op = vp_int_in(0, 2); int n = vp_int_in(0, CAP - 1);
   if(op == 0) { if(s.num() < s.max()) s.add(Elem(66)); }
   else if(op == 1) { if(n < s.num()) s.remove(n); }
   else s.clear();
}
// after copying, both sets must also behave the same: the next add hands out the same key in both (free lists equal)
template<int ID> static void sameNextKeys(CS& a, CS& b)
{
   for(int j = 0; j < CAP; ++j) if(a.num() < a.max())
   {
      DataKey ka; DataKey kb;
      a.add(ka, Elem(1)); b.add(kb, Elem(1));
      vp_assert(ka.idx == kb.idx, ID);
   }
}
extern "C" void h_classset_copy_ctor()
{
   CS a(CAP); a.havoc(); vp_assume(a.inv());
   Snap sa; snap(a, sa);
   CS b(a);
   vp_assert(b.inv(), 1);
   vp_assert(equalsSnap(b, sa) && b.size() == sa.size, 2);
   vp_assert(equalsSnap(a, sa) && a.inv(), 3);
   vp_assert(b.itemMem() != a.itemMem() && b.keyMem() != a.keyMem(), 4);
   int which = vp_int_in(0, 2);
   if(which == 0) { mutate(a); vp_assert(equalsSnap(b, sa) && b.inv(), 5); }
   else if(which == 1) { mutate(b); vp_assert(equalsSnap(a, sa) && a.inv(), 6); }
   else sameNextKeys<7>(a, b);
   vp_cover(1);
}
#ifndef TMAX
#define TMAX CAP
#endif
template<int SZ, int PART> static void assign_body()
{  // source: arbitrary valid state with thesize == SZ (concrete, because operator= decides on reMax by rhs.size())
   CS a(CAP); a.havoc(SZ); vp_assume(a.inv());
   Snap sa; snap(a, sa);
   // target: capacity TMAX >= CAP (no relocation), filled through the public interface, then overwritten by the assignment
   CS b(TMAX);
   int pre = vp_int_in(0, 2);
   for(int j = 0; j < 2; ++j) if(j < pre) b.add(Elem(40 + j));
   if(pre == 2) { int d = vp_int_in(0, 1); if(d) b.remove(0); }
   b = a;
   if(PART == 0)
   {  // equality
      vp_assert(b.inv(TMAX), 1);
      vp_assert(equalsSnap(b, sa) && b.size() == sa.size, 2);
      vp_assert(equalsSnap(a, sa) && a.inv(), 3);
      vp_assert(b.itemMem() != a.itemMem() && b.keyMem() != a.keyMem(), 4);
      // self-assignment is a no-op
      a = a;
      vp_assert(equalsSnap(a, sa) && a.inv(), 8);
   }
   else if(PART == 2)
   {  // same behaviour afterwards: both hand out the same keys (free lists equal; same capacity only)
      vp_assert(b.inv(TMAX), 1);
      sameNextKeys<7>(a, b);
   }
   else
   {  // independence
      int which = vp_int_in(0, 1);
      if(which == 0) { mutate(a); vp_assert(equalsSnap(b, sa) && b.inv(TMAX), 5); }
      else { mutate(b); vp_assert(equalsSnap(a, sa) && a.inv(), 6); }
   }
}
template<int PART> static void assign_dispatch()
{
   int sz = vp_int_in(0, CAP);
   if(sz == 0) assign_body<0, PART>(); else if(sz == 1) assign_body<1, PART>(); else if(sz == 2) assign_body<2, PART>(); else if(sz == 3) assign_body<3, PART>();
#if CAP >= 6
   else if(sz == 4) assign_body<4, PART>(); else if(sz == 5) assign_body<5, PART>();
#endif
   else assign_body<CAP, PART>();
   vp_cover(1);
}
extern "C" void h_classset_assign_equal() { assign_dispatch<0>(); }
extern "C" void h_classset_assign_indep() { assign_dispatch<1>(); }
extern "C" void h_classset_assign_nextkeys() { assign_dispatch<2>(); }
