// C03-O1: termination test of the iterative-refinement loops of the exact solver
//   SoPlexBase<double>::_isRefinementOver (solverational.hpp 953-990), called by _performOptIRStable / _performOptIRBoosted.
//
// Contract style. Solver build: `this` is typed zero memory; the six Rationals involved (four violations, _rationalFeastol,
// _rationalOpttol) are opaque: the only operation the function applies to them, operator<= of
// boost::multiprecision::number<gmp_rational>, is replaced by an *uninterpreted compare* that identifies its operands by
// address and returns the scripted symbolic answer to "violation_k <= its tolerance ?" (any other question is counted in
// g_badq). _isSolveStopped is replaced by a model that writes scripted stop flags.
// Native build (replay on the real code): a real SoPlex object, real GMP Rationals realising the script (violation 0 or 1
// against the default tolerance); _isSolveStopped is the same scripted model, linked in as an explicit specialisation.
#include "soplex_all.h"
using namespace soplex;
typedef SoPlex SP;
#ifdef VP_NATIVE
// native build: callee models are explicit specialisations (declared before any use); see the automaton below
namespace soplex {
typedef SolBase<Rational> SOLQ_;
template<> void SP::_performOptIRWrapper(SOLQ_&, bool, bool, int, bool&, bool&, bool&, bool&, bool&, bool&, bool&);
template<> void SP::_performUnboundedIRStable(SOLQ_&, bool&, bool&, bool&, bool&);
template<> void SP::_performFeasIRStable(SOLQ_&, bool&, bool&, bool&, bool&);
template<> bool SP::_isSolveStopped(bool&, bool&) const;
template<> bool SP::_setupBoostedSolverAfterRecovery();
template<> void SP::_storeBasis();
template<> void SP::_restoreBasis();
template<> void SP::_storeLPReal();
template<> void SP::_restoreLPReal();
template<> void SP::_lift();
template<> void SP::_project(SOLQ_&);
template<> void SP::_transformEquality();
template<> void SP::_untransformEquality(SOLQ_&);
template<> void SP::_resetBoostedPrecision();
}
#endif

union SoPlexMem { SP sp; SoPlexMem() {} ~SoPlexMem() {} };
#ifndef VP_NATIVE
static SoPlexMem mem;
union QCells { Rational q[4]; QCells() {} ~QCells() {} };
static QCells cells;      // bounds, sides, redcost, dual violation
#endif
static SP* g_sp;
static bool g_le[4];       // scripted answers: violation_k <= tolerance_k
static bool g_stopT, g_stopI;
static int g_badq, g_nq, g_asked[4], g_nstop;

#ifndef VP_NATIVE
extern "C" {
bool m_q_le(const Rational* a, const Rational* b)
{
   g_nq++;
   int k = -1;
   for(int j = 0; j < 4; ++j) if(a == &cells.q[j]) k = j;
   const Rational* tol = (k == 0 || k == 1) ? &g_sp->_rationalFeastol : &g_sp->_rationalOpttol;
   if(k < 0 || b != tol) { g_badq++; return vp_nondet_bool(); }
   g_asked[k]++;
   return g_le[k];
}
}
#endif
// model of _isSolveStopped (both builds, see the note on the native build at the automaton below): scripted flags for
// h_is_refinement_over, fresh arbitrary flags per call for the automaton
static bool g_automaton;
static bool a_isSolveStopped(bool& st, bool& si);
static bool model_isSolveStopped(bool& stoppedTime, bool& stoppedIter)
{
   if(g_automaton) return a_isSolveStopped(stoppedTime, stoppedIter);
   g_nstop++;
   stoppedTime = g_stopT;
   stoppedIter = g_stopI;
   return g_stopT || g_stopI;
}
#ifndef VP_NATIVE
extern "C" bool m_isSolveStopped(const SP* self, bool* stoppedTime, bool* stoppedIter) { return model_isSolveStopped(*stoppedTime, *stoppedIter); }
#endif

extern "C" void h_is_refinement_over()
{
   for(int k = 0; k < 4; ++k) g_le[k] = vp_nondet_bool();
   g_stopT = vp_nondet_bool();
   g_stopI = vp_nondet_bool();
   int minRounds = vp_nondet_int();
   int numFailed = vp_nondet_int();
   bool pf = vp_nondet_bool();          // arbitrary previous values of the outputs
   bool df = vp_nondet_bool();
   bool st0 = vp_nondet_bool();
   bool si0 = vp_nondet_bool();
   bool st = st0, si = si0;
#ifdef VP_NATIVE
   SP* sp = new SP();
   sp->setIntParam(SP::VERBOSITY, 0);
   g_sp = sp;
   Rational v[4];
   for(int k = 0; k < 4; ++k) v[k] = g_le[k] ? 0 : 1;
   bool r = sp->_isRefinementOver(pf, df, v[0], v[1], v[2], v[3], minRounds, st, si, numFailed);
#else
   SP* sp = &mem.sp;
   g_sp = sp;
   bool r = sp->_isRefinementOver(pf, df, cells.q[0], cells.q[1], cells.q[2], cells.q[3], minRounds, st, si, numFailed);
   vp_assert(g_badq == 0, 10);
   // each violation is compared at most once, and only with its own tolerance
   vp_assert(g_asked[0] <= 1 && g_asked[1] <= 1 && g_asked[2] <= 1 && g_asked[3] <= 1, 11);
#endif
   // reference (doc of the refinement loop: "terminate if tolerances are satisfied", "terminate if some limit is reached")
   bool epf = g_le[0] && g_le[1];
   bool edf = g_le[2] && g_le[3];
   vp_assert(pf == epf, 1);
   vp_assert(df == edf, 2);
   bool reached = epf && edf && minRounds < 0;
   bool limit = g_stopT || g_stopI || numFailed > 2;
   vp_assert(r == (reached || limit), 3);
   if(reached)
   {
      // success is reported without looking at the limits: the stop flags keep their values
      vp_assert(st == st0 && si == si0, 4);
      vp_assert(g_nstop == 0, 5);
   }
   else
   {
      // otherwise the stop flags say exactly which limit was hit
      vp_assert(st == g_stopT && si == g_stopI, 6);
   }
   // never "over" while a violation exceeds its tolerance, unless a limit forces it
   if(r && !limit) vp_assert(g_le[0] && g_le[1] && g_le[2] && g_le[3] && minRounds < 0, 7);
   vp_cover(1);
}

// =====================================================================================================================
// C03-O2: verdict automaton of SoPlexBase<double>::_optimizeRational (solverational.hpp 36-536).
// The real function is encoded; its callees are replaced by models with ARBITRARY outcomes:
//   _performOptIRWrapper / _performUnboundedIRStable / _performFeasIRStable return arbitrary flags, restricted only by the
//   contracts of the two certificate tests, which are themselves obligations (C03-O2.unboundedIR.contract / .feasIR.contract in
//   c03_rangetypes.cpp; a separate translation unit because here the two functions are replaced): "stopped => no ray / no Farkas proof and no error",
//   "error => no ray" ; _setupBoostedSolverAfterRecovery and _isSolveStopped return scripted values; _storeBasis/_restoreBasis,
//   setIntParam are recorded; every transformation (_lift, _project, _transformEquality, _storeLPReal, ...) is cut.
// At most MAXR rounds of the outer loop are explored (longer executions are assumed away).
// Native build: the same real _optimizeRational (instantiated from the header) runs on a real SoPlex object; the callee models
// are linked in as explicit specialisations of the member functions (same scripts), so a witness / counterexample replays
// the control flow of the real function with the gcc-compiled code.
#ifndef MAXR
#define MAXR 3
#endif
typedef SPxSolverBase<double> SOLVER;
typedef SolBase<Rational> SOLQ;
enum { EV_NONE = 0, EV_OPT, EV_UNB, EV_FEAS };
struct IREvent { int kind; bool pf, df, inf, unb, flag, st, si, err; int round; };
static IREvent a_last;            // the last IR callee that returned
static IREvent a_lastFeas;        // the last _performFeasIRStable call
static int a_round;               // number of _performOptIRWrapper calls so far
static bool a_rayCertified;       // some _performUnboundedIRStable call returned hasUnboundedRay without error
static bool a_unbRejected;        // some _performUnboundedIRStable call returned "no ray" without error / stop
static bool a_infRejected;        // some _performFeasIRStable call returned "no Farkas proof" without error / stop
static int a_nstore, a_nrestore, a_badrestore, a_badaccept;
static int a_nboost;

static void a_optIR(bool acceptUnbounded, bool acceptInfeasible, bool& pf, bool& df, bool& inf, bool& unb, bool& st, bool& si, bool& err)
{
   vp_assume(a_round < MAXR);
   a_round++;
   // an unboundedness / infeasibility claim of the floating-point solver may only be disregarded after the exact test rejected it
   if(!acceptUnbounded && !a_unbRejected) a_badaccept++;
   if(!acceptInfeasible && !a_infRejected) a_badaccept++;
   IREvent e; e.kind = EV_OPT; e.round = a_round; e.flag = false;
   e.pf = vp_nondet_bool(); e.df = vp_nondet_bool(); e.inf = vp_nondet_bool(); e.unb = vp_nondet_bool();
   e.st = vp_nondet_bool(); e.si = vp_nondet_bool(); e.err = vp_nondet_bool();
   pf = e.pf; df = e.df; inf = e.inf; unb = e.unb; st = e.st; si = e.si; err = e.err;
   a_last = e;
}
static void a_unbIR(bool& hasRay, bool& st, bool& si, bool& err)
{
   IREvent e; e.kind = EV_UNB; e.round = a_round; e.pf = e.df = e.inf = e.unb = false;
   e.flag = vp_nondet_bool(); e.st = vp_nondet_bool(); e.si = vp_nondet_bool(); e.err = vp_nondet_bool();
   if(e.st || e.si) { e.flag = false; e.err = false; }     // contract of _performUnboundedIRStable
   if(e.err) e.flag = false;
   hasRay = e.flag; st = e.st; si = e.si; err = e.err;
   if(e.flag) a_rayCertified = true;
   if(!e.flag && !e.err && !e.st && !e.si) a_unbRejected = true;
   a_last = e;
}
static void a_feasIR(bool& farkas, bool& st, bool& si, bool& err)
{
   IREvent e; e.kind = EV_FEAS; e.round = a_round; e.pf = e.df = e.inf = e.unb = false;
   e.flag = vp_nondet_bool(); e.st = vp_nondet_bool(); e.si = vp_nondet_bool(); e.err = vp_nondet_bool();
   if(e.st || e.si) { e.flag = false; e.err = false; }     // contract of _performFeasIRStable
   farkas = e.flag; st = e.st; si = e.si; err = e.err;
   if(!e.flag && !e.err && !e.st && !e.si) a_infRejected = true;
   a_last = e; a_lastFeas = e;
}
static bool a_isSolveStopped(bool& st, bool& si)
{
   st = vp_nondet_bool();
   si = vp_nondet_bool();
   return st || si;
}
static bool a_boost() { a_nboost++; return vp_nondet_bool(); }
static void a_store() { a_nstore++; if(a_nstore != a_nrestore + 1) a_badrestore++; }
static void a_restore() { a_nrestore++; if(a_nstore != a_nrestore) a_badrestore++; }

#ifndef VP_NATIVE
union TimerMem { UserTimer t; TimerMem() {} ~TimerMem() {} };
static TimerMem a_timers[11];
union StatMem2 { SP::Statistics s; StatMem2() {} ~StatMem2() {} };
static StatMem2 a_stat;
extern "C" {
void m_optIRWrapper(SP* self, SOLQ* sol, bool au, bool ai, int minRounds, bool* pf, bool* df, bool* inf, bool* unb, bool* st, bool* si, bool* err)
{ a_optIR(au, ai, *pf, *df, *inf, *unb, *st, *si, *err); }
void m_unbIR(SP* self, SOLQ* sol, bool* hasRay, bool* st, bool* si, bool* err) { a_unbIR(*hasRay, *st, *si, *err); }
void m_feasIR(SP* self, SOLQ* sol, bool* farkas, bool* st, bool* si, bool* err) { a_feasIR(*farkas, *st, *si, *err); }
bool m_boostAfterRecovery(SP* self) { return a_boost(); }
void m_storeBasis(SP* self) { a_store(); }
void m_restoreBasis(SP* self) { a_restore(); }
bool m_a_setIntParam(SP* self, SP::IntParam p, int v, bool init) { self->_currentSettings->_intParamValues[p] = v; return true; }
}
#else
namespace soplex {
template<> void SP::_performOptIRWrapper(SOLQ& sol, bool au, bool ai, int minRounds, bool& pf, bool& df, bool& inf, bool& unb, bool& st, bool& si, bool& err)
{ a_optIR(au, ai, pf, df, inf, unb, st, si, err); }
template<> void SP::_performUnboundedIRStable(SOLQ& sol, bool& hasRay, bool& st, bool& si, bool& err) { a_unbIR(hasRay, st, si, err); }
template<> void SP::_performFeasIRStable(SOLQ& sol, bool& farkas, bool& st, bool& si, bool& err) { a_feasIR(farkas, st, si, err); }
template<> bool SP::_isSolveStopped(bool& st, bool& si) const { return model_isSolveStopped(st, si); }
template<> bool SP::_setupBoostedSolverAfterRecovery() { return a_boost(); }
template<> void SP::_storeBasis() { a_store(); }
template<> void SP::_restoreBasis() { a_restore(); }
template<> void SP::_storeLPReal() { }
template<> void SP::_restoreLPReal() { }
template<> void SP::_lift() { }
template<> void SP::_project(SOLQ& sol) { }
template<> void SP::_transformEquality() { }
template<> void SP::_untransformEquality(SOLQ& sol) { }
template<> void SP::_resetBoostedPrecision() { }
}
#endif

extern "C" void h_optimize_rational_automaton()
{
   bool lifting = vp_nondet_bool();
   bool eqtrans = vp_nondet_bool();
   bool testdualinf = vp_nondet_bool();
   bool boosting = vp_nondet_bool();
   bool limitReached = vp_nondet_bool();
   int rep = vp_int_in(0, 2);
   int rt = vp_int_in(0, 3);
#ifdef VP_NATIVE
   SP* sp = new SP();
   sp->setIntParam(SP::VERBOSITY, 0);
   sp->setIntParam(SP::SYNCMODE, SP::SYNCMODE_AUTO);
   sp->setBoolParam(SP::LIFTING, lifting); sp->setBoolParam(SP::EQTRANS, eqtrans); sp->setBoolParam(SP::TESTDUALINF, testdualinf);
   sp->setBoolParam(SP::PRECISION_BOOSTING, boosting);
   sp->setIntParam(SP::REPRESENTATION, rep); sp->setIntParam(SP::RATIOTESTER, rt);
#else
   SP* sp = &mem.sp;
   SP::Settings* st = new SP::Settings();
   st->_boolParamValues[SP::LIFTING] = lifting; st->_boolParamValues[SP::EQTRANS] = eqtrans; st->_boolParamValues[SP::TESTDUALINF] = testdualinf;
   st->_boolParamValues[SP::PRECISION_BOOSTING] = boosting;
   st->_intParamValues[SP::REPRESENTATION] = rep; st->_intParamValues[SP::RATIOTESTER] = rt;
   sp->_currentSettings = st;
   sp->_statistics = &a_stat.s;
   Timer** tp = &a_stat.s.readingTime;
   for(int k = 0; k < 11; ++k) tp[k] = &a_timers[k].t;
   sp->_realLP = &sp->_solver; sp->_isRealLPLoaded = true;
#endif
   g_sp = sp;
   g_automaton = true;
   sp->_boostingLimitReached = limitReached;
   sp->_hasBasis = false;
   sp->_status = SOLVER::UNKNOWN;        // optimize() invalidates the solution before the exact solve
   sp->_hasSolRational = false;
   volatile bool interrupt = false;
   sp->_optimizeRational(&interrupt);
   int S = (int)sp->_status;
   bool verdict = S == SOLVER::OPTIMAL || S == SOLVER::INFEASIBLE || S == SOLVER::UNBOUNDED;
   bool lastClean = !a_last.err && !a_last.st && !a_last.si;
   bool feasNow = a_lastFeas.kind == EV_FEAS && a_lastFeas.round == a_round && !a_lastFeas.err && !a_lastFeas.st && !a_lastFeas.si;
   vp_assert(a_round >= 1, 20);
   // OPTIMAL only straight from a refinement that reported primal and dual feasibility
   if(S == SOLVER::OPTIMAL) vp_assert(a_last.kind == EV_OPT && a_last.pf && a_last.df && lastClean, 21);
   // INFEASIBLE only after the feasibility test of this round produced a Farkas proof
   if(S == SOLVER::INFEASIBLE) vp_assert(feasNow && a_lastFeas.flag, 22);
   // UNBOUNDED only with a certified ray and a feasibility test of this round that found the LP feasible
   if(S == SOLVER::UNBOUNDED) vp_assert(a_rayCertified && feasNow && !a_lastFeas.flag, 23);
   // an error of the last refinement never becomes a verdict
   if(a_last.err) vp_assert(S == SOLVER::ERROR, 24);
   // a limit hit in the last refinement is reported as such (time before iterations); the only exception is the optional
   // dual-infeasibility test after infeasibility has already been proven
   if(!a_last.err && (a_last.st || a_last.si))
   {
      bool afterProof = a_last.kind == EV_UNB && feasNow && a_lastFeas.flag;
      if(afterProof) vp_assert(S == SOLVER::INFEASIBLE, 25);
      else vp_assert(S == (a_last.st ? SOLVER::ABORT_TIME : SOLVER::ABORT_ITER), 26);
   }
   // a rational solution is announced exactly for the three verdicts
   vp_assert(sp->_hasSolRational == verdict, 27);
   // claims of the floating-point solver are only disregarded after the exact test rejected them
   vp_assert(a_badaccept == 0, 28);
   // stored basis is restored exactly once
   vp_assert(a_badrestore == 0 && a_nstore == a_nrestore, 29);
   // temporary parameter changes are undone
   vp_assert(sp->intParam(SP::REPRESENTATION) == rep && sp->intParam(SP::RATIOTESTER) == rt, 30);
   // precision boosting is only attempted when enabled
   if(!boosting) vp_assert(a_nboost == 0, 31);
   vp_cover(1);
}
