// C13-O2 / C12-O2: the char-level token functions of the LP-format reader (spxlpbase_real.hpp, and the rational twins
// of spxlpbase_rational.hpp) on ARBITRARY bytes.
//  (i)  arbitrary NUL-terminated text of length <= LEN whose terminator is the LAST byte of its heap object (see draw_text),
//       scan position anywhere inside it: every access of the real code stays inside the object (CBMC's built-in
//       pointer/bounds checks on the real code), `pos` only advances and stays inside, and the consumed text / the text handed
//       to atof, ratFromString, NameSet::number/add is what an independent index-based reference scanner (below) says.
//       LPFhasKeyword: see the two groups of entries (keyword literal / keyword inside a larger object) further down.
//  (ii) length sweep around SOPLEX_LPF_MAX_LINE_LEN (8192): tokens of CONCRETE length L in {8191, 8192, 8193}. The functions
//       used to copy the token into `char tmp/name[SOPLEX_LPF_MAX_LINE_LEN]` stack arrays (overflow from 8192 on, repaired in
//       479fd7f); now they copy into a std::string of the token's length: every length must be safe (thorough tier).
// Models (solver build only; the native build runs the real atof / NameSet / ratFromString on real objects):
//   std::string(first,last), ~string -> exactly sized NUL-terminated heap copy (see string_range below); c_str() is the real one
//   atof, ratFromString           -> record the text they are given, return a scripted value
//   NameSet::number/num/add       -> record the name, scripted answers (known / unknown name, current size)
//   LPColSetBase::add, SPxOut     -> cut
#include "soplex_all.h"
using namespace soplex;
typedef Rational Rat;

#ifndef LEN
#define LEN 10
#endif
#define TXT (LEN + 2)

// ------------------------------------------------------------------ arbitrary text in an exactly sized heap object
// The object has exactly LEN+1 bytes: LEN arbitrary non-NUL bytes and the terminating NUL as its LAST byte. The functions
// are started at an arbitrary position p inside it, i.e. on an arbitrary NUL-terminated text of length LEN-p (0..LEN)
// whose terminator is the last byte of its heap object: any read behind the terminator is outside the object.
static const int g_n = LEN;                        // index of the terminating NUL
static char* draw_text(bool nobracket = false)
{
   char* b = (char*)malloc((size_t)LEN + 1);
   for(int i = 0; i < LEN; ++i)
   {
      int c = vp_int_in(1, 255);
      if(nobracket) vp_assume(c != ']');
      b[i] = (char)c;
   }
   b[LEN] = '\0';
   return b;
}

// ------------------------------------------------------------------ independent reference (index based, on a private copy)
static bool r_digit(int c) { return c >= '0' && c <= '9'; }
static bool r_space(int c) { return c == 32 || c == 9 || c == 10 || c == 13; }
static bool r_sense(int c) { return c == '<' || c == '>' || c == '='; }
static int r_lower(int c) { return (c >= 'A' && c <= 'Z') ? c + 32 : c; }
static bool r_isvalue(int c) { return r_digit(c) || c == '+' || c == '-' || c == '.'; }
static bool r_colstart(int c)
{
   if(c >= 'A' && c <= 'Z') return true;
   if(c >= 'a' && c <= 'z') return true;
   switch(c)
   {
   case '!': case '"': case '#': case '$': case '%': case '&': case '(': case ')': case '/': case ',': case ';':
   case '?': case '@': case '_': case '\'': case '`': case '{': case '}': case '|': case '~':
      return true;
   }
   return false;
}
static bool r_colstop(int c) { return c == 0 || c == '+' || c == '-' || c == '.' || c == '<' || c == '>' || c == '=' || c == ' '; }
// text as ints (chars are compared as the plain `char` values the real code sees)
struct Ref { int c[TXT]; int n; };
static void r_copy(Ref& r, const char* b, int n)
{
   r.n = n;
   for(int i = 0; i < TXT; ++i) r.c[i] = (i < n) ? (int)b[i] : 0;
}
// word match, case-insensitive, at index p; never looks behind the NUL
static bool r_word(const Ref& r, int p, const char* w, int wl)
{
   for(int k = 0; k < wl; ++k)
   {
      if(p + k >= r.n) return false;
      if(r_lower(r.c[p + k]) != w[k]) return false;
   }
   return true;
}
// numeric literal  [+-]? digits* ( '.' digits* )? ( [eE] [+-]? digits* )?  [ '/' digits* ]   -> length; flags
struct Lit { int len; bool digits; bool emptyexp; };
static Lit r_literal(const Ref& r, int p, bool rational)
{
   Lit l; l.digits = false; l.emptyexp = false;
   int i = p;
   if(r.c[i] == '+' || r.c[i] == '-') ++i;
   while(r_digit(r.c[i])) { l.digits = true; ++i; }
   if(r.c[i] == '.')
   {
      ++i;
      while(r_digit(r.c[i])) { l.digits = true; ++i; }
   }
   if(r.c[i] == 'e' || r.c[i] == 'E')
   {
      ++i; l.emptyexp = true;
      if(r.c[i] == '+' || r.c[i] == '-') ++i;
      while(r_digit(r.c[i])) { l.emptyexp = false; ++i; }
   }
   if(rational && r.c[i] == '/')
   {
      ++i;
      while(r_digit(r.c[i])) ++i;
   }
   l.len = i - p;
   return l;
}

// ------------------------------------------------------------------ recording models
static char g_txt[TXT]; static int g_txt_calls; static double g_atof_ret;
static void rec_text(const char* s)
{
   ++g_txt_calls;
   int i = 0;
   for(; i < TXT - 1 && s[i] != '\0'; ++i) g_txt[i] = s[i];
   g_txt[i] = '\0';
}
extern "C" double m_atof(const char* s) { rec_text(s); return g_atof_ret; }
extern "C" Rat m_ratfromstring(const char* s) { rec_text(s); return Rat(); }
static int g_ns_known, g_ns_size, g_ns_number_calls, g_ns_add_calls; static char g_addtxt[TXT];
extern "C" int m_ns_number(const NameSet* self, const char* s) { rec_text(s); ++g_ns_number_calls; return g_ns_known ? g_ns_size : -1; }
extern "C" int m_ns_num(const NameSet* self) { return g_ns_size + (g_ns_known ? 1 : 0); }
extern "C" void m_ns_add(NameSet* self, const char* s)
{
   ++g_ns_add_calls;
   int i = 0;
   for(; i < TXT - 1 && s[i] != '\0'; ++i) g_addtxt[i] = s[i];
   g_addtxt[i] = '\0';
}
// recorded text == r.c[p .. p+len)
static bool same_text(const char* rec, const Ref& r, int p, int len)
{
   for(int i = 0; i < TXT - 1; ++i)
   {
      if(i < len) { if((int)rec[i] != r.c[p + i]) return false; }
      else return rec[i] == '\0';
   }
   return true;
}

// std::string(first, last) / c_str() / ~string(): the real functions copy the current token into a std::string of the token's
// length and hand c_str() to atof / ratFromString / NameSet. libstdc++'s out-of-line string members are not translated; the
// range constructor is modelled (solver build only) as what it is documented to do: a NUL-terminated copy of [first,last) in a
// heap object of EXACTLY last-first+1 bytes (so a consumer reading behind the terminator is caught), found by the real
// c_str()/_M_data(). The token length is symbolic in (i): the copy is made by a case split over the concrete lengths 0..LEN
// (heap objects of symbolic size are intractable); in the sweeps (ii) the length is a constant (g_sweep).
struct RawString { char* p; size_t len; char buf[16]; };           // libstdc++ (cxx11 ABI) std::string
static_assert(sizeof(RawString) == sizeof(std::string), "std::string layout");
static bool g_sweep;
static char* str_copy(const char* first, size_t n)
{
   char* p = (char*)malloc(n + 1);
   for(size_t i = 0; i < n; ++i) p[i] = first[i];
   p[n] = '\0';
   return p;
}
static void string_range(std::string* self, const char* first, const char* last)
{
   RawString* r = reinterpret_cast<RawString*>(self);
   vp_assert(first <= last, 80);                                   // a valid range
   size_t n = (size_t)(last - first);
   char* p = nullptr;
   if(g_sweep) p = str_copy(first, n);
   else
   {
      vp_assert(n <= (size_t)LEN, 81);                             // the token lies inside the text
      for(int L = 0; L <= LEN; ++L) if(n == (size_t)L) p = str_copy(first, (size_t)L);
   }
   r->p = p; r->len = n;
}
extern "C" void m_string_range_c(std::string* self, const char* first, const char* last, const std::allocator<char>& a) { string_range(self, first, last); }
extern "C" void m_string_range(std::string* self, char* first, char* last, const std::allocator<char>& a) { string_range(self, first, last); }
extern "C" void m_string_dtor(std::string* self) { RawString* r = reinterpret_cast<RawString*>(self); free(r->p); r->p = nullptr; }

// objects the functions need: raw zero memory in the solver build (every use is cut/replaced), real objects natively
union OutMem { SPxOut o; OutMem() {} ~OutMem() {} };
union NsMem { NameSet s; NsMem() {} ~NsMem() {} };
union CsMem { LPColSetBase<double> s; CsMem() {} ~CsMem() {} };
union ColMem { LPColBase<double> c; ColMem() {} ~ColMem() {} };
union CsMemQ { LPColSetBase<Rat> s; CsMemQ() {} ~CsMemQ() {} };
union ColMemQ { LPColBase<Rat> c; ColMemQ() {} ~ColMemQ() {} };
static SPxOut* the_out()
{
#ifdef VP_NATIVE
   static SPxOut* o = nullptr;
   if(!o) { o = new SPxOut(); o->setVerbosity(SPxOut::ERROR); }
   return o;
#else
   static OutMem m;            // m_verbosity == 0 == ERROR: no message branch is taken
   return &m.o;
#endif
}

// =================================================================== (i) predicates
extern "C" void h_lpf_classify()
{
   char* b = draw_text();
   Ref r; r_copy(r, b, g_n);
   int p = vp_int_in(0, LEN);
                                              // anywhere inside, including at the terminating NUL
   int c = vp_nondet_int();
   vp_assert(LPFisSpace(c) == r_space(c), 1);
   vp_assert(LPFisValue(b + p) == r_isvalue(r.c[p]), 2);
   vp_assert(LPFisSense(b + p) == r_sense(r.c[p]), 3);
   vp_assert(LPFisColName(b + p) == r_colstart(r.c[p]), 4);
   bool inf = (r.c[p] == '+' || r.c[p] == '-') && r_word(r, p + 1, "inf", 3);
   vp_assert(LPFisInfinity(b + p) == inf, 5);
   vp_assert(LPFisFree(b + p) == r_word(r, p, "free", 4), 6);
   vp_cover(1);
   free(b);
}

// =================================================================== (i) LPFreadValue<double>
extern "C" void h_lpf_readvalue()
{
   char* b = draw_text();
   Ref r; r_copy(r, b, g_n);
   int p = vp_int_in(0, LEN);
   vp_assume(r_isvalue(r.c[p]));              // documented precondition: LPFisValue(pos)
   g_atof_ret = vp_small(-8, 8);
   g_txt_calls = 0;
   char* pos = b + p;
   double v = LPFreadValue<double>(pos, the_out());
   Lit l = r_literal(r, p, false);
   int q = p + l.len;
   if(r_space(r.c[q])) ++q;                   // one blank behind the literal is swallowed
   vp_assert(pos >= b + p && pos <= b + g_n, 1);
   vp_assert(pos == b + q, 2);
   if(!l.digits)
      vp_assert(v == (r.c[p] == '-' ? -1.0 : 1.0), 3);
#ifdef VP_NATIVE
   else
   {
      char lit[TXT]; for(int i = 0; i < l.len; ++i) lit[i] = (char)r.c[p + i]; lit[l.len] = '\0';
      vp_assert(v == strtod(lit, nullptr), 4);
   }
#else
   else
   {
      vp_assert(g_txt_calls == 1 && same_text(g_txt, r, p, l.len), 4);   // atof gets exactly the literal
      vp_assert(v == g_atof_ret, 5);
   }
   if(!l.digits) vp_assert(g_txt_calls == 0, 6);
#endif
   for(int i = 0; i <= g_n; ++i) vp_assert((int)b[i] == r.c[i], 7);      // text unchanged
   vp_cover(1);
   free(b);
}

// =================================================================== (i) LPFreadValue (rational twin)
#ifndef VP_NO_RAT
extern "C" void h_lpf_readvalue_rat()
{
   char* b = draw_text();
   Ref r; r_copy(r, b, g_n);
   int p = vp_int_in(0, LEN);
   vp_assume(r_isvalue(r.c[p]));
   g_txt_calls = 0;
   char* pos = b + p;
   Rat v = LPFreadValue(pos, the_out(), 1);
   Lit l = r_literal(r, p, true);
   int q = p + l.len;
   if(r_space(r.c[q])) ++q;
   vp_assert(pos >= b + p && pos <= b + g_n, 1);
   vp_assert(pos == b + q, 2);
#ifndef VP_NATIVE
   if(l.digits) vp_assert(g_txt_calls == 1 && same_text(g_txt, r, p, l.len), 4);   // ratFromString gets exactly the literal
   else vp_assert(g_txt_calls == 0, 6);
#else
   if(!l.digits) vp_assert(v == (r.c[p] == '-' ? -1 : 1), 3);
   else
   {
      // the value is the conversion of exactly the reference literal (malformed literals, for which the conversion throws, are
      // reported by the real function with a warning: no value to compare)
      char lit[TXT]; for(int i = 0; i < l.len; ++i) lit[i] = (char)r.c[p + i]; lit[l.len] = '\0';
      bool have = true; Rat e;
      try { e = ratFromString(lit); } catch(...) { have = false; }
      if(have) vp_assert(v == e, 4);
   }
#endif
   for(int i = 0; i <= g_n; ++i) vp_assert((int)b[i] == r.c[i], 7);
   vp_cover(1);
   free(b);
}

#endif
// =================================================================== (i) LPFreadColName<double> / rational twin
template <class R, class CS, class COL>
static void readcolname()
{
   char* b = draw_text();
   Ref r; r_copy(r, b, g_n);
   int p = vp_int_in(0, LEN);
   vp_assume(r_colstart(r.c[p]));             // documented precondition: LPFisColName(pos)
   g_ns_size = vp_int_in(0, 2);               // names already in the set (none of them equal to the token)
   g_ns_known = vp_int_in(0, 1);              // token already known (then it has number g_ns_size)
   int withcol = vp_int_in(0, 1);             // emptycol given?
   int len = 0;
   while(!r_colstop(r.c[p + len])) ++len;
   g_txt_calls = 0; g_ns_number_calls = 0; g_ns_add_calls = 0;
#ifdef VP_NATIVE
   NameSet* ns = new NameSet();
   for(int i = 0; i < g_ns_size; ++i) { char d[TXT + 8]; memset(d, 'd', TXT + 6); d[TXT + 6] = '\0'; d[0] = (char)('0' + i); ns->add(d); }
   char tok[TXT]; for(int i = 0; i < len; ++i) tok[i] = (char)r.c[p + i]; tok[len] = '\0';
   if(g_ns_known) ns->add(tok);
   LPColSetBase<R>* cs = new LPColSetBase<R>();
   LPColBase<R>* col = new LPColBase<R>();
   int cols0 = cs->num();
#else
   static NsMem nm; NameSet* ns = &nm.s;
   static CS cm; LPColSetBase<R>* cs = &cm.s;
   static COL clm; LPColBase<R>* col = &clm.c;
#endif
   char* pos = b + p;
   int idx = LPFreadColName(pos, ns, *cs, withcol ? col : nullptr, the_out());
   int q = p + len;
   if(r_space(r.c[q])) ++q;
   vp_assert(pos >= b + p && pos <= b + g_n, 1);
   vp_assert(pos == b + q, 2);
   int expect = g_ns_known ? g_ns_size : (withcol ? g_ns_size : -1);
   vp_assert(idx == expect, 3);
#ifdef VP_NATIVE
   // (ids as in the solver build: 4 = the lookup used exactly the token, 5 = insertion happened iff unknown and emptycol given,
   //  6 = the inserted name is exactly the token)
   vp_assert(ns->num() == g_ns_size + ((g_ns_known || withcol) ? 1 : 0) && (!g_ns_known || idx == g_ns_size), 4);
   vp_assert(cs->num() == cols0 + ((!g_ns_known && withcol) ? 1 : 0), 5);
   if(g_ns_known || withcol) vp_assert(ns->number(tok) == g_ns_size, 6);
#else
   vp_assert(g_ns_number_calls == 1 && same_text(g_txt, r, p, len), 4);          // lookup with exactly the token
   vp_assert(g_ns_add_calls == ((!g_ns_known && withcol) ? 1 : 0), 5);
   if(g_ns_add_calls == 1) vp_assert(same_text(g_addtxt, r, p, len), 6);
#endif
   for(int i = 0; i <= g_n; ++i) vp_assert((int)b[i] == r.c[i], 7);
   vp_cover(1);
   free(b);
}
extern "C" void h_lpf_readcolname() { readcolname<double, CsMem, ColMem>(); }
extern "C" void h_lpf_readcolname_rat() { readcolname<Rat, CsMemQ, ColMemQ>(); }

// =================================================================== (i) LPFreadSense
extern "C" void h_lpf_readsense()
{
   char* b = draw_text();
   Ref r; r_copy(r, b, g_n);
   int p = vp_int_in(0, LEN);
   vp_assume(r_sense(r.c[p]));                // documented precondition: LPFisSense(pos)
   char* pos = b + p;
   int s = LPFreadSense(pos);
   // documented operators: < > = == <= =< >= =>   (table)
   int c0 = r.c[p], c1 = r.c[p + 1];
   int len = 1, exp = c0; bool documented = true;
   if(c1 == '=') { len = 2; exp = c0; }                               // "<=" ">=" "=="
   else if(c0 == '=' && (c1 == '<' || c1 == '>')) { len = 2; exp = c1; }   // "=<" "=>"
   else if(c1 == '<' || c1 == '>') { len = 2; documented = false; }   // "<<" "<>" "><" ">>": not in the format; only position checked
   int q = p + len;
   if(r_space(r.c[q])) ++q;
   vp_assert(pos > b + p && pos <= b + g_n, 1);
   vp_assert(pos == b + q, 2);
   if(documented) vp_assert(s == exp, 3);
   vp_assert(s == '<' || s == '>' || s == '=', 4);
   vp_cover(1);
   free(b);
}

// =================================================================== (i) LPFhasKeyword with every keyword readLPF uses
// reference: keyword = fixed parts and [optional] parts; an optional part matches greedily char by char; behind the
// match the word must end (NUL, blank or comparison operator)
static int r_keyword(const Ref& r, int p, const char* kw)
{
   int k = p; bool ok = true;
   int i = 0;                                  // stays concrete: the pattern is walked once, left to right
   while(kw[i] != '\0')
   {
      if(kw[i] == '[')
      {
         bool run = true;                      // greedy: stops at the first optional character that does not match
         for(++i; kw[i] != ']'; ++i)
         {
            if(run && r.c[k] != 0 && r_lower(r.c[k]) == kw[i]) ++k;
            else run = false;
         }
         ++i;
      }
      else
      {
         if(ok && r_lower(r.c[k]) == kw[i]) ++k;
         else ok = false;
         ++i;
      }
   }
   if(ok && (r.c[k] == 0 || r_space(r.c[k]) || r_sense(r.c[k]))) return k - p;
   return -1;
}
// (1) keyword = the string literal readLPF passes; text without ']' (a ']' in the text makes the real function run over the
//     end of the keyword literal: that defect is pinned down by (2), where it shows as a wrong result instead of an
//     unbounded loop over out-of-bounds memory)
#define KW(ID, S) { char* pos = b + p; bool h = LPFhasKeyword(pos, S); int m = r_keyword(r, p, S); \
      vp_assert(h == (m >= 0), ID); vp_assert(pos == b + p + (m >= 0 ? m : 0), ID + 1); }
extern "C" void h_lpf_haskeyword_a()
{
   char* b = draw_text(true);
   Ref r; r_copy(r, b, g_n);
   int p = vp_int_in(0, LEN);
   KW(10, "max[imize]")
   KW(12, "min[imize]")
   KW(22, "bound[s]")
   KW(32, "end")
   KW(34, "inf[inity]")
   vp_cover(1);
   free(b);
}
extern "C" void h_lpf_haskeyword_b()
{
   char* b = draw_text(true);
   Ref r; r_copy(r, b, g_n);
   int p = vp_int_in(0, LEN);
   KW(24, "bin[ary]")
   KW(26, "bin[aries]")
   KW(28, "gen[erals]")
   KW(30, "int[egers]")
   vp_cover(1);
   free(b);
}
extern "C" void h_lpf_haskeyword_c()
{
   char* b = draw_text(true);
   Ref r; r_copy(r, b, g_n);
   int p = vp_int_in(0, LEN);
   KW(14, "s[ubject][   ]t[o]")
   KW(16, "s[uch][    ]t[hat]")
   KW(18, "s[.][    ]t[.]")
   vp_cover(1);
   free(b);
}
extern "C" void h_lpf_haskeyword_d()
{
   char* b = draw_text(true);
   Ref r; r_copy(r, b, g_n);
   int p = vp_int_in(0, LEN);
   KW(20, "lazy con[straints]")
   vp_cover(1);
   free(b);
}
// (2) arbitrary text (']' allowed). The keyword is handed over inside a larger object: keyword, NUL, ']', NUL. The outcome
//     must not depend on anything behind the keyword's own NUL, i.e. it must equal the reference, which only looks at
//     the keyword. (With the plain literal the real function would run over the end of the literal's object.)
static char* padded(const char* kw)
{
   int n = (int)strlen(kw);
   char* q = (char*)malloc((size_t)n + 3);
   for(int i = 0; i <= n; ++i) q[i] = kw[i];
   q[n + 1] = ']'; q[n + 2] = '\0';
   return q;
}
#define KWP(ID, S) { char* kw = padded(S); char* pos = b + p; bool h = LPFhasKeyword(pos, kw); int m = r_keyword(r, p, S); \
      vp_assert(h == (m >= 0), ID); vp_assert(pos == b + p + (m >= 0 ? m : 0), ID + 1); free(kw); }
extern "C" void h_lpf_haskeyword_pad_a()
{
   char* b = draw_text();
   Ref r; r_copy(r, b, g_n);
   int p = vp_int_in(0, LEN);
   KWP(10, "max[imize]")
   KWP(12, "min[imize]")
   KWP(22, "bound[s]")
   KWP(32, "end")
   KWP(34, "inf[inity]")
   vp_cover(1);
   free(b);
}
extern "C" void h_lpf_haskeyword_pad_b()
{
   char* b = draw_text();
   Ref r; r_copy(r, b, g_n);
   int p = vp_int_in(0, LEN);
   KWP(24, "bin[ary]")
   KWP(26, "bin[aries]")
   KWP(28, "gen[erals]")
   KWP(30, "int[egers]")
   vp_cover(1);
   free(b);
}
extern "C" void h_lpf_haskeyword_pad_c1()
{
   char* b = draw_text();
   Ref r; r_copy(r, b, g_n);
   int p = vp_int_in(0, LEN);
   KWP(14, "s[ubject][   ]t[o]")
   vp_cover(1);
   free(b);
}
extern "C" void h_lpf_haskeyword_pad_c2()
{
   char* b = draw_text();
   Ref r; r_copy(r, b, g_n);
   int p = vp_int_in(0, LEN);
   KWP(16, "s[uch][    ]t[hat]")
   vp_cover(1);
   free(b);
}
extern "C" void h_lpf_haskeyword_pad_c3()
{
   char* b = draw_text();
   Ref r; r_copy(r, b, g_n);
   int p = vp_int_in(0, LEN);
   KWP(18, "s[.][    ]t[.]")
   vp_cover(1);
   free(b);
}
extern "C" void h_lpf_haskeyword_pad_d()
{
   char* b = draw_text();
   Ref r; r_copy(r, b, g_n);
   int p = vp_int_in(0, LEN);
   KWP(20, "lazy con[straints]")
   vp_cover(1);
   free(b);
}

// =================================================================== (i) LPFreadInfinity<double>
extern "C" void h_lpf_readinfinity()
{
   char* b = draw_text(true);                 // text without ']' (see h_lpf_haskeyword_pad_*)
   Ref r; r_copy(r, b, g_n);
   int p = vp_int_in(0, LEN);
   vp_assume((r.c[p] == '+' || r.c[p] == '-') && r_word(r, p + 1, "inf", 3));   // precondition: LPFisInfinity(pos)
   char* pos = b + p;
   double v = LPFreadInfinity<double>(pos);
   int m = r_keyword(r, p + 1, "inf[inity]");
   vp_assert(pos == b + p + 1 + (m >= 0 ? m : 0), 1);
   vp_assert(pos <= b + g_n, 2);
   vp_assert(v == (r.c[p] == '-' ? -(double)infinity : (double)infinity), 3);
   vp_cover(1);
   free(b);
}

// =================================================================== (i) LPFhasRowName
extern "C" void h_lpf_hasrowname()
{
   char* b = draw_text();
   Ref r; r_copy(r, b, g_n);
   int p = vp_int_in(0, LEN);
   int withset = vp_int_in(0, 1);
   g_ns_add_calls = 0;
#ifdef VP_NATIVE
   NameSet* ns = new NameSet();
#else
   static NsMem nm; NameSet* ns = &nm.s;
#endif
   char* pos = b + p;
   bool h = LPFhasRowName(pos, withset ? ns : nullptr);
   // reference: first ':' at or behind p; the name is the last blank-free word in front of it
   int colon = -1;
   for(int i = LEN; i >= 0; --i) if(i >= p && i < g_n && r.c[i] == ':') colon = i;
   if(colon < 0)
   {
      vp_assert(!h && pos == b + p, 1);
      vp_assert(g_ns_add_calls == 0, 2);
   }
   else
   {
      int end = colon - 1;
      while(end >= p && r.c[end] == ' ') --end;
      vp_assert(pos == b + colon + 1, 3);
      if(end < p)
      {
         vp_assert(!h, 4);
         vp_assert(g_ns_add_calls == 0, 2);
      }
      else
      {
         int srt = end;
         while(srt > p && r.c[srt - 1] != ' ') --srt;
         vp_assert(h, 5);
#ifdef VP_NATIVE
         char tok[TXT]; for(int i = srt; i <= end; ++i) tok[i - srt] = (char)r.c[i]; tok[end - srt + 1] = '\0';
         vp_assert(ns->num() == withset, 6);
         if(withset) vp_assert(ns->number(tok) == 0, 7);
#else
         vp_assert(g_ns_add_calls == withset, 6);
         if(withset) vp_assert(same_text(g_addtxt, r, srt, end - srt + 1), 7);
#endif
      }
   }
   for(int i = 0; i <= g_n; ++i) vp_assert((int)b[i] == r.c[i], 8);
   vp_cover(1);
   free(b);
}

// =================================================================== (ii) length sweep around the 8192-byte scratch buffers
// a token of CONCRETE length L made of one filler byte, followed by one tail byte and the NUL, in an exactly sized heap
// object (measured: a loop-filled heap object with field-sensitive arrays is the cheapest representation for CBMC; constant
// global arrays and memset are slower)
template <int L> static char* filler(char c, char tail)
{
   char* b = (char*)malloc((size_t)L + 2);
   for(int i = 0; i < L; ++i) b[i] = c;
   b[L] = tail; b[L + 1] = '\0';
   return b;
}
template <int L> static void sweep_value()
{
   g_sweep = true;
   char* b = filler<L>('1', ' ');
   g_atof_ret = vp_small(-8, 8);
   g_txt_calls = 0;
   char* pos = b;
   double v = LPFreadValue<double>(pos, the_out());
   vp_assert(pos == b + L + 1, 1);
#ifndef VP_NATIVE
   vp_assert(g_txt_calls == 1 && v == g_atof_ret, 2);
#endif
   vp_out((unsigned long)(pos - b));
   vp_cover(1);
}
#ifndef VP_NO_RAT
template <int L> static void sweep_value_rat()
{
   g_sweep = true;
   char* b = filler<L>('1', ' ');
   g_txt_calls = 0;
   char* pos = b;
   Rat v = LPFreadValue(pos, the_out(), 1);
   vp_assert(pos == b + L + 1, 1);
#ifndef VP_NATIVE
   vp_assert(g_txt_calls == 1, 2);
#endif
   vp_cover(1);
}
#endif
template <int L, class R, class CS> static void sweep_colname()
{
   g_sweep = true;
   char* b = filler<L>('a', ' ');
   g_ns_size = 0; g_ns_known = 0; g_ns_number_calls = 0; g_ns_add_calls = 0;
#ifdef VP_NATIVE
   NameSet* ns = new NameSet();
   LPColSetBase<R>* cs = new LPColSetBase<R>();
#else
   static NsMem nm; NameSet* ns = &nm.s;
   static CS cm; LPColSetBase<R>* cs = &cm.s;
#endif
   char* pos = b;
   int idx = LPFreadColName(pos, ns, *cs, (const LPColBase<R>*)nullptr, the_out());
   vp_assert(pos == b + L + 1, 1);
   vp_assert(idx == -1, 2);
   vp_cover(1);
}
template <int L> static void sweep_rowname()
{
   g_sweep = true;
   char* b = filler<L>('a', ':');
   char* pos = b;
   bool h = LPFhasRowName(pos, nullptr);
   vp_assert(h && pos == b + L + 1, 1);
   vp_cover(1);
}
extern "C" void h_sweep_value_8191() { sweep_value<8191>(); }
extern "C" void h_sweep_value_8192() { sweep_value<8192>(); }
extern "C" void h_sweep_value_8193() { sweep_value<8193>(); }
#ifndef VP_NO_RAT
extern "C" void h_sweep_value_rat_8191() { sweep_value_rat<8191>(); }
extern "C" void h_sweep_value_rat_8192() { sweep_value_rat<8192>(); }
extern "C" void h_sweep_value_rat_8193() { sweep_value_rat<8193>(); }
#endif
extern "C" void h_sweep_colname_8191() { sweep_colname<8191, double, CsMem>(); }
extern "C" void h_sweep_colname_8192() { sweep_colname<8192, double, CsMem>(); }
extern "C" void h_sweep_colname_8193() { sweep_colname<8193, double, CsMem>(); }
extern "C" void h_sweep_colname_rat_8191() { sweep_colname<8191, Rat, CsMemQ>(); }
extern "C" void h_sweep_colname_rat_8192() { sweep_colname<8192, Rat, CsMemQ>(); }
extern "C" void h_sweep_colname_rat_8193() { sweep_colname<8193, Rat, CsMemQ>(); }
extern "C" void h_sweep_rowname_8191() { sweep_rowname<8191>(); }
extern "C" void h_sweep_rowname_8192() { sweep_rowname<8192>(); }
extern "C" void h_sweep_rowname_8193() { sweep_rowname<8193>(); }
