// C19-O8 (SVectorBase<double>, UnitVectorBase<double>): every operation of the packed sparse vector gives the same
// values as dense arithmetic on the same data.  Kernel style: the vector lives in caller-provided memory of CAP nonzeros,
// the number of nonzeros is symbolic in 0..NNZ, indices are symbolic, distinct, in 0..DIM-1, values are integer-valued
// doubles in -4..4 (all arithmetic exact).  The reference is a dense array maintained by the harness.
#include <memory>
#include <string>
#include <vector>
#include <iostream>
#include <sstream>
#include <fstream>
#include <map>
#include <set>
#include <algorithm>
#include <functional>
#include <limits>
#include <cmath>
#include <cstring>
#define private public
#define protected public
#include "soplex/spxdefines.h"
#include "soplex/basevectors.h"
#undef private
#undef protected
#include "vp.h"
using namespace soplex;
#ifndef DIM
#define DIM 4
#endif
#ifndef NNZ
#define NNZ 3
#endif
#define CAP 8
typedef SVectorBase<double> SV;
typedef SV::Element El;

// symbolic sparse data: n nonzeros (ix[k],va[k]), k<n, distinct indices; d = dense image
struct In { int n; int ix[NNZ]; double va[NNZ]; double d[DIM]; };
static void draw(In& in, int nmin, int nmax, bool allow_zero, int vmax = 4)
{
   if(nmin == nmax) in.n = nmin; else in.n = vp_int_in(nmin, nmax);   // nmin == nmax: concrete size, no draw
   for(int i = 0; i < DIM; ++i) in.d[i] = 0.0;
   for(int k = 0; k < NNZ; ++k)
   {
      in.ix[k] = vp_int_in(0, DIM - 1);
      in.va[k] = vp_small(-vmax, vmax);
      if(!allow_zero) vp_assume(in.va[k] != 0.0);
      for(int j = 0; j < k; ++j) vp_assume(in.ix[j] != in.ix[k]);
      if(k < in.n) in.d[in.ix[k]] = in.va[k];
   }
}
// put the data into the vector as stored nonzeros (stored zeros are a legitimate state: value(n) = 0)
static void fill(SV& v, const In& in)
{
   v.set_size(in.n);
   for(int k = 0; k < NNZ; ++k) if(k < in.n) { v.index(k) = in.ix[k]; v.value(k) = in.va[k]; }
}
static bool dense_eq(const SV& v, const double* d)
{
   for(int i = 0; i < DIM; ++i) if(!(v[i] == d[i])) return false;
   return true;
}
static double dabs(double x) { return x < 0 ? -x : x; }

// ---- add(i,v), add(i), pos, operator[], index/value/element, dim, size/max -------------------------------------------
extern "C" void h_sv_add()
{
   El mem[CAP]; SV v(CAP, mem);
   vp_assert(v.size() == 0 && v.max() == CAP && v.dim() == 0 && v.pos(0) == -1 && v[0] == 0.0, 1);
   In in; draw(in, 0, NNZ, true);
   int cnt = 0; int where[NNZ]; int maxix = -1;
   for(int k = 0; k < NNZ; ++k) if(k < in.n)
   {
      v.add(in.ix[k], in.va[k]);              // zero values are not stored
      where[k] = -1;
      if(in.va[k] != 0.0) { where[k] = cnt; ++cnt; if(in.ix[k] > maxix) maxix = in.ix[k]; }
   }
   vp_assert(v.size() == cnt && v.max() == CAP, 2);
   vp_assert(dense_eq(v, in.d), 3);
   vp_assert(v.dim() == maxix + 1, 4);
   for(int k = 0; k < NNZ; ++k) if(k < in.n)
   {
      vp_assert(v.pos(in.ix[k]) == where[k], 5);   // appended in order, numbered size(), size()+1, ...
      if(where[k] >= 0)
      {
         vp_assert(v.index(where[k]) == in.ix[k] && v.value(where[k]) == in.va[k], 6);
         vp_assert(v.element(where[k]).idx == in.ix[k] && v.element(where[k]).val == in.va[k], 7);
      }
   }
   // every index that was not added is reported absent
   for(int i = 0; i < DIM; ++i) { bool used = false; for(int k = 0; k < NNZ; ++k) if(k < in.n && in.ix[k] == i && in.va[k] != 0.0) used = true; if(!used) vp_assert(v.pos(i) == -1, 8); }
   // add(i): one uninitialised nonzero with index i is appended
   int fresh = vp_int_in(0, DIM + 2);
   v.add(fresh);
   vp_assert(v.size() == cnt + 1 && v.index(cnt) == fresh, 9);
   for(int k = 0; k < NNZ; ++k) if(k < in.n && where[k] >= 0) vp_assert(v.index(where[k]) == in.ix[k] && v.value(where[k]) == in.va[k], 10);
   vp_cover(1);
}

// ---- add(n, idx[], val[]) / add(n, Element[]) / add(SVectorBase) onto a non-empty vector -------------------------------
extern "C" void h_sv_add_arrays()
{
   El mem[CAP]; SV v(CAP, mem);
   // existing content: m nonzeros with indices DIM..DIM+1 (disjoint from the new ones)
   int m = vp_int_in(0, 2);
   double old0 = vp_small(-4, 4);
   double old1 = vp_small(-4, 4);
   v.set_size(m);
   if(m > 0) { v.index(0) = DIM; v.value(0) = old0; }
   if(m > 1) { v.index(1) = DIM + 1; v.value(1) = old1; }
   In in; draw(in, 0, NNZ, true);
   int which = vp_int_in(0, 2);
   El emem[NNZ]; SV src(NNZ, emem);
   if(which == 0) v.add(in.n, in.ix, in.va);
   else
   {
      for(int k = 0; k < NNZ; ++k) { emem[k].idx = in.ix[k]; emem[k].val = in.va[k]; }
      if(which == 1) v.add(in.n, emem);
      else { src.set_size(in.n); v.add(src); }
   }
   int cnt = m;
   for(int k = 0; k < NNZ; ++k) if(k < in.n && in.va[k] != 0.0)
   {  // the nonzero ones are appended in order
      vp_assert(cnt < v.size() && v.index(cnt) == in.ix[k] && v.value(cnt) == in.va[k], 1);
      ++cnt;
   }
   vp_assert(v.size() == cnt && v.max() == CAP, 2);
   vp_assert(dense_eq(v, in.d), 3);
   if(m > 0) vp_assert(v.index(0) == DIM && v.value(0) == old0, 4);
   if(m > 1) vp_assert(v.index(1) == DIM + 1 && v.value(1) == old1, 5);
   vp_cover(1);
}

// ---- remove(n) -----------------------------------------------------------------------------------------------------
extern "C" void h_sv_remove()
{
   El mem[CAP]; SV v(CAP, mem);
   In in; draw(in, 1, NNZ, true); fill(v, in);
   int r = vp_int_in(0, NNZ - 1); vp_assume(r < in.n);
   v.remove(r);
   in.d[in.ix[r]] = 0.0;
   vp_assert(v.size() == in.n - 1 && v.max() == CAP, 1);
   vp_assert(dense_eq(v, in.d), 2);
   vp_assert(v.pos(in.ix[r]) == -1, 3);
   // "only the numbers greater than the number of the first removed nonzero are affected"
   for(int k = 0; k < NNZ; ++k) if(k < r) vp_assert(v.index(k) == in.ix[k] && v.value(k) == in.va[k], 4);
   // survivors are all still stored (values incl. explicit zeros)
   for(int k = 0; k < NNZ; ++k) if(k < in.n && k != r) { int p = v.pos(in.ix[k]); vp_assert(p >= 0 && p < v.size() && v.value(p) == in.va[k], 5); }
   vp_cover(1);
}

// ---- remove(n,m): "Remove nonzeros n thru m" ---------------------------------------------------------------------------
static void sv_remove_range(bool upto_last)
{
   El mem[CAP]; SV v(CAP, mem);
   In in; draw(in, 1, NNZ, false); fill(v, in);
   // guard elements behind the used part: must never be touched
   for(int k = NNZ; k < CAP; ++k) { mem[k].idx = 100 + k; mem[k].val = 9.0; }
   int a = vp_int_in(0, NNZ - 1);
   int b = vp_int_in(0, NNZ - 1);
   vp_assume(a <= b && b < in.n);              // documented precondition (the asserts of the function)
   if(upto_last) vp_assume(b == in.n - 1); else vp_assume(b < in.n - 1);
   v.remove(a, b);
   for(int k = 0; k < NNZ; ++k) if(k >= a && k <= b) in.d[in.ix[k]] = 0.0;
   vp_assert(v.size() == in.n - (b - a + 1), 1);
   vp_assert(dense_eq(v, in.d), 2);
   for(int k = 0; k < NNZ; ++k) if(k < a) vp_assert(v.index(k) == in.ix[k] && v.value(k) == in.va[k], 3);
   for(int k = NNZ; k < CAP; ++k) vp_assert(mem[k].idx == 100 + k && mem[k].val == 9.0, 4);
   vp_cover(1);
}
extern "C" void h_sv_remove_range_inner() { sv_remove_range(false); }   // at least one nonzero behind the removed range
extern "C" void h_sv_remove_range_tail() { sv_remove_range(true); }     // the range ends at the last nonzero

// ---- sort() --------------------------------------------------------------------------------------------------------
#ifndef NSORT
#define NSORT 4
#endif
extern "C" void h_sv_sort()
{
   El mem[CAP]; SV v(CAP, mem);
   int n = vp_int_in(0, NSORT);
   int ix[NSORT]; double va[NSORT]; double d[8];
   for(int i = 0; i < 8; ++i) d[i] = 0.0;
   for(int k = 0; k < NSORT; ++k)
   {
      ix[k] = vp_int_in(0, 7);
      va[k] = vp_small(-4, 4);
      for(int j = 0; j < k; ++j) vp_assume(ix[j] != ix[k]);
      if(k < n) d[ix[k]] = va[k];
   }
   v.set_size(n);
   for(int k = 0; k < NSORT; ++k) if(k < n) { v.index(k) = ix[k]; v.value(k) = va[k]; }
   for(int k = NSORT; k < CAP; ++k) { mem[k].idx = -5; mem[k].val = 9.0; }
   v.sort();
   vp_assert(v.size() == n && v.max() == CAP, 1);
   for(int k = 0; k + 1 < NSORT; ++k) if(k + 1 < n) vp_assert(v.index(k) < v.index(k + 1), 2);
   for(int i = 0; i < 8; ++i) vp_assert(v[i] == d[i], 3);
   // still the same set of stored nonzeros (stored zeros included)
   for(int k = 0; k < NSORT; ++k) if(k < n) { int p = v.pos(ix[k]); vp_assert(p >= 0 && v.value(p) == va[k], 4); }
   for(int k = NSORT; k < CAP; ++k) vp_assert(mem[k].idx == -5 && mem[k].val == 9.0, 5);
   vp_cover(1);
}

// ---- maxAbs, minAbs, length2, operator*=(x), dim, clear -------------------------------------------------------------------
extern "C" void h_sv_norms_scale()
{
   El mem[CAP]; SV v(CAP, mem);
   In in; draw(in, 0, NNZ, true); fill(v, in);
   double mx = 0.0; double mn = (double)infinity; double l2 = 0.0; int maxix = -1;
   for(int k = 0; k < NNZ; ++k) if(k < in.n)
   {
      double a = dabs(in.va[k]);
      if(a > mx) mx = a;
      if(a < mn) mn = a;
      l2 += in.va[k] * in.va[k];
      if(in.ix[k] > maxix) maxix = in.ix[k];
   }
   vp_assert(v.maxAbs() == mx, 1);
   vp_assert(v.minAbs() == mn, 2);            // minimum over the stored nonzeros; +infinity for the empty vector
   vp_assert(v.length2() == l2, 3);
   vp_assert(v.dim() == maxix + 1, 4);
   double x = vp_small(-4, 4); vp_assume(x != 0.0);
   SV& r = (v *= x);
   vp_assert(&r == &v && v.size() == in.n, 5);
   for(int i = 0; i < DIM; ++i) vp_assert(v[i] == in.d[i] * x, 6);
   for(int k = 0; k < NNZ; ++k) if(k < in.n) vp_assert(v.index(k) == in.ix[k] && v.value(k) == in.va[k] * x, 7);
   vp_cover(1);
   v.clear();
   vp_assert(v.size() == 0 && v.max() == CAP && v.dim() == 0, 8);
   for(int i = 0; i < DIM; ++i) vp_assert(v[i] == 0.0, 9);
}

// Scalar products go through the compensated StableSum: for the solver every combination of values that reaches such a sum is a
// separate floating-point proof.  Therefore one operand of every product is symbolic in structure AND values, the other has
// symbolic structure but CONCRETE pairwise different values (which identify the positions that were used); then roles are swapped.
#ifndef VDOT
#define VDOT 2     // value range -VDOT..VDOT of the symbolic operand
#endif
static const double WEIGHT[6] = { 1.0, 3.0, -2.0, 5.0, -7.0, 4.0 };
static const double TAB_S[NNZ] = { 2.0, -4.0, 3.0 };
static void concrete_values(In& in, const double* table)
{
   for(int i = 0; i < DIM; ++i) in.d[i] = 0.0;
   for(int k = 0; k < NNZ; ++k) { in.va[k] = table[k]; if(k < in.n) in.d[in.ix[k]] = table[k]; }
}
static double refdot(const double* a, const double* b) { double s = 0.0; for(int i = 0; i < DIM; ++i) s += a[i] * b[i]; return s; }
// ---- SVector * Vector ----------------------------------------------------------------------------------------------------------
extern "C" void h_sv_dot_dense()
{
   VectorBase<double> w(DIM); double wd[DIM];
   {  // sparse operand symbolic, dense operand = weights
      El mem[CAP]; SV v(CAP, mem);
      In in; draw(in, 0, NNZ, true, VDOT); fill(v, in);
      for(int i = 0; i < DIM; ++i) { wd[i] = WEIGHT[i]; w[i] = wd[i]; }
      vp_assert(v * w == refdot(in.d, wd), 1);
   }
#ifdef DOT_PART2
   {  // (thorough tier) dense operand symbolic, sparse operand: symbolic structure, concrete values
      El mem[CAP]; SV v(CAP, mem);
      In in; draw(in, 0, NNZ, true, 1); concrete_values(in, TAB_S); fill(v, in);
      for(int i = 0; i < DIM; ++i) { wd[i] = vp_small(-VDOT, VDOT); w[i] = wd[i]; }
      vp_assert(v * w == refdot(in.d, wd), 2);
   }
#endif
   vp_cover(1);
}
// ---- SVector - Vector, SVector * x, x * SVector (free operators of basevectors.h; the results are new vectors) -------------------
// operator*(SVector, x) builds its result with DSVectorBase::add(i, value*x), which stores only nonzero products: with symbolic
// values the size of the result (and with it the reallocation path of DSVectorBase) would depend on symbolic data at every step.
// Therefore: symbolic distinct indices, CONCRETE values and scalars (a stored zero and the scalar 0 included).
extern "C" void h_sv_scale_ops()
{
   static const double vals[3][NNZ] = { { 3.0, -2.0, 4.0 }, { 1.0, 0.0, -4.0 }, { -1.0, 2.0, 0.5 } };
   static const double xs[3] = { -3.0, 0.0, 0.25 };
   El mem[CAP]; SV v(CAP, mem);
   In in; draw(in, NNZ, NNZ, true);
   VectorBase<double> w(DIM); double wd[DIM];
   for(int i = 0; i < DIM; ++i) { wd[i] = vp_small(-4, 4); w[i] = wd[i]; }
   for(int c = 0; c < 3; ++c)
   {
      for(int k = 0; k < NNZ; ++k) { in.va[k] = vals[c][k]; in.d[in.ix[k]] = vals[c][k]; }
      fill(v, in);
      VectorBase<double> diff = v - w;
      vp_assert(diff.dim() == DIM, 1);
      for(int i = 0; i < DIM; ++i) vp_assert(diff[i] == in.d[i] - wd[i], 2);
      double x = xs[c];
      DSVectorBase<double> s1 = v * x;
      DSVectorBase<double> s2 = x * v;
      for(int i = 0; i < DIM; ++i) { vp_assert(s1[i] == in.d[i] * x, 3); vp_assert(s2[i] == in.d[i] * x, 4); }
      int nz = 0;
      for(int k = 0; k < NNZ; ++k) if(in.va[k] * x != 0.0) ++nz;
      vp_assert(s1.size() == nz && s2.size() == nz, 5);          // zero products are not stored
      vp_assert(v.size() == in.n && dense_eq(v, in.d), 6);
   }
   vp_cover(1);
}

#ifndef NA_MIN
#define NA_MIN 0
#define NB_MIN 0
#endif
// ---- SVector * SVector ------------------------------------------------------------------------------------------------
static void two_vectors(SV& a, SV& b, In& ia, In& ib, bool sorted, int na_min, int nb_min)
{
   draw(ia, na_min, NNZ, true, VDOT); draw(ib, nb_min, NNZ, true, 1);
   concrete_values(ib, TAB_S);                      // b: symbolic structure, concrete values
   if(sorted)
   {
      for(int k = 0; k + 1 < NNZ; ++k) { vp_assume(ia.ix[k] < ia.ix[k + 1]); vp_assume(ib.ix[k] < ib.ix[k + 1]); }
   }
   fill(a, ia); fill(b, ib);
}
extern "C" void h_sv_dot_sparse_sorted()
{
   El m1[CAP]; SV a(CAP, m1); El m2[CAP]; SV b(CAP, m2); In ia, ib;
   two_vectors(a, b, ia, ib, true, NA_MIN, NB_MIN);
   double dot = 0.0;
   for(int i = 0; i < DIM; ++i) dot += ia.d[i] * ib.d[i];
   vp_assert(a * b == dot, 1);
   vp_assert(b * a == dot, 2);
   vp_cover(1);
}
extern "C" void h_sv_dot_sparse_anyorder()
{
   El m1[CAP]; SV a(CAP, m1); El m2[CAP]; SV b(CAP, m2); In ia, ib;
   two_vectors(a, b, ia, ib, false, 0, 0);
   double dot = 0.0;
   for(int i = 0; i < DIM; ++i) dot += ia.d[i] * ib.d[i];
   vp_assert(a * b == dot, 1);
   vp_cover(1);
}

// ---- operator=(SVectorBase) drops stored zeros; assignArray keeps everything; operator=(VectorBase) --------------------------
extern "C" void h_sv_assign()
{
   El m1[CAP]; SV a(CAP, m1); El m2[CAP]; SV b(CAP, m2);
   In in; draw(in, 0, NNZ, true); fill(a, in);
   // target has old content that must disappear
   b.set_size(2); b.index(0) = DIM + 1; b.value(0) = 3.0; b.index(1) = 0; b.value(1) = 7.0;
   SV& r = (b = a);
   vp_assert(&r == &b, 1);
   int cnt = 0;
   for(int k = 0; k < NNZ; ++k) if(k < in.n && in.va[k] != 0.0) { vp_assert(b.index(cnt) == in.ix[k] && b.value(cnt) == in.va[k], 2); ++cnt; }
   vp_assert(b.size() == cnt && b.max() == CAP, 3);
   vp_assert(dense_eq(b, in.d) && b[DIM + 1] == 0.0, 4);
   vp_assert(a.size() == in.n && dense_eq(a, in.d), 5);     // source untouched
   a = a;                                                      // self-assignment is a no-op
   vp_assert(a.size() == in.n && dense_eq(a, in.d), 6);
   // assignArray(values, indices, n): verbatim copy
   El m3[CAP]; SV c(CAP, m3); c.set_size(1); c.index(0) = DIM + 1; c.value(0) = 5.0;
   c.assignArray(in.va, in.ix, in.n);
   vp_assert(c.size() == in.n, 7);
   for(int k = 0; k < NNZ; ++k) if(k < in.n) vp_assert(c.index(k) == in.ix[k] && c.value(k) == in.va[k], 8);
   vp_assert(dense_eq(c, in.d) && c[DIM + 1] == 0.0, 9);
   // operator=(VectorBase): exactly the nonzero positions of the dense vector
   VectorBase<double> w(DIM); int nz = 0;
   for(int i = 0; i < DIM; ++i) { w[i] = in.d[i]; if(in.d[i] != 0.0) ++nz; }
   El m4[CAP]; SV e(CAP, m4); e.set_size(1); e.index(0) = DIM + 1; e.value(0) = 5.0;
   e = w;
   vp_assert(e.size() == nz && dense_eq(e, in.d) && e[DIM + 1] == 0.0, 10);
   for(int p = 0; p < DIM; ++p) if(p < e.size()) vp_assert(e.value(p) != 0.0 && e.index(p) >= 0 && e.index(p) < DIM, 11);
   vp_cover(1);
}

// ---- operator=(SSVectorBase): sparse copy of a set-up semi-sparse vector -----------------------------------------------------
extern "C" void h_sv_assign_ssv()
{
   std::shared_ptr<Tolerances> tol = std::make_shared<Tolerances>();
   SSVectorBase<double> s(DIM, tol);
   In in; draw(in, 0, NNZ, false);
   for(int k = 0; k < NNZ; ++k) if(k < in.n) s.add(in.ix[k], in.va[k]);
   vp_assert(s.isSetup() && s.size() == in.n, 1);
   El m1[CAP]; SV a(CAP, m1);
   a = s;
   vp_assert(a.size() == in.n, 2);
   vp_assert(dense_eq(a, in.d), 3);
   vp_cover(1);
}
// DSVectorBase(SSVectorBase) / DSVectorBase::operator=(SSVectorBase) go through the same function.
// The number of entries is dispatched to a constant per instantiation: the DSVector allocates size() nonzeros, and a
// symbolic allocation size is not tractable for the solver.
template<int N> static void dsv_from_ssv_n(const In& in)
{
   std::shared_ptr<Tolerances> tol = std::make_shared<Tolerances>();
   SSVectorBase<double> s(DIM, tol);
   for(int k = 0; k < N; ++k) s.add(in.ix[k], in.va[k]);
   DSVectorBase<double> a(s);
   int nz = 0;
   for(int k = 0; k < N; ++k) if(in.va[k] != 0.0) ++nz;
   vp_assert(a.size() == nz, 1);
   vp_assert(dense_eq(a, in.d), 2);
   DSVectorBase<double> b(4);
   b = s;
   vp_assert(b.size() == nz, 3);
   vp_assert(dense_eq(b, in.d), 4);
}
extern "C" void h_dsv_from_ssv()
{
   In in; draw(in, 0, NNZ, false);
   if(in.n == 0) dsv_from_ssv_n<0>(in);
   else if(in.n == 1) dsv_from_ssv_n<1>(in);
   else if(in.n == 2) dsv_from_ssv_n<2>(in);
   else dsv_from_ssv_n<3>(in);
   vp_cover(1);
}

// ---- scaleAssign(exp, sv) / scaleAssign(exps[], sv, negate): this = sv scaled by powers of two ------------------------------
extern "C" void h_sv_scaleassign()
{
   El m1[CAP]; SV a(CAP, m1); El m2[CAP]; SV b(CAP, m2);
   In in; draw(in, 0, NNZ, false); fill(a, in);
   int m = vp_int_in(0, NNZ);                  // old size of the target
   b.set_size(m);
   for(int k = 0; k < NNZ; ++k) if(k < m) { b.index(k) = DIM + 1; b.value(k) = 1.0; }
   int e = vp_int_in(-3, 3);
   b.scaleAssign(e, a);
   vp_assert(b.size() == in.n, 1);
   for(int i = 0; i < DIM; ++i) vp_assert(b[i] == ldexp(in.d[i], e), 2);
   vp_assert(b[DIM + 1] == 0.0, 3);
   vp_cover(1);
}
extern "C" void h_sv_scaleassign_samesize()
{  // the only situation in which scaleAssign is usable: the target already has the size of the source
   El m1[CAP]; SV a(CAP, m1); El m2[CAP]; SV b(CAP, m2);
   In in; draw(in, 0, NNZ, false); fill(a, in);
   b.set_size(in.n);
   for(int k = 0; k < NNZ; ++k) if(k < in.n) { b.index(k) = DIM + 1; b.value(k) = 1.0; }
   int e = vp_int_in(-3, 3);
   int neg = vp_int_in(0, 1);
   int ex[DIM];
   for(int i = 0; i < DIM; ++i) ex[i] = vp_int_in(-3, 3);
   int which = vp_int_in(0, 1);
   if(which == 0) b.scaleAssign(e, a); else b.scaleAssign(ex, a, neg != 0);
   vp_assert(b.size() == in.n, 1);
   for(int i = 0; i < DIM; ++i) vp_assert(b[i] == ldexp(in.d[i], which == 0 ? e : (neg ? -ex[i] : ex[i])), 2);
   vp_assert(b[DIM + 1] == 0.0, 3);
   vp_cover(1);
}

// ---- UnitVectorBase -----------------------------------------------------------------------------------------------------
extern "C" void h_unitvector()
{
   int i = vp_int_in(0, 1000);
   UnitVectorBase<double> u(i);
   vp_assert(u.size() == 1 && u.max() == 1 && u.mem() == &u.themem, 1);       // = isConsistent() (compiled out in this build)
   vp_assert(u.index(0) == i && u.value(0) == 1.0 && u.SV::value(0) == 1.0, 2);
   vp_assert(u.dim() == i + 1 && u.pos(i) == 0 && u[i] == 1.0, 3);
   int j = vp_int_in(0, 1000);
   if(j != i) vp_assert(u[j] == 0.0 && u.pos(j) == -1, 4);
   vp_assert(u.maxAbs() == 1.0 && u.minAbs() == 1.0 && u.length2() == 1.0, 5);
   // copy / assignment give an independent vector with its own memory
   UnitVectorBase<double> c(u);
   vp_assert(c.mem() == &c.themem && c.size() == 1 && c.max() == 1 && c.index(0) == i && c.SV::value(0) == 1.0, 6);
   UnitVectorBase<double> a(j);
   a = u;
   vp_assert(a.mem() == &a.themem && a.size() == 1 && a.max() == 1 && a.index(0) == i && a.SV::value(0) == 1.0, 7);
   // e_i * w = w_i
   VectorBase<double> w(DIM); double wd[DIM];
   for(int k = 0; k < DIM; ++k) { wd[k] = vp_small(-4, 4); w[k] = wd[k]; }
   int q = vp_int_in(0, DIM - 1);
   UnitVectorBase<double> eq(q);
   vp_assert(eq * w == wd[q] && w * eq == wd[q], 8);
   UnitVectorBase<double> dflt;
   vp_assert(dflt.index(0) == 0 && dflt.size() == 1, 9);
   vp_cover(1);
}
