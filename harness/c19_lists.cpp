// C19-O4: IdList<T> / IsList<T> (intrusive lists) over a pool of NEL elements owned by the harness.
// Inductive step: the pre-state is an ARBITRARY valid list over the element pool, produced by a generator that is the full
// representation invariant by construction: a symbolic length k, a symbolic sequence of k distinct elements linked through
// next() (and prev()), every other link in the pool (next of the last element, prev of the first one, links of elements
// outside the list) is an arbitrary stale pointer into the pool or null - the header says such links may hold anything.
// One operation with symbolic arguments; afterwards the list is compared link by link with the reference sequence
// (first/last/next/prev, next(prev(x)) == x, length, find). Bounded histories from the empty list as cross-check.
#include <type_traits>
#include "vp.h"
#include "soplex/spxdefines.h"
#include "soplex/spxalloc.h"
#include "soplex/islist.h"
#include "soplex/idlist.h"
using namespace soplex;
#ifndef NEL
#define NEL 4
#endif
#ifndef HIST
#define HIST 4
#endif
struct P { int v; };
typedef IdElement<P> DE;
typedef IsElement<P> SE;
typedef IdList<DE> DL;
typedef IsList<SE> SL;
template<class E> struct IsD { enum { value = std::is_same<E, DE>::value }; };
template<class E> static E* pick(E* e, int ix) { return ix < 0 ? (E*)0 : &e[ix]; }
struct Seq { int n; int s[NEL]; };
static bool inSeq(const Seq& q, int x) { for(int j = 0; j < NEL; ++j) if(j < q.n && q.s[j] == x) return true; return false; }
static int posIn(const Seq& q, int x) { for(int j = 0; j < NEL; ++j) if(j < q.n && q.s[j] == x) return j; return -1; }
static void insAt(Seq& q, int p, int x) { for(int j = NEL - 1; j > 0; --j) if(j > p && j <= q.n) q.s[j] = q.s[j - 1]; q.s[p] = x; ++q.n; }
static void delAt(Seq& q, int p) { for(int j = 0; j < NEL - 1; ++j) if(j >= p && j < q.n - 1) q.s[j] = q.s[j + 1]; --q.n; }

// all links of the pool arbitrary (stale), data = element number + 10
template<class E> static void stale(E* e)
{
   for(int x = 0; x < NEL; ++x)
   {
      e[x].v = x + 10;
      int a = vp_int_in(-1, NEL - 1); e[x].next() = pick(e, a);
      if constexpr(IsD<E>::value) { int b = vp_int_in(-1, NEL - 1); e[x].prev() = pick(e, b); }
   }
}
// link elements perm[from .. from+n) as a list
template<class E> static void link(E* e, const int* perm, int from, int n)
{
   for(int j = 0; j < NEL - 1; ++j) if(j >= from && j + 1 < from + n)
   {
      e[perm[j]].next() = &e[perm[j + 1]];
      if constexpr(IsD<E>::value) e[perm[j + 1]].prev() = &e[perm[j]];
   }
}
// symbolic permutation prefix: perm[0..NEL) pairwise distinct
static void genPerm(int* perm)
{
   for(int j = 0; j < NEL; ++j) perm[j] = vp_int_in(0, NEL - 1);
   for(int j = 0; j < NEL; ++j) for(int jj = 0; jj < j; ++jj) vp_assume(perm[j] != perm[jj]);
}
// list == reference sequence, link by link
template<class L, class E> static bool listIs(const L& l, E* e, const Seq& q)
{
   if(q.n == 0) return l.first() == 0 && l.last() == 0;
   if(l.first() != &e[q.s[0]] || l.last() != &e[q.s[q.n - 1]]) return false;
   const E* x = l.first();
   for(int j = 0; j < NEL; ++j) if(j < q.n)
   {
      if(x != &e[q.s[j]]) return false;
      if constexpr(IsD<E>::value)
      {
         const E* pv = l.prev(x);
         if(j == 0) { if(pv != 0) return false; }
         else { if(pv != &e[q.s[j - 1]] || l.next(pv) != x) return false; }          // next(prev(x)) == x
      }
      const E* nx = l.next(x);
      if(j == q.n - 1) { if(nx != 0) return false; }
      else if(nx != &e[q.s[j + 1]]) return false;
      x = nx;
   }
   return true;
}
template<int BASE, class L, class E> static void checkAll(const L& l, E* e, const Seq& q)
{
   bool ok = listIs(l, e, q);
   vp_assert(ok, BASE);
   if(!ok) return;                                          // length()/find() only terminate on a structurally sound list
   vp_assert(l.length() == q.n, BASE + 1);
   for(int x = 0; x < NEL; ++x) vp_assert((l.find(&e[x]) != 0) == inSeq(q, x) && e[x].v == x + 10, BASE + 2);
}

// ------------------------------------------------------------------ single-element operations
template<class L, class E> static void elem_step()
{
   E e[NEL];
   int perm[NEL]; genPerm(perm);
   stale(e);
   Seq q; q.n = vp_int_in(0, NEL);
   for(int j = 0; j < NEL; ++j) q.s[j] = perm[j];
   link(e, perm, 0, q.n);
   L l(q.n ? &e[perm[0]] : (E*)0, q.n ? &e[perm[q.n - 1]] : (E*)0);
   checkAll<10>(l, e, q);                                   // the generator produces a valid list (sanity of the pre-state)
   int op = vp_int_in(0, 4);
   int x = vp_int_in(0, NEL - 1);                           // element argument
   int p = vp_int_in(0, NEL - 1);                           // position of the 'after' argument
   if(op == 0 && !inSeq(q, x)) { l.append(&e[x]); q.s[q.n] = x; ++q.n; }
   else if(op == 1 && !inSeq(q, x)) { l.prepend(&e[x]); insAt(q, 0, x); }
   else if(op == 2 && !inSeq(q, x) && p < q.n) { l.insert(&e[x], &e[q.s[p]]); insAt(q, p + 1, x); }
   else if(op == 3)
   {  // IsList::remove(elem) searches the list (no-op when absent); IdList::remove(elem) requires a member
      if(inSeq(q, x)) { l.remove(&e[x]); delAt(q, posIn(q, x)); }
      else if constexpr(!IsD<E>::value) l.remove(&e[x]);
   }
   else if(op == 4 && p < q.n)
   {  // "removes the successor of after": IsList tolerates the last element (nothing to remove); IdList needs a successor
      if(p < q.n - 1) { l.remove_next(&e[q.s[p]]); delAt(q, p + 1); }
      else if constexpr(!IsD<E>::value) l.remove_next(&e[q.s[p]]);
   }
   checkAll<1>(l, e, q);
   vp_cover(1);
}
extern "C" void h_idlist_elem_step() { elem_step<DL, DE>(); }
extern "C" void h_islist_elem_step() { elem_step<SL, SE>(); }

// ------------------------------------------------------------------ list-valued operations: append/prepend/insert a second list
// two disjoint valid lists over the pool: perm[0..k1) and perm[k1..k1+k2)
template<class L, class E> static void join_step()
{
   E e[NEL];
   int perm[NEL]; genPerm(perm);
   stale(e);
   int k1 = vp_int_in(0, NEL); int k2 = vp_int_in(0, NEL); vp_assume(k1 + k2 <= NEL);
   link(e, perm, 0, k1); link(e, perm, k1, k2);
   Seq q1; q1.n = k1; Seq q2; q2.n = k2;
   for(int j = 0; j < NEL; ++j) { q1.s[j] = perm[j]; q2.s[j] = perm[(j + k1) % NEL]; }
   L l1(k1 ? &e[perm[0]] : (E*)0, k1 ? &e[perm[k1 - 1]] : (E*)0);
   L l2(k2 ? &e[perm[k1 % NEL]] : (E*)0, k2 ? &e[perm[(k1 + k2 - 1) % NEL]] : (E*)0);
   vp_assert(listIs(l1, e, q1) && listIs(l2, e, q2), 10);
   int op = vp_int_in(0, 2);
   int p = vp_int_in(0, NEL - 1);
   Seq r; r.n = 0;
   if(op == 0) { l1.append(l2); for(int j = 0; j < NEL; ++j) { if(j < k1) r.s[r.n++] = q1.s[j]; } for(int j = 0; j < NEL; ++j) { if(j < k2) r.s[r.n++] = q2.s[j]; } }
   else if(op == 1) { l1.prepend(l2); for(int j = 0; j < NEL; ++j) { if(j < k2) r.s[r.n++] = q2.s[j]; } for(int j = 0; j < NEL; ++j) { if(j < k1) r.s[r.n++] = q1.s[j]; } }
   else
   {
      vp_assume(p < k1);
      l1.insert(l2, &e[q1.s[p]]);
      for(int j = 0; j < NEL; ++j) { if(j <= p) r.s[r.n++] = q1.s[j]; }
      for(int j = 0; j < NEL; ++j) { if(j < k2) r.s[r.n++] = q2.s[j]; }
      for(int j = 0; j < NEL; ++j) { if(j > p && j < k1) r.s[r.n++] = q1.s[j]; }
   }
   checkAll<1>(l1, e, r);
   // documented: the added list remains an own list which is then part of the concatenated list
   vp_assert(listIs(l2, e, q2), 5);
   vp_cover(1);
}
extern "C" void h_idlist_join_step() { join_step<DL, DE>(); }
extern "C" void h_islist_join_step() { join_step<SL, SE>(); }

// ------------------------------------------------------------------ remove(list): a sublist [a..b] of the list is removed
template<class L, class E, int HEAD> static void remove_sub_step()
{
   E e[NEL];
   int perm[NEL]; genPerm(perm);
   stale(e);
   Seq q; q.n = vp_int_in(1, NEL);
   for(int j = 0; j < NEL; ++j) q.s[j] = perm[j];
   link(e, perm, 0, q.n);
   L l(&e[perm[0]], &e[perm[q.n - 1]]);
   int a = vp_int_in(0, NEL - 1); int b = vp_int_in(0, NEL - 1); vp_assume(a <= b && b < q.n);
   if(HEAD) vp_assume(a == 0);
   L sub(&e[perm[a]], &e[perm[b]]);
   l.remove(sub);
   Seq r; r.n = 0;
   for(int j = 0; j < NEL; ++j) if(j < q.n && (j < a || j > b)) r.s[r.n++] = q.s[j];
   checkAll<1>(l, e, r);
   vp_cover(1);
}
extern "C" void h_idlist_remove_sublist_step() { remove_sub_step<DL, DE, 0>(); }
extern "C" void h_idlist_remove_sublist_head_step() { remove_sub_step<DL, DE, 1>(); }
extern "C" void h_islist_remove_sublist_step() { remove_sub_step<SL, SE, 0>(); }

// ------------------------------------------------------------------ bounded history from the empty list
template<class L, class E> static void history()
{
   E e[NEL];
   for(int x = 0; x < NEL; ++x) { e[x].v = x + 10; e[x].next() = 0; if constexpr(IsD<E>::value) e[x].prev() = 0; }
   L l;
   Seq q; q.n = 0;
   for(int step = 0; step < HIST; ++step)
   {
      int op = vp_int_in(0, 5);
      int x = vp_int_in(0, NEL - 1);
      int p = vp_int_in(0, NEL - 1);
      if(op == 0 && !inSeq(q, x)) { l.append(&e[x]); q.s[q.n] = x; ++q.n; }
      else if(op == 1 && !inSeq(q, x)) { l.prepend(&e[x]); insAt(q, 0, x); }
      else if(op == 2 && !inSeq(q, x) && p < q.n) { l.insert(&e[x], &e[q.s[p]]); insAt(q, p + 1, x); }
      else if(op == 3 && inSeq(q, x)) { l.remove(&e[x]); delAt(q, posIn(q, x)); }
      else if(op == 4 && p + 1 < q.n) { l.remove_next(&e[q.s[p]]); delAt(q, p + 1); }
      else if(op == 5) { l.clear(); q.n = 0; }
      bool ok = listIs(l, e, q);
      vp_assert(ok, 1);
      if(!ok) return;                                       // do not operate on a broken list (its loops need not terminate)
   }
   checkAll<2>(l, e, q);
   vp_cover(1);
}
extern "C" void h_idlist_history() { history<DL, DE>(); }
extern "C" void h_islist_history() { history<SL, SE>(); }
