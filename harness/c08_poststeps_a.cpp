// C08: postsolve steps of SPxMainSM<double> (part a: RowSingletonPS, FixVariablePS(+FixBoundsPS), FreeConstraintPS,
// EmptyConstraintPS, RowObjPS, TightenBoundsPS).
//
// Method (kernel style): build the ORIGINAL LP P as a real SPxLPBase<double> (lp_build.h), construct the PostStep with its
// REAL constructor with the arguments the simplifier passes at the call site (spxmainsm.hpp), describe the REDUCED LP P' as
// plain dense arrays, take an arbitrary exact optimal basic solution of P' (layout as SPxMainSM::unsimplify hands it to
// execute(): reduced solution in the first entries of vectors of the ORIGINAL dimension, the rest is garbage), run the real
// execute(), and assert the exact KKT + basis conditions for P.
//
// Convention: inside SPxMainSM everything is a MINIMISATION problem: c = (sense==MIN ? obj : -obj), r = c - A^T y,
// nonbasic column at lower => r >= 0, at upper => r <= 0; nonbasic row at lhs (ON_LOWER) => y >= 0, at rhs (ON_UPPER) => y <= 0,
// basic => r == 0 resp. y == 0 (row objectives are zero: handleRowObjectives() removed them before any other step).
// unsimplify() flips the signs of y and r for MAXIMIZE before and after the loop over the steps.
#include "lp_build.h"
using namespace soplex; using namespace vph;
typedef SPxSolverBase<double>::VarStatus VS;
typedef SPxMainSM<double> SM;
#define ST_UP   SPxSolverBase<double>::ON_UPPER
#define ST_LO   SPxSolverBase<double>::ON_LOWER
#define ST_FX   SPxSolverBase<double>::FIXED
#define ST_ZE   SPxSolverBase<double>::ZERO
#define ST_BA   SPxSolverBase<double>::BASIC
#define ST_UN   SPxSolverBase<double>::UNDEFINED
#ifndef MR
#define MR 3
#define MC 3
#endif
#ifndef KV
#define KV 4          // matrix/objective/bound values are integers in -KV..KV
#endif
#ifndef KX
#define KX 8          // primal values of the reduced solution are multiples of 1/2 in -KX/2..KX/2
#endif
#ifndef KY
#define KY 3          // dual values of the reduced solution are integers in -KY..KY
#endif
// ---------------------------------------------------------------------------------------------------------------------
// dense reference LP  min c^T x, lhs <= Ax <= rhs, lo <= x <= up   and a solution with basis statuses
struct DLP { int nr, nc; double a[MR][MC], lhs[MR], rhs[MR], lo[MC], up[MC], c[MC]; };
struct DSol { double x[MC], r[MC], y[MR], s[MR]; int cs[MC], rs[MR]; };
static inline double INF() { return (double)infinity; }
template<int TR, int TC> static void dlp_from(DLP& p, const Dense<TR, TC>& d, bool minimize)
{
   p.nr = TR; p.nc = TC;
   for(int i = 0; i < TR; ++i) { p.lhs[i] = d.lhs[i]; p.rhs[i] = d.rhs[i]; for(int j = 0; j < TC; ++j) p.a[i][j] = d.a[i][j]; }
   for(int j = 0; j < TC; ++j) { p.lo[j] = d.lo[j]; p.up[j] = d.up[j]; p.c[j] = minimize ? d.obj[j] : -d.obj[j]; }
}
static void dlp_remove_row(DLP& p, int i)     // SPxLPBase::removeRow: the last row moves into position i
{
   int l = p.nr - 1;
   for(int j = 0; j < p.nc; ++j) p.a[i][j] = p.a[l][j];
   p.lhs[i] = p.lhs[l]; p.rhs[i] = p.rhs[l]; p.nr = l;
}
static void dlp_remove_col(DLP& p, int j)     // SPxLPBase::removeCol: the last column moves into position j
{
   int l = p.nc - 1;
   for(int i = 0; i < p.nr; ++i) p.a[i][j] = p.a[i][l];
   p.lo[j] = p.lo[l]; p.up[j] = p.up[l]; p.c[j] = p.c[l]; p.nc = l;
}
static double dlp_act(const DLP& p, int i, const double* x) { double v = 0.0; for(int j = 0; j < p.nc; ++j) v += p.a[i][j] * x[j]; return v; }
static double dlp_red(const DLP& p, int j, const double* y) { double v = p.c[j]; for(int i = 0; i < p.nr; ++i) v -= p.a[i][j] * y[i]; return v; }
static double dlp_obj(const DLP& p, const double* x) { double v = 0.0; for(int j = 0; j < p.nc; ++j) v += p.c[j] * x[j]; return v; }
// status rules (exact). strictStatus (used for the ASSUMED reduced solution): the nonbasic status is the one SoPlex's solver reports
// for the bound type. Non-strict (used for the ASSERTED result): a variable with coinciding bounds may carry ON_LOWER/ON_UPPER/FIXED
// without a sign condition (SoPlex maps all three to P_FIXED when such a basis is loaded); FIXED requires coinciding bounds.
static bool col_ok(const DLP& p, int j, double x, double r, int st, bool strictStatus)
{
   if(!(p.lo[j] <= x && x <= p.up[j])) return false;
   switch(st)
   {
   case ST_LO: return x == p.lo[j] && p.lo[j] > -INF() && (strictStatus ? (r >= 0.0 && p.lo[j] < p.up[j]) : (r >= 0.0 || p.lo[j] == p.up[j]));
   case ST_UP: return x == p.up[j] && p.up[j] < INF() && (strictStatus ? (r <= 0.0 && p.lo[j] < p.up[j]) : (r <= 0.0 || p.lo[j] == p.up[j]));
   case ST_FX: return p.lo[j] == p.up[j];
   case ST_ZE: return p.lo[j] <= -INF() && p.up[j] >= INF() && x == 0.0 && r == 0.0;
   case ST_BA: return r == 0.0;
   default: return false;
   }
}
static bool row_ok(const DLP& p, int i, double s, double y, int st, bool strictStatus)
{
   if(!(p.lhs[i] <= s && s <= p.rhs[i])) return false;
   switch(st)
   {
   case ST_LO: return s == p.lhs[i] && p.lhs[i] > -INF() && (strictStatus ? (y >= 0.0 && p.lhs[i] < p.rhs[i]) : (y >= 0.0 || p.lhs[i] == p.rhs[i]));
   case ST_UP: return s == p.rhs[i] && p.rhs[i] < INF() && (strictStatus ? (y <= 0.0 && p.lhs[i] < p.rhs[i]) : (y <= 0.0 || p.lhs[i] == p.rhs[i]));
   case ST_FX: return p.lhs[i] == p.rhs[i];
   case ST_ZE: return !strictStatus && p.lhs[i] <= -INF() && p.rhs[i] >= INF() && y == 0.0;
   case ST_BA: return y == 0.0;
   default: return false;
   }
}
// arbitrary exact optimal basic solution of the reduced LP q (assumptions). A nonbasic status is the one SoPlex reports
// for the bound type (FIXED iff the two bounds coincide; ZERO only for free columns; no nonbasic free rows).
static void draw_reduced(const DLP& q, DSol& z)
{
   int nb = 0;
   for(int j = 0; j < q.nc; ++j)
   {
      z.cs[j] = vp_int_in(0, 4);
      int h = vp_int_in(-KX, KX);
      switch(z.cs[j])      // a nonbasic column sits at the bound its status names
      {
      case ST_LO: case ST_FX: z.x[j] = q.lo[j]; break;
      case ST_UP: z.x[j] = q.up[j]; break;
      case ST_ZE: z.x[j] = 0.0; break;
      default: z.x[j] = 0.5 * (double)h;
      }
   }
   for(int i = 0; i < q.nr; ++i) { z.y[i] = vp_small(-KY, KY); }
   for(int i = 0; i < q.nr; ++i) z.s[i] = dlp_act(q, i, z.x);
   for(int j = 0; j < q.nc; ++j) z.r[j] = dlp_red(q, j, z.y);
   for(int j = 0; j < q.nc; ++j) { vp_assume(col_ok(q, j, z.x[j], z.r[j], z.cs[j], true)); nb += (z.cs[j] == ST_BA); }
   for(int i = 0; i < q.nr; ++i) { z.rs[i] = vp_int_in(0, 4); vp_assume(row_ok(q, i, z.s[i], z.y[i], z.rs[i], true)); nb += (z.rs[i] == ST_BA); }
   vp_assume(nb == q.nr);
}
// working vectors of the ORIGINAL dimension, as SPxMainSM::unsimplify sets them up: reduced solution first, garbage behind
struct Work
{
   VectorBase<double> x, y, s, r; DataArray<VS> cS, rS;
   Work(int nr, int nc) : x(nc), y(nr), s(nr), r(nc), cS(nc), rS(nr) {}
};
static void load_work(Work& w, const DLP& q, const DSol& z, int onr, int onc)
{
   for(int j = 0; j < onc; ++j)
   {
      if(j < q.nc) { w.x[j] = z.x[j]; w.r[j] = z.r[j]; w.cS[j] = (VS)z.cs[j]; }
      else { w.x[j] = vp_small(-9, 9); w.r[j] = vp_small(-9, 9); w.cS[j] = (VS)vp_int_in(0, 5); }
   }
   for(int i = 0; i < onr; ++i)
   {
      if(i < q.nr) { w.y[i] = z.y[i]; w.s[i] = z.s[i]; w.rS[i] = (VS)z.rs[i]; }
      else { w.y[i] = vp_small(-9, 9); w.s[i] = vp_small(-9, 9); w.rS[i] = (VS)vp_int_in(0, 5); }
   }
}
// exact KKT + basis conditions for p (assertions 1..9)
static void check_kkt(const DLP& p, const Work& w)
{
   int nb = 0;
   double x[MC], y[MR];
   for(int j = 0; j < p.nc; ++j) x[j] = w.x[j];
   for(int i = 0; i < p.nr; ++i) y[i] = w.y[i];
   for(int i = 0; i < p.nr; ++i)
   {
      vp_assert(w.s[i] == dlp_act(p, i, x), 1);                                        // s = Ax
      vp_assert(p.lhs[i] <= w.s[i] && w.s[i] <= p.rhs[i], 2);                          // sides
      vp_assert((int)w.rS[i] >= 0 && (int)w.rS[i] <= 4, 3);                            // status defined
      vp_assert(row_ok(p, i, w.s[i], w.y[i], (int)w.rS[i], false), 4);                 // dual sign / complementarity per status
      nb += (w.rS[i] == ST_BA);
   }
   for(int j = 0; j < p.nc; ++j)
   {
      vp_assert(w.r[j] == dlp_red(p, j, y), 5);                                        // r = c - A^T y
      vp_assert(p.lo[j] <= w.x[j] && w.x[j] <= p.up[j], 6);                            // bounds
      vp_assert((int)w.cS[j] >= 0 && (int)w.cS[j] <= 4, 7);
      vp_assert(col_ok(p, j, w.x[j], w.r[j], (int)w.cS[j], false), 8);
      nb += (w.cS[j] == ST_BA);
   }
   vp_assert(nb == p.nr, 9);                                                           // basis dimension
}
static inline std::shared_ptr<Tolerances> mk_tols() { return std::make_shared<Tolerances>(); }
#ifdef SENSE_MIN
#define IS_MIN true
#else
#define IS_MIN false      // SPxLPBase default sense is MAXIMIZE
#endif
static inline void set_sense(LP& lp) { if(IS_MIN) lp.changeSense(SPxLPBase<double>::MINIMIZE); }
static inline bool is_pm12(double v) { return v == 1.0 || v == -1.0 || v == 2.0 || v == -2.0; }

#ifndef PNR
#define PNR 2
#endif
#ifndef PNC
#define PNC 2
#endif
#ifndef C08_COMMON_ONLY
// ---------------------------------------------------------------------------------------------------------------------
// RowSingletonPS: call site removeRowSingleton(): row i = { a_ij x_j }, bounds of x_j tightened to the implied ones
// (only if strictly tighter), then the PostStep is constructed from the LP with the NEW bounds, then row i removed.
#ifndef RS_I
#define RS_I 0
#endif
#define RS_J (PNC - 1)
extern "C" void h_c08_rowsingleton()
{
   const int I = RS_I, J = RS_J;
   // row I is the singleton {(I,J)}, the other row is dense
   unsigned mask = 0; for(int i = 0; i < PNR; ++i) for(int j = 0; j < PNC; ++j) if(i != I || j == J) mask |= 1u << (i * PNC + j);
   LP lp; set_sense(lp); Dense<PNR, PNC> d; build<PNR, PNC>(lp, d, mask, KV);
   double aij = d.a[I][J]; vp_assume(is_pm12(aij));
   DLP p; dlp_from<PNR, PNC>(p, d, IS_MIN);
   // the reduction (reference, exact arithmetic)
   double lo = -INF(), up = INF();
   if(aij > 0) { if(p.lhs[I] > -INF()) lo = p.lhs[I] / aij; if(p.rhs[I] < INF()) up = p.rhs[I] / aij; }
   else        { if(p.rhs[I] < INF()) lo = p.rhs[I] / aij; if(p.lhs[I] > -INF()) up = p.lhs[I] / aij; }
   double oldLo = p.lo[J], oldUp = p.up[J]; bool sLo = false, sUp = false;
   if(up < oldUp) { lp.upper_w(J) = up; sUp = true; }
   if(lo > oldLo) { lp.lower_w(J) = lo; sLo = true; }
   SM::RowSingletonPS ps(lp, I, J, sLo, sUp, lp.lower(J), lp.upper(J), oldLo, oldUp, mk_tols());
   DLP q = p; q.lo[J] = sLo ? lo : oldLo; q.up[J] = sUp ? up : oldUp; dlp_remove_row(q, I);
   DSol z; draw_reduced(q, z);
   Work w(PNR, PNC); load_work(w, q, z, PNR, PNC);
   int cs0 = z.cs[J];
   ps.execute(w.x, w.y, w.s, w.r, w.cS, w.rS, true);
   check_kkt(p, w);
   for(int j = 0; j < PNC; ++j) vp_assert(w.x[j] == z.x[j], 10);       // primal solution unchanged => same objective
   vp_assert(dlp_obj(p, z.x) == dlp_obj(q, z.x), 11);
   if(cs0 != ST_BA && w.cS[J] == ST_BA && w.rS[I] == ST_LO) vp_cover(2);     // column pushed into the basis, row at lhs
   if(cs0 != ST_BA && w.cS[J] == ST_BA && w.rS[I] == ST_UP) vp_cover(3);
   if(cs0 == ST_FX && w.cS[J] == ST_LO) vp_cover(4);
   if(cs0 == ST_FX && w.cS[J] == ST_UP) vp_cover(5);
   vp_cover(1);
}
// ---------------------------------------------------------------------------------------------------------------------
// FixVariablePS via fixColumn() (simplifyCols step 3): lower == upper == val; finite sides of the rows of the column are shifted
// by val*a_ij, the PostStep is constructed (val = lp.lower(j)), then the caller removes column j (last column swapped in).
#ifndef FV_J
#define FV_J 0
#endif
extern "C" void h_c08_fixvariable()
{
   const int J = FV_J;
   LP lp; set_sense(lp); Dense<PNR, PNC> d; build<PNR, PNC>(lp, d, (1u << (PNR * PNC)) - 1, KV);
   vp_assume(d.lo[J] == d.up[J]);
   DLP p; dlp_from<PNR, PNC>(p, d, IS_MIN);
   double val = p.lo[J];
   DLP q = p;
   for(int i = 0; i < PNR; ++i)
   {
      if(p.rhs[i] < INF()) { q.rhs[i] = p.rhs[i] - val * p.a[i][J]; lp.rhs_w(i) = q.rhs[i]; }
      if(p.lhs[i] > -INF()) { q.lhs[i] = p.lhs[i] - val * p.a[i][J]; lp.lhs_w(i) = q.lhs[i]; }
   }
   SM sm; sm.m_objoffset = 0.0;
   SM::FixVariablePS ps(lp, sm, J, lp.lower(J), mk_tols(), true);
   dlp_remove_col(q, J);
   DSol z; draw_reduced(q, z);
   Work w(PNR, PNC); load_work(w, q, z, PNR, PNC);
   ps.execute(w.x, w.y, w.s, w.r, w.cS, w.rS, true);
   check_kkt(p, w);
   double x[MC]; for(int j = 0; j < PNC; ++j) x[j] = w.x[j];
   vp_assert(dlp_obj(p, x) == dlp_obj(q, z.x) + val * p.c[J], 10);                 // objective = reduced objective + offset
   vp_assert(sm.m_objoffset == val * d.obj[J], 11);                             // offset recorded in the user's sense
   vp_assert(w.x[J] == val && w.cS[J] == ST_FX, 12);
   for(int i = 0; i < PNR; ++i) vp_assert(w.y[i] == z.y[i] && w.rS[i] == (VS)z.rs[i], 13);   // rows untouched
   vp_cover(1);
}
// Empty column (removeEmpty / simplifyCols step 1): FixBoundsPS(lp,j,val) and FixVariablePS(lp,*this,j,val) are appended in
// this order (so FixVariablePS is executed first), then column j is removed. val = the bound the objective pushes to.
extern "C" void h_c08_emptycol()
{
   const int J = FV_J;
   unsigned mask = 0; for(int i = 0; i < PNR; ++i) for(int j = 0; j < PNC; ++j) if(j != J) mask |= 1u << (i * PNC + j);
   LP lp; set_sense(lp); Dense<PNR, PNC> d; build<PNR, PNC>(lp, d, mask, KV);
   DLP p; dlp_from<PNR, PNC>(p, d, IS_MIN);
   double val;
   if(p.c[J] < 0.0) { vp_assume(p.up[J] < INF()); val = p.up[J]; }                 // otherwise the simplifier reports UNBOUNDED
   else if(p.c[J] > 0.0) { vp_assume(p.lo[J] > -INF()); val = p.lo[J]; }
   else val = p.lo[J] > -INF() ? p.lo[J] : (p.up[J] < INF() ? p.up[J] : 0.0);
   SM sm; sm.m_objoffset = 0.0;
   SM::FixBoundsPS ps1(lp, J, val, mk_tols());
   SM::FixVariablePS ps2(lp, sm, J, val, mk_tols());
   DLP q = p; dlp_remove_col(q, J);
   DSol z; draw_reduced(q, z);
   Work w(PNR, PNC); load_work(w, q, z, PNR, PNC);
   ps2.execute(w.x, w.y, w.s, w.r, w.cS, w.rS, true);
   ps1.execute(w.x, w.y, w.s, w.r, w.cS, w.rS, true);
   check_kkt(p, w);
   double x[MC]; for(int j = 0; j < PNC; ++j) x[j] = w.x[j];
   vp_assert(dlp_obj(p, x) == dlp_obj(q, z.x) + val * p.c[J], 10);
   vp_assert(sm.m_objoffset == val * d.obj[J], 11);
   if(w.cS[J] == ST_ZE) vp_cover(2);
   if(w.cS[J] == ST_LO) vp_cover(3);
   if(w.cS[J] == ST_UP) vp_cover(4);
   if(w.cS[J] == ST_FX) vp_cover(5);
   vp_cover(1);
}
// FixBoundsPS alone (simplifyCols step 2, "unconstrained above/below"): min-sense cost c_j < 0 and no row bounds x_j from above
// (a_ij > 0 => rhs_i infinite, a_ij < 0 => lhs_i infinite), upper finite: FixBoundsPS(lp,j,upper) then lower := upper
// (resp. the mirror image). The reduced LP has the column FIXED.
extern "C" void h_c08_fixbounds_dominated()
{
   const int J = FV_J;
   LP lp; set_sense(lp); Dense<PNR, PNC> d; build<PNR, PNC>(lp, d, (1u << (PNR * PNC)) - 1, KV);
   DLP p; dlp_from<PNR, PNC>(p, d, IS_MIN);
   int up = vp_int_in(0, 1);
   vp_assume(p.lo[J] < p.up[J]);
   if(up) { vp_assume(p.c[J] < 0.0 && p.up[J] < INF()); for(int i = 0; i < PNR; ++i) vp_assume(p.a[i][J] > 0.0 ? p.rhs[i] >= INF() : p.lhs[i] <= -INF()); }
   else   { vp_assume(p.c[J] > 0.0 && p.lo[J] > -INF()); for(int i = 0; i < PNR; ++i) vp_assume(p.a[i][J] > 0.0 ? p.lhs[i] <= -INF() : p.rhs[i] >= INF()); }
   double val = up ? p.up[J] : p.lo[J];
   SM::FixBoundsPS ps(lp, J, val, mk_tols());
   DLP q = p; q.lo[J] = val; q.up[J] = val;
   DSol z; draw_reduced(q, z);
   vp_assume(z.cs[J] == ST_FX);           // the fixed column is nonbasic in the reduced solution (it is removed by fixColumn right away)
   Work w(PNR, PNC); load_work(w, q, z, PNR, PNC);
   ps.execute(w.x, w.y, w.s, w.r, w.cS, w.rS, true);
   check_kkt(p, w);
   vp_assert(w.cS[J] == (up ? ST_UP : ST_LO), 10);
   for(int j = 0; j < PNC; ++j) vp_assert(w.x[j] == z.x[j], 11);
   if(up) vp_cover(2); else vp_cover(3);
   vp_cover(1);
}
// ---------------------------------------------------------------------------------------------------------------------
// FreeConstraintPS (handleExtremes / simplifyRows / simplifyCols / simplifyDual): lhs = -inf, rhs = +inf, PostStep constructed,
// row removed (last row swapped in).
#ifndef FC_I
#define FC_I 0
#endif
extern "C" void h_c08_freeconstraint()
{
   const int I = FC_I;
   LP lp; set_sense(lp); Dense<PNR, PNC> d; build<PNR, PNC>(lp, d, (1u << (PNR * PNC)) - 1, KV);
   vp_assume(d.lhs[I] <= -INF() && d.rhs[I] >= INF());
   DLP p; dlp_from<PNR, PNC>(p, d, IS_MIN);
   SM::FreeConstraintPS ps(lp, I, mk_tols());
   DLP q = p; dlp_remove_row(q, I);
   DSol z; draw_reduced(q, z);
   Work w(PNR, PNC); load_work(w, q, z, PNR, PNC);
   ps.execute(w.x, w.y, w.s, w.r, w.cS, w.rS, true);
   check_kkt(p, w);
   vp_assert(w.rS[I] == ST_BA && w.y[I] == 0.0, 10);
   for(int j = 0; j < PNC; ++j) vp_assert(w.x[j] == z.x[j] && w.cS[j] == (VS)z.cs[j], 11);
   vp_cover(1);
}
// EmptyConstraintPS (removeEmpty / simplifyRows): row without nonzeros and lhs <= 0 <= rhs
extern "C" void h_c08_emptyconstraint()
{
   const int I = FC_I;
   unsigned mask = 0; for(int i = 0; i < PNR; ++i) for(int j = 0; j < PNC; ++j) if(i != I) mask |= 1u << (i * PNC + j);
   LP lp; set_sense(lp); Dense<PNR, PNC> d; build<PNR, PNC>(lp, d, mask, KV);
   vp_assume(d.lhs[I] <= 0.0 && d.rhs[I] >= 0.0);
   DLP p; dlp_from<PNR, PNC>(p, d, IS_MIN);
   SM::EmptyConstraintPS ps(lp, I, mk_tols());
   DLP q = p; dlp_remove_row(q, I);
   DSol z; draw_reduced(q, z);
   Work w(PNR, PNC); load_work(w, q, z, PNR, PNC);
   ps.execute(w.x, w.y, w.s, w.r, w.cS, w.rS, true);
   check_kkt(p, w);
   vp_assert(w.rS[I] == ST_BA && w.y[I] == 0.0 && w.s[I] == 0.0, 10);
   for(int j = 0; j < PNC; ++j) vp_assert(w.x[j] == z.x[j] && w.cS[j] == (VS)z.cs[j], 11);
   vp_cover(1);
}
// ---------------------------------------------------------------------------------------------------------------------
// TightenBoundsPS (propagatePseudoobj): constructed with the ORIGINAL bounds (lp,j,upper,lower) before one bound of column j is
// tightened. The tightening is justified by an objective cutoff, which cannot be expressed here; instead the harness assumes its
// consequence for the given reduced optimum: a NONBASIC x_j sits at an ORIGINAL bound with the reduced-cost sign that bound needs
// (it may carry the status FIXED/ON_LOWER/ON_UPPER of the tightened bounds). The step then only has to repair the status.
extern "C" void h_c08_tightenbounds()
{
   const int J = FV_J;
   LP lp; set_sense(lp); Dense<PNR, PNC> d; build<PNR, PNC>(lp, d, (1u << (PNR * PNC)) - 1, KV);
   DLP p; dlp_from<PNR, PNC>(p, d, IS_MIN);
   vp_assume(p.lo[J] < p.up[J]);
   int upper = vp_int_in(0, 1);
   double nb = vp_small(-KV, KV);
   SM::TightenBoundsPS ps(lp, J, lp.upper(J), lp.lower(J), mk_tols());
   DLP q = p;
   if(upper) { vp_assume(p.lo[J] <= nb && nb < p.up[J]); q.up[J] = nb; }
   else      { vp_assume(p.lo[J] < nb && nb <= p.up[J]); q.lo[J] = nb; }
   DSol z; draw_reduced(q, z);
   if(z.cs[J] != ST_BA) vp_assume((z.x[J] == p.lo[J] && z.r[J] >= 0.0) || (z.x[J] == p.up[J] && z.r[J] <= 0.0) || z.cs[J] == ST_ZE);
   Work w(PNR, PNC); load_work(w, q, z, PNR, PNC);
   ps.execute(w.x, w.y, w.s, w.r, w.cS, w.rS, true);
   check_kkt(p, w);
   for(int j = 0; j < PNC; ++j) vp_assert(w.x[j] == z.x[j], 10);
   if(z.cs[J] == ST_FX && w.cS[J] == ST_LO) vp_cover(2);
   if(z.cs[J] == ST_FX && w.cS[J] == ST_UP) vp_cover(3);
   vp_cover(1);
}
#endif
