// C13-O3 / C15-O3: SoPlexBase<double>::_parseSettingsLine and ::parseSettingsString on arbitrary text.
// The text is an arbitrary NUL-terminated string inside a small heap object (layout: see draw_text); any access outside the
// object is caught by CBMC's built-in checks on the real code (ASan in the native replay), any dependence on bytes behind
// the string's terminator by the assertions.
// Contract style: `this` is raw zero memory (spxout.m_verbosity == ERROR, so no message is printed); the three typed setters
// and setRandomSeed are REPLACED by recording models which log (kind, index, value) and return a scripted symbolic bool.
// The static parameter NAME TABLES: running the real Settings constructors (162 std::string assignments) symbolically costs
// minutes, so in the solver build the name strings are put into the real static std::string objects directly (pointer +
// length; libstdc++ layout) from a copy of the names kept below; the native build checks this copy against the real tables on
// every run. The parse functions read the names through the real c_str(). libc is modelled
// in the harness: strtol/strtoul (exact, bases 2..10), strtod (conversion or not: exact for the stated value shapes; value
// scripted), strncasecmp, errno; spxSnprintf("%s") is a bounded string copy. std::stoi/stod/stoul are the real libstdc++
// code on top of these models, including their exceptions.
// Native build: two REAL SoPlex objects; the text is parsed into one, the expected typed setter call is made on the other,
// then all parameter values and the return value must agree.
#include "soplex_all.h"
#include <cerrno>
using namespace soplex;
typedef SoPlex::Settings ST;

#ifndef LEN
#define LEN 12
#endif

// ------------------------------------------------------------------ recording models of the setters
enum { K_BOOL = 0, K_INT = 1, K_REAL = 2, K_SEED = 3 };
static int g_calls, g_kind, g_idx; static long g_ival; static double g_dval; static bool g_init;
static bool g_ret;                                   // scripted result of the setter
extern "C" bool m_setbool(SoPlex* self, const SoPlex::BoolParam p, const bool v, const bool init)
{ ++g_calls; g_kind = K_BOOL; g_idx = (int)p; g_ival = v ? 1 : 0; g_init = init; return g_ret; }
extern "C" bool m_setint(SoPlex* self, const SoPlex::IntParam p, const int v, const bool init)
{ ++g_calls; g_kind = K_INT; g_idx = (int)p; g_ival = v; g_init = init; return g_ret; }
extern "C" bool m_setreal(SoPlex* self, const SoPlex::RealParam p, const double v, const bool init)
{ ++g_calls; g_kind = K_REAL; g_idx = (int)p; g_dval = v; g_init = init; return g_ret; }
extern "C" void m_setseed(SoPlex* self, unsigned int seed)
{ ++g_calls; g_kind = K_SEED; g_idx = 0; g_ival = (long)seed; }

// ------------------------------------------------------------------ libc models (solver build)
static bool c_space(int c) { return c == ' ' || (c >= 9 && c <= 13); }
static int c_lower(int c) { return (c >= 'A' && c <= 'Z') ? c + 32 : c; }
// digits of s in the given base (2..10), optional blanks and sign in front; no overflow inside the stated text bounds
struct Num { bool any; bool neg; long val; int len; };
static Num scan_int(const char* s, int base)
{
   Num n; n.any = false; n.neg = false; n.val = 0;
   int i = 0;
   while(c_space(s[i])) ++i;
   if(s[i] == '+' || s[i] == '-') { n.neg = (s[i] == '-'); ++i; }
   int digits = 0;
   while(s[i] >= '0' && s[i] < '0' + base)
   {
      vp_assume(++digits < 18);                       // bound: fewer than 18 digits (no overflow of long)
      n.any = true;
      n.val = n.val * base + (s[i] - '0');
      ++i;
   }
   n.len = i;
   return n;
}
// std::stod: decimal literals without exponent: [blanks][sign] digits [. digits] | . digits ; everything else that could start a
// number for the C library (inf, nan, hex, exponent) is outside the stated bounds. The VALUE is scripted.
static double g_strtod_val;
static bool real_shape_ok(const char* s, bool& conv)
{
   int i = 0;
   while(c_space(s[i])) ++i;
   if(s[i] == '+' || s[i] == '-') ++i;
   int c = c_lower(s[i]);
   if(c == 'i' || c == 'n') return false;                       // inf / nan spellings
   int d = 0;
   while(s[i] >= '0' && s[i] <= '9') { ++i; ++d; }
   if(s[i] == '.') { ++i; while(s[i] >= '0' && s[i] <= '9') { ++i; ++d; } }
   conv = d > 0;
   c = c_lower(s[i]);
   if(conv && (c == 'e' || c == 'x' || c == 'p')) return false;   // exponent / hex
   return true;
}
// std::stoi / std::stoul / std::stod as documented: std::invalid_argument if no conversion can be performed,
// std::out_of_range if the value does not fit (models throw harness exception types); the temporary std::string they are
// given is built by a trivial model of basic_string(const char*) that only stores the pointer (solver build only).
struct RawString { const char* p; size_t len; char buf[16]; };      // libstdc++ (cxx11 ABI) std::string
static_assert(sizeof(RawString) == sizeof(std::string), "std::string layout");
struct XInvalidArgument : public std::exception { int x; };   // like std::invalid_argument: a std::exception
struct XOutOfRange : public std::exception { int x; };        // like std::out_of_range: a std::exception
extern "C" void m_string_ctor(std::string* self, const char* s, const std::allocator<char>& a) { RawString* r = reinterpret_cast<RawString*>(self); r->p = s; r->len = 0; }
extern "C" void m_string_dtor(std::string* self) { }
static const char* chars_of(const std::string& s) { return reinterpret_cast<const RawString*>(&s)->p; }
// The parse functions run their conversion code once per table entry (the loop over the parameters is unrolled by the
// solver), so the conversion models must be O(1): everything they need to know about the VALUE TOKEN is computed once by the
// reference (below) from the harness' own copy of the text; a model only checks that the pointer it is given IS the value
// token inside the buffer the real code works on (g_value_ptr). If it is not, that is a violation (assertion 12). To
// keep such counterexamples replayable on the real code, stoul/stod stop there, and stoi and the bool spellings go on with
// exact semantics for one-character values (the solver then shows e.g. "int:timer\0=1" or "bool:ratrec\0=t").
struct Pre { bool has; Num d10, d4, d5; bool real_ok, real_conv; bool is_true4, is_t, is_false5, is_f; };
static Pre g_pre; static const char* g_value_ptr; static bool g_ptr_ok;
static bool at_value(const char* ptr)
{
   bool ok = g_pre.has && ptr == g_value_ptr;
   if(!ok) g_ptr_ok = false;
   return ok;
}
static void must_be_value(const char* ptr)
{
   bool ok = at_value(ptr);
   vp_assert(ok, 12);
   vp_assume(ok);
}
extern "C" int m_stoi(const std::string& str, size_t* idx, int base)
{
   const char* ptr = chars_of(str);
   if(!at_value(ptr))
   {
      vp_assume(ptr[1] == '\0' && (ptr[0] == '0' || ptr[0] == '1'));      // one-character value 0 or 1 (valid for the int parameters)
      return ptr[0] - '0';
   }
   if(!g_pre.d10.any) throw XInvalidArgument();
   long v = g_pre.d10.neg ? -g_pre.d10.val : g_pre.d10.val;
   if(v < -2147483647L - 1 || v > 2147483647L) throw XOutOfRange();
   return (int)v;
}
extern "C" unsigned long m_stoul(const std::string& str, size_t* idx, int base)
{
   must_be_value(chars_of(str));
   if(!g_pre.d10.any) throw XInvalidArgument();
   return g_pre.d10.neg ? (unsigned long)(-g_pre.d10.val) : (unsigned long)g_pre.d10.val;
}
extern "C" double m_stod(const std::string& str, size_t* idx)
{
   must_be_value(chars_of(str));
   vp_assume(g_pre.real_ok);
   if(!g_pre.real_conv) throw XInvalidArgument();
   return g_strtod_val;
}
// the code under test calls strtol(value, nullptr, 4) and (value, nullptr, 5) only
extern "C" long m_strtol(const char* s, char** end, int base)
{
   vp_assume(end == nullptr && (base == 4 || base == 5));
   if(!at_value(s))
   {
      vp_assume(s[1] == '\0');                        // one-character value
      return (s[0] >= '0' && s[0] < '0' + base) ? s[0] - '0' : 0;
   }
   const Num& n = base == 4 ? g_pre.d4 : g_pre.d5;
   return n.neg ? -n.val : n.val;
}
// the code under test compares the value with "true"/"TRUE"/"t"/"T" (n = 4) and "false"/"FALSE"/"f"/"F" (n = 5)
extern "C" int m_strncasecmp(const char* a, const char* b, size_t n)
{
   vp_assume(n == 4 || n == 5);
   bool single = b[1] == '\0';
   if(!at_value(a))
   {
      vp_assume(a[1] == '\0');                        // one-character value
      return (single && c_lower(a[0]) == c_lower(b[0])) ? 0 : 1;
   }
   bool eq = n == 4 ? (single ? g_pre.is_t : g_pre.is_true4) : (single ? g_pre.is_f : g_pre.is_false5);
   return eq ? 0 : 1;
}
// strncmp(text, word, n) with a CONCRETE second argument (type words, table names, "random_seed"): exact, but written so that
// the loop ends on the concrete word (CBMC's own strncmp model is unrolled to the global bound for every one of the 81
// table names). Every string the parsers pass as first argument is NUL-terminated and has at most MAXTOK characters (it lies in the
// text or in the pad), so a longer word can never be equal to it.
#define MAXTOK (LEN - 6)      // type (>= 3 characters), separator, name, '=', value (>= 1)
extern "C" int m_strncmp(const char* a, const char* w, size_t n)
{
   size_t wl = 0;
   while(w[wl] != '\0') ++wl;                        // concrete
   if(wl < n && wl > MAXTOK) return 1;
   for(size_t i = 0; i < n; ++i)
   {
      char cw = w[i];
      if(a[i] != cw) return (unsigned char)a[i] < (unsigned char)cw ? -1 : 1;
      if(cw == '\0') return 0;
   }
   return 0;
}
// spxSnprintf(t, len, "%s", src): the only use in the code under test. The target is an uninitialised stack buffer; what lies
// behind the copied string is modelled as the bytes that follow the string in the harness' text object (arbitrary bytes, then
// NULs): the native build puts the same bytes there by soiling the stack before the call.
static const char* g_src; static int g_src_size; static int g_value_off;
extern "C" int m_spxsnprintf(char* t, size_t len, const char* fmt, ...)
{
   g_value_ptr = t + g_value_off;                    // the value token inside the internal copy
   int n = -1;
   for(int i = 0; i < g_src_size; ++i)
   {
      t[i] = g_src[i];
      if(n < 0 && g_src[i] == '\0') n = i;
   }
   return n;
}
#ifdef VP_NATIVE
// fills the stack area the callee's frame will occupy with the periodic pattern  rest[0..restlen), aligned to absolute
// addresses + phase (the position of the callee's buffer is not known: the caller tries every phase)
__attribute__((noinline)) static void soil(const char* rest, int restlen, int phase)
{
   volatile unsigned char big[6000];
   for(int i = 0; i < 6000; ++i)
   {
      unsigned long a = ((unsigned long)&big[i] + (unsigned long)phase) % (unsigned long)restlen;
      big[i] = (unsigned char)rest[a];
   }
}
#endif

// ------------------------------------------------------------------ parameter names (copy, checked natively)
struct Nm { const char* s; size_t n; };
#define N(x) { x, sizeof(x) - 1 }
static const Nm BOOLN[] = {N("lifting"), N("eqtrans"), N("testdualinf"), N("ratfac"), N("acceptcycling"), N("ratrec"), N("powerscaling"), N("ratfacjump"), N("rowboundflips"), N("persistentscaling"), N("fullperturbation"), N("ensureray"), N("forcebasic"), N("simplifier_enable_singletoncols"), N("simplifier_enable_propagation"), N("simplifier_enable_parallelrows"), N("simplifier_enable_parallelcols"), N("simplifier_enable_stuffing"), N("simplifier_enable_dualfix"), N("simplifier_enable_fixcontinuous"), N("simplifier_enable_domcol"), N("iterative_refinement"), N("adapt_tols_to_multiprecision"), N("precision_boosting"), N("boosted_warm_start"), N("recovery_mechanism")};
static const Nm INTN[] = {N("objsense"), N("representation"), N("algorithm"), N("factor_update_type"), N("factor_update_max"), N("iterlimit"), N("reflimit"), N("stallreflimit"), N("displayfreq"), N("verbosity"), N("simplifier"), N("scaler"), N("starter"), N("pricer"), N("ratiotester"), N("syncmode"), N("readmode"), N("solvemode"), N("checkmode"), N("timer"), N("hyperpricing"), N("ratfac_minstalls"), N("leastsq_maxrounds"), N("solution_polishing"), N("printbasismetric"), N("stattimer"), N("multiprecision_limit"), N("storeBasisSimplexFreq")};
static const Nm REALN[] = {N("feastol"), N("opttol"), N("epsilon_zero"), N("epsilon_factorization"), N("epsilon_update"), N("epsilon_pivot"), N("infty"), N("timelimit"), N("objlimit_lower"), N("objlimit_upper"), N("fpfeastol"), N("fpopttol"), N("maxscaleincr"), N("liftminval"), N("liftmaxval"), N("sparsity_threshold"), N("representation_switch"), N("ratrec_freq"), N("minred"), N("refac_basis_nnz"), N("refac_update_fill"), N("refac_mem_factor"), N("leastsq_acrcy"), N("obj_offset"), N("min_markowitz"), N("simplifier_modifyrowfac"), N("precision_boosting_factor")};
#undef N
static_assert(sizeof(BOOLN) / sizeof(Nm) == SoPlex::BOOLPARAM_COUNT && sizeof(INTN) / sizeof(Nm) == SoPlex::INTPARAM_COUNT
              && sizeof(REALN) / sizeof(Nm) == SoPlex::REALPARAM_COUNT, "parameter tables changed: regenerate the name copy");
static void put(std::string* dst, const Nm& nm) { RawString* r = reinterpret_cast<RawString*>(dst); r->p = nm.s; r->len = nm.n; }
static void init_tables()
{
#ifdef VP_NATIVE
   for(int i = 0; i < SoPlex::BOOLPARAM_COUNT; ++i) vp_assume(ST::boolParam.name[i] == BOOLN[i].s);
   for(int i = 0; i < SoPlex::INTPARAM_COUNT; ++i) vp_assume(ST::intParam.name[i] == INTN[i].s);
   for(int i = 0; i < SoPlex::REALPARAM_COUNT; ++i) vp_assume(ST::realParam.name[i] == REALN[i].s);
#else
   for(int i = 0; i < SoPlex::BOOLPARAM_COUNT; ++i) put(&ST::boolParam.name[i], BOOLN[i]);
   for(int i = 0; i < SoPlex::INTPARAM_COUNT; ++i) put(&ST::intParam.name[i], INTN[i]);
   for(int i = 0; i < SoPlex::REALPARAM_COUNT; ++i) put(&ST::realParam.name[i], REALN[i]);
#endif
}

// ------------------------------------------------------------------ independent reference parser (index based, read-only)
struct Tok { int b, e; char c[LEN + 2]; int n; };       // [b,e) and a private copy (NUL padded)
static bool t_blank(int c) { return c == ' ' || c == '\t' || c == '\r'; }
static bool t_end(int c) { return c == '\0' || c == '\n' || c == '#'; }
static void tok_copy(const char* s, Tok& t)
{
   t.n = t.e - t.b;
   for(int i = 0; i < LEN + 2; ++i) t.c[i] = (i < t.n) ? s[t.b + i] : '\0';
}
// token == w (w of length n, concrete)
static bool tok_eq(const Tok& t, const char* w, int n, bool nocase = false)
{
   if(n > LEN - 5 || t.n != n) return false;          // type(>=3) ':' name '=' value(>=1): a name has at most LEN-5 characters
   for(int i = 0; i < n; ++i) if((nocase ? c_lower(t.c[i]) : (int)t.c[i]) != w[i]) return false;
   return true;
}
static bool tok_starts(const Tok& t, const char* w, int n, bool nocase = false)
{
   if(n > LEN || t.n < n) return false;
   for(int i = 0; i < n; ++i) if((nocase ? c_lower(t.c[i]) : (int)t.c[i]) != w[i]) return false;
   return true;
}
#define TOK_IS(t, w) tok_eq(t, w, (int)sizeof(w) - 1)
#define TOK_IS_NOCASE(t, w) tok_eq(t, w, (int)sizeof(w) - 1, true)
#define TOK_STARTS(t, w) tok_starts(t, w, (int)sizeof(w) - 1)
enum Verdict { V_EMPTY,        // blank or comment line: true, no call
               V_MALFORMED,    // false, no call
               V_CALL,         // exactly this setter call, result = its result
               V_UNSPEC        // outside the documented format (see below): only memory safety, no exception, <= 1 call
             };
struct Expect { Verdict v; int kind, idx; long ival; bool isreal; bool throws; bool hasval; int vb, ve; };
static Expect reference_inner(const char* s, bool& unspec)
{
   Expect x; x.v = V_MALFORMED; x.kind = -1; x.idx = -1; x.ival = 0; x.isreal = false; x.throws = false; x.hasval = false; x.vb = 0; x.ve = 0;
   g_pre.has = false;
   int i = 0;
   while(t_blank(s[i])) ++i;
   if(t_end(s[i])) { x.v = V_EMPTY; return x; }
   Tok ty; ty.b = i;
   while(!t_blank(s[i]) && !t_end(s[i]) && s[i] != ':') ++i;
   ty.e = i; tok_copy(s, ty);
   // a '#' or newline directly behind the type is stepped over by the real parser like a blank: the OUTCOME is not specified
   // here (V_UNSPEC), but the reference goes on the same way so that it still knows the value token (assertion 12)
   if(s[i] == '#' || s[i] == '\n') { unspec = true; ++i; }
   while(t_blank(s[i])) ++i;
   if(s[i] != ':') return x;
   ++i;
   while(t_blank(s[i])) ++i;
   if(t_end(s[i])) return x;
   Tok nm; nm.b = i;
   while(!t_blank(s[i]) && !t_end(s[i]) && s[i] != '=') ++i;
   nm.e = i; tok_copy(s, nm);
   if(s[i] == '#' || s[i] == '\n') { unspec = true; ++i; }       // as above, directly behind the name
   while(t_blank(s[i])) ++i;
   if(s[i] != '=') return x;
   ++i;
   while(t_blank(s[i])) ++i;
   if(t_end(s[i])) return x;
   Tok vl; vl.b = i;
   while(!t_blank(s[i]) && !t_end(s[i])) ++i;
   vl.e = i; tok_copy(s, vl);
   x.hasval = true; x.vb = vl.b; x.ve = vl.e;
   // everything the conversion models need to know about the value token
   g_pre.has = true;
   g_pre.d10 = scan_int(vl.c, 10); g_pre.d4 = scan_int(vl.c, 4); g_pre.d5 = scan_int(vl.c, 5);
   g_pre.real_conv = false; g_pre.real_ok = real_shape_ok(vl.c, g_pre.real_conv);
   g_pre.is_true4 = tok_starts(vl, "true", 4, true); g_pre.is_t = TOK_IS_NOCASE(vl, "t");
   g_pre.is_false5 = tok_starts(vl, "false", 5, true); g_pre.is_f = TOK_IS_NOCASE(vl, "f");
   bool sep_unspec = (s[vl.e] == '#' || s[vl.e] == '\n');   // the real parser steps over it like a blank and then wants the
                                                             // line to end: "v#c" is rejected, "v #c" accepted: not specified here
   while(t_blank(s[i])) ++i;
   if(!t_end(s[i])) return x;                        // trailing garbage
   // type
   int kind = -1;
   if(TOK_IS(ty, "bool")) kind = K_BOOL;
   else if(TOK_IS(ty, "int")) kind = K_INT;
   else if(TOK_IS(ty, "real")) kind = K_REAL;
   else if(TOK_IS(ty, "uint")) kind = K_SEED;
   else if(TOK_STARTS(ty, "bool") || TOK_STARTS(ty, "int") || TOK_STARTS(ty, "real") || TOK_STARTS(ty, "uint") || TOK_STARTS(ty, "rational"))
   { x.v = V_UNSPEC; return x; }                     // the real parser only compares a prefix of the type: not specified here
   else return x;                                    // unknown type
   // name
   int idx = -1;
   if(kind == K_BOOL) { for(int p = SoPlex::BOOLPARAM_COUNT - 1; p >= 0; --p) if(tok_eq(nm, BOOLN[p].s, (int)BOOLN[p].n)) idx = p; }
   if(kind == K_INT) { for(int p = SoPlex::INTPARAM_COUNT - 1; p >= 0; --p) if(tok_eq(nm, INTN[p].s, (int)INTN[p].n)) idx = p; }
   if(kind == K_REAL) { for(int p = SoPlex::REALPARAM_COUNT - 1; p >= 0; --p) if(tok_eq(nm, REALN[p].s, (int)REALN[p].n)) idx = p; }
   if(kind == K_SEED)
   {
      if(TOK_IS(nm, "random_seed")) idx = 0;
      else if(TOK_STARTS(nm, "random_seed")) { x.v = V_UNSPEC; return x; }
   }
   if(idx < 0) return x;                             // unknown name
   x.kind = kind; x.idx = idx;
   if(sep_unspec) { x.v = V_UNSPEC; return x; }
   // value
   if(kind == K_BOOL)
   {
      if(TOK_IS_NOCASE(vl, "true") || TOK_IS_NOCASE(vl, "t") || TOK_IS(vl, "1")) { x.v = V_CALL; x.ival = 1; }
      else if(TOK_IS_NOCASE(vl, "false") || TOK_IS_NOCASE(vl, "f") || TOK_IS(vl, "0")) { x.v = V_CALL; x.ival = 0; }
      else x.v = V_UNSPEC;                           // other spellings: the real parser is lenient (strtol in base 4/5)
      return x;
   }
   if(kind == K_INT || kind == K_SEED)
   {
      // an integer literal: [sign] digits (anything behind the digits is ignored by std::stoi)
      Num n = g_pre.d10;
      if(!n.any) { x.v = V_MALFORMED; x.throws = true; return x; }          // not a number: must be reported as failure
      long v = n.neg ? -n.val : n.val;
      if(kind == K_INT)
      {
         if(v < -2147483647L - 1 || v > 2147483647L) { x.v = V_MALFORMED; x.throws = true; return x; }
         x.v = V_CALL; x.ival = v;
      }
      else
      {
         if(n.neg) { x.v = V_UNSPEC; return x; }                            // negative seed: wraps around in stoul
         x.v = V_CALL; x.ival = v > 4294967295L ? 4294967295L : v;
      }
      return x;
   }
   // real
   if(!g_pre.real_ok) { x.v = V_UNSPEC; return x; }
   if(!g_pre.real_conv) { x.v = V_MALFORMED; x.throws = true; return x; }
   x.v = V_CALL; x.isreal = true;
   return x;
}
static Expect reference(const char* s)
{
   bool unspec = false;
   Expect x = reference_inner(s, unspec);
   if(unspec) x.v = V_UNSPEC;                        // kind/idx stay: if a setter is called, it must be that one (assertion 11)
   return x;
}

// ------------------------------------------------------------------ the solver object
union SoPlexMem { SoPlex sp; SoPlexMem() {} ~SoPlexMem() {} };
static SoPlexMem mem;
static SoPlex* make_solver()
{
#ifdef VP_NATIVE
   SoPlex* sp = new SoPlex();
   sp->setIntParam(SoPlex::VERBOSITY, 0);
   return sp;
#else
   return &mem.sp;                                   // _currentSettings is only used to name the static tables
#endif
}
#ifdef VP_NATIVE
static bool same_settings(SoPlex* a, SoPlex* b)
{
   for(int i = 0; i < SoPlex::BOOLPARAM_COUNT; ++i) if(a->boolParam((SoPlex::BoolParam)i) != b->boolParam((SoPlex::BoolParam)i)) return false;
   for(int i = 0; i < SoPlex::INTPARAM_COUNT; ++i) if(a->intParam((SoPlex::IntParam)i) != b->intParam((SoPlex::IntParam)i)) return false;
   for(int i = 0; i < SoPlex::REALPARAM_COUNT; ++i) if(a->realParam((SoPlex::RealParam)i) != b->realParam((SoPlex::RealParam)i)) return false;
   return a->randomSeed() == b->randomSeed();
}
#endif

// The text object: SIZE = LEN + PADZ bytes on the heap; the first LEN bytes are ARBITRARY (0..255, NULs included), the last
// PADZ bytes are NUL. The string handed to the parser is the object's prefix up to its first NUL: every string of length
// <= LEN occurs, and a string of length n is followed inside the object by LEN-n arbitrary bytes and PADZ NULs. A parser that
// steps over the terminator therefore stays inside the object and every scan loop stays bounded, so the defect shows as an
// outcome that depends on bytes behind the terminator (an assertion that replays natively) instead of an out-of-bounds
// read inside a loop that the solver cannot bound.
// Variant VP_EXACT: the first LEN bytes are non-NUL, one NUL follows as the LAST byte of the object, and the string starts at an
// arbitrary position p: every string of length <= LEN in an exactly sized object.
#ifdef VP_EXACT
#define PADZ 1
#else
#define PADZ 3
#endif
#define SIZE (LEN + PADZ)
static char* draw_text()
{
   char* b = (char*)malloc((size_t)SIZE);
   for(int i = 0; i < LEN; ++i)
   {
#ifdef VP_EXACT
      int c = vp_int_in(1, 255);
#else
      int c = vp_int_in(0, 255);
#endif
      b[i] = (char)c;
   }
   for(int i = LEN; i < SIZE; ++i) b[i] = '\0';
   return b;
}

template <int WHICH> static void parse_obligation()
{
   init_tables();
   char* b = draw_text();
#ifdef VP_EXACT
   int p = vp_int_in(0, LEN);
#else
   const int p = 0;
#endif
   g_ret = vp_nondet_bool();
   g_strtod_val = vp_small(-8, 8);
   char ref[SIZE];
   for(int i = 0; i < SIZE; ++i) ref[i] = b[i];      // the real functions overwrite separators in place
   Expect x = reference(ref + p);
#ifdef VP_NATIVE
   int n = (int)strlen(ref + p);
   const char* rest = ref + p + n + 1; int restlen = SIZE - p - n - 1;          // what follows the string (ends with NULs)
   for(int phase = 0; phase < ((WHICH == 1 && restlen > 0) ? restlen : 1); ++phase)
   {
   for(int i = 0; i < SIZE; ++i) b[i] = ref[i];
#endif
   SoPlex* sp = make_solver();
   g_calls = 0; g_src = b + p; g_src_size = SIZE - p; g_ptr_ok = true;
   g_value_off = x.vb; g_value_ptr = b + p + x.vb;   // parseSettingsString: reset by the copy model to the internal buffer
   bool ret = false, threw = false;
   try
   {
      if(WHICH == 0) ret = sp->_parseSettingsLine(b + p, 1);
      else
      {
#ifdef VP_NATIVE
         if(restlen > 0) soil(rest, restlen, phase);
#endif
         ret = sp->parseSettingsString(b + p);
      }
   }
   catch(...)
   {
      threw = true;
   }
   vp_assert(!threw, 1);                             // malformed text is reported through the return value, never by an exception
#ifndef VP_NATIVE
   vp_assert(g_ptr_ok, 12);                          // every conversion was applied to the value token and to nothing else
   vp_assert(g_calls <= 1, 2);
   if(x.v == V_EMPTY) { vp_assert(ret, 3); vp_assert(g_calls == 0, 4); }
   if(x.v == V_MALFORMED) { vp_assert(!ret, 5); vp_assert(g_calls == 0, 6); }
   if(x.v == V_CALL)
   {
      // exactly the expected typed setter call (one assertion: the native build sees the call only through its effect)
      bool valok = x.isreal ? (g_dval == g_strtod_val) : (g_ival == x.ival);
      vp_assert(g_calls == 1 && g_kind == x.kind && g_idx == x.idx && valok, 7);
      vp_assert(ret == (x.kind == K_SEED ? true : g_ret), 10);
      vp_cover(2);
   }
   if(x.v == V_UNSPEC && g_calls == 1 && x.kind >= 0) vp_assert(g_kind == x.kind && g_idx == x.idx, 11);
#else
   SoPlex* q = new SoPlex();
   q->setIntParam(SoPlex::VERBOSITY, 0);
   if(x.v == V_EMPTY) { vp_assert(ret, 3); vp_assert(same_settings(sp, q), 4); }
   if(x.v == V_MALFORMED) { vp_assert(!ret, 5); vp_assert(same_settings(sp, q), 6); }
   if(x.v == V_CALL)
   {
      bool r = true;
      if(x.kind == K_BOOL) r = q->setBoolParam((SoPlex::BoolParam)x.idx, x.ival != 0);
      if(x.kind == K_INT) r = q->setIntParam((SoPlex::IntParam)x.idx, (int)x.ival, false);
      if(x.kind == K_REAL) { char v[LEN + 1]; int m = x.ve - x.vb; memcpy(v, ref + p + x.vb, m); v[m] = '\0'; r = q->setRealParam((SoPlex::RealParam)x.idx, strtod(v, nullptr)); }
      if(x.kind == K_SEED) q->setRandomSeed((unsigned int)x.ival);
      vp_assert(same_settings(sp, q), 7);
      vp_assert(ret == r, 10);
      if(phase == 0) vp_cover(2);
   }
   delete q; delete sp;
   }
#endif
   vp_cover(1);
}
extern "C" void h_parse_line() { parse_obligation<0>(); }
extern "C" void h_parse_string() { parse_obligation<1>(); }
