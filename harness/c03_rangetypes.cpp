// C03-O3 / C07-O2: bound-type classification used by the exact solver.
//   _rangeTypeReal / _rangeTypeRational / _switchRangeType / _lowerFinite / _upperFinite  (soplex.hpp 7402-7490)
//   _completeRangeTypesRational / _recomputeRangeTypesReal / _recomputeRangeTypesRational (soplex.hpp 8712-8758)
//
// Contract style. Solver build: `this` is typed zero memory, _currentSettings is a real Settings object. Rational VALUES are
// opaque: no GMP code is executed. The three comparison operators _rangeTypeRational applies to Rationals
// (operator<=, operator>=, operator== of boost::multiprecision::number<gmp_rational>) are replaced by an *uninterpreted
// compare*: a model that identifies its operands by address (bound cell k of the stand-in rational LP, the object's
// _rationalNegInfty / _rationalPosInfty) and returns the scripted symbolic answer for that question
// ("lower_k <= -inf ?", "upper_k >= +inf ?", "lower_k == upper_k ?"); a question about any other operand pair is counted in
// g_badq and asserted not to happen. The accessors of the (real / rational) LP are replaced by recording models.
// Native build (replay on the real code): a real SoPlex object, real Rationals chosen so that the three questions have the
// scripted answers, nothing replaced.
#include "soplex_all.h"
using namespace soplex;
typedef SoPlex SP;
typedef SP::RangeType RT;
typedef SPxLPBase<double> RLP;
typedef SPxLPBase<Rational> QLP;
typedef SolBase<Rational> SOLQ;
#ifdef VP_NATIVE
// native build of the callee-contract obligations at the end of this file: callee models are explicit specialisations
namespace soplex {
template<> void SP::_performOptIRWrapper(SOLQ&, bool, bool, int, bool&, bool&, bool&, bool&, bool&, bool&, bool&);
template<> void SP::_transformUnbounded();
template<> void SP::_untransformUnbounded(SOLQ&, bool);
template<> void SP::_transformFeasibility();
template<> void SP::_untransformFeasibility(SOLQ&, bool);
}
#endif
// scripts of the callee-contract obligations (end of file); g_contract switches the comparison models to them
static int g_contract;
static bool c_ge_posone, c_le_tol, c_ge_1;          // unboundedness test: tau >= _rationalPosone, tau <= _rationalFeastol, tau >= 1
static bool c_lt_negtol, c_gt_onetol, c_lt_one;     // feasibility test: tau < -feastol, tau > 1 + feastol, tau < 1
static int c_badq;

#ifndef MAXD
#define MAXD 3            // max rows / columns in the loop obligations
#endif
#define NCELL (4 * MAXD)  // [0,MAXD) lhs, then rhs, lower, upper

// ---- independent reference ------------------------------------------------------------------------------------------
// a bound pair is described by three facts; the table is the documentation of RangeType in soplex.h:
//   FREE: both infinite; LOWER: only the lower bound finite; UPPER: only the upper bound finite;
//   BOXED: both finite and different; FIXED: both finite and equal
static int ref_type(bool loInf, bool upInf, bool eq)
{
   if(loInf && upInf) return SP::RANGETYPE_FREE;
   if(!loInf && upInf) return SP::RANGETYPE_LOWER;
   if(loInf && !upInf) return SP::RANGETYPE_UPPER;
   return eq ? SP::RANGETYPE_FIXED : SP::RANGETYPE_BOXED;
}

// ---- the object ---------------------------------------------------------------------------------------------------
union SoPlexMem { SP sp; SoPlexMem() {} ~SoPlexMem() {} };
#ifndef VP_NATIVE
static SoPlexMem mem;
union QCells { Rational q[NCELL + 2]; QCells() {} ~QCells() {} };
static QCells cells;
union RLPMem { RLP lp; RLPMem() {} ~RLPMem() {} };
union QLPMem { QLP lp; QLPMem() {} ~QLPMem() {} };
static RLPMem rlpmem;
static QLPMem qlpmem;
#endif
static SP* g_sp;
static SP* make_solver(double infty, bool setInfty)
{
#ifdef VP_NATIVE
   SP* sp = new SP();
   sp->setIntParam(SP::VERBOSITY, 0);
   if(setInfty) sp->setRealParam(SP::INFTY, infty);
#else
   SP* sp = &mem.sp;
   SP::Settings* st = new SP::Settings();
   if(setInfty) st->_realParamValues[SP::INFTY] = infty;
   sp->_currentSettings = st;
#endif
   g_sp = sp;
   return sp;
}

// ---- script: answers of the uninterpreted compare -------------------------------------------------------------------
struct Script { bool loInf, upInf, eq; };
static Script g_script[2 * MAXD + 1];     // rows [0,MAXD), columns [MAXD,2*MAXD), free-standing pair 2*MAXD
static int g_badq;                        // comparison asked about an unexpected operand pair
static int g_nq;                          // number of comparisons asked
static int g_acc[4][MAXD];                // accesses to lhs/rhs/lower/upper (i) of the LP
static int g_badidx;                      // LP accessor called with an index outside [0,dim)
static int g_nr, g_nc;                    // dimensions the LP stand-in reports
static void draw_script(Script& s)
{
   s.loInf = vp_nondet_bool();
   s.upInf = vp_nondet_bool();
   s.eq = vp_nondet_bool();
}

#ifndef VP_NATIVE
// which bound cell is p?  lower-kind cells: lhs (0) and lower (2); upper-kind: rhs (1) and upper (3); free pair: NCELL, NCELL+1
static int cell_of(const void* p)
{
   int r = -1;
   for(int k = 0; k < NCELL + 2; ++k) if(p == (const void*)&cells.q[k]) r = k;
   return r;
}
static int pair_of_lower(int c) { if(c == NCELL) return 2 * MAXD; if(c >= 0 && c < MAXD) return c; if(c >= 2 * MAXD && c < 3 * MAXD) return MAXD + (c - 2 * MAXD); return -1; }
static int pair_of_upper(int c) { if(c == NCELL + 1) return 2 * MAXD; if(c >= MAXD && c < 2 * MAXD) return c - MAXD; if(c >= 3 * MAXD && c < 4 * MAXD) return MAXD + (c - 3 * MAXD); return -1; }
extern "C" {
// a <= b : only "lower_k <= _rationalNegInfty"
bool m_q_le(const Rational* a, const Rational* b)
{
   if(g_contract) { if(b != &g_sp->_rationalFeastol) c_badq++; return c_le_tol; }
   g_nq++;
   int k = pair_of_lower(cell_of(a));
   if(k < 0 || b != &g_sp->_rationalNegInfty) { g_badq++; return vp_nondet_bool(); }
   return g_script[k].loInf;
}
// a >= b : only "upper_k >= _rationalPosInfty"
bool m_q_ge(const Rational* a, const Rational* b)
{
   if(g_contract) { if(b != &g_sp->_rationalPosone) c_badq++; return c_ge_posone; }
   g_nq++;
   int k = pair_of_upper(cell_of(a));
   if(k < 0 || b != &g_sp->_rationalPosInfty) { g_badq++; return vp_nondet_bool(); }
   return g_script[k].upInf;
}
// a == b : only "lower_k == upper_k" of the same pair
bool m_q_eq(const Rational* a, const Rational* b)
{
   g_nq++;
   int k = pair_of_lower(cell_of(a));
   int k2 = pair_of_upper(cell_of(b));
   if(k < 0 || k != k2) { g_badq++; return vp_nondet_bool(); }
   return g_script[k].eq;
}
// LP stand-ins
int m_rlp_nrows(const RLP* self) { return g_nr; }
int m_rlp_ncols(const RLP* self) { return g_nc; }
int m_qlp_nrows(const QLP* self) { return g_nr; }
int m_qlp_ncols(const QLP* self) { return g_nc; }
static const Rational* qcell(int kind, int i, int dim)
{
   if(i < 0 || i >= dim || i >= MAXD) { g_badidx++; return &cells.q[NCELL]; }
   g_acc[kind][i]++;
   return &cells.q[kind * MAXD + i];
}
const Rational* m_qlp_lhs(const QLP* self, int i) { return qcell(0, i, g_nr); }
const Rational* m_qlp_rhs(const QLP* self, int i) { return qcell(1, i, g_nr); }
const Rational* m_qlp_lower(const QLP* self, int i) { return qcell(2, i, g_nc); }
const Rational* m_qlp_upper(const QLP* self, int i) { return qcell(3, i, g_nc); }
}
#endif

// native: rational values realising a script (INFTY is the default 1e100)
#ifdef VP_NATIVE
static void realise(const Script& s, Rational& lo, Rational& up)
{
   Rational inf = g_sp->_rationalPosInfty;
   Rational ninf = g_sp->_rationalNegInfty;
   lo = s.loInf ? ninf : Rational(0);
   if(s.upInf) up = inf;
   else if(s.eq) up = lo;
   else up = s.loInf ? Rational(0) : Rational(1);
}
#endif

// =====================================================================================================================
// O3.a  _rangeTypeReal on all doubles (lower <= upper is the function's asserted precondition), default infinity threshold;
//       _lowerFinite/_upperFinite agree with the classification; _switchRangeType is the classification of the mirrored
//       interval [-upper,-lower] and an involution
static void check_real(double infty, bool setInfty)
{
   SP* sp = make_solver(infty, setInfty);
   double thr = sp->realParam(SP::INFTY);            // the documented "infinity threshold"
   double lower = vp_nondet_double();
   double upper = vp_nondet_double();
   vp_assume(lower <= upper);                        // excludes NaN
   RT t = sp->_rangeTypeReal(lower, upper);
   bool loInf = !(lower > -thr);
   bool upInf = !(upper < thr);
   int e = ref_type(loInf, upInf, lower == upper);
   vp_assert((int)t == e, 1);
   vp_assert(sp->_lowerFinite(t) == !loInf, 2);
   vp_assert(sp->_upperFinite(t) == !upInf, 3);
   RT s = sp->_switchRangeType(t);
   vp_assert((int)s == ref_type(upInf, loInf, lower == upper), 4);
   vp_assert((int)sp->_rangeTypeReal(-upper, -lower) == (int)s, 5);
   vp_assert(sp->_switchRangeType(s) == t, 6);
   vp_cover(1);
}
extern "C" void h_rangetype_real() { check_real(0.0, false); }
// O3.b  the same with an arbitrary admissible value of the parameter INFTY ("infinity threshold", [1e10,1e100])
extern "C" void h_rangetype_real_infty()
{
   double infty = vp_nondet_double();
   vp_assume(infty >= SP::Settings::realParam.lower[SP::INFTY] && infty <= SP::Settings::realParam.upper[SP::INFTY]);
   check_real(infty, true);
}
// O3.c  exhaustive over the enum: switch / finite tables
extern "C" void h_rangetype_enum()
{
   SP* sp = make_solver(0.0, false);
   int t = vp_int_in(0, 4);
   RT rt = (RT)t;
   RT s = sp->_switchRangeType(rt);
   int es = t == SP::RANGETYPE_LOWER ? SP::RANGETYPE_UPPER : (t == SP::RANGETYPE_UPPER ? SP::RANGETYPE_LOWER : t);
   vp_assert((int)s == es, 1);
   vp_assert(sp->_switchRangeType(s) == rt, 2);
   vp_assert(sp->_lowerFinite(rt) == (t != SP::RANGETYPE_FREE && t != SP::RANGETYPE_UPPER), 3);
   vp_assert(sp->_upperFinite(rt) == (t != SP::RANGETYPE_FREE && t != SP::RANGETYPE_LOWER), 4);
   vp_assert(sp->_lowerFinite(s) == sp->_upperFinite(rt) && sp->_upperFinite(s) == sp->_lowerFinite(rt), 5);
   vp_cover(1);
}

// O3.d  _rangeTypeRational with the uninterpreted compare
extern "C" void h_rangetype_rational()
{
   SP* sp = make_solver(0.0, false);
   Script& s = g_script[2 * MAXD];
   draw_script(s);
#ifdef VP_NATIVE
   Rational lo, up; realise(s, lo, up);
   RT t = sp->_rangeTypeRational(lo, up);
#else
   RT t = sp->_rangeTypeRational(cells.q[NCELL], cells.q[NCELL + 1]);
   vp_assert(g_badq == 0, 2);
   vp_assert(g_nq <= 3, 3);
#endif
   vp_assert((int)t == ref_type(s.loInf, s.upInf, s.eq), 1);
   vp_assert(sp->_lowerFinite(t) == !s.loInf && sp->_upperFinite(t) == !s.upInf, 4);
   vp_cover(1);
}

// =====================================================================================================================
// loops over the LP: every row and column is classified exactly once, from ITS OWN two bounds, result stored at ITS index
static int g_remax;                       // reallocation requests (must not happen: arrays are pre-sized)
#ifndef VP_NATIVE
static RT g_rowbuf[MAXD + 1], g_colbuf[MAXD + 1];
extern "C" void m_types_remax(DataArray<RT>* self, int newMax, int newSize) { g_remax++; }
#endif
static void setup_types(SP* sp, int nr0, int nc0, int* oldr, int* oldc)
{
   // pre-sized (capacity MAXD+1: no reallocation), arbitrary previous size and contents
#ifdef VP_NATIVE
   sp->_rowTypes.reMax(MAXD + 1, 0); sp->_rowTypes.reSize(nr0);
   sp->_colTypes.reMax(MAXD + 1, 0); sp->_colTypes.reSize(nc0);
#else
   sp->_rowTypes.data = g_rowbuf; sp->_rowTypes.themax = MAXD + 1; sp->_rowTypes.thesize = nr0; sp->_rowTypes.memFactor = 1.2;
   sp->_colTypes.data = g_colbuf; sp->_colTypes.themax = MAXD + 1; sp->_colTypes.thesize = nc0; sp->_colTypes.memFactor = 1.2;
#endif
   for(int i = 0; i < MAXD; ++i) { oldr[i] = vp_int_in(0, 4); if(i < nr0) sp->_rowTypes[i] = (RT)oldr[i]; }
   for(int i = 0; i < MAXD; ++i) { oldc[i] = vp_int_in(0, 4); if(i < nc0) sp->_colTypes[i] = (RT)oldc[i]; }
}
#ifdef VP_NATIVE
static void native_rational_lp(SP* sp, int nr, int nc)
{
   sp->setIntParam(SP::SYNCMODE, SP::SYNCMODE_MANUAL);
   for(int j = 0; j < nc; ++j)
   {
      Rational lo, up; realise(g_script[MAXD + j], lo, up);
      sp->addColRational(LPColRational(Rational(0), DSVectorRational(), up, lo));
   }
   for(int i = 0; i < nr; ++i)
   {
      Rational lo, up; realise(g_script[i], lo, up);
      sp->addRowRational(LPRowRational(lo, DSVectorRational(), up));
   }
}
#endif
static void check_loops(int which)
{
   SP* sp = make_solver(0.0, false);
   int nr = vp_int_in(0, MAXD);
   int nc = vp_int_in(0, MAXD);
   for(int k = 0; k < 2 * MAXD; ++k) draw_script(g_script[k]);
   int nr0 = vp_int_in(0, MAXD);
   int nc0 = vp_int_in(0, MAXD);
   if(which == 0) { vp_assume(nr0 <= nr); vp_assume(nc0 <= nc); }
   int oldr[MAXD], oldc[MAXD];
#ifdef VP_NATIVE
   native_rational_lp(sp, nr, nc);
#else
   sp->_rationalLP = &qlpmem.lp;
   g_nr = nr; g_nc = nc;
#endif
   setup_types(sp, nr0, nc0, oldr, oldc);
   if(which == 0) sp->_completeRangeTypesRational();
   else sp->_recomputeRangeTypesRational();
   vp_assert(sp->_rowTypes.size() == nr, 1);
   vp_assert(sp->_colTypes.size() == nc, 2);
   for(int i = 0; i < MAXD; ++i)
   {
      if(i < nr)
      {
         int e = (which == 0 && i < nr0) ? oldr[i] : ref_type(g_script[i].loInf, g_script[i].upInf, g_script[i].eq);
         vp_assert((int)sp->_rowTypes[i] == e, 3);
      }
      if(i < nc)
      {
         int e = (which == 0 && i < nc0) ? oldc[i] : ref_type(g_script[MAXD + i].loInf, g_script[MAXD + i].upInf, g_script[MAXD + i].eq);
         vp_assert((int)sp->_colTypes[i] == e, 4);
      }
#ifndef VP_NATIVE
      // each bound of a (new) row/column is read exactly once, bounds of others never
      int xr = (i < nr && !(which == 0 && i < nr0)) ? 1 : 0;
      int xc = (i < nc && !(which == 0 && i < nc0)) ? 1 : 0;
      vp_assert(g_acc[0][i] == xr && g_acc[1][i] == xr, 5);
      vp_assert(g_acc[2][i] == xc && g_acc[3][i] == xc, 6);
#endif
   }
   vp_assert(g_badq == 0 && g_badidx == 0 && g_remax == 0, 7);
   vp_cover(1);
}
extern "C" void h_complete_rational() { check_loops(0); }
extern "C" void h_recompute_rational() { check_loops(1); }

// _recomputeRangeTypesReal on a real LP stand-in: bounds are symbolic doubles
static double g_rb[4][MAXD];
#ifndef VP_NATIVE
extern "C" {
static const double* rcell(int kind, int i, int dim)
{
   if(i < 0 || i >= dim || i >= MAXD) { g_badidx++; return &g_rb[0][0]; }
   g_acc[kind][i]++;
   return &g_rb[kind][i];
}
const double* m_rlp_lhs(const RLP* self, int i) { return rcell(0, i, g_nr); }
const double* m_rlp_rhs(const RLP* self, int i) { return rcell(1, i, g_nr); }
const double* m_rlp_lower(const RLP* self, int i) { return rcell(2, i, g_nc); }
const double* m_rlp_upper(const RLP* self, int i) { return rcell(3, i, g_nc); }
}
#endif
static double draw_bound(bool upper)
{
   int k = vp_int_in(0, 2);
   double v = vp_small(-4, 4);
   if(k == 0) return v;
   if(k == 1) return upper ? 1e100 : -1e100;
   return upper ? (double)INFINITY : -(double)INFINITY;
}
extern "C" void h_recompute_real()
{
   SP* sp = make_solver(0.0, false);
   int nr = vp_int_in(0, MAXD);
   int nc = vp_int_in(0, MAXD);
   for(int i = 0; i < MAXD; ++i)
   {
      g_rb[0][i] = draw_bound(false); g_rb[1][i] = draw_bound(true);
      vp_assume(g_rb[0][i] <= g_rb[1][i]);
      g_rb[2][i] = draw_bound(false); g_rb[3][i] = draw_bound(true);
      vp_assume(g_rb[2][i] <= g_rb[3][i]);
   }
   int nr0 = vp_int_in(0, MAXD);
   int nc0 = vp_int_in(0, MAXD);
   int oldr[MAXD], oldc[MAXD];
#ifdef VP_NATIVE
   for(int j = 0; j < nc; ++j) sp->addColReal(LPColReal(0.0, DSVectorReal(), g_rb[3][j], g_rb[2][j]));
   for(int i = 0; i < nr; ++i) sp->addRowReal(LPRowReal(g_rb[0][i], DSVectorReal(), g_rb[1][i]));
#else
   sp->_realLP = &rlpmem.lp;
   g_nr = nr; g_nc = nc;
#endif
   setup_types(sp, nr0, nc0, oldr, oldc);
   sp->_recomputeRangeTypesReal();
   vp_assert(sp->_rowTypes.size() == nr, 1);
   vp_assert(sp->_colTypes.size() == nc, 2);
   for(int i = 0; i < MAXD; ++i)
   {
      if(i < nr) vp_assert((int)sp->_rowTypes[i] == ref_type(g_rb[0][i] <= -1e100, g_rb[1][i] >= 1e100, g_rb[0][i] == g_rb[1][i]), 3);
      if(i < nc) vp_assert((int)sp->_colTypes[i] == ref_type(g_rb[2][i] <= -1e100, g_rb[3][i] >= 1e100, g_rb[2][i] == g_rb[3][i]), 4);
#ifndef VP_NATIVE
      vp_assert(g_acc[0][i] == (i < nr) && g_acc[1][i] == (i < nr), 5);
      vp_assert(g_acc[2][i] == (i < nc) && g_acc[3][i] == (i < nc), 6);
#endif
   }
   vp_assert(g_badidx == 0 && g_remax == 0, 7);
   vp_cover(1);
}

// =====================================================================================================================
// C03-O2 (callee contracts): the two certificate tests _performUnboundedIRStable / _performFeasIRStable
// (solverational.hpp 3370-3535). These are the contracts the verdict automaton C03-O2.optimizeRational.verdicts
// (c03_refinement_ctl.cpp) ASSUMES of its callee models:
//   stopped            => no ray / no Farkas proof, error == false
//   auxiliary LP not solved to optimality (error, infeasible, unbounded, not primal/dual feasible) => no ray / no proof, error == true
//   otherwise the answer is decided by comparing tau (last primal entry of the auxiliary solution) with 1 / the tolerance.
// The real functions are encoded; _performOptIRWrapper is a model with arbitrary outcome, the transformations are recorded, the
// Rational comparisons are the uninterpreted compare (scripted answers, restricted to answers an actual number can give).
// Native build: real GMP comparisons on a real tau realising the script; callee models are explicit specialisations.
struct OptOut { bool pf, df, inf, unb, st, si, err; };
static OptOut c_opt;
static int c_nopt, c_accept, c_ntrans, c_nuntrans, c_untransArg, c_order;
static void c_optIR(bool au, bool ai, bool& pf, bool& df, bool& inf, bool& unb, bool& st, bool& si, bool& err)
{
   c_nopt++;
   if(au || ai) c_accept++;
   if(c_ntrans != 1 || c_nuntrans != 0) c_order++;
   c_opt.pf = vp_nondet_bool(); c_opt.df = vp_nondet_bool(); c_opt.inf = vp_nondet_bool(); c_opt.unb = vp_nondet_bool();
   c_opt.st = vp_nondet_bool(); c_opt.si = vp_nondet_bool(); c_opt.err = vp_nondet_bool();
   pf = c_opt.pf; df = c_opt.df; inf = c_opt.inf; unb = c_opt.unb; st = c_opt.st; si = c_opt.si; err = c_opt.err;
}
static void c_trans() { c_ntrans++; if(c_nopt != 0 || c_nuntrans != 0) c_order++; }
static void c_untrans(bool flag) { c_nuntrans++; c_untransArg = flag; if(c_nopt != 1 || c_ntrans != 1) c_order++; }
#ifndef VP_NATIVE
union SolMem { SOLQ s; SolMem() {} ~SolMem() {} };
static SolMem c_sol;
union StatMem { SP::Statistics s; StatMem() {} ~StatMem() {} };
static StatMem c_stat;
extern "C" {
void m_optIRWrapper(SP* self, SOLQ* sol, bool au, bool ai, int minRounds, bool* pf, bool* df, bool* inf, bool* unb, bool* st, bool* si, bool* err)
{ c_optIR(au, ai, *pf, *df, *inf, *unb, *st, *si, *err); }
void m_transformUnbounded(SP* self) { c_trans(); }
void m_untransformUnbounded(SP* self, SOLQ* sol, bool unbounded) { c_untrans(unbounded); }
void m_transformFeasibility(SP* self) { c_trans(); }
void m_untransformFeasibility(SP* self, SOLQ* sol, bool infeasible) { c_untrans(infeasible); }
bool m_q_ge_int(const Rational* a, const int* b) { if(*b != 1) c_badq++; return c_ge_1; }
bool m_q_lt(const Rational* a, const Rational* b) { return b == &g_sp->_rationalPosone ? c_lt_one : c_lt_negtol; }
bool m_q_gt(const Rational* a, const Rational* b) { return c_gt_onetol; }
}
#else
namespace soplex {
template<> void SP::_performOptIRWrapper(SOLQ& sol, bool au, bool ai, int minRounds, bool& pf, bool& df, bool& inf, bool& unb, bool& st, bool& si, bool& err)
{ c_optIR(au, ai, pf, df, inf, unb, st, si, err); }
template<> void SP::_transformUnbounded() { c_trans(); }
template<> void SP::_untransformUnbounded(SOLQ& sol, bool unbounded) { c_untrans(unbounded); }
template<> void SP::_transformFeasibility() { c_trans(); }
template<> void SP::_untransformFeasibility(SOLQ& sol, bool infeasible) { c_untrans(infeasible); }
}
#endif
static SP* contract_solver()
{
   SP* sp = make_solver(0.0, false);
#ifdef VP_NATIVE
   sp->setIntParam(SP::SYNCMODE, SP::SYNCMODE_MANUAL);
   sp->addColRational(LPColRational(Rational(0), DSVectorRational(), Rational(1), Rational(0)));
#else
   sp->_statistics = &c_stat.s;
   sp->_rationalLP = &qlpmem.lp;
   g_nc = 1;
#endif
   g_contract = 1;
   return sp;
}
extern "C" void h_unbounded_ir_contract()
{
   c_ge_posone = vp_nondet_bool(); c_le_tol = vp_nondet_bool(); c_ge_1 = vp_nondet_bool();
   // answers an actual number can give (_rationalPosone is 1, the tolerance is below 1)
   vp_assume(c_ge_1 == c_ge_posone && !(c_ge_posone && c_le_tol));
   bool ray = vp_nondet_bool(); bool st = vp_nondet_bool(); bool si = vp_nondet_bool(); bool err = vp_nondet_bool();   // previous values
   SP* sp = contract_solver();
#ifdef VP_NATIVE
   SOLQ sol; sol._primal.reDim(1);
   sol._primal[0] = c_ge_1 ? Rational(1) : (c_le_tol ? Rational(0) : Rational(1) / 2);
   sp->_performUnboundedIRStable(sol, ray, st, si, err);
#else
   sp->_performUnboundedIRStable(c_sol.s, ray, st, si, err);
#endif
   vp_assert(c_nopt == 1, 40);                                          // exactly one auxiliary solve
   vp_assert(c_accept == 0, 41);                                        // ... which must not accept "unbounded"/"infeasible" answers
   vp_assert(st == c_opt.st && si == c_opt.si, 42);
   bool solved = !c_opt.err && !c_opt.unb && !c_opt.inf && c_opt.pf && c_opt.df;
   if(c_opt.st || c_opt.si) vp_assert(!ray && !err, 43);
   else if(!solved) vp_assert(!ray && err, 44);
   else
   {
      vp_assert(err == !(c_ge_posone || c_le_tol), 45);
      vp_assert(ray == c_ge_1, 46);
   }
   if(err) vp_assert(!ray, 47);                                         // the contract the automaton relies on
   vp_assert(c_ntrans == 1 && c_nuntrans == 1 && c_order == 0 && (c_untransArg != 0) == ray, 48);
   vp_assert(c_badq == 0, 49);
   vp_cover(1);
}
extern "C" void h_feas_ir_contract()
{
   c_lt_negtol = vp_nondet_bool(); c_gt_onetol = vp_nondet_bool(); c_lt_one = vp_nondet_bool();
   // answers an actual number can give
   vp_assume(!(c_lt_negtol && c_gt_onetol) && (!c_lt_negtol || c_lt_one) && (!c_gt_onetol || !c_lt_one));
   bool farkas = vp_nondet_bool(); bool st = vp_nondet_bool(); bool si = vp_nondet_bool(); bool err = vp_nondet_bool();
   SP* sp = contract_solver();
#ifdef VP_NATIVE
   SOLQ sol; sol._primal.reDim(1);
   sol._primal[0] = c_lt_negtol ? Rational(-1) : (c_gt_onetol ? Rational(2) : (c_lt_one ? Rational(0) : Rational(1)));
   sp->_performFeasIRStable(sol, farkas, st, si, err);
#else
   sp->_performFeasIRStable(c_sol.s, farkas, st, si, err);
#endif
   vp_assert(c_nopt == 1, 40);
   vp_assert(c_accept == 0, 41);
   vp_assert(st == c_opt.st && si == c_opt.si, 42);
   bool solved = !c_opt.err && !c_opt.unb && !c_opt.inf && c_opt.pf && c_opt.df;
   if(c_opt.st || c_opt.si) vp_assert(!farkas && !err, 43);
   else if(!solved) vp_assert(!farkas && err, 44);
   else
   {
      vp_assert(err == (c_lt_negtol || c_gt_onetol), 45);
      vp_assert(farkas == c_lt_one, 46);
      vp_assert(sp->_solRational._hasDualFarkas || !farkas, 50);
   }
   vp_assert(c_ntrans == 1 && c_nuntrans == 1 && c_order == 0 && (c_untransArg != 0) == farkas, 48);
   vp_cover(1);
}
