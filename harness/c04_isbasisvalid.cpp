// C04-O2: SPxSolverBase<double>::isBasisValid against the C04 text, on a real LP (bounds/sides finite or infinite), in both
// representations. Solver build: `this` is raw zero memory whose SPxLPBase base subobject is a really constructed LP and whose
// representation fields are set as initRep() sets them; native build: a real SPxSolverBase with the same LP loaded.
#include "lp_build.h"
#include <new>
using namespace soplex; using namespace vph;
typedef SPxSolverBase<double> Solver;
typedef SPxBasisBase<double> Basis;
typedef Solver::VarStatus VS;
#ifndef VNR
#define VNR 2
#define VNC 3
#endif
// LP with the given dimensions and an empty matrix (only bounds and sides matter for the basis status logic), built by the
// real base-class adders; the bound/side vectors are pre-sized (one allocation instead of one per add), then overwritten in
// place through the real write accessors with symbolic values: small ints or +-infinity, lower <= upper.
struct Bnd { double lhs[VNR], rhs[VNR], lo[VNC], up[VNC]; };
static void build_bounds(SPxLPBase<double>& lp, Bnd& d)
{
   LPColSetBase<double>& cs = lp; LPRowSetBase<double>& rs = lp;
   cs.low.reDim(VNC); cs.up.reDim(VNC); cs.object.reDim(VNC); cs.scaleExp.reSize(VNC);
   rs.left.reDim(VNR); rs.right.reDim(VNR); rs.object.reDim(VNR); rs.scaleExp.reSize(VNR);
   DSVectorBase<double> e(1);
   for(int j = 0; j < VNC; ++j) cs.add(0.0, 0.0, e, 1.0);
   for(int i = 0; i < VNR; ++i) rs.add(0.0, e, 1.0);
   for(int j = 0; j < VNC; ++j)
   {
      d.lo[j] = bound_or_inf(8, false); d.up[j] = bound_or_inf(8, true);
      vp_assume(d.lo[j] <= d.up[j]);
      lp.lower_w(j) = d.lo[j]; lp.upper_w(j) = d.up[j];
   }
   for(int i = 0; i < VNR; ++i)
   {
      d.lhs[i] = bound_or_inf(8, false); d.rhs[i] = bound_or_inf(8, true);
      vp_assume(d.lhs[i] <= d.rhs[i]);
      lp.lhs_w(i) = d.lhs[i]; lp.rhs_w(i) = d.rhs[i];
   }
}
union SolverMem { Solver s; SolverMem() {} ~SolverMem() {} };
static SolverMem mem;

static Solver* make_solver(Bnd& d, Solver::Representation rep)
{
#ifdef VP_NATIVE
   LP lp; build_bounds(lp, d);
   static SPxOut out;
   Solver* s = new Solver(Solver::LEAVE, rep);
   s->setOutstream(out);
   s->loadLP(lp);
   return s;
#else
   Solver* s = &mem.s;
   LP* lp = new(static_cast<SPxLPBase<double>*>(s)) LP();     // the LP part of the solver is a real, constructed LP
   build_bounds(*lp, d);
   s->Basis::theLP = s;
   s->theRep = rep;
   s->thevectors = rep == Solver::COLUMN ? s->colSet() : s->rowSet();          // as SPxSolverBase::initRep()
   s->thecovectors = rep == Solver::COLUMN ? s->rowSet() : s->colSet();
   return s;
#endif
}
// C04: exactly one basic variable per row, nothing unknown, no variable nonbasic at an infinite bound or marked fixed while its bounds differ
static bool entry_ok(int vs, double lo, double up)
{
   if(vs == Solver::UNDEFINED) return false;
   if(vs == Solver::ON_UPPER && !(up < (double)infinity)) return false;
   if(vs == Solver::ON_LOWER && !(lo > -(double)infinity)) return false;
   if(vs == Solver::FIXED && lo != up) return false;
   return true;
}
// DR/DC: (concrete) deviation of the array sizes from the LP dimensions
template<int DR, int DC> static void check(Solver::Representation rep)
{
   Bnd d; Solver* s = make_solver(d, rep);
   const int sr = VNR + DR, sc = VNC + DC;
   DataArray<VS> rows(sr, sr), cols(sc, sc);
   int rs[sr], cs[sc];
   for(int i = 0; i < sr; ++i) { rs[i] = vp_int_in(Solver::ON_UPPER, Solver::UNDEFINED); rows[i] = (VS)rs[i]; }
   for(int j = 0; j < sc; ++j) { cs[j] = vp_int_in(Solver::ON_UPPER, Solver::UNDEFINED); cols[j] = (VS)cs[j]; }
   bool acc = s->isBasisValid(rows, cols);
   bool ref = (sr == VNR && sc == VNC);
   if(ref)
   {
      int nb = 0;
      for(int i = 0; i < VNR; ++i) { if(rs[i] == Solver::BASIC) ++nb; if(!entry_ok(rs[i], d.lhs[i], d.rhs[i])) ref = false; }
      for(int j = 0; j < VNC; ++j) { if(cs[j] == Solver::BASIC) ++nb; if(!entry_ok(cs[j], d.lo[j], d.up[j])) ref = false; }
      if(nb != VNR) ref = false;
   }
   if(ref) vp_assert(acc, 1);       // every valid basis is accepted
   if(!ref) vp_assert(!acc, 2);     // nothing else is
   // the arguments are passed by value: the caller's arrays are unchanged
   vp_assert(rows.size() == sr && cols.size() == sc, 3);
   for(int i = 0; i < sr; ++i) vp_assert(rows[i] == rs[i], 4);
   for(int j = 0; j < sc; ++j) vp_assert(cols[j] == cs[j], 5);
}
extern "C" void h_c04_isbasisvalid_col() { check<0, 0>(Solver::COLUMN); vp_cover(1); }
extern "C" void h_c04_isbasisvalid_row() { check<0, 0>(Solver::ROW); vp_cover(1); }
// arrays whose sizes do not match the LP are rejected whatever they contain (sizes off by one in either direction)
extern "C" void h_c04_isbasisvalid_sizes()
{
   int rep = vp_int_in(0, 1);
   Solver::Representation r = rep ? Solver::ROW : Solver::COLUMN;
   int k = vp_int_in(0, 3);
   if(k == 0) check<-1, 0>(r);
   else if(k == 1) check<1, 0>(r);
   else if(k == 2) check<0, -1>(r);
   else check<0, 1>(r);
   vp_cover(1);
}
