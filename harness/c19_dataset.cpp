// C19-O1: DataSet<int> - inductive steps from an arbitrary valid state + bounded histories from the constructor
#include "vp.h"
#include "soplex/spxdefines.h"
#include "soplex/dataset.h"
using namespace soplex;
#ifndef CAP
#define CAP 4
#endif
// Derived class to reach the protected representation
struct DS : public DataSet<int>
{
   DS(int m) : DataSet<int>(m) {}
   // full representation invariant (stronger than isConsistent(), which does not describe the free list)
   bool inv() const
   {
      if(themax != CAP) return false;
      if(!(0 <= thenum && thenum <= thesize && thesize <= themax)) return false;
      for(int i = 0; i < thenum; ++i)
      {
         int ix = thekey[i].idx;
         if(ix < 0 || ix >= thesize) return false;
         if(theitem[ix].info != i) return false;
      }
      int cnt = 0; int f = firstfree;
      for(int steps = 0; steps <= CAP; ++steps)
      {
         if(f == -themax - 1) break;
         if(f >= 0 || f < -themax - 1) return false;
         int ix = -f - 1;
         if(ix < 0 || ix >= thesize) return false;
         if(theitem[ix].info >= 0) return false;
         ++cnt;
         f = theitem[ix].info;
      }
      if(f != -themax - 1) return false;
      if(cnt != thesize - thenum) return false;
      int used = 0;
      for(int i = 0; i < thesize; ++i) if(theitem[i].info >= 0) ++used;
      return used == thenum;
   }
   void havoc()
   {
      thesize = vp_nondet_int(); thenum = vp_nondet_int(); firstfree = vp_nondet_int();
      for(int i = 0; i < CAP; ++i) { theitem[i].data = vp_int_in(-100, 100); theitem[i].info = vp_nondet_int(); thekey[i].idx = vp_nondet_int(); thekey[i].info = 0; }
   }
};
// snapshot of the abstract content: key.idx -> value, in number order
struct Snap { int n; int idx[CAP]; int val[CAP]; };
static void snap(const DS& ds, Snap& s) { s.n = ds.num(); for(int i = 0; i < CAP; ++i) if(i < s.n) { s.idx[i] = ds.key(i).idx; s.val[i] = ds[i]; } }

extern "C" void h_dataset_add_step()
{
   DS ds(CAP); ds.havoc(); vp_assume(ds.inv()); vp_assume(ds.num() < ds.max());
   Snap s0; snap(ds, s0);
   DataKey k; int v = vp_int_in(-100, 100);
   ds.add(k, v);
   vp_assert(ds.inv(), 1);
   vp_assert(ds.num() == s0.n + 1, 2);
   vp_assert(ds.has(k) && ds[k] == v && ds.number(k) == s0.n, 3);
   for(int i = 0; i < CAP; ++i) if(i < s0.n)
   {  // old keys still identify their element, numbers unchanged, new key distinct
      vp_assert(ds.key(i).idx == s0.idx[i] && ds[i] == s0.val[i], 4);
      vp_assert(k.idx != s0.idx[i], 5);
   }
   vp_cover(1);
}
extern "C" void h_dataset_create_step()
{
   DS ds(CAP); ds.havoc(); vp_assume(ds.inv()); vp_assume(ds.num() < ds.max());
   Snap s0; snap(ds, s0);
   DataKey k; int* p = ds.create(k);
   *p = 77;
   vp_assert(ds.inv(), 1);
   vp_assert(ds.num() == s0.n + 1 && ds.number(k) == s0.n && ds[k] == 77, 2);
   for(int i = 0; i < CAP; ++i) if(i < s0.n) vp_assert(ds.key(i).idx == s0.idx[i] && ds[i] == s0.val[i] && k.idx != s0.idx[i], 3);
   vp_cover(1);
}
extern "C" void h_dataset_remove_num_step()
{
   DS ds(CAP); ds.havoc(); vp_assume(ds.inv());
   Snap s0; snap(ds, s0);
   int r = vp_int_in(0, CAP - 1); vp_assume(r < s0.n);
   ds.remove(r);
   vp_assert(ds.inv(), 1);
   vp_assert(ds.num() == s0.n - 1, 2);
   DataKey gone; gone.idx = s0.idx[r]; gone.info = 0;
   vp_assert(!ds.has(gone), 3);
   // documented: the last element moves into the hole; all others keep their number; every survivor keeps key and value
   for(int i = 0; i < CAP; ++i) if(i < s0.n && i != r)
   {
      DataKey ki; ki.idx = s0.idx[i]; ki.info = 0;
      vp_assert(ds.has(ki) && ds[ki] == s0.val[i], 4);
      int expect = (i == s0.n - 1) ? r : i;
      vp_assert(ds.number(ki) == expect, 5);
   }
   vp_cover(1);
}
extern "C" void h_dataset_remove_key_step()
{
   DS ds(CAP); ds.havoc(); vp_assume(ds.inv());
   Snap s0; snap(ds, s0);
   int r = vp_int_in(0, CAP - 1); vp_assume(r < s0.n);
   DataKey kr = ds.key(r);
   ds.remove(kr);
   vp_assert(ds.inv() && ds.num() == s0.n - 1 && !ds.has(kr), 1);
   for(int i = 0; i < CAP; ++i) if(i < s0.n && i != r)
   {
      DataKey ki; ki.idx = s0.idx[i]; ki.info = 0;
      vp_assert(ds.has(ki) && ds[ki] == s0.val[i], 2);
   }
   vp_cover(1);
}
extern "C" void h_dataset_remove_perm_step()
{
   DS ds(CAP); ds.havoc(); vp_assume(ds.inv());
   Snap s0; snap(ds, s0);
   int perm[CAP]; int del[CAP]; int ndel = 0;
   for(int i = 0; i < CAP; ++i) { del[i] = vp_int_in(0, 1); perm[i] = del[i] ? -1 : vp_int_in(0, 1000); if(i < s0.n && del[i]) ++ndel; }
   ds.remove(perm);
   vp_assert(ds.inv(), 1);
   vp_assert(ds.num() == s0.n - ndel, 2);
   int prev = -1;
   for(int i = 0; i < CAP; ++i) if(i < s0.n)
   {
      DataKey ki; ki.idx = s0.idx[i]; ki.info = 0;
      if(del[i]) { vp_assert(perm[i] < 0, 3); vp_assert(!ds.has(ki), 4); }
      else
      {  // survivor i moved to perm[i]; order preserved; key and value kept
         vp_assert(perm[i] > prev && perm[i] < ds.num(), 5);
         prev = perm[i];
         vp_assert(ds.has(ki) && ds.number(ki) == perm[i] && ds[ki] == s0.val[i], 6);
      }
   }
   vp_cover(1);
}
extern "C" void h_dataset_remove_last_and_clear_step()
{
   DS ds(CAP); ds.havoc(); vp_assume(ds.inv());
   Snap s0; snap(ds, s0);
   // add(items, n): n items appended with fresh keys
   int items[2] = { vp_int_in(-9, 9), vp_int_in(-9, 9) }; DataKey nk[2];
   int n = vp_int_in(0, 2); vp_assume(s0.n + n <= CAP);
   ds.add(nk, items, n);
   vp_assert(ds.inv() && ds.num() == s0.n + n, 1);
   for(int i = 0; i < 2; ++i) if(i < n) vp_assert(ds.number(nk[i]) == s0.n + i && ds[nk[i]] == items[i], 2);
   for(int i = 0; i < CAP; ++i) if(i < s0.n) vp_assert(ds.key(i).idx == s0.idx[i] && ds[i] == s0.val[i], 3);
   vp_cover(1);
   ds.clear();
   vp_assert(ds.inv() && ds.num() == 0 && ds.size() == 0, 4);
}
extern "C" void h_dataset_remove_lists_step()
{
   DS ds(CAP); ds.havoc(); vp_assume(ds.inv());
   Snap s0; snap(ds, s0);
   // remove(int nums[], int n): distinct numbers
   int nums[2]; int n = vp_int_in(0, 2);
   nums[0] = vp_int_in(0, CAP - 1); nums[1] = vp_int_in(0, CAP - 1);
   vp_assume(n < 1 || nums[0] < s0.n); vp_assume(n < 2 || (nums[1] < s0.n && nums[1] != nums[0]));
   int perm[CAP];
   ds.remove(nums, n, perm);
   vp_assert(ds.inv() && ds.num() == s0.n - n, 1);
   for(int i = 0; i < CAP; ++i) if(i < s0.n)
   {
      bool d = (n >= 1 && nums[0] == i) || (n >= 2 && nums[1] == i);
      DataKey ki; ki.idx = s0.idx[i]; ki.info = 0;
      if(d) vp_assert(perm[i] < 0 && !ds.has(ki), 2);
      else vp_assert(ds.has(ki) && ds.number(ki) == perm[i] && ds[ki] == s0.val[i], 3);
   }
   vp_cover(1);
}
// bounded history from the constructor: k symbolic operations; abstract model = list of (key idx,value)
#ifndef HIST
#define HIST 4
#endif
extern "C" void h_dataset_history()
{
   DS ds(CAP);
   int mk[CAP]; int mv[CAP]; int mn = 0;   // model: number -> (key idx, value)
   for(int step = 0; step < HIST; ++step)
   {
      int op = vp_int_in(0, 2);
      if(op == 0 && mn < CAP)
      {
         DataKey k; int v = vp_int_in(-9, 9); ds.add(k, v);
         for(int i = 0; i < CAP; ++i) if(i < mn) vp_assert(mk[i] != k.idx, 1);
         mk[mn] = k.idx; mv[mn] = v; ++mn;
      }
      else if(op == 1 && mn > 0)
      {
         int r = vp_int_in(0, CAP - 1); vp_assume(r < mn);
         ds.remove(r);
         mk[r] = mk[mn - 1]; mv[r] = mv[mn - 1]; --mn;
      }
      else if(op == 2 && mn > 0)
      {
         int r = vp_int_in(0, CAP - 1); vp_assume(r < mn);
         DataKey k; k.idx = mk[r]; k.info = 0;
         ds.remove(k);
         mk[r] = mk[mn - 1]; mv[r] = mv[mn - 1]; --mn;
      }
      vp_assert(ds.inv(), 2);
      vp_assert(ds.num() == mn, 3);
      for(int i = 0; i < CAP; ++i) if(i < mn) vp_assert(ds.key(i).idx == mk[i] && ds[i] == mv[i], 4);
   }
   vp_cover(1);
}
