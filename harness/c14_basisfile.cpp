// C14-O1: SPxBasisBase<double>::writeBasis followed by readBasis restores the descriptor, for every valid basis,
// with the default names (null name sets) and with caller-supplied name sets, standard and CPLEX-compatible format.
//
// Native build: everything is real: a real SPxSolverBase with the LP loaded, the scripted descriptor loaded through loadBasis(),
// writeBasis() into a std::ostringstream, readBasis() from a std::istringstream over that text, real NameSets.
//
// Solver build: iostreams, vsnprintf and the 10000-entry hash table of NameSet cannot be encoded; they are replaced by small
// deterministic models (ll2c `replace`), everything else (writeBasis, readBasis incl. its default-name loop, dual*Status,
// LPRowSetBase::type, loadDesc, setRep/reDim, ...) is the real code:
//   * text stream model: `os << const char*`, `os << int`, `os << endl` append characters; for the file stream the characters are
//     split into lines and blank-separated tokens as MPSInput::readLine does for such lines (first column blank => fields 1..3,
//     else fields 0..1); a std::stringstream is an append-only buffer, str() returns its whole content (the real semantics).
//   * MPSInput::readLine model: hands out the recorded lines one by one, setting field0..field3.
//   * getRowName/getColName (static helpers of spxbasis.hpp, vsnprintf inside): "C<i>"/"x<j>" for null name sets, else the name stored for the key.
//   * NameSet model: array of names per set object: ctor/dtor/reMax/add(key,str)/number(str)/has(key)/operator[](key).
#include "lp_build.h"
#include <new>
#include <sstream>
using namespace soplex; using namespace vph;
typedef SPxSolverBase<double> Solver;
typedef SPxBasisBase<double> Basis;
typedef Basis::Desc Desc;
#ifndef VNR
#define VNR 2
#define VNC 2
#endif
struct Bnd { double lhs[VNR], rhs[VNR], lo[VNC], up[VNC]; };
static void draw_bounds(Bnd& d)
{
   for(int j = 0; j < VNC; ++j) { d.lo[j] = bound_or_inf(8, false); d.up[j] = bound_or_inf(8, true); vp_assume(d.lo[j] <= d.up[j]); }
   for(int i = 0; i < VNR; ++i) { d.lhs[i] = bound_or_inf(8, false); d.rhs[i] = bound_or_inf(8, true); vp_assume(d.lhs[i] <= d.rhs[i]); }
}
// LP with an empty matrix (only dimensions, bounds and sides matter here), built by the real base-class adders into pre-sized vectors
static void build_bounds(SPxLPBase<double>& lp, const Bnd& d)
{
   LPColSetBase<double>& cs = lp; LPRowSetBase<double>& rs = lp;
   cs.low.reDim(VNC); cs.up.reDim(VNC); cs.object.reDim(VNC); cs.scaleExp.reSize(VNC);
   rs.left.reDim(VNR); rs.right.reDim(VNR); rs.object.reDim(VNR); rs.scaleExp.reSize(VNR);
   DSVectorBase<double> e(1);
   for(int j = 0; j < VNC; ++j) cs.add(0.0, 0.0, e, 1.0);
   for(int i = 0; i < VNR; ++i) rs.add(0.0, e, 1.0);
   for(int j = 0; j < VNC; ++j) { lp.lower_w(j) = d.lo[j]; lp.upper_w(j) = d.up[j]; }
   for(int i = 0; i < VNR; ++i) { lp.lhs_w(i) = d.lhs[i]; lp.rhs_w(i) = d.rhs[i]; }
}
// ---- reference: which descriptors are valid bases in normal form (what loadDesc leaves unchanged) --------------------------
static int ref_dual(double lo, double up)
{
   bool flo = lo > -(double)infinity, fup = up < (double)infinity;
   if(flo && fup) return lo == up ? Desc::D_FREE : Desc::D_ON_BOTH;
   if(flo) return Desc::D_ON_UPPER;
   if(fup) return Desc::D_ON_LOWER;
   return Desc::D_UNDEFINED;
}
static bool nonbasic_ok(int st, double lo, double up)
{
   bool flo = lo > -(double)infinity, fup = up < (double)infinity;
   if(lo == up) return st == Desc::P_FIXED;
   if(st == Desc::P_ON_LOWER) return flo;
   if(st == Desc::P_ON_UPPER) return fup;
   if(st == Desc::P_FREE) return !flo && !fup;
   return false;
}
static int slack_col(double lo, double up)
{
   if(lo == up) return Desc::P_FIXED;
   if(lo > -(double)infinity) return Desc::P_ON_LOWER;
   if(up < (double)infinity) return Desc::P_ON_UPPER;
   return Desc::P_FREE;
}
struct Script { Bnd d; int rds[VNR], cds[VNC]; int cpx; };
static const int primst[4] = { Desc::P_ON_LOWER, Desc::P_ON_UPPER, Desc::P_FREE, Desc::P_FIXED };
static void draw_script(Script& sc)
{
   draw_bounds(sc.d);
   sc.cpx = vp_int_in(0, 1);
   int nb = 0;
   for(int i = 0; i < VNR; ++i)
   {
      int b = vp_int_in(0, 1);
      int kp = vp_int_in(0, 3);
      sc.rds[i] = b ? ref_dual(sc.d.lhs[i], sc.d.rhs[i]) : primst[kp];
      if(!b) vp_assume(nonbasic_ok(sc.rds[i], sc.d.lhs[i], sc.d.rhs[i]));
      nb += b;
   }
   for(int j = 0; j < VNC; ++j)
   {
      int b = vp_int_in(0, 1);
      int kp = vp_int_in(0, 3);
      sc.cds[j] = b ? ref_dual(sc.d.lo[j], sc.d.up[j]) : primst[kp];
      if(!b) vp_assume(nonbasic_ok(sc.cds[j], sc.d.lo[j], sc.d.up[j]));
      nb += b;
   }
   vp_assume(nb == VNR);
}

#ifndef VP_NATIVE
// =============================== models (solver build only) ==================================================================
#define TOKLEN 12
#define MAXTOK 4
#define MAXLINES (VNC + 3)
// (token storage is a flat array: CBMC 6.11 loses stores through pointers to rows of a 2-D array member when the row is not a constant)
struct Line { int ntok; int startsblank; char tok[MAXTOK * TOKLEN]; };
static Line rec_line[MAXLINES];  // completed lines
static int rec_nlines = 0;
static Line cur;                 // the line being written (pushed to rec_line at the newline: one store at a symbolic position per line)
static int rec_col = 0;          // characters in the current line so far
static int rec_intok = 0;        // currently inside a token
static int rec_toklen = 0;
static int rec_overflow = 0;     // model capacity exceeded (asserted never to happen)
static void* file_os = nullptr;  // the ostream that is the basis file
static void rec_put(char c)
{
   if(c == '\n')
   {
      if(rec_nlines >= MAXLINES) { rec_overflow = 1; return; }
      if(rec_col == 0) { cur.ntok = 0; cur.startsblank = 0; }
      rec_line[rec_nlines] = cur;
      rec_nlines++; rec_col = 0; rec_intok = 0; rec_toklen = 0; return;
   }
   if(rec_col == 0) { cur.ntok = 0; cur.startsblank = (c == ' '); }
   rec_col++;
   if(c == ' ') { rec_intok = 0; return; }
   if(!rec_intok)
   {
      if(cur.ntok >= MAXTOK) { rec_overflow = 1; return; }
      cur.ntok++; rec_intok = 1; rec_toklen = 0;
      for(int k = 0; k < TOKLEN; ++k) cur.tok[(cur.ntok - 1) * TOKLEN + k] = 0;
   }
   if(rec_toklen >= TOKLEN - 1) { rec_overflow = 1; return; }
   cur.tok[(cur.ntok - 1) * TOKLEN + rec_toklen] = c; rec_toklen++;
}
// string streams: append-only buffers, identified by the address of their ostream part
#define NSS 4
#define SSLEN 16
struct SSBuf { void* os; int len; char buf[SSLEN]; };
static SSBuf ssb[NSS];
static int nssb = 0;
static SSBuf* ss_find(void* os) { for(int k = 0; k < NSS; ++k) if(k < nssb && ssb[k].os == os) return &ssb[k]; return nullptr; }
static void stream_put(void* os, char c)
{
   if(os == file_os) { rec_put(c); return; }
   SSBuf* b = ss_find(os);
   if(b) { if(b->len >= SSLEN - 1) { rec_overflow = 1; return; } b->buf[b->len++] = c; b->buf[b->len] = 0; }
   // any other stream (std::cerr): discarded
}
extern "C" std::ostream& m_os_cstr(std::ostream& os, const char* s)
{
   for(int k = 0; k < 24; ++k) { if(s[k] == 0) break; stream_put(&os, s[k]); }
   return os;
}
extern "C" std::ostream& m_os_int(std::ostream* os, int v)
{
   if(v < 0 || v > 99) { rec_overflow = 1; return *os; }
   if(v >= 10) stream_put(os, (char)('0' + v / 10));
   stream_put(os, (char)('0' + v % 10));
   return *os;
}
extern "C" std::ostream& m_endl(std::ostream& os) { stream_put(&os, '\n'); return os; }
extern "C" std::ostream& m_os_manip(std::ostream* os, std::ostream& (*pf)(std::ostream&)) { return pf(*os); }   // os << endl
extern "C" void m_ss_ctor(std::stringstream* self)
{
   SSBuf* b = ss_find(static_cast<std::ostream*>(self));        // same storage constructed again: starts empty
   if(b) { b->len = 0; b->buf[0] = 0; return; }
   if(nssb >= NSS) { rec_overflow = 1; return; }
   ssb[nssb].os = static_cast<std::ostream*>(self); ssb[nssb].len = 0; ssb[nssb].buf[0] = 0; nssb++;
}
extern "C" void m_ss_dtor(std::stringstream* self) { }
extern "C" std::string m_ss_str(const std::stringstream* self)
{
   SSBuf* b = ss_find(const_cast<std::ostream*>(static_cast<const std::ostream*>(self)));
   return b ? std::string(b->buf) : std::string();
}
// MPSInput::readLine: next recorded line, split into fields as the real tokenizer does for lines without '$', markers, embedded blanks
static int rd_pos = 0;
extern "C" bool m_readline(MPSInput* self)
{
   self->m_f0 = self->m_f1 = self->m_f2 = self->m_f3 = self->m_f4 = self->m_f5 = nullptr;
   if(rd_pos >= rec_nlines) return false;
   Line& L = rec_line[rd_pos++];
   self->m_lineno++;
   if(!L.startsblank)
   {
      if(L.ntok > 0) self->m_f0 = &L.tok[0];
      if(L.ntok > 1) self->m_f1 = &L.tok[TOKLEN];
   }
   else
   {
      if(L.ntok > 0) self->m_f1 = &L.tok[0];
      if(L.ntok > 1) self->m_f2 = &L.tok[TOKLEN];
      if(L.ntok > 2) self->m_f3 = &L.tok[2 * TOKLEN];
      if(L.ntok > 3) self->m_f4 = &L.tok[3 * TOKLEN];
   }
   return true;
}
// NameSet: names by number, per set object
#define NNS 2
#define NSMAX 3
struct NSModel { const void* self; int n; char name[NSMAX * TOKLEN]; };
static NSModel nsm[NNS];
static int nnsm = 0;
static NSModel* ns_find(const void* self) { for(int k = 0; k < NNS; ++k) if(k < nnsm && nsm[k].self == self) return &nsm[k]; return nullptr; }
extern "C" void m_ns_ctor(NameSet* self, int, int, double, double)
{
   if(nnsm >= NNS) { rec_overflow = 1; return; }
   nsm[nnsm].self = self; nsm[nnsm].n = 0; nnsm++;
}
extern "C" void m_ns_dtor(NameSet* self) { }
extern "C" void m_ns_remax(NameSet* self, int) { }
extern "C" void m_ns_add(NameSet* self, DataKey& key, const char* str)
{
   NSModel* m = ns_find(self);
   if(!m || m->n >= NSMAX) { rec_overflow = 1; return; }
   int k = 0;
   for(; k < TOKLEN - 1; ++k) { if(str[k] == 0) break; m->name[m->n * TOKLEN + k] = str[k]; }
   if(str[k] != 0) rec_overflow = 1;
   for(; k < TOKLEN; ++k) m->name[m->n * TOKLEN + k] = 0;
   key.idx = m->n; key.info = 0;
   m->n++;
}
extern "C" int m_ns_number(const NameSet* self, const char* str)
{
   const NSModel* m = ns_find(self);
   if(!m) return -1;
   for(int k = 0; k < NSMAX; ++k) if(k < m->n && strcmp(&m->name[k * TOKLEN], str) == 0) return k;
   return -1;
}
extern "C" bool m_ns_haskey(const NameSet* self, const DataKey& key)
{
   const NSModel* m = ns_find(self);
   return m && key.idx >= 0 && key.idx < m->n;
}
extern "C" const char* m_ns_atkey(const NameSet* self, const DataKey& key)
{
   const NSModel* m = ns_find(self);
   return &m->name[key.idx * TOKLEN];
}
static const char* name_model(char letter, int idx, const NameSet* ns, const DataKey& key, char* buf)
{
   if(ns != nullptr && m_ns_haskey(ns, key))
   {  // (*ns)[key], copied into the caller's buffer
      const NSModel* m = ns_find(ns);
      for(int r = 0; r < NSMAX; ++r) if(key.idx == r) for(int k = 0; k < TOKLEN; ++k) buf[k] = m->name[r * TOKLEN + k];
      return buf;
   }
   buf[0] = letter;                                                   // spxSnprintf(buf, 16, "x%d", idx)
   if(idx >= 10) { buf[1] = (char)('0' + idx / 10); buf[2] = (char)('0' + idx % 10); buf[3] = 0; }
   else { buf[1] = (char)('0' + idx); buf[2] = 0; }
   return buf;
}
extern "C" const char* m_getrowname(const SPxLPBase<double>* lp, int idx, const NameSet* rn, char* buf) { return name_model('C', idx, rn, lp->rId(idx), buf); }
extern "C" const char* m_getcolname(const SPxLPBase<double>* lp, int idx, const NameSet* cn, char* buf) { return name_model('x', idx, cn, lp->cId(idx), buf); }

// a stand-in for the file stream object: writeBasis only uses setf()/width() on it, which live in the virtual base std::ios_base;
// the vtable prefix supplies the offset of that base
struct FakeStream { long* vptr; long pad; long ios[40]; };
static long fake_vtbl[4] = { 16, 0, 0, 0 };      // [-3] = offset of the virtual base
static FakeStream fake_out, fake_in;
union SolverMem { Solver s; SolverMem() {} ~SolverMem() {} };
static SolverMem mem;
union OutMem { SPxOut o; OutMem() {} ~OutMem() {} };
static OutMem outmem;
union NSMem { NameSet n; NSMem() {} ~NSMem() {} };
static NSMem rnmem, cnmem;
#endif

static const char* user_rowname(int i) { static const char* n[3] = { "r0", "r1", "r2" }; return n[i]; }
static const char* user_colname(int j) { static const char* n[3] = { "v0", "v1", "v2" }; return n[j]; }

// writes the scripted basis of a solver holding the scripted LP, reads it back into the same solver; returns readBasis's result
static bool roundtrip(const Script& sc, bool usernames, int* rafter, int* cafter)
{
#ifdef VP_NATIVE
   LP lp; build_bounds(lp, sc.d);
   static SPxOut out;
   Solver* s = new Solver(Solver::LEAVE, Solver::COLUMN);
   s->setOutstream(out);
   s->loadLP(lp);
   Desc ds(*s);
   for(int i = 0; i < VNR; ++i) ds.rowStatus(i) = (Desc::Status)sc.rds[i];
   for(int j = 0; j < VNC; ++j) ds.colStatus(j) = (Desc::Status)sc.cds[j];
   s->loadBasis(ds);
   for(int i = 0; i < VNR; ++i) if(s->desc().rowStatus(i) != sc.rds[i]) { printf("native setup failed\n"); exit(3); }
   for(int j = 0; j < VNC; ++j) if(s->desc().colStatus(j) != sc.cds[j]) { printf("native setup failed\n"); exit(3); }
   NameSet rn, cn;
   for(int i = 0; i < VNR; ++i) rn.add(user_rowname(i));
   for(int j = 0; j < VNC; ++j) cn.add(user_colname(j));
   std::ostringstream os;
   s->Basis::writeBasis(os, usernames ? &rn : nullptr, usernames ? &cn : nullptr, sc.cpx != 0);
   // the in-memory basis is replaced by the slack basis, so that a reader that changes nothing is noticed
   Desc sl(*s);
   for(int i = 0; i < VNR; ++i) sl.rowStatus(i) = (Desc::Status)ref_dual(sc.d.lhs[i], sc.d.rhs[i]);
   for(int j = 0; j < VNC; ++j) sl.colStatus(j) = (Desc::Status)slack_col(sc.d.lo[j], sc.d.up[j]);
   s->loadBasis(sl);
   for(int i = 0; i < VNR; ++i) if(s->desc().rowStatus(i) != sl.rowStatus(i)) { printf("native setup failed\n"); exit(3); }
   for(int j = 0; j < VNC; ++j) if(s->desc().colStatus(j) != sl.colStatus(j)) { printf("native setup failed\n"); exit(3); }
   std::istringstream is(os.str());
   bool ok = s->Basis::readBasis(is, usernames ? &rn : nullptr, usernames ? &cn : nullptr);
#else
   Solver* s = &mem.s;
   LP* lp = new(static_cast<SPxLPBase<double>*>(s)) LP();     // the LP part of the solver is a real, constructed LP
   build_bounds(*lp, sc.d);
   Basis* b = new(static_cast<Basis*>(s)) Basis();            // ... and so is its basis part (real constructor: real vtable, real arrays)
   s->theRep = Solver::COLUMN;
   s->thevectors = s->colSet(); s->thecovectors = s->rowSet();            // as SPxSolverBase::initRep()
   s->Solver::spxout = &outmem.o;                                         // zero memory: verbosity ERROR, nothing is printed
   new(&s->unitVecs) Array<UnitVectorBase<double> >();                    // as SPxSolverBase::reDim(): unit vectors for the slack columns
   s->unitVecs.reSize(VNR > VNC ? VNR : VNC);
   for(int k = 0; k < (VNR > VNC ? VNR : VNC); ++k) s->unitVecs[k] = UnitVectorBase<double>(k);
   b->spxout = &outmem.o;
   b->theLP = s;                                                          // as SPxBasisBase::load(): theLP, setRep() (sizes descriptor, matrix, ids)
   b->setRep();
   b->thestatus = Basis::REGULAR;
   for(int i = 0; i < VNR; ++i) s->thedesc.rowStatus(i) = (Desc::Status)sc.rds[i];
   for(int j = 0; j < VNC; ++j) s->thedesc.colStatus(j) = (Desc::Status)sc.cds[j];
   NameSet* rn = nullptr; NameSet* cn = nullptr;
   if(usernames)
   {
      rn = &rnmem.n; cn = &cnmem.n;
      m_ns_ctor(rn, 0, 0, 0.0, 0.0); m_ns_ctor(cn, 0, 0, 0.0, 0.0);
      DataKey k;
      for(int i = 0; i < VNR; ++i) m_ns_add(rn, k, user_rowname(i));
      for(int j = 0; j < VNC; ++j) m_ns_add(cn, k, user_colname(j));
   }
   fake_out.vptr = &fake_vtbl[3]; fake_in.vptr = &fake_vtbl[3];
   file_os = &fake_out;
   s->Basis::writeBasis(*reinterpret_cast<std::ostream*>(&fake_out), rn, cn, sc.cpx != 0);
   // the in-memory basis is replaced by the slack basis, so that a reader that changes nothing is noticed
   for(int i = 0; i < VNR; ++i) s->thedesc.rowStatus(i) = (Desc::Status)ref_dual(sc.d.lhs[i], sc.d.rhs[i]);
   for(int j = 0; j < VNC; ++j) s->thedesc.colStatus(j) = (Desc::Status)slack_col(sc.d.lo[j], sc.d.up[j]);
   bool ok = s->Basis::readBasis(*reinterpret_cast<std::istream*>(&fake_in), rn, cn);
   vp_assert(!rec_overflow, 90);            // the models' capacities were sufficient
#endif
   for(int i = 0; i < VNR; ++i) rafter[i] = s->desc().rowStatus(i);
   for(int j = 0; j < VNC; ++j) cafter[j] = s->desc().colStatus(j);
   return ok;
}
static void check(bool usernames)
{
   static Script sc;
   draw_script(sc);
   int ra[VNR], ca[VNC];
   bool ok = roundtrip(sc, usernames, ra, ca);
   vp_assert(ok, 1);                                                     // the file just written is accepted
   for(int i = 0; i < VNR; ++i) vp_assert(ra[i] == sc.rds[i], 2);        // and restores exactly the statuses written
   for(int j = 0; j < VNC; ++j) vp_assert(ca[j] == sc.cds[j], 3);
}
extern "C" void h_c14_roundtrip_defaultnames() { check(false); vp_cover(1); }
extern "C" void h_c14_roundtrip_usernames() { check(true); vp_cover(1); }
