// C19-O2 (+ C17-O2): IdxSet / DIdxSet - sequence semantics against a reference array.
// IdxSet has the trivial representation (num, len, idx[]): "arbitrary valid pre-state" = arbitrary array contents and
// arbitrary num in [0,len], built with the real constructor IdxSet(n, imem, l).
// What the header documents (idxset.h): indices are numbered 0..size()-1; add*/addIdx append; on removal "the remaining
// ones are renumbered. However, all indices before the first removed index keep their number unchanged"; pos(i) is the
// position of the FIRST index i or -1; dim() is the maximal index. Duplicates: add()/addIdx() do not check for them (only the
// compiled-out isConsistent() rejects duplicates and negative indices), so "no duplicates" is the caller's duty on insertion;
// what the code can guarantee, and what is asserted here, is that no other operation introduces a duplicate.
#include "vp.h"
#include "soplex/spxdefines.h"
#define private public
#define protected public
#include "soplex/idxset.h"
#include "soplex/didxset.h"
#undef private
#undef protected
using namespace soplex;
#ifndef CAP
#define CAP 4
#endif
#ifndef HIST
#define HIST 4
#endif
struct Ref { int n; int v[2 * CAP + 2]; };
static void snap(const IdxSet& s, Ref& r) { r.n = s.size(); for(int i = 0; i < CAP; ++i) if(i < r.n) r.v[i] = s.index(i); }
static bool same(const IdxSet& s, const Ref& r, int bound)
{
   if(s.size() != r.n) return false;
   for(int i = 0; i < bound; ++i) if(i < r.n && s.index(i) != r.v[i]) return false;
   return true;
}
static int refpos(const Ref& r, int x) { for(int i = 0; i < CAP; ++i) if(i < r.n && r.v[i] == x) return i; return -1; }
static int refdim(const Ref& r) { int d = -1; for(int i = 0; i < CAP; ++i) if(i < r.n && r.v[i] > d) d = r.v[i]; return d; }
static int count(const int* a, int n, int x) { int c = 0; for(int i = 0; i < CAP; ++i) if(i < n && a[i] == x) ++c; return c; }
static bool distinct(const int* a, int n) { for(int i = 0; i < CAP; ++i) for(int j = 0; j < i; ++j) if(i < n && a[i] == a[j]) return false; return true; }
static void havoc(int* mem) { for(int i = 0; i < CAP; ++i) mem[i] = vp_int_in(-2, 9); }

// pos / dim / index / size / max on an arbitrary state
extern "C" void h_idxset_query_step()
{
   int mem[CAP]; havoc(mem); int l = vp_int_in(0, CAP);
   IdxSet s(CAP, mem, l);
   Ref r; snap(s, r);
   int x = vp_int_in(-2, 9);
   int p = s.pos(x);
   vp_assert(s.size() == l && s.max() == CAP, 1);
   vp_assert(p == refpos(r, x), 2);
   if(p >= 0) vp_assert(s.index(p) == x, 3);            // documented: index(pos(i)) == i
   vp_assert(s.dim() == refdim(r), 4);
   for(int i = 0; i < CAP; ++i) if(i < l) vp_assert(s.index(i) == mem[i], 5);
   vp_cover(1);
}
// addIdx, add(n,i[]), add(const IdxSet&), add(n) append and keep the old content
extern "C" void h_idxset_add_step()
{
   int mem[CAP]; havoc(mem); int l = vp_int_in(0, CAP);
   IdxSet s(CAP, mem, l);
   Ref r; snap(s, r);
   int op = vp_int_in(0, 3);
   int src[CAP]; havoc(src);
   int n = vp_int_in(0, CAP); vp_assume(l + n <= CAP);
   if(op == 0) { vp_assume(n == 1); s.addIdx(src[0]); }
   else if(op == 1) s.add(n, src);
   else if(op == 2) { IdxSet o(CAP, src, n); s.add(o); vp_assert(o.size() == n, 6); }
   else s.add(n);                                        // uninitialised indices: only the size and the prefix are specified
   vp_assert(s.size() == l + n && s.max() == CAP, 1);
   for(int i = 0; i < CAP; ++i) if(i < l) vp_assert(s.index(i) == r.v[i], 2);
   if(op != 3) for(int j = 0; j < CAP; ++j) if(j < n) vp_assert(s.index(l + j) == src[j], 3);
   // no duplicate is introduced if the caller adds fresh, distinct indices
   if(op != 3 && distinct(r.v, r.n) && distinct(src, n))
   {
      bool fresh = true;
      for(int j = 0; j < CAP; ++j) if(j < n && refpos(r, src[j]) >= 0) fresh = false;
      if(fresh) vp_assert(distinct(mem, s.size()), 4);
   }
   vp_cover(1);
}
// remove(n): documented via the renumbering rule; implementation moves the last index into the hole
extern "C" void h_idxset_remove_one_step()
{
   int mem[CAP]; havoc(mem); int l = vp_int_in(1, CAP);
   IdxSet s(CAP, mem, l);
   Ref r; snap(s, r);
   int n = vp_int_in(0, CAP - 1); vp_assume(n < l);
   s.remove(n);
   vp_assert(s.size() == l - 1, 1);
   for(int i = 0; i < CAP; ++i) if(i < l - 1) vp_assert(s.index(i) == ((i == n) ? r.v[l - 1] : r.v[i]), 2);
   if(distinct(r.v, r.n)) vp_assert(distinct(mem, s.size()), 3);
   vp_cover(1);
}
// remove(n,m): size shrinks by m-n+1; the indices before position n keep their number and value (documented);
// the remaining content is exactly the multiset of the survivors; no duplicate is introduced.
// RANGE_INNER=1 restricts to ranges that do not reach the end of the set (m < size()-1).
static void remove_range(bool inner)
{
   int mem[CAP + 1]; mem[0] = 1000;                      // guard word in front of the index memory
   int* im = mem + 1;
   havoc(im); int l = vp_int_in(1, CAP);
   IdxSet s(CAP, im, l);
   Ref r; snap(s, r);
   int n = vp_int_in(0, CAP - 1); int m = vp_int_in(0, CAP - 1);
   vp_assume(n <= m && m < l);
   if(inner) vp_assume(m < l - 1);
   s.remove(n, m);
   int cnt = m - n + 1;
   vp_assert(s.size() == l - cnt, 1);
   for(int i = 0; i < CAP; ++i) if(i < n) vp_assert(s.index(i) == r.v[i], 2);
   // multiset of survivors
   for(int i = 0; i < CAP; ++i) if(i < l && (i < n || i > m))
   {
      int exp = 0;
      for(int j = 0; j < CAP; ++j) if(j < l && (j < n || j > m) && r.v[j] == r.v[i]) ++exp;
      vp_assert(count(im, s.size(), r.v[i]) == exp, 3);
   }
   if(distinct(r.v, r.n)) vp_assert(distinct(im, s.size()), 4);
   vp_assert(mem[0] == 1000, 5);
   vp_cover(1);
}
extern "C" void h_idxset_remove_range_step() { remove_range(false); }
extern "C" void h_idxset_remove_range_inner_step() { remove_range(true); }

// DIdxSet inductive step: every state (size L in 0..CAP, capacity max(1,L)+S with S in 0..2, symbolic content) x one symbolic
// operation. L and S are dispatched to template instantiations so that every allocation size is concrete for the solver
// (all states of a DIdxSet are of this form: (num, len, idx[0..num-1])).
template<int L, int S> static void didx_step_body()
{
   const int M = (L < 1 ? 1 : L) + S;
   DIdxSet s(M);
   for(int i = 0; i < L; ++i) { int x = vp_int_in(-2, 9); s.addIdx(x); }
   vp_assert(s.size() == L && s.max() == M, 10);
   Ref r; snap(s, r);
   int op = vp_int_in(0, 6);
   int a[2]; a[0] = vp_int_in(-2, 9); a[1] = vp_int_in(-2, 9);
   int n = vp_int_in(0, CAP - 1);
   int added = 0; int removed = -1;
   if(op == 0) { s.addIdx(a[0]); added = 1; }
   else if(op == 1) { s.add(2, a); added = 2; }
   else if(op == 2) { IdxSet o(2, a, 2); s.add(o); added = 2; }
   else if(op == 3) { s.add(2); added = -2; }
   else if(op == 4) { if(n < L) { s.remove(n); removed = n; } }
   else if(op == 5) { s.setMax(L + 3); vp_assert(s.max() == L + 3, 11); }
   else { s.setMax(0); vp_assert(s.max() == (L < 1 ? 1 : L), 12); }
   int na = added < 0 ? -added : added;
   vp_assert(s.size() == L + na - (removed >= 0 ? 1 : 0) && s.max() >= s.size(), 1);
   for(int i = 0; i < CAP; ++i) if(i < L && i != removed && !(removed >= 0 && i == L - 1)) vp_assert(s.index(i) == r.v[i], 2);
   if(removed >= 0 && removed < L - 1) vp_assert(s.index(removed) == r.v[L - 1], 3);
   for(int j = 0; j < 2; ++j) if(j < added) vp_assert(s.index(L + j) == a[j], 4);
   // queries on the grown set
   int x = vp_int_in(-2, 9); int p = -1;
   for(int i = CAP + 1; i >= 0; --i) if(i < s.size() && s.index(i) == x) p = i;
   if(added >= 0) vp_assert(s.pos(x) == p, 5);
}
template<int L> static void didx_step_s()
{
   int sl = vp_int_in(0, 2);
   if(sl == 0) didx_step_body<L, 0>(); else if(sl == 1) didx_step_body<L, 1>(); else didx_step_body<L, 2>();
}
extern "C" void h_didxset_step()
{
   int l = vp_int_in(0, CAP);
   if(l == 0) didx_step_s<0>(); else if(l == 1) didx_step_s<1>(); else if(l == 2) didx_step_s<2>(); else if(l == 3) didx_step_s<3>();
#if CAP >= 6
   else if(l == 4) didx_step_s<4>(); else if(l == 5) didx_step_s<5>();
#endif
   else didx_step_s<CAP>();
   vp_cover(1);
}
// DIdxSet growth: scripted operation sequence with concrete sizes (allocation sizes must be concrete for the solver),
// symbolic index values and positions; every adder grows the set through setMax/spx_realloc at least once.
static bool chk(const DIdxSet& s, const Ref& r)
{
   if(s.size() != r.n || s.max() < s.size() || s.max() < 1) return false;
   for(int i = 0; i < 2 * CAP + 2; ++i) if(i < r.n && s.index(i) != r.v[i]) return false;
   return true;
}
extern "C" void h_didxset_grow()
{
   DIdxSet s(1);
   Ref r; r.n = 0;
   int x;
   x = vp_int_in(0, 9); s.addIdx(x); r.v[r.n++] = x;                 // fills max()==1
   x = vp_int_in(0, 9); s.addIdx(x); r.v[r.n++] = x;                 // grows 1 -> 2
   vp_assert(chk(s, r), 1);
   int a[3]; a[0] = vp_int_in(0, 9); a[1] = vp_int_in(0, 9); a[2] = vp_int_in(0, 9);
   s.add(3, a); for(int j = 0; j < 3; ++j) r.v[r.n++] = a[j];       // grows 2 -> 5
   vp_assert(chk(s, r), 2);
   int n = vp_int_in(0, 4);
   s.remove(n); r.v[n] = r.v[r.n - 1]; --r.n;                       // 4 of 5 used
   int b[2]; b[0] = vp_int_in(0, 9); b[1] = vp_int_in(0, 9);
   IdxSet o(2, b, 2); s.add(o); r.v[r.n++] = b[0]; r.v[r.n++] = b[1];   // grows 5 -> 6
   vp_assert(chk(s, r) && o.size() == 2, 3);
   s.setMax(2);                                                     // documented: newmax < size() => reset to size() only
   vp_assert(chk(s, r) && s.max() == 6, 4);
   s.setMax(9);
   vp_assert(chk(s, r) && s.max() == 9, 5);
   s.add(2); r.n += 2;                                              // uninitialised indices: only size and prefix specified
   vp_assert(s.size() == r.n, 6);
   for(int i = 0; i < 6; ++i) vp_assert(s.index(i) == r.v[i], 7);
   s.clear(); r.n = 0;
   s.setMax(0);                                                     // never below 1
   vp_assert(s.size() == 0 && s.max() == 1, 8);
   x = vp_int_in(0, 9); s.addIdx(x); r.v[r.n++] = x;
   x = vp_int_in(0, 9); s.addIdx(x); r.v[r.n++] = x;
   vp_assert(chk(s, r), 9);
   vp_cover(1);
}

// ---------------------------------------------------------------- C17-O2: copies are equal and independent
static void mutate(IdxSet& s, int bound)
{  // one arbitrary in-capacity mutation through the public interface
   int op = vp_int_in(0, 2); int x = vp_int_in(-2, 9); int n = vp_int_in(0, bound - 1);
   if(op == 0) { if(s.size() < s.max()) s.addIdx(x); }
   else if(op == 1) { if(n < s.size()) s.remove(n); }
   else s.clear();
}
extern "C" void h_idxset_copy_ctor()
{
   int mem[CAP]; havoc(mem); int l = vp_int_in(0, CAP);
   IdxSet a(CAP, mem, l);
   Ref ra; snap(a, ra);
   IdxSet b(a);
   vp_assert(same(b, ra, CAP) && b.max() >= b.size(), 1);
   vp_assert(b.idx != a.idx, 2);
   int which = vp_int_in(0, 1);
   // overwrite every stored index of one of them, then mutate it
   if(which == 0) { for(int i = 0; i < CAP; ++i) if(i < a.size()) a.idx[i] = 77; mutate(a, CAP); vp_assert(same(b, ra, CAP), 3); }
   else { for(int i = 0; i < CAP; ++i) if(i < b.size()) b.idx[i] = 77; mutate(b, CAP); vp_assert(same(a, ra, CAP), 4); }
   vp_cover(1);
}
extern "C" void h_idxset_assign()
{
   int mem[CAP]; havoc(mem); int l = vp_int_in(0, CAP);
   IdxSet a(CAP, mem, l);
   Ref ra; snap(a, ra);
   // three kinds of left-hand sides: enough user memory, too little user memory (=> allocates), default-constructed
   int kind = vp_int_in(0, 2);
   int memb[CAP]; havoc(memb); int lb = vp_int_in(0, 2);
   IdxSet b0(CAP, memb, lb); IdxSet b1(2, memb, lb); IdxSet b2;
   IdxSet& b = (kind == 0) ? b0 : (kind == 1) ? b1 : b2;
   if(kind == 1) vp_assume(l > 2);
   b = a;
   vp_assert(same(b, ra, CAP) && b.max() >= b.size(), 1);
   vp_assert(b.idx != a.idx, 2);
   if(kind == 0) vp_assert(b.idx == memb && !b.freeArray, 5);   // enough memory: stays in the user's buffer
   int which = vp_int_in(0, 1);
   if(which == 0) { for(int i = 0; i < CAP; ++i) if(i < a.size()) a.idx[i] = 77; mutate(a, CAP); vp_assert(same(b, ra, CAP), 3); }
   else { for(int i = 0; i < CAP; ++i) if(i < b.size()) b.idx[i] = 77; mutate(b, CAP); vp_assert(same(a, ra, CAP), 4); }
   a = a;                                                // self-assignment is a no-op
   vp_assert(which == 1 ? same(a, ra, CAP) : 1, 6);
   vp_cover(1);
}
template<int L, int KIND> static void didx_copy_body()
{  // source size L and the kind of copy are concrete (allocation sizes must be concrete for the solver); values are symbolic
   DIdxSet a(CAP);
   for(int i = 0; i < L; ++i) { int x = vp_int_in(-2, 9); a.addIdx(x); }
   Ref ra; snap(a, ra);
   int mem[CAP]; havoc(mem); IdxSet plain(CAP, mem, L);
   Ref rp; snap(plain, rp);
   IdxSet& src = (KIND == 0 || KIND == 2) ? (IdxSet&)a : plain;
   const Ref& rs = (KIND == 0 || KIND == 2) ? ra : rp;
   // KIND 0: DIdxSet(const DIdxSet&); 1: DIdxSet(const IdxSet&); 2: operator=(DIdxSet) into a smaller target (setMax grows);
   // 3: operator=(IdxSet) into a larger non-empty target
   DIdxSet c0(KIND == 0 ? a : DIdxSet(1));
   DIdxSet c1(KIND == 1 ? plain : (const IdxSet&)c0);
   DIdxSet c2(1); c2.addIdx(5);
   DIdxSet c3(2 * CAP); c3.addIdx(5); c3.addIdx(6);
   if(KIND == 2) c2 = a;
   if(KIND == 3) c3 = plain;
   DIdxSet& c = (KIND == 0) ? c0 : (KIND == 1) ? c1 : (KIND == 2) ? c2 : c3;
   vp_assert(same(c, rs, CAP) && c.max() >= c.size() && c.max() >= 1, 1);
   vp_assert(c.idx != src.idx && c.idx != 0, 2);
   int which = vp_int_in(0, 1);
   if(which == 0) { for(int i = 0; i < CAP; ++i) if(i < src.size()) src.idx[i] = 77; mutate(src, CAP); vp_assert(same(c, rs, CAP), 3); }
   else
   {  // the copy may grow beyond its capacity (DIdxSet): still independent
      for(int i = 0; i < CAP; ++i) if(i < c.size()) c.idx[i] = 77;
      c.addIdx(3); c.addIdx(4);
      vp_assert(c.size() == rs.n + 2 && c.index(rs.n) == 3 && c.index(rs.n + 1) == 4, 5);
      vp_assert(same(src, rs, CAP), 4);
   }
}
template<int L> static void didx_copy_k()
{
   int kind = vp_int_in(0, 3);
   if(kind == 0) didx_copy_body<L, 0>(); else if(kind == 1) didx_copy_body<L, 1>(); else if(kind == 2) didx_copy_body<L, 2>(); else didx_copy_body<L, 3>();
}
extern "C" void h_didxset_copy_assign()
{
   int l = vp_int_in(0, 3);
   if(l == 0) didx_copy_k<0>();
   else if(l == 1) didx_copy_k<1>();
   else if(l == 2) didx_copy_k < CAP - 1 > ();
   else didx_copy_k<CAP>();
   vp_cover(1);
}
