// C13-O5: SPxBasisBase<double>::readBasis on basis files whose data records are ARBITRARY (well formed or not) at token level.
//
// The file is  "NAME  soplex.bas" / up to MAXREC data records / "ENDATA".  Every data record has 1..3 blank-separated fields
// (a record without any field is a blank line, which MPSInput::readLine skips):
//    field1 (indicator)  from { XU, XL, UL, LL, BS (the CPLEX indicator the reader documents as unsupported), XX (unknown word with 'X') }
//    field2, field3      from { the two column names, the two row names, an unknown name }      (absent when the record is shorter)
// Reference (documented format, spxbasis.hpp above readBasis): a record is well formed iff field2 is a column name and
//    XU/XL: field3 is a row name;   UL/LL: nothing else needed;   any other indicator: malformed.
// Asserted: (1) no out-of-bounds access / invalid pointer in the real code (CBMC built-in checks, ASan natively),
//    (2) readBasis returns true iff every record is well formed, (3) on failure the basis descriptor is untouched (still the slack
//    basis loaded before), on success the descriptor passes the real isDescValid, has exactly nRows basic variables, and: if the
//    records describe exactly nRows basic variables the basic/nonbasic pattern is the described one and boxed columns / ranged rows
//    sit at the bound the last indicator names, otherwise (documented loadDesc rule) the slack basis is restored.
//
// Models / native build: those of c14_basisfile.cpp (solver build: MPSInput::readLine, NameSet, stringstream models, the token lines are
// written directly into the model's line store; native build: the records are printed in the column layout writeBasis uses into a
// std::string and the REAL readBasis reads them through a real std::istringstream, real MPSInput::readLine, real NameSets).
#include "c14_basisfile.cpp"
#include <string>
#ifndef MAXREC
#define MAXREC 3
#endif
#define NIND 6
#define NNAME 5
struct Rec { int ntok, i1, i2, i3; };
struct In { Bnd d; int nrec; Rec r[MAXREC]; };
static const char* ind_word(int k) { static const char* w[NIND] = { "XU", "XL", "UL", "LL", "BS", "XX" }; return w[k]; }
// 0,1: column names; 2,3: row names; 4: unknown
static const char* name_word(bool user, int k)
{
   static const char* dn[NNAME] = { "x0", "x1", "C0", "C1", "zz" };
   static const char* un[NNAME] = { "v0", "v1", "r0", "r1", "zz" };
   return user ? un[k] : dn[k];
}
static void draw_in(In& in)
{
   draw_bounds(in.d);
   in.nrec = vp_int_in(0, MAXREC);
   for(int k = 0; k < MAXREC; ++k)
   {
      in.r[k].ntok = vp_int_in(1, 3);
      in.r[k].i1 = vp_int_in(0, NIND - 1);
      in.r[k].i2 = vp_int_in(0, NNAME - 1);
      in.r[k].i3 = vp_int_in(0, NNAME - 1);
   }
}
#ifndef VP_NATIVE
static void put_tok(Line& L, int pos, const char* s)
{
   int k = 0;
   for(; k < TOKLEN - 1; ++k) { if(s[k] == 0) break; L.tok[pos * TOKLEN + k] = s[k]; }
   for(; k < TOKLEN; ++k) L.tok[pos * TOKLEN + k] = 0;
}
static void put_record(Line& L, const Rec& r, bool user)
{
   L.startsblank = 1; L.ntok = r.ntok;
   for(int v = 0; v < NIND; ++v) if(r.i1 == v) put_tok(L, 0, ind_word(v));
   for(int v = 0; v < NNAME; ++v) if(r.i2 == v) put_tok(L, 1, name_word(user, v));
   for(int v = 0; v < NNAME; ++v) if(r.i3 == v) put_tok(L, 2, name_word(user, v));
   put_tok(L, 3, "");
}
#endif
// loads the slack basis, presents the records to the real readBasis; returns its result, the descriptor afterwards and the real isDescValid
static bool read_records(const In& in, bool usernames, int* rbefore, int* cbefore, int* rafter, int* cafter, bool* valid)
{
   for(int i = 0; i < VNR; ++i) rbefore[i] = ref_dual(in.d.lhs[i], in.d.rhs[i]);
   for(int j = 0; j < VNC; ++j) cbefore[j] = slack_col(in.d.lo[j], in.d.up[j]);
#ifdef VP_NATIVE
   LP lp; build_bounds(lp, in.d);
   static SPxOut out;
   Solver* s = new Solver(Solver::LEAVE, Solver::COLUMN);
   s->setOutstream(out);
   s->loadLP(lp);
   Desc sl(*s);
   for(int i = 0; i < VNR; ++i) sl.rowStatus(i) = (Desc::Status)rbefore[i];
   for(int j = 0; j < VNC; ++j) sl.colStatus(j) = (Desc::Status)cbefore[j];
   s->loadBasis(sl);
   for(int i = 0; i < VNR; ++i) if(s->desc().rowStatus(i) != rbefore[i]) { printf("native setup failed\n"); exit(3); }
   for(int j = 0; j < VNC; ++j) if(s->desc().colStatus(j) != cbefore[j]) { printf("native setup failed\n"); exit(3); }
   NameSet rn, cn;
   for(int i = 0; i < VNR; ++i) rn.add(user_rowname(i));
   for(int j = 0; j < VNC; ++j) cn.add(user_colname(j));
   // the text, in the column layout of writeBasis: " II cccccccc       rrrr"
   std::string text = "NAME  soplex.bas\n";
   for(int k = 0; k < in.nrec; ++k)
   {
      const Rec& r = in.r[k];
      std::string l = " ";
      l += ind_word(r.i1);
      if(r.ntok >= 2) { l += " "; l += name_word(usernames, r.i2); }
      if(r.ntok >= 3) { while(l.size() < 12) l += " "; l += "       "; l += name_word(usernames, r.i3); }
      text += l; text += "\n";
   }
   text += "ENDATA\n";
   std::istringstream is(text);
   bool ok = s->Basis::readBasis(is, usernames ? &rn : nullptr, usernames ? &cn : nullptr);
#else
   Solver* s = &mem.s;
   LP* lp = new(static_cast<SPxLPBase<double>*>(s)) LP();     // as in c14_basisfile.cpp: real LP part, real basis part
   build_bounds(*lp, in.d);
   Basis* b = new(static_cast<Basis*>(s)) Basis();
   s->theRep = Solver::COLUMN;
   s->thevectors = s->colSet(); s->thecovectors = s->rowSet();
   s->Solver::spxout = &outmem.o;
   new(&s->unitVecs) Array<UnitVectorBase<double> >();
   s->unitVecs.reSize(VNR > VNC ? VNR : VNC);
   for(int k = 0; k < (VNR > VNC ? VNR : VNC); ++k) s->unitVecs[k] = UnitVectorBase<double>(k);
   b->spxout = &outmem.o;
   b->theLP = s;
   b->setRep();
   b->thestatus = Basis::REGULAR;
   for(int i = 0; i < VNR; ++i) s->thedesc.rowStatus(i) = (Desc::Status)rbefore[i];
   for(int j = 0; j < VNC; ++j) s->thedesc.colStatus(j) = (Desc::Status)cbefore[j];
   NameSet* rn = nullptr; NameSet* cn = nullptr;
   if(usernames)
   {
      rn = &rnmem.n; cn = &cnmem.n;
      m_ns_ctor(rn, 0, 0, 0.0, 0.0); m_ns_ctor(cn, 0, 0, 0.0, 0.0);
      DataKey k;
      for(int i = 0; i < VNR; ++i) m_ns_add(rn, k, user_rowname(i));
      for(int j = 0; j < VNC; ++j) m_ns_add(cn, k, user_colname(j));
   }
   fake_in.vptr = &fake_vtbl[3];
   // the line store of the readLine model: NAME line, the records, ENDATA after the last record
   rec_line[0].startsblank = 0; rec_line[0].ntok = 2;
   put_tok(rec_line[0], 0, "NAME"); put_tok(rec_line[0], 1, "soplex.bas"); put_tok(rec_line[0], 2, ""); put_tok(rec_line[0], 3, "");
   for(int k = 0; k < MAXREC; ++k) put_record(rec_line[1 + k], in.r[k], usernames);
   for(int k = 0; k <= MAXREC; ++k)
      if(k == in.nrec)
      {
         rec_line[1 + k].startsblank = 0; rec_line[1 + k].ntok = 1;
         put_tok(rec_line[1 + k], 0, "ENDATA"); put_tok(rec_line[1 + k], 1, ""); put_tok(rec_line[1 + k], 2, ""); put_tok(rec_line[1 + k], 3, "");
      }
   rec_nlines = in.nrec + 2; rd_pos = 0;
   bool ok = s->Basis::readBasis(*reinterpret_cast<std::istream*>(&fake_in), rn, cn);
   vp_assert(!rec_overflow, 90);
#endif
   for(int i = 0; i < VNR; ++i) rafter[i] = s->desc().rowStatus(i);
   for(int j = 0; j < VNC; ++j) cafter[j] = s->desc().colStatus(j);
   *valid = s->Basis::isDescValid(s->desc());
   return ok;
}
static bool fin_lo(double v) { return v > -(double)infinity; }
static bool fin_up(double v) { return v < (double)infinity; }
static void check_malformed(bool usernames)
{
   static In in;
   draw_in(in);
   // ---- reference: documented record format and meaning
   bool allok = true;
   bool rbas[VNR], cbas[VNC]; int rlast[VNR], clast[VNC];            // last indicator seen: 0 none, 1 upper (XU/UL), 2 lower (XL/LL)
   for(int i = 0; i < VNR; ++i) { rbas[i] = true; rlast[i] = 0; }
   for(int j = 0; j < VNC; ++j) { cbas[j] = false; clast[j] = 0; }
   for(int k = 0; k < MAXREC; ++k)
   {
      if(k >= in.nrec || !allok) continue;
      const Rec& r = in.r[k];
      bool hascol = r.ntok >= 2 && r.i2 <= 1;
      bool hasrow = r.ntok >= 3 && r.i3 >= 2 && r.i3 <= 3;
      bool wf = hascol && (r.i1 <= 1 ? hasrow : r.i1 <= 3);
      if(!wf) { allok = false; continue; }
      int c = r.i2;
      if(r.i1 <= 1) { int row = r.i3 - 2; cbas[c] = true; clast[c] = 0; rbas[row] = false; rlast[row] = (r.i1 == 0) ? 1 : 2; }
      else { cbas[c] = false; clast[c] = (r.i1 == 2) ? 1 : 2; }
   }
   int nb = 0;
   for(int i = 0; i < VNR; ++i) nb += rbas[i];
   for(int j = 0; j < VNC; ++j) nb += cbas[j];
   // ---- real code
   int rb[VNR], cb[VNC], ra[VNR], ca[VNC]; bool valid = false;
   bool ok = read_records(in, usernames, rb, cb, ra, ca, &valid);
   vp_assert(ok == allok, 1);                                        // success iff every record is well formed
   vp_assert(valid, 2);                                              // descriptor valid in either case (real isDescValid)
   int nba = 0;
   for(int i = 0; i < VNR; ++i) nba += (ra[i] >= 0);
   for(int j = 0; j < VNC; ++j) nba += (ca[j] >= 0);
   vp_assert(nba == VNR, 3);                                         // exactly nRows basic variables
   if(!ok)
   {
      for(int i = 0; i < VNR; ++i) vp_assert(ra[i] == rb[i], 4);     // failure: basis untouched
      for(int j = 0; j < VNC; ++j) vp_assert(ca[j] == cb[j], 5);
   }
   else if(allok)
   {
      if(nb != VNR)
      {  // wrong number of basic variables: loadDesc restores the slack basis
         // (restoreInitialBasis picks the bound of a boxed column by its own rule: only the pattern is asserted)
         for(int i = 0; i < VNR; ++i) vp_assert(ra[i] == rb[i], 6);
         for(int j = 0; j < VNC; ++j) vp_assert(ca[j] < 0 && nonbasic_ok(ca[j], in.d.lo[j], in.d.up[j]), 7);
      }
      else
      {
         for(int i = 0; i < VNR; ++i)
         {
            vp_assert((ra[i] >= 0) == rbas[i], 8);
            if(!rbas[i] && fin_lo(in.d.lhs[i]) && fin_up(in.d.rhs[i]) && in.d.lhs[i] < in.d.rhs[i])
               vp_assert(ra[i] == (rlast[i] == 1 ? Desc::P_ON_UPPER : Desc::P_ON_LOWER), 9);
         }
         for(int j = 0; j < VNC; ++j)
         {
            vp_assert((ca[j] >= 0) == cbas[j], 10);
            if(!cbas[j] && fin_lo(in.d.lo[j]) && fin_up(in.d.up[j]) && in.d.lo[j] < in.d.up[j])
               vp_assert(ca[j] == (clast[j] == 1 ? Desc::P_ON_UPPER : Desc::P_ON_LOWER), 11);
         }
      }
   }
}
extern "C" void h_c13_readbasis_malformed_defaultnames() { check_malformed(false); vp_cover(1); }
extern "C" void h_c13_readbasis_malformed_usernames() { check_malformed(true); vp_cover(1); }
