// C20-O2 (string and Rational getters) and C20-O3 (file/settings wrappers) of the C interface (src/soplex_interface.cpp).
//
// Solver build (contract style): opaque handle; the C++ methods the wrappers call are REPLACEd by scripted recording models.
// Rational -> string conversion (boost number::str, which ends in GMP's mpq_get_str) is replaced by a model returning scripted
// digit strings, GMP by the mini-GMP model also used in c20_mutators.cpp.  libstdc++'s std::string is translated as is.
// Returned C strings are read by the harness up to their terminating NUL: CBMC's pointer checks turn a missing terminator or a too
// short buffer into a violation.
// Native build (replay): a real SoPlex object, solved in rational mode where needed; expected values through its C++ API.
#include "soplex_all.h"
#include "soplex_interface.h"
#include <cstdio>
#include <unistd.h>
using namespace soplex;
#ifndef NMAX
#define NMAX 2
#endif
#ifndef SMAX
#define SMAX 1          // largest number of columns in the string-getter obligations (NMAX in the thorough variant)
#endif
typedef SoPlexBase<double> SP;
static void* hA;
static int ncalls; static const void* seen_self; static const void* seen_ptr; static int seen_which; static int seen_i, seen_j; static bool seen_defaults;
static bool ret_flag;
static int cur_n; static bool has_sol;
static char tok[NMAX + 2][3];         // scripted digit strings (1 or 2 characters), in the order str() will be asked for them
static int ntok_used;
struct QIn { long num, den; };
static QIn q_l, q_r;
enum { F_NONE = 0, F_READ, F_READBAS, F_SETTINGS, F_WRITE, F_OBJQ, F_PRIMALQ };

#ifdef VP_NATIVE
static long z_val(const __mpz_struct& z) { return mpz_get_si(&z); }
#else
static long z_val(const __mpz_struct& z) { return z._mp_size; }
static char handle_mem[16];
static Rational* qL; static Rational* qR;
static void saw(int which, const void* self) { ncalls++; seen_which = which; seen_self = self; }
extern "C" {
   // mini-GMP (see c20_mutators.cpp): value kept in _mp_size, _mp_d points to a shared dummy limb, canonicalize = sign normalisation
   static mp_limb_t dummy_limb;
   static void z_init(__mpz_struct* z, long v) { z->_mp_alloc = 1; z->_mp_d = &dummy_limb; z->_mp_size = (int)v; }
   void m_gmpz_init(__mpz_struct* z) { z_init(z, 0); }
   void m_gmpz_init_set_si(__mpz_struct* z, long v) { vp_assert(v > -(1L << 30) && v < (1L << 30), 92); z_init(z, v); }
   void m_gmpz_clear(__mpz_struct* z) { vp_assert(z->_mp_d == &dummy_limb, 94); z->_mp_d = 0; }
   void m_gmpz_set(__mpz_struct* d, const __mpz_struct* s) { d->_mp_size = s->_mp_size; }
   int m_gmpz_fits_slong_p(const __mpz_struct* z) { return 1; }
   long m_gmpz_get_si(const __mpz_struct* z) { return z->_mp_size; }
   void m_gmpq_init(__mpq_struct* q) { z_init(&q->_mp_num, 0); z_init(&q->_mp_den, 1); }
   void m_gmpq_clear(__mpq_struct* q) { m_gmpz_clear(&q->_mp_num); m_gmpz_clear(&q->_mp_den); }
   void m_gmpq_set(__mpq_struct* d, const __mpq_struct* s) { d->_mp_num._mp_size = s->_mp_num._mp_size; d->_mp_den._mp_size = s->_mp_den._mp_size; }
   void m_gmpq_canonicalize(__mpq_struct* q) { if(q->_mp_den._mp_size < 0) { q->_mp_den._mp_size = -q->_mp_den._mp_size; q->_mp_num._mp_size = -q->_mp_num._mp_size; } }

   bool m_readFile(SP* self, const char* fn, NameSet* rn, NameSet* cn, DIdxSet* iv) { saw(F_READ, self); seen_ptr = fn; seen_defaults = rn == 0 && cn == 0 && iv == 0; return ret_flag; }
   bool m_readBasisFile(SP* self, const char* fn, const NameSet* rn, const NameSet* cn) { saw(F_READBAS, self); seen_ptr = fn; seen_defaults = rn == 0 && cn == 0; return ret_flag; }
   bool m_loadSettingsFile(SP* self, const char* fn) { saw(F_SETTINGS, self); seen_ptr = fn; seen_defaults = true; return ret_flag; }
   bool m_writeFile(const SP* self, const char* fn, const NameSet* rn, const NameSet* cn, const DIdxSet* iv, bool unscale, bool wzo)
   { saw(F_WRITE, self); seen_ptr = fn; seen_defaults = rn == 0 && cn == 0 && iv == 0 && unscale && !wzo; return ret_flag; }
   Rational m_objValueRational(SP* self) { saw(F_OBJQ, self); return Rational(); }
   // like the real one: on success the argument becomes a copy of the solution vector (numCols entries)
   bool m_getPrimalRational(SP* self, VectorBase<Rational>& v)
   {
      saw(F_PRIMALQ, self);
      if(!(has_sol && v.dim() >= cur_n)) return false;
      VectorBase<Rational> t(cur_n);
      v = t;
      return true;
   }
   std::string m_qstr(const Rational* self, std::streamsize digits, std::ios_base::fmtflags f)
   {
      int k = ntok_used < NMAX + 1 ? ntok_used : NMAX + 1;
      ntok_used++;
      return std::string(tok[k]);
   }
   const Rational& m_lhsRational(const SP* self, int i) { ncalls++; seen_self = self; seen_i = i; return *qL; }
   const Rational& m_rhsRational(const SP* self, int i) { ncalls++; seen_self = self; seen_j = i; return *qR; }
}
#endif
static QIn draw_q()
{
   QIn q;
   int a = vp_int_in(-3, 3);
   int m = vp_int_in(1, 3);
   q.num = a; q.den = m;
   return q;
}
static void draw_tokens(bool allow2)
{
   for(int k = 0; k < NMAX + 2; ++k)
   {
      int two = vp_int_in(0, 1);
      if(!allow2) two = 0;
      int c0 = vp_int_in(1, 9);
      int c1 = vp_int_in(0, 9);
      tok[k][0] = (char)('0' + c0); tok[k][1] = two ? (char)('0' + c1) : 0; tok[k][2] = 0;
   }
   ntok_used = 0;
}
#ifdef VP_NATIVE
static Rational mkq(const QIn& q) { Rational r(q.num); r /= Rational(q.den); return r; }
// rational LP with n columns x_j >= (c0_j)/2 (c0_j = first digit of token j), minimise sum x_j; n rows q_l <= x_i <= ... (only sides matter)
static SoPlex* make_real(int n, bool solve)
{
   SoPlex* A = (SoPlex*)SoPlex_create();
   A->setIntParam(SoPlex::VERBOSITY, 0);
   A->setIntParam(SoPlex::READMODE, SoPlex::READMODE_RATIONAL);
   A->setIntParam(SoPlex::SOLVEMODE, SoPlex::SOLVEMODE_RATIONAL);
   A->setIntParam(SoPlex::CHECKMODE, SoPlex::CHECKMODE_RATIONAL);
   A->setIntParam(SoPlex::SYNCMODE, SoPlex::SYNCMODE_AUTO);
   A->setRealParam(SoPlex::FEASTOL, 0.0);
   A->setRealParam(SoPlex::OPTTOL, 0.0);
   A->setIntParam(SoPlex::OBJSENSE, SoPlex::OBJSENSE_MINIMIZE);
   for(int j = 0; j < n; ++j)
   {
      DSVectorRational e(1);
      QIn lo; lo.num = tok[j][0] - '0'; lo.den = 2;
      A->addColRational(LPColBase<Rational>(Rational(1), e, Rational(100), mkq(lo)));
   }
   if(solve) A->optimize();
   return A;
}
#endif
// reads a C string of at most maxlen characters up to and including its NUL (every read is bounds-checked by the solver / ASan)
static int c_strlen(const char* s, int maxlen) { int n = 0; while(n < maxlen && s[n] != 0) ++n; return n; }

// ------------------------------------------------------------------------------------------------------------------------------
// O3: file name and result pass-through
extern "C" void h_c20_files()
{
   int fn = vp_int_in(0, 3);
   ret_flag = vp_nondet_bool();
   ncalls = 0;
   static char name[64] = "/c20-files.lp";
   int r = -1; int which;
#ifdef VP_NATIVE
   // an existing, well-formed LP file (opening a missing file makes the C++ readers throw strict_fstream::Exception)
   std::snprintf(name, sizeof name, "/tmp/c20_files_%d.lp", (int)getpid());
   { FILE* f = std::fopen(name, "w"); std::fputs("Maximize\n obj: x\nSubject To\n c1: x <= 1\nEnd\n", f); std::fclose(f); }
   SoPlex* A = (SoPlex*)SoPlex_create(); A->setIntParam(SoPlex::VERBOSITY, 0); hA = A;
   SoPlex* B = new SoPlex(); B->setIntParam(SoPlex::VERBOSITY, 0);
#else
   hA = handle_mem;
#endif
   if(fn == 0) { r = SoPlex_readInstanceFile(hA, name); which = F_READ; }
   else if(fn == 1) { r = SoPlex_readBasisFile(hA, name); which = F_READBAS; }
   else if(fn == 2) { r = SoPlex_readSettingsFile(hA, name); which = F_SETTINGS; }
   else { SoPlex_writeFileReal(hA, name); which = F_WRITE; }
#ifdef VP_NATIVE
   int e = fn == 0 ? (int)B->readFile(name) : fn == 1 ? (int)B->readBasisFile(name) : fn == 2 ? (int)B->loadSettingsFile(name) : -1;
   vp_assert(r == e, 3);
   std::remove(name);
#else
   vp_assert(ncalls == 1 && seen_which == which && seen_self == hA, 1);
   vp_assert(seen_ptr == (const void*)name && seen_defaults, 2);        // same file name, all optional arguments at their defaults
   vp_assert(fn == 3 || r == (ret_flag ? 1 : 0), 3);
#endif
   vp_cover(1);
}

// ------------------------------------------------------------------------------------------------------------------------------
// O2: SoPlex_objValueRationalString: a NUL-terminated copy of objValueRational().str()
extern "C" void h_c20_objValueRationalString()
{
   draw_tokens(true);
   ncalls = 0;
   char exp[8];
#ifdef VP_NATIVE
   SoPlex* A = make_real(1, true); hA = A;
   std::string es = A->objValueRational().str();
   vp_assume(es.size() < 8);
   std::strcpy(exp, es.c_str());
#else
   hA = handle_mem;
   exp[0] = tok[0][0]; exp[1] = tok[0][1]; exp[2] = 0;
#endif
   char* s = SoPlex_objValueRationalString(hA);
   int el = c_strlen(exp, 7);
   vp_assert(s != 0, 3);
   vp_assert(c_strlen(s, 7) == el, 4);                      // reads s up to its terminator
   for(int k = 0; k < el; ++k) vp_assert(s[k] == exp[k], 5);
#ifndef VP_NATIVE
   vp_assert(ncalls == 1 && seen_which == F_OBJQ && seen_self == hA, 1);
#endif
   vp_cover(1);
}
// O2: SoPlex_getPrimalRationalString(dim): the values of getPrimalRational, each followed by one blank, NUL-terminated
static void body_primalstr(int n, int dim)
{
   cur_n = n;
   char exp[4 * (NMAX + 2)]; int el = 0;
#ifdef VP_NATIVE
   SoPlex* A = make_real(n, has_sol); hA = A;
   VectorRational x(A->numColsRational());
   bool got = A->getPrimalRational(x);
   if(got && dim >= n) for(int j = 0; j < n; ++j) { std::string t = x[j].str(); for(size_t c = 0; c < t.size() && el < 4 * NMAX; ++c) exp[el++] = t[c]; exp[el++] = ' '; }
   bool ok = got && dim >= n;
#else
   hA = handle_mem;
   bool ok = has_sol && dim >= n;
   if(ok) for(int j = 0; j < n; ++j) { exp[el++] = tok[j][0]; if(tok[j][1]) exp[el++] = tok[j][1]; exp[el++] = ' '; }
#endif
   exp[el] = 0;
   char* s = SoPlex_getPrimalRationalString(hA, dim);
   vp_assert(s != 0, 3);
   if(ok)
   {
      vp_assert(c_strlen(s, 4 * (NMAX + 1)) == el, 4);      // exactly the numCols values the C++ getter delivered
      for(int k = 0; k < el; ++k) vp_assert(s[k] == exp[k], 5);
   }
   else vp_assert(c_strlen(s, 4 * (NMAX + 1)) <= 4 * (NMAX + 1), 4);   // at least a terminated string
#ifndef VP_NATIVE
   vp_assert(ncalls == 1 && seen_which == F_PRIMALQ && seen_self == hA, 1);
#endif
}
extern "C" void h_c20_getPrimalRationalString()
{
   draw_tokens(false);
   ncalls = 0;
   int n = vp_int_in(0, SMAX);
   int dim = vp_int_in(0, SMAX);
   has_sol = vp_nondet_bool();
   vp_assume(dim <= n);
   for(int a = 0; a <= SMAX; ++a) for(int d = 0; d <= a; ++d) if(n == a && dim == d) body_primalstr(a, d);
   vp_cover(1);
}
// dimension argument larger than the number of columns
extern "C" void h_c20_getPrimalRationalString_large()
{
   draw_tokens(false);
   ncalls = 0;
   int n = vp_int_in(0, SMAX - 1);
   has_sol = true;
   for(int a = 0; a < SMAX; ++a) if(n == a) body_primalstr(a, a + 1);
   vp_cover(1);
}

// O2: SoPlex_getRowBoundsRational(i, &lbnum, &lbdenom, &ubnum, &ubdenom)
extern "C" void h_c20_getRowBoundsRational()
{
   q_l = draw_q();
   q_r = draw_q();
   int i = vp_int_in(0, NMAX - 1);
   ncalls = 0; seen_i = seen_j = -1;
   long el_n, el_d, er_n, er_d;
#ifdef VP_NATIVE
   SoPlex* A = make_real(NMAX, false); hA = A;
   for(int r = 0; r < NMAX; ++r)
   {
      DSVectorRational v(1); v.add(r, Rational(1));
      if(r == i) A->addRowRational(LPRowBase<Rational>(mkq(q_l), v, mkq(q_r)));
      else A->addRowRational(LPRowBase<Rational>(Rational(-5), v, Rational(5)));
   }
   el_n = z_val(A->lhsRational(i).backend().data()[0]._mp_num); el_d = z_val(A->lhsRational(i).backend().data()[0]._mp_den);
   er_n = z_val(A->rhsRational(i).backend().data()[0]._mp_num); er_d = z_val(A->rhsRational(i).backend().data()[0]._mp_den);
#else
   hA = handle_mem;
   qL = new Rational(q_l.num, q_l.den); qR = new Rational(q_r.num, q_r.den);
   el_n = q_l.num; el_d = q_l.den; er_n = q_r.num; er_d = q_r.den;
#endif
   long* out = (long*)malloc(4 * sizeof(long));
   for(int k = 0; k < 4; ++k) out[k] = -99;
   SoPlex_getRowBoundsRational(hA, i, &out[0], &out[1], &out[2], &out[3]);
#ifndef VP_NATIVE
   vp_assert(ncalls == 4 && seen_self == hA && seen_i == i && seen_j == i, 1);
#endif
   vp_assert(out[1] > 0 && out[0] * el_d == el_n * out[1], 6);      // lbnum/lbdenom is the left-hand side
   vp_assert(out[3] > 0 && out[2] * er_d == er_n * out[3], 7);      // ubnum/ubdenom is the right-hand side
   free(out);
   vp_cover(1);
}
