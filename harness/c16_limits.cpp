// C16-O1/O2/O3: limit bookkeeping around a floating-point solve
//   O2 SoPlexBase<double>::_isSolveStopped        - boundary semantics of TIMELIMIT / ITERLIMIT / REFLIMIT / STALLREFLIMIT
//   O1 SPxSolverBase<double>::isTimeLimitReached  - clock skipping heuristic against an arbitrary non-decreasing clock
//   O3 SoPlexBase<double>::_solveRealLPAndRecordStatistics (head) - remaining budgets handed to the simplex solver
// Contract style: `this` is typed zero memory (solver build) / a real object (native build); the clock is a scripted Timer.
#include "soplex_all.h"
#include <climits>
using namespace soplex;
typedef SoPlex::Settings ST;
typedef SPxSolverBase<double> Solver;

// ---- environment model: a clock returning scripted values (one per reading) ----
#define NCLK 8
struct FakeTimer : public Timer
{
   double t[NCLK];
   mutable int reads;
   FakeTimer() : reads(0) { for(int i = 0; i < NCLK; ++i) t[i] = 0.0; }
   virtual void reset() {}
   virtual void start() {}
   virtual Real stop() { return 0.0; }
   virtual TYPE type() { return USER_TIME; }
   virtual Real time() const { int i = reads < NCLK ? reads : NCLK - 1; ++reads; return t[i]; }
   virtual Real lastTime() const { return 0.0; }
};

union SoPlexMem { SoPlex sp; SoPlexMem() {} ~SoPlexMem() {} };
static SoPlexMem mem;
union StatMem { SoPlex::Statistics st; StatMem() {} ~StatMem() {} };
static StatMem smem;
union SolverMem { Solver s; SolverMem() {} ~SolverMem() {} };
static SolverMem solmem;

struct Limits { double infty, timelimit; int iterlimit, reflimit, stallreflimit; };
static void draw_limits(Limits& l)
{
   l.infty = vp_nondet_double();
   vp_assume(l.infty >= 1e10 && l.infty <= 1e100);                     // documented range of INFTY
   l.timelimit = vp_nondet_double();
   vp_assume(l.timelimit >= 0.0 && l.timelimit <= 1e100);              // documented range of TIMELIMIT
   l.iterlimit = vp_int_in(-1, INT_MAX);
   l.reflimit = vp_int_in(-1, INT_MAX);
   l.stallreflimit = vp_int_in(-1, INT_MAX);
}
// SoPlex object with the given limits; statistics object reachable; clock of the statistics = *clk
static SoPlex* make_soplex(const Limits& l, FakeTimer* clk)
{
#ifdef VP_NATIVE
   SoPlex* sp = new SoPlex();
   sp->setIntParam(SoPlex::VERBOSITY, 0);
   sp->setRealParam(SoPlex::INFTY, l.infty);
   sp->setRealParam(SoPlex::TIMELIMIT, l.timelimit);
   sp->setIntParam(SoPlex::ITERLIMIT, l.iterlimit);
   sp->setIntParam(SoPlex::REFLIMIT, l.reflimit);
   sp->setIntParam(SoPlex::STALLREFLIMIT, l.stallreflimit);
   sp->_statistics->solvingTime = clk;                                // the original timer is leaked on purpose
   return sp;
#else
   SoPlex* sp = &mem.sp;
   ST* st = new ST();
   st->_realParamValues[SoPlex::INFTY] = l.infty;
   st->_realParamValues[SoPlex::TIMELIMIT] = l.timelimit;
   st->_intParamValues[SoPlex::ITERLIMIT] = l.iterlimit;
   st->_intParamValues[SoPlex::REFLIMIT] = l.reflimit;
   st->_intParamValues[SoPlex::STALLREFLIMIT] = l.stallreflimit;
   sp->_currentSettings = st;
   sp->_statistics = &smem.st;
   sp->_statistics->solvingTime = clk;
   return sp;
#endif
}

// ------------------------------------------------------------------------------------------------------------
// C16-O2: _isSolveStopped. Reference written from the parameter documentation in soplex.h:
//   TIMELIMIT "time limit in seconds (INFTY if unlimited)", ITERLIMIT/REFLIMIT/STALLREFLIMIT "... limit (-1 if unlimited)";
//   a limit is hit as soon as the consumed amount reaches it.
extern "C" void h_c16_is_solve_stopped()
{
   Limits l; draw_limits(l);
   FakeTimer* clk = new FakeTimer();
   double now = vp_nondet_double();
   vp_assume(now >= 0.0);                                              // a clock reading: not NaN, not negative (may be +inf)
   for(int i = 0; i < NCLK; ++i) clk->t[i] = now;
   SoPlex* sp = make_soplex(l, clk);
   int iters = vp_nondet_int();
   int refs = vp_nondet_int();
   int stalls = vp_nondet_int();
   vp_assume(iters >= 0 && refs >= 0 && stalls >= 0);
   sp->_statistics->iterations = iters;
   sp->_statistics->refinements = refs;
   sp->_statistics->stallRefinements = stalls;
   bool stoppedTime = vp_nondet_bool();                                // outputs start with arbitrary garbage
   bool stoppedIter = vp_nondet_bool();
   bool r = sp->_isSolveStopped(stoppedTime, stoppedIter);
   // independent reference
   bool time_unlimited = !(l.timelimit < l.infty);
   bool ref_time = !time_unlimited && !(now < l.timelimit);
   bool hit_iter = l.iterlimit != -1 && !(iters < l.iterlimit);
   bool hit_ref = l.reflimit != -1 && !(refs < l.reflimit);
   bool hit_stall = l.stallreflimit != -1 && !(stalls < l.stallreflimit);
   vp_assert(stoppedTime == ref_time, 1);
   vp_assert(stoppedIter == (hit_iter || hit_ref || hit_stall), 2);
   vp_assert(r == (stoppedTime || stoppedIter), 3);
   // boundary cases spelled out
   if(l.iterlimit >= 0 && iters == l.iterlimit) vp_assert(r && stoppedIter, 4);
   if(l.iterlimit > 0 && iters == l.iterlimit - 1 && l.reflimit == -1 && l.stallreflimit == -1) vp_assert(!stoppedIter, 5);
   if(l.timelimit < l.infty && now == l.timelimit) vp_assert(r && stoppedTime, 6);
   if(l.iterlimit == -1 && l.reflimit == -1 && l.stallreflimit == -1 && l.timelimit >= l.infty) vp_assert(!r, 7);
   // the statistics are only read
   vp_assert(sp->_statistics->iterations == iters && sp->_statistics->refinements == refs && sp->_statistics->stallRefinements == stalls, 8);
   vp_assert(clk->reads <= 1, 9);
   vp_cover(1);
}

// ------------------------------------------------------------------------------------------------------------
// C16-O1: isTimeLimitReached over K consecutive calls against an arbitrary non-decreasing clock.
#ifndef KCALLS
#define KCALLS 6
#endif
extern "C" void h_c16_time_limit_reached()
{
   FakeTimer* clk = new FakeTimer();
   double prev = 0.0;
   for(int i = 0; i < NCLK; ++i)
   {
      double v = vp_nondet_double();
      vp_assume(v >= prev && v <= 1e30);                                // non-decreasing, finite, not NaN
      clk->t[i] = v; prev = v;
   }
#ifdef VP_NATIVE
   Solver* s = new Solver();
   s->theTime = clk;                                                   // original timer leaked on purpose
#else
   Solver* s = &solmem.s;
   s->theTime = clk;
#endif
   double maxTime = vp_nondet_double();
   vp_assume(maxTime >= 0.0);                                          // setTerminationTime never stores a negative value or NaN
   double cum = vp_nondet_double();
   vp_assume(cum >= 0.0 && cum <= 1e30);
   long calls = vp_nondet_long();
   vp_assume(calls >= 0 && calls <= (1L << 40));
   int skips = vp_int_in(-1, SOPLEX_MAXNCLCKSKIPS);                    // representation invariant: never above the maximum
   s->maxTime = maxTime; s->theCumulativeTime = cum; s->nCallsToTimelim = calls; s->nClckSkipsLeft = skips;
   const bool unlimited = maxTime >= soplex::infinity;
   for(int k = 0; k < KCALLS; ++k)
   {
      bool force = vp_nondet_bool();
      int reads0 = clk->reads;
      int skips0 = s->nClckSkipsLeft;
      long calls0 = s->nCallsToTimelim;
      double clock_now = clk->t[reads0];                                 // what the clock shows at the moment of this call
      bool r = s->isTimeLimitReached(force);
      bool checked = clk->reads != reads0;
      vp_assert(clk->reads - reads0 <= 1, 1);                           // at most one system call
      vp_assert(s->nCallsToTimelim == calls0 + 1, 2);                   // every call is counted
      vp_assert(s->maxTime == maxTime, 3);                              // the limit itself is never changed
      if(unlimited)
         vp_assert(!r, 4);                                              // no limit => never "reached"
      else
      {
         if(r) vp_assert(checked && clock_now >= maxTime, 5);           // true only on a real reading at/after the limit
         if(checked && clock_now >= maxTime) vp_assert(r, 6);           // a reading at/after the limit is reported
         if(force) vp_assert(checked, 7);                               // forceCheck always looks at the clock
         if(skips0 <= 0) vp_assert(checked, 8);                         // no skips left => look at the clock
         if(!checked) vp_assert(skips0 > 0 && s->nClckSkipsLeft == skips0 - 1, 9);     // an unchecked call uses up one skip
         if(checked && !r) vp_assert(s->nClckSkipsLeft >= 0, 10);        // a fresh, non-negative skip budget after every reading
         vp_assert(s->nClckSkipsLeft <= SOPLEX_MAXNCLCKSKIPS, 11);      // => at most MAXNCLCKSKIPS consecutive unchecked calls
      }
   }
   vp_cover(1);
}

// ------------------------------------------------------------------------------------------------------------
// C16-O3: head of _solveRealLPAndRecordStatistics: budgets the simplex solver has at the moment solve() is entered.
// Models (explicit specialisations: the same in the solver build and in the native replay build): solve() records the
// limits of the solver object it is called on; the counters read after the solve return small scripted numbers.
struct SolveRec { int calls; int maxIters; double maxTime; volatile bool* interrupt; const void* self; };
static SolveRec g_solve;
static int g_after[6];
namespace soplex
{
template <> Solver::Status Solver::solve(volatile bool* interrupt, bool polish)
{
   g_solve.calls++; g_solve.maxIters = maxIters; g_solve.maxTime = maxTime; g_solve.interrupt = interrupt; g_solve.self = this;
   return Solver::ABORT_ITER;
}
template <> int Solver::iterations() const { return g_after[0]; }
template <> int Solver::primalIterations() { return g_after[1]; }
template <> int Solver::polishIterations() { return g_after[2]; }
template <> int Solver::boundFlips() const { return g_after[3]; }
template <> int Solver::primalDegeneratePivots() { return g_after[4]; }
template <> int Solver::dualDegeneratePivots() { return g_after[5]; }
}
#ifndef OVERDRAWN
#define OVERDRAWN 0
#endif
static void solve_budget(bool overdrawn)
{
   Limits l; draw_limits(l);
   FakeTimer* clk = new FakeTimer();
   double now = vp_nondet_double();
   vp_assume(now >= 0.0 && now <= 1e100);
   for(int i = 0; i < NCLK; ++i) clk->t[i] = now;
   SoPlex* sp = make_soplex(l, clk);
   int used = vp_nondet_int();
   vp_assume(used >= 0 && used <= (1 << 30));                         // counters stay far from INT_MAX
   if(l.iterlimit >= 0)
      vp_assume(overdrawn ? used > l.iterlimit : used <= l.iterlimit);
   sp->_statistics->iterations = used;
   for(int i = 0; i < 6; ++i) g_after[i] = vp_int_in(0, 1000);
#ifndef VP_NATIVE
   // the other clocks touched by the function (all after the budgets are set)
   sp->_statistics->simplexTime = new FakeTimer();
   sp->_solver.multTimeSparse = new FakeTimer();
   sp->_solver.multTimeFull = new FakeTimer();
   sp->_solver.multTimeColwise = new FakeTimer();
   sp->_solver.multTimeUnsetup = new FakeTimer();
#endif
   sp->_solver.maxIters = vp_nondet_int();                              // stale values from an earlier solve
   double stale = vp_nondet_double();
   sp->_solver.maxTime = stale;
   static volatile bool flag;
   g_solve.calls = 0;
   sp->_solveRealLPAndRecordStatistics(&flag);
   vp_assert(g_solve.calls == 1 && g_solve.self == &sp->_solver && g_solve.interrupt == &flag, 1);   // exactly one solve, on the solver, with the caller's interrupt flag
   // iteration budget
   if(l.iterlimit == -1)
      vp_assert(g_solve.maxIters == -1, 2);                             // unlimited stays unlimited
   else if(!overdrawn)
      vp_assert(g_solve.maxIters == l.iterlimit - used, 3);             // remaining = limit - used
   else
      vp_assert(g_solve.maxIters >= 0, 4);                              // budget already exceeded: must not turn into "unlimited"
   // time budget
   if(!(l.timelimit < l.infty))
      vp_assert(g_solve.maxTime == l.infty, 5);                         // unlimited => INFTY
   else if(now <= l.timelimit)
      vp_assert(g_solve.maxTime == l.timelimit - now, 6);               // remaining = limit - used
   else
      vp_assert(g_solve.maxTime == 0.0, 7);                             // nothing left => zero, not negative
   vp_assert(sp->_statistics->iterations == used + g_after[0], 8);      // iterations of this solve are added to the account
   vp_cover(1);
}
extern "C" void h_c16_solve_budget() { solve_budget(false); }
extern "C" void h_c16_solve_budget_overdrawn() { solve_budget(true); }
