// C04-O6: the basis survives a row/column removal only as a basis: SPxBasisBase<double>::removedRow / removedCol /
// removedRows(perm) / removedCols(perm) (spxchangebasis.hpp), driven through the public SPxLPBase::removeRow / removeCol /
// removeRows(perm) / removeCols(perm) -> SPxSolverBase::doRemove* (changesoplex.hpp), in both representations.
//
// Solver build: `this` is a genuine subclass object (real vtable); its base-class constructor is replaced by a model that
// really constructs the SPxLPBase part and the SPxBasisBase part only, the rest of the solver is typed zero memory
// (representation, vector-set pointers and unit vectors are set by hand). Native build: a real object with the LP loaded.
// Pre-state: an arbitrary descriptor that is a basis for the representation (as many basic statuses as the basis dimension),
// base ids listing exactly the basic variables (what loadDesc() leaves behind), arbitrary matrixIsSetup / factorized flags,
// basis status SINGULAR..INFEASIBLE.
//
// Reference: documentation of SPxBasisBase::Desc::Status (spxbasis.h): "For a column basis, primal Statuses correspond to
// nonbasic variables, while dual ones are basic. This is reversed for a row basis."  A basis of the column representation has
// nRows members, one of the row representation nCols; in both cases that is "exactly nRows variables with a dual status".
// After the removal either no basis is available any more (status NO_PROBLEM) or the descriptor is again a basis of the smaller
// LP in which every surviving variable kept its status. By counting: the basis can only survive if every removed
// row/column was on the side whose number shrinks with it (COLUMN: removed rows basic, removed columns nonbasic; ROW: mirrored).
#include "lp_build.h"
#include <new>
using namespace soplex; using namespace vph;
typedef SPxSolverBase<double> Solver;
typedef SPxBasisBase<double> Basis;
typedef Basis::Desc Desc;
#ifndef VNR
#define VNR 3
#define VNC 2
#endif
#define VMAX (VNR > VNC ? VNR : VNC)
#if VNR < 2 || VNR > 3 || VNC < 2 || VNC > 3
#error "dimensions 2..3 only"
#endif

struct TS : public Solver { TS(Solver::Type t, Solver::Representation r) : Solver(t, r) {} };
#ifndef VP_NATIVE
extern "C" void m_solver_ctor(Solver* self, Solver::Type t, Solver::Representation r, Timer::TYPE tt)
{
   new(static_cast<SPxLPBase<double>*>(self)) LP();
   new(static_cast<Basis*>(self)) Basis(tt);
}
// key lookup of the row/column sets: the "invalid key" exception of the real function becomes an assertion (the exception path
// - string construction, stack unwinding through all destructors - is very expensive to encode and is not the subject here)
typedef ClassSet<SVSetBase<double>::DLPSV> KeySet;
extern "C" int m_keyset_number(const KeySet* self, const DataKey& k)
{
   vp_assert(k.idx >= 0 && k.idx < self->size(), 90);
   return self->theitem[k.idx].info;
}
union SolverMem { TS s; SolverMem() {} ~SolverMem() {} };
static SolverMem mem;
union OutMem { SPxOut o; OutMem() {} ~OutMem() {} };
static OutMem outmem;
#endif

static void build_lp(SPxLPBase<double>& lp)
{
   LPColSetBase<double>& cs = lp; LPRowSetBase<double>& rs = lp;
   cs.low.reDim(VNC); cs.up.reDim(VNC); cs.object.reDim(VNC); cs.scaleExp.reSize(VNC);
   rs.left.reDim(VNR); rs.right.reDim(VNR); rs.object.reDim(VNR); rs.scaleExp.reSize(VNR);
   DSVectorBase<double> e(1);
   for(int j = 0; j < VNC; ++j) cs.add(0.0, 0.0, e, 1.0);
   for(int i = 0; i < VNR; ++i) rs.add(0.0, e, 1.0);
}
static const int ALLST[9] = { Desc::P_ON_LOWER, Desc::P_ON_UPPER, Desc::P_FREE, Desc::P_FIXED, Desc::D_FREE, Desc::D_ON_UPPER, Desc::D_ON_LOWER, Desc::D_ON_BOTH, Desc::D_UNDEFINED };
struct Pre { int rep, dim; int rs[VNR], cs[VNC]; SPxRowId rid[VNR]; SPxColId cid[VNC]; int bstat; bool setup, fact; };
// member of the basis of representation rep (documentation: column basis <-> dual statuses, row basis <-> primal statuses)
static bool in_basis(int st, int rep) { return rep == Solver::COLUMN ? st > 0 : st < 0; }

template<int REP> static TS* make(Pre& p)
{
   p.rep = REP; p.dim = (REP == Solver::COLUMN) ? VNR : VNC;
#ifdef VP_NATIVE
   LP lp; build_lp(lp);
   static SPxOut out;
   out.setVerbosity(SPxOut::ERROR);
   TS* s = new TS(Solver::LEAVE, (Solver::Representation)REP);
   s->setOutstream(out);
   s->loadLP(lp);
   s->_tolerances = std::make_shared<Tolerances>();
#else
   TS* s = new(&mem.s) TS(Solver::LEAVE, (Solver::Representation)REP);
   build_lp(*s);
   s->Solver::spxout = &outmem.o; s->SPxLPBase<double>::spxout = &outmem.o; s->Basis::spxout = &outmem.o;
   s->Basis::theLP = s;
   s->theRep = (Solver::Representation)REP;
   s->thevectors = (REP == Solver::COLUMN) ? s->colSet() : s->rowSet();
   s->thecovectors = (REP == Solver::COLUMN) ? s->rowSet() : s->colSet();
   new(&s->unitVecs) Array<UnitVectorBase<double> >(VMAX);
   for(int k = 0; k < VMAX; ++k) s->unitVecs[k] = UnitVectorBase<double>(k);
   s->Basis::thedesc.reSize(VNR, VNC);
   s->Basis::theBaseId.reSize(p.dim);
   s->Basis::matrix.reSize(p.dim);
   *(Tolerances**)&s->_tolerances = new Tolerances();
#endif
   int nb = 0;
   for(int i = 0; i < VNR; ++i)
   {
      int k = vp_int_in(0, 8); p.rs[i] = ALLST[k];
      s->Basis::thedesc.rowStatus(i) = (Desc::Status)p.rs[i];
      p.rid[i] = s->rId(i);
      if(in_basis(p.rs[i], REP)) ++nb;
   }
   for(int j = 0; j < VNC; ++j)
   {
      int k = vp_int_in(0, 8); p.cs[j] = ALLST[k];
      s->Basis::thedesc.colStatus(j) = (Desc::Status)p.cs[j];
      p.cid[j] = s->cId(j);
      if(in_basis(p.cs[j], REP)) ++nb;
   }
   vp_assume(nb == p.dim);                                         // the descriptor is a basis
   // base ids: exactly the members of the basis, in an arbitrary rotation of the natural order
   int off = vp_int_in(0, p.dim - 1);
   int pos = 0;
   for(int i = 0; i < VNR; ++i) if(in_basis(p.rs[i], REP)) { s->Basis::theBaseId[(pos + off) % p.dim] = SPxId(p.rid[i]); ++pos; }
   for(int j = 0; j < VNC; ++j) if(in_basis(p.cs[j], REP)) { s->Basis::theBaseId[(pos + off) % p.dim] = SPxId(p.cid[j]); ++pos; }
   p.setup = vp_nondet_bool(); p.fact = vp_nondet_bool();
   vp_assume(!p.fact || p.setup);                                   // a factorization exists only for a set-up matrix
   s->Basis::matrixIsSetup = p.setup; s->Basis::factorized = p.fact;
   if(p.setup) for(int k = 0; k < p.dim; ++k) s->Basis::matrix[k] = &s->vector(s->Basis::theBaseId[k]);
   p.bstat = vp_int_in(Basis::SINGULAR, Basis::INFEASIBLE);         // a basis is available
   s->Basis::thestatus = (Basis::SPxStatus)p.bstat;
   s->initialized = vp_nondet_bool();
   s->m_status = Solver::REGULAR;
   return s;
}
// index of the row / column with the given key in the LP as it is now, -1 if it is gone (own scan over the LP's keys:
// number(key) throws for keys beyond the shrunken key table)
static int new_row(const TS* s, const DataKey& k)
{
   int r = -1;
   for(int n = 0; n < VNR; ++n) if(n < s->nRows() && s->rId(n).getIdx() == k.getIdx()) r = n;
   return r;
}
static int new_col(const TS* s, const DataKey& k)
{
   int r = -1;
   for(int n = 0; n < VNC; ++n) if(n < s->nCols() && s->cId(n).getIdx() == k.getIdx()) r = n;
   return r;
}
// rowgone[i] / colgone[j]: removed by the call. Post-conditions of every removal entry.
static void check(TS* s, const Pre& p, const bool* rowgone, const bool* colgone)
{
   int nr1 = 0, nc1 = 0, gone_in_basis = 0, gone = 0;
   for(int i = 0; i < VNR; ++i) { if(!rowgone[i]) ++nr1; else { ++gone; if(in_basis(p.rs[i], p.rep)) ++gone_in_basis; } }
   for(int j = 0; j < VNC; ++j) { if(!colgone[j]) ++nc1; else { ++gone; if(in_basis(p.cs[j], p.rep)) ++gone_in_basis; } }
   const int dim1 = p.rep == Solver::COLUMN ? nr1 : nc1;
   const Desc& ds = s->Basis::thedesc;
   vp_assert(s->nRows() == nr1 && s->nCols() == nc1, 1);               // the LP shrank
   vp_assert(ds.nRows() == nr1 && ds.nCols() == nc1, 2);               // one status per remaining row / column
   const bool avail = s->Basis::thestatus > Basis::NO_PROBLEM;
   // by counting: the remaining statuses form a basis iff the basis lost exactly as many members as its dimension shrank
   const bool can_survive = (p.dim - gone_in_basis) == dim1;
   if(!can_survive) vp_assert(!avail, 3);                              // C04: must not keep a "basis" with the wrong number of basic variables
   if(can_survive) vp_assert(avail, 4);                                // removal of the right kind keeps the basis
   if(avail)
   {
      int nb = 0, ndual = 0;
      for(int i = 0; i < VNR; ++i)
      {
         int ni = new_row(s, p.rid[i]);
         vp_assert((ni < 0) == rowgone[i], 5);
         if(ni >= 0) { vp_assert(ni < nr1 && ds.rowStatus(ni) == p.rs[i], 6); }     // survivors keep their status at their new index
      }
      for(int j = 0; j < VNC; ++j)
      {
         int nj = new_col(s, p.cid[j]);
         vp_assert((nj < 0) == colgone[j], 7);
         if(nj >= 0) { vp_assert(nj < nc1 && ds.colStatus(nj) == p.cs[j], 8); }
      }
      for(int i = 0; i < VNR; ++i) if(i < nr1) { if(s->isBasic(ds.rowStatus(i))) ++nb; if(ds.rowStatus(i) > 0) ++ndual; }
      for(int j = 0; j < VNC; ++j) if(j < nc1) { if(s->isBasic(ds.colStatus(j))) ++nb; if(ds.colStatus(j) > 0) ++ndual; }
      vp_assert(nb == s->dim() && s->dim() == dim1, 9);                // as many basic variables as the basis dimension ...
      vp_assert(ndual == nr1, 10);                                     // ... i.e. exactly one basic (dual-status) variable per row
      vp_assert(s->Basis::theBaseId.size() == dim1 && s->Basis::matrix.size() == dim1, 11);
      vp_assert(!s->Basis::factorized || s->Basis::matrixIsSetup, 12);
#ifdef CHECK_BASEIDS   /* thorough tier only: makes the SAT instances much harder (run times 1-20+ min) */
      if(s->Basis::matrixIsSetup)
      {  // "matrixIsSetup: true iff the pointers in matrix are set up correctly": base ids list the basic variables of the new LP
         for(int k = 0; k < VMAX; ++k) if(k < dim1)
         {
            SPxId id = s->Basis::theBaseId[k];
            int n = id.isSPxRowId() ? new_row(s, id) : new_col(s, id);
            vp_assert(id.isValid() && n >= 0, 13);
            if(n < 0) continue;
            int st = id.isSPxRowId() ? ds.rowStatus(n) : ds.colStatus(n);
            vp_assert(s->isBasic((Desc::Status)st), 14);
            for(int l = 0; l < VMAX; ++l) if(l < k) vp_assert(!(s->Basis::theBaseId[l] == id), 15);
            vp_assert(s->Basis::matrix[k] == &s->vector(id), 16);
         }
      }
#endif
   }
}

template<int REP, bool ROWS> static void remove_one_at(int c)
{
   Pre p; TS* s = make<REP>(p);
   bool rowgone[VNR], colgone[VNC];
   for(int i = 0; i < VNR; ++i) rowgone[i] = false;
   for(int j = 0; j < VNC; ++j) colgone[j] = false;
   if(ROWS) { rowgone[c] = true; s->removeRow(c); }
   else { colgone[c] = true; s->removeCol(c); }
   check(s, p, rowgone, colgone);
}
// the index is arbitrary, but concrete within each scenario (the LP's own renumbering is not the subject here)
template<int REP, bool ROWS> static void remove_one()
{
   const int N = ROWS ? VNR : VNC;
   int i = vp_int_in(0, N - 1);
   // exclusive branches: every scenario starts from the same untouched memory
   if(N == 2) { if(i == 0) remove_one_at<REP, ROWS>(0); else remove_one_at<REP, ROWS>(1); }
   else { if(i == 0) remove_one_at<REP, ROWS>(0); else if(i == 1) remove_one_at<REP, ROWS>(1); else remove_one_at<REP, ROWS>(2); }
   vp_cover(1);
}
template<int REP> static void remove_perm()
{
   Pre p; TS* s = make<REP>(p);
   bool rowgone[VNR], colgone[VNC];
   for(int i = 0; i < VNR; ++i) rowgone[i] = false;
   for(int j = 0; j < VNC; ++j) colgone[j] = false;
   int rows = vp_int_in(0, 1);
   int* perm = new int[VMAX];
   if(rows)
   {
      for(int i = 0; i < VNR; ++i) { int g = vp_int_in(0, 1); rowgone[i] = g != 0; perm[i] = g ? -1 : 0; }
      s->removeRows(perm);
   }
   else
   {
      for(int j = 0; j < VNC; ++j) { int g = vp_int_in(0, 1); colgone[j] = g != 0; perm[j] = g ? -1 : 0; }
      s->removeCols(perm);
   }
   check(s, p, rowgone, colgone);
   vp_cover(1);
}
extern "C" void h_c04_removed_row_colrep() { remove_one<Solver::COLUMN, true>(); }
extern "C" void h_c04_removed_col_colrep() { remove_one<Solver::COLUMN, false>(); }
extern "C" void h_c04_removed_row_rowrep() { remove_one<Solver::ROW, true>(); }
extern "C" void h_c04_removed_col_rowrep() { remove_one<Solver::ROW, false>(); }
extern "C" void h_c04_removed_perm_colrep() { remove_perm<Solver::COLUMN>(); }
extern "C" void h_c04_removed_perm_rowrep() { remove_perm<Solver::ROW>(); }
