// soplex_all.h - includes the whole library with private members reachable (harness TUs only)
#pragma once
#include <memory>
#include <string>
#include <vector>
#include <iostream>
#include <sstream>
#include <fstream>
#include <map>
#include <set>
#include <algorithm>
#include <functional>
#include <limits>
#include <cmath>
#include <cstring>
#define private public
#define protected public
#include "soplex.h"
#undef private
#undef protected
#include "vp.h"
