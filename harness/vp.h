// vp.h - harness API. One harness source, two builds:
//   solver build : clang -> LLVM IR -> ll2c -> C -> CBMC (primitives become nondet/assume/assert)
//   native build : g++ against the real /repo sources (primitives read a replay vector): replay + translation validation
#pragma once
extern "C" {
int vp_nondet_int(void);
long vp_nondet_long(void);
double vp_nondet_double(void);
unsigned char vp_nondet_uchar(void);
unsigned char vp_nondet_bool(void);
int vp_int_in(int lo, int hi);          // arbitrary value in [lo,hi]
void vp_assume(int c);                  // precondition: place before the code it constrains
void vp_assert(int c, int id);          // the property; every call site is its own solver property
void vp_cover(int id);                  // reachability witness: the solver must find an execution reaching it
void vp_out(unsigned long v);           // observable output folded into a digest (native builds only)
}
// small integer-valued double in [lo,hi]
static inline double vp_small(int lo, int hi) { return (double)vp_int_in(lo, hi); }
// +-2^k, k in [0,kmax]
static inline double vp_pow2(int kmax) { int k = vp_int_in(0, kmax); int s = vp_int_in(0, 1); double v = (double)(1 << k); return s ? -v : v; }
