// C04-O1: VarStatus <-> descriptor status conversion of SPxSolverBase<double> with the real SPxBasisBase::dual*Status,
// on a real LP (bounds/sides finite or infinite). Solver build: `this` is raw zero memory whose SPxLPBase base subobject
// is a really constructed LP; native build: a real SPxSolverBase with the same LP loaded.
#include "lp_build.h"
#include <new>
using namespace soplex; using namespace vph;
typedef SPxSolverBase<double> Solver;
typedef SPxBasisBase<double> Basis;
typedef Basis::Desc Desc;
#ifndef VNR
#define VNR 2
#define VNC 2
#endif
// LP with the given dimensions and an empty matrix (only bounds and sides matter for the basis status logic), built by the
// real base-class adders; the bound/side vectors are pre-sized (one allocation instead of one per add), then overwritten in
// place through the real write accessors with symbolic values: small ints or +-infinity, lower <= upper.
struct Bnd { double lhs[VNR], rhs[VNR], lo[VNC], up[VNC]; };
static void build_bounds(SPxLPBase<double>& lp, Bnd& d)
{
   LPColSetBase<double>& cs = lp; LPRowSetBase<double>& rs = lp;
   cs.low.reDim(VNC); cs.up.reDim(VNC); cs.object.reDim(VNC); cs.scaleExp.reSize(VNC);
   rs.left.reDim(VNR); rs.right.reDim(VNR); rs.object.reDim(VNR); rs.scaleExp.reSize(VNR);
   DSVectorBase<double> e(1);
   for(int j = 0; j < VNC; ++j) cs.add(0.0, 0.0, e, 1.0);
   for(int i = 0; i < VNR; ++i) rs.add(0.0, e, 1.0);
   for(int j = 0; j < VNC; ++j)
   {
      d.lo[j] = bound_or_inf(8, false); d.up[j] = bound_or_inf(8, true);
      vp_assume(d.lo[j] <= d.up[j]);
      lp.lower_w(j) = d.lo[j]; lp.upper_w(j) = d.up[j];
   }
   for(int i = 0; i < VNR; ++i)
   {
      d.lhs[i] = bound_or_inf(8, false); d.rhs[i] = bound_or_inf(8, true);
      vp_assume(d.lhs[i] <= d.rhs[i]);
      lp.lhs_w(i) = d.lhs[i]; lp.rhs_w(i) = d.rhs[i];
   }
}
union SolverMem { Solver s; SolverMem() {} ~SolverMem() {} };
static SolverMem mem;

static Solver* make_solver(Bnd& d)
{
#ifdef VP_NATIVE
   LP lp; build_bounds(lp, d);
   static SPxOut out;
   Solver* s = new Solver(Solver::LEAVE, Solver::COLUMN);
   s->setOutstream(out);
   s->loadLP(lp);
   return s;
#else
   Solver* s = &mem.s;
   LP* lp = new(static_cast<SPxLPBase<double>*>(s)) LP();     // the LP part of the solver is a real, constructed LP
   build_bounds(*lp, d);
   s->Basis::theLP = s;
   s->theRep = Solver::COLUMN;
   return s;
#endif
}
// reference: table in the documentation of SPxBasisBase::Desc (spxbasis.h), written from the bound type
static int ref_dual(double lo, double up)
{
   bool flo = lo > -(double)infinity, fup = up < (double)infinity;
   if(flo && fup) return lo == up ? Desc::D_FREE : Desc::D_ON_BOTH;
   if(flo) return Desc::D_ON_UPPER;
   if(fup) return Desc::D_ON_LOWER;
   return Desc::D_UNDEFINED;
}
static int ref_primal(int vs)
{
   return vs == Solver::ON_UPPER ? Desc::P_ON_UPPER : vs == Solver::ON_LOWER ? Desc::P_ON_LOWER : vs == Solver::FIXED ? Desc::P_FIXED : Desc::P_FREE;
}
// C04 text: not nonbasic at an infinite bound, FIXED only with equal bounds, ZERO only for a free variable
static bool valid_for(int vs, double lo, double up)
{
   bool flo = lo > -(double)infinity, fup = up < (double)infinity;
   switch(vs)
   {
   case Solver::ON_UPPER: return fup;
   case Solver::ON_LOWER: return flo;
   case Solver::FIXED: return lo == up;
   case Solver::ZERO: return !flo && !fup;
   case Solver::BASIC: return true;
   }
   return false;
}
static bool is_primal(int st) { return st == Desc::P_ON_LOWER || st == Desc::P_ON_UPPER || st == Desc::P_FIXED || st == Desc::P_FREE; }
static bool is_dual(int st) { return st == Desc::D_FREE || st == Desc::D_ON_UPPER || st == Desc::D_ON_LOWER || st == Desc::D_ON_BOTH || st == Desc::D_UNDEFINED; }

// column j / row i with every VarStatus: to-descriptor status is the documented one, and converting back returns the input
extern "C" void h_c04_conv_col()
{
   Bnd d; Solver* s = make_solver(d);
   int j = vp_int_in(0, VNC - 1);
   int vs = vp_int_in(Solver::ON_UPPER, Solver::BASIC);
   Desc::Status st = s->varStatusToBasisStatusCol(j, (Solver::VarStatus)vs);
   if(vs == Solver::BASIC)
   {
      vp_assert(st == ref_dual(d.lo[j], d.up[j]), 1);
      vp_assert(is_dual(st), 2);
   }
   else
   {
      vp_assert(st == ref_primal(vs), 3);
      vp_assert(is_primal(st), 4);
   }
   vp_assert(s->basisStatusToVarStatus(st) == vs, 5);
   // basic <=> the descriptor status is what the COLUMN representation calls basic
   vp_assert(s->isBasic(st) == (vs == Solver::BASIC), 6);
   // the other entry points to the same table
   vp_assert(s->dualColStatus(j) == ref_dual(d.lo[j], d.up[j]), 7);
   vp_assert(s->dualStatus(s->cId(j)) == ref_dual(d.lo[j], d.up[j]), 8);
   vp_assert(s->dualStatus(SPxId(s->cId(j))) == ref_dual(d.lo[j], d.up[j]), 9);
   vp_cover(1);
}
extern "C" void h_c04_conv_row()
{
   Bnd d; Solver* s = make_solver(d);
   int i = vp_int_in(0, VNR - 1);
   int vs = vp_int_in(Solver::ON_UPPER, Solver::BASIC);
   Desc::Status st = s->varStatusToBasisStatusRow(i, (Solver::VarStatus)vs);
   if(vs == Solver::BASIC)
   {
      vp_assert(st == ref_dual(d.lhs[i], d.rhs[i]), 1);
      vp_assert(is_dual(st), 2);
   }
   else
   {
      vp_assert(st == ref_primal(vs), 3);
      vp_assert(is_primal(st), 4);
   }
   vp_assert(s->basisStatusToVarStatus(st) == vs, 5);
   vp_assert(s->isBasic(st) == (vs == Solver::BASIC), 6);
   vp_assert(s->dualRowStatus(i) == ref_dual(d.lhs[i], d.rhs[i]), 7);
   vp_assert(s->dualStatus(s->rId(i)) == ref_dual(d.lhs[i], d.rhs[i]), 8);
   vp_assert(s->dualStatus(SPxId(s->rId(i))) == ref_dual(d.lhs[i], d.rhs[i]), 9);
   vp_cover(1);
}
// descriptor status -> VarStatus -> descriptor status is the identity on every status that is consistent with the bounds
// (P_* arbitrary, D_* = the dual status of the bound type); D_* always reads as BASIC
extern "C" void h_c04_conv_back()
{
   Bnd d; Solver* s = make_solver(d);
   static const int all[9] = { Desc::P_ON_LOWER, Desc::P_ON_UPPER, Desc::P_FREE, Desc::P_FIXED, Desc::D_FREE, Desc::D_ON_UPPER, Desc::D_ON_LOWER, Desc::D_ON_BOTH, Desc::D_UNDEFINED };
   int k = vp_int_in(0, 8);
   int st = all[k];
   int j = vp_int_in(0, VNC - 1);
   int i = vp_int_in(0, VNR - 1);
   Solver::VarStatus vs = s->basisStatusToVarStatus((Desc::Status)st);
   vp_assert((vs == Solver::BASIC) == (st > 0), 1);
   vp_assert(vs != Solver::UNDEFINED, 2);
   if(st < 0 || st == ref_dual(d.lo[j], d.up[j])) vp_assert(s->varStatusToBasisStatusCol(j, vs) == st, 3);
   if(st < 0 || st == ref_dual(d.lhs[i], d.rhs[i])) vp_assert(s->varStatusToBasisStatusRow(i, vs) == st, 4);
   vp_cover(1);
}
// a whole basis: arbitrary VarStatus arrays that are valid in the sense of the C04 text (VNR basic, no nonbasic at an
// infinite bound, FIXED only for equal bounds, ZERO only for free), converted entry by entry as setBasis() does,
// are accepted by the real descriptor validation SPxBasisBase::isDescValid; one violated condition => rejected
extern "C" void h_c04_conv_desc()
{
   Bnd d; Solver* s = make_solver(d);
   int rs[VNR], cs[VNC]; int nb = 0; bool ok = true;
   for(int i = 0; i < VNR; ++i) { rs[i] = vp_int_in(Solver::ON_UPPER, Solver::BASIC); if(rs[i] == Solver::BASIC) ++nb; if(!valid_for(rs[i], d.lhs[i], d.rhs[i])) ok = false; }
   for(int j = 0; j < VNC; ++j) { cs[j] = vp_int_in(Solver::ON_UPPER, Solver::BASIC); if(cs[j] == Solver::BASIC) ++nb; if(!valid_for(cs[j], d.lo[j], d.up[j])) ok = false; }
   Desc ds;
   ds.reSize(VNR, VNC);
   for(int i = 0; i < VNR; ++i) ds.rowStatus(i) = s->varStatusToBasisStatusRow(i, (Solver::VarStatus)rs[i]);
   for(int j = 0; j < VNC; ++j) ds.colStatus(j) = s->varStatusToBasisStatusCol(j, (Solver::VarStatus)cs[j]);
   bool acc = s->Basis::isDescValid(ds);
   if(ok && nb == VNR) vp_assert(acc, 1);
   if(nb != VNR) vp_assert(!acc, 2);
   // rejected or accepted exactly by the per-variable conditions of the descriptor level (ZERO at a bounded variable is tolerated there)
   bool ok2 = true;
   for(int i = 0; i < VNR; ++i) if(rs[i] != Solver::ZERO && !valid_for(rs[i], d.lhs[i], d.rhs[i])) ok2 = false;
   for(int j = 0; j < VNC; ++j) if(cs[j] != Solver::ZERO && !valid_for(cs[j], d.lo[j], d.up[j])) ok2 = false;
   vp_assert(acc == (ok2 && nb == VNR), 3);
   // reading the descriptor back gives the input arrays
   for(int i = 0; i < VNR; ++i) vp_assert(s->basisStatusToVarStatus(ds.rowStatus(i)) == rs[i], 4);
   for(int j = 0; j < VNC; ++j) vp_assert(s->basisStatusToVarStatus(ds.colStatus(j)) == cs[j], 5);
   vp_cover(1);
}
