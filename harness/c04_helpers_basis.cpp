// C04-O4 / C11-O1: basis bookkeeping of the private LP-modification helpers of SoPlexBase<double>
// (_addRowReal ... _removeColsReal, soplex.hpp 7493-8157).
//
// Contract style. The helpers run as they are; `this` is typed zero memory (solver build) with
//   _realLP            -> FakeLP, a genuine subclass of SPxLPBase<double> that overrides every virtual modification entry
//                         point with a recording model (base constructor replaced by a no-op: raw memory + real vtable);
//                         nRows()/nCols() and SoPlexBase::lhsReal/rhsReal/lowerReal/upperReal are replaced by models that
//                         report the modelled LP AFTER the modification (that is when the helpers call them);
//   _solver.thestatus  -> scripted basis status (read by the real _solver.basis().status());
//   _basisStatusRows/_basisStatusCols -> real DataArray<VarStatus>, pre-sized (no reallocation), arbitrary valid content;
//   _rationalLUSolver.clear() -> replaced by a counting model (C11-O1).
// Three branches:  loaded (_isRealLPLoaded)            : _hasBasis := (basis status > NO_PROBLEM), stored arrays untouched
//                  unloaded, no basis                   : nothing to maintain
//                  unloaded, basis stored (_hasBasis)   : SoPlexBase maintains the stored statuses itself -> reference model
// The third branch is reachable through the public API: optimize() on the empty LP with SIMPLIFIER_OFF and
// PERSISTENTSCALING=false leaves _isRealLPLoaded == false (status ERROR); setBasis() then stores a basis in the arrays.
//
// Native build (-DVP_NATIVE): a real SoPlex object and a FakeLP that is a real LP (overrides record and forward).
#include "soplex_all.h"
#include <new>
using namespace soplex;
typedef SoPlex SP;
typedef SPxLPBase<double> RLP;
typedef SPxSolverBase<double> SV;
typedef SV::VarStatus VS;

#ifndef NR0
#define NR0 3
#define NC0 2
#define MAXD 6        // >= NR0 + NSET
#endif
#define NSET 2
enum { F_addRow = 1, F_addRowV, F_addRows, F_addCol, F_addColV, F_addCols, F_chgRow, F_chgCol, F_chgLhsV, F_chgLhsI, F_chgRhsV, F_chgRhsI, F_chgRangeV, F_chgRangeI,
       F_chgLowerV, F_chgLowerI, F_chgUpperV, F_chgUpperI, F_chgBoundsV, F_chgBoundsI, F_chgElem, F_rmRow, F_rmRows, F_rmCol, F_rmCols };

struct Rec { int n, fn, i, j, scale, nv; double v[2 * MAXD]; int pat[MAXD]; const void* a; const void* b; };
static Rec R_;
struct Shadow { int nr, nc; double lhs[MAXD], rhs[MAXD], lo[MAXD], up[MAXD]; };
static Shadow L;              // the real LP's bounds as modelled (solver build: what lhsReal() etc. report)
static int g_luclears, g_depth;
struct SetDesc { const void* addr; int n; double b1[NSET], b2[NSET]; };
static SetDesc g_rowset, g_colset;
#ifdef VP_NATIVE
#define NESTED(call) if(g_depth > 0) { B::call; return; }
#define FWD(call) do { this->_isScaled = false; ++g_depth; B::call; --g_depth; } while(0)
#else
#define NESTED(call)
#define FWD(call) do { } while(0)
#endif
static void setb(const LPRowSetBase<double>& s, Rec& r)
{
#ifdef VP_NATIVE
   r.nv = 2 * s.num(); for(int k = 0; k < s.num() && k < NSET; ++k) { r.v[2 * k] = s.lhs(k); r.v[2 * k + 1] = s.rhs(k); }
#else
   if(&s != g_rowset.addr) { r.nv = -1; return; }
   r.nv = 2 * g_rowset.n; for(int k = 0; k < NSET; ++k) if(k < g_rowset.n) { r.v[2 * k] = g_rowset.b1[k]; r.v[2 * k + 1] = g_rowset.b2[k]; }
#endif
}
static void setb(const LPColSetBase<double>& s, Rec& r)
{
#ifdef VP_NATIVE
   r.nv = 2 * s.num(); for(int k = 0; k < s.num() && k < NSET; ++k) { r.v[2 * k] = s.lower(k); r.v[2 * k + 1] = s.upper(k); }
#else
   if(&s != g_colset.addr) { r.nv = -1; return; }
   r.nv = 2 * g_colset.n; for(int k = 0; k < NSET; ++k) if(k < g_colset.n) { r.v[2 * k] = g_colset.b1[k]; r.v[2 * k + 1] = g_colset.b2[k]; }
#endif
}
struct FakeLP : public RLP
{
   typedef RLP B;
   static Rec& begin(int fn) { Rec& r = R_; r.n++; r.fn = fn; r.i = -1; r.j = -1; r.scale = -1; r.nv = 0; r.a = nullptr; r.b = nullptr; return r; }
   void pushRow(double l, double h) { if(L.nr < MAXD) { L.lhs[L.nr] = l; L.rhs[L.nr] = h; } L.nr++; }
   void pushCol(double l, double h) { if(L.nc < MAXD) { L.lo[L.nc] = l; L.up[L.nc] = h; } L.nc++; }
   void addRow(const LPRowBase<double>& row, bool scale) override
   { NESTED(addRow(row, scale)) Rec& r = begin(F_addRow); r.scale = scale; r.a = &row; r.v[0] = row.lhs(); r.v[1] = row.rhs(); r.nv = 2; pushRow(r.v[0], r.v[1]); FWD(addRow(row, false)); }
   void addRow(const double& l, const SVectorBase<double>& vec, const double& h, bool scale) override
   { NESTED(addRow(l, vec, h, scale)) Rec& r = begin(F_addRowV); r.scale = scale; r.a = &vec; r.v[0] = l; r.v[1] = h; r.nv = 2; pushRow(l, h); FWD(addRow(l, vec, h, false)); }
   void addRows(const LPRowSetBase<double>& set, bool scale) override
   { NESTED(addRows(set, scale)) Rec& r = begin(F_addRows); r.scale = scale; r.a = &set; setb(set, r); for(int k = 0; k < NSET; ++k) if(2 * k < r.nv) pushRow(r.v[2 * k], r.v[2 * k + 1]); FWD(addRows(set, false)); }
   void addCol(const LPColBase<double>& col, bool scale) override
   { NESTED(addCol(col, scale)) Rec& r = begin(F_addCol); r.scale = scale; r.a = &col; r.v[0] = col.lower(); r.v[1] = col.upper(); r.nv = 2; pushCol(r.v[0], r.v[1]); FWD(addCol(col, false)); }
   void addCol(const double& obj, const double& l, const SVectorBase<double>& vec, const double& h, bool scale) override
   { NESTED(addCol(obj, l, vec, h, scale)) Rec& r = begin(F_addColV); r.scale = scale; r.a = &vec; r.v[0] = l; r.v[1] = h; r.v[2] = obj; r.nv = 3; pushCol(l, h); FWD(addCol(obj, l, vec, h, false)); }
   void addCols(const LPColSetBase<double>& set, bool scale) override
   { NESTED(addCols(set, scale)) Rec& r = begin(F_addCols); r.scale = scale; r.a = &set; setb(set, r); for(int k = 0; k < NSET; ++k) if(2 * k < r.nv) pushCol(r.v[2 * k], r.v[2 * k + 1]); FWD(addCols(set, false)); }
   void changeRow(int i, const LPRowBase<double>& row, bool scale) override
   { NESTED(changeRow(i, row, scale)) Rec& r = begin(F_chgRow); r.i = i; r.scale = scale; r.a = &row; r.v[0] = row.lhs(); r.v[1] = row.rhs(); r.nv = 2; if(i >= 0 && i < MAXD) { L.lhs[i] = r.v[0]; L.rhs[i] = r.v[1]; } FWD(changeRow(i, row, false)); }
   void changeCol(int i, const LPColBase<double>& col, bool scale) override
   { NESTED(changeCol(i, col, scale)) Rec& r = begin(F_chgCol); r.i = i; r.scale = scale; r.a = &col; r.v[0] = col.lower(); r.v[1] = col.upper(); r.nv = 2; if(i >= 0 && i < MAXD) { L.lo[i] = r.v[0]; L.up[i] = r.v[1]; } FWD(changeCol(i, col, false)); }
   void vec1(int fn, const VectorBase<double>& x, bool scale, int dim, double* dst)
   { Rec& r = begin(fn); r.scale = scale; r.a = &x; r.nv = dim; for(int k = 0; k < MAXD; ++k) if(k < dim) { r.v[k] = x[k]; dst[k] = r.v[k]; } }
   void vec2(int fn, const VectorBase<double>& x, const VectorBase<double>& y, bool scale, int dim, double* dx, double* dy)
   { Rec& r = begin(fn); r.scale = scale; r.a = &x; r.b = &y; r.nv = 2 * dim; for(int k = 0; k < MAXD; ++k) if(k < dim) { r.v[2 * k] = x[k]; r.v[2 * k + 1] = y[k]; dx[k] = x[k]; dy[k] = y[k]; } }
   void idx1(int fn, int i, const double& x, bool scale, double* dst)
   { Rec& r = begin(fn); r.i = i; r.scale = scale; r.v[0] = x; r.nv = 1; if(dst && i >= 0 && i < MAXD) dst[i] = x; }
   void idx2(int fn, int i, const double& x, const double& y, bool scale, double* dx, double* dy)
   { Rec& r = begin(fn); r.i = i; r.scale = scale; r.v[0] = x; r.v[1] = y; r.nv = 2; if(i >= 0 && i < MAXD) { dx[i] = x; dy[i] = y; } }
   void changeLhs(const VectorBase<double>& x, bool scale) override { NESTED(changeLhs(x, scale)) vec1(F_chgLhsV, x, scale, L.nr, L.lhs); FWD(changeLhs(x, false)); }
   void changeLhs(int i, const double& x, bool scale) override { NESTED(changeLhs(i, x, scale)) idx1(F_chgLhsI, i, x, scale, L.lhs); FWD(changeLhs(i, x, false)); }
   void changeRhs(const VectorBase<double>& x, bool scale) override { NESTED(changeRhs(x, scale)) vec1(F_chgRhsV, x, scale, L.nr, L.rhs); FWD(changeRhs(x, false)); }
   void changeRhs(int i, const double& x, bool scale) override { NESTED(changeRhs(i, x, scale)) idx1(F_chgRhsI, i, x, scale, L.rhs); FWD(changeRhs(i, x, false)); }
   void changeRange(const VectorBase<double>& x, const VectorBase<double>& y, bool scale) override { NESTED(changeRange(x, y, scale)) vec2(F_chgRangeV, x, y, scale, L.nr, L.lhs, L.rhs); FWD(changeRange(x, y, false)); }
   void changeRange(int i, const double& x, const double& y, bool scale) override { NESTED(changeRange(i, x, y, scale)) idx2(F_chgRangeI, i, x, y, scale, L.lhs, L.rhs); FWD(changeRange(i, x, y, false)); }
   void changeLower(const VectorBase<double>& x, bool scale) override { NESTED(changeLower(x, scale)) vec1(F_chgLowerV, x, scale, L.nc, L.lo); FWD(changeLower(x, false)); }
   void changeLower(int i, const double& x, bool scale) override { NESTED(changeLower(i, x, scale)) idx1(F_chgLowerI, i, x, scale, L.lo); FWD(changeLower(i, x, false)); }
   void changeUpper(const VectorBase<double>& x, bool scale) override { NESTED(changeUpper(x, scale)) vec1(F_chgUpperV, x, scale, L.nc, L.up); FWD(changeUpper(x, false)); }
   void changeUpper(int i, const double& x, bool scale) override { NESTED(changeUpper(i, x, scale)) idx1(F_chgUpperI, i, x, scale, L.up); FWD(changeUpper(i, x, false)); }
   void changeBounds(const VectorBase<double>& x, const VectorBase<double>& y, bool scale) override { NESTED(changeBounds(x, y, scale)) vec2(F_chgBoundsV, x, y, scale, L.nc, L.lo, L.up); FWD(changeBounds(x, y, false)); }
   void changeBounds(int i, const double& x, const double& y, bool scale) override { NESTED(changeBounds(i, x, y, scale)) idx2(F_chgBoundsI, i, x, y, scale, L.lo, L.up); FWD(changeBounds(i, x, y, false)); }
   void changeElement(int i, int j, const double& x, bool scale) override { NESTED(changeElement(i, j, x, scale)) idx1(F_chgElem, i, x, scale, nullptr); R_.j = j; FWD(changeElement(i, j, x, false)); }
   // single removal: the last row/column moves into the hole (documented renumbering of SPxLPBase::removeRow/removeCol)
   void removeRow(int i) override
   { NESTED(removeRow(i)) Rec& r = begin(F_rmRow); r.i = i; if(i >= 0 && i < L.nr && L.nr <= MAXD) { L.lhs[i] = L.lhs[L.nr - 1]; L.rhs[i] = L.rhs[L.nr - 1]; L.nr--; } FWD(removeRow(i)); }
   void removeCol(int i) override
   { NESTED(removeCol(i)) Rec& r = begin(F_rmCol); r.i = i; if(i >= 0 && i < L.nc && L.nc <= MAXD) { L.lo[i] = L.lo[L.nc - 1]; L.up[i] = L.up[L.nc - 1]; L.nc--; } FWD(removeCol(i)); }
   // removal by permutation: order-preserving compaction, perm[k] = new index (ClassSet::remove(int perm[]))
   void removeRows(int perm[]) override
   {
      NESTED(removeRows(perm))
      Rec& r = begin(F_rmRows); r.a = perm; int n = L.nr; r.nv = n; int j = 0;
      for(int k = 0; k < MAXD; ++k) if(k < n) { r.pat[k] = perm[k] < 0 ? 1 : 0; if(!r.pat[k]) { L.lhs[j] = L.lhs[k]; L.rhs[j] = L.rhs[k];
#ifndef VP_NATIVE
            perm[k] = j;
#endif
            ++j; } }
      L.nr = j;
      FWD(removeRows(perm));
   }
   void removeCols(int perm[]) override
   {
      NESTED(removeCols(perm))
      Rec& r = begin(F_rmCols); r.a = perm; int n = L.nc; r.nv = n; int j = 0;
      for(int k = 0; k < MAXD; ++k) if(k < n) { r.pat[k] = perm[k] < 0 ? 1 : 0; if(!r.pat[k]) { L.lo[j] = L.lo[k]; L.up[j] = L.up[k];
#ifndef VP_NATIVE
            perm[k] = j;
#endif
            ++j; } }
      L.nc = j;
      FWD(removeCols(perm));
   }
};
static FakeLP* g_fake;

#ifndef VP_NATIVE
extern "C" {
void m_rlp_ctor(RLP* self) { }
int m_rlp_nrows(const RLP* self) { return L.nr; }
int m_rlp_ncols(const RLP* self) { return L.nc; }
double m_lhsReal(const SP* self, int i) { return L.lhs[i]; }
double m_rhsReal(const SP* self, int i) { return L.rhs[i]; }
double m_lowerReal(const SP* self, int i) { return L.lo[i]; }
double m_upperReal(const SP* self, int i) { return L.up[i]; }
void m_lu_clear(SLUFactorRational* self) { g_luclears++; }
int m_rowset_num(const LPRowSetBase<double>* s) { return g_rowset.n; }
int m_colset_num(const LPColSetBase<double>* s) { return g_colset.n; }
const double* m_colset_lower(const LPColSetBase<double>* s, int i) { return &g_colset.b1[i]; }
const double* m_colset_upper(const LPColSetBase<double>* s, int i) { return &g_colset.b2[i]; }
}
#endif

// ---- set-up ------------------------------------------------------------------------------------------------------
union SoPlexMem { SP sp; SoPlexMem() {} ~SoPlexMem() {} };
union SettingsMem { SP::Settings st; SettingsMem() {} ~SettingsMem() {} };
#ifndef VP_NATIVE
static SoPlexMem mem;
static SettingsMem stmem;
#endif
static const double INF = 1e100;      // = soplex::infinity = default realParam(INFTY)
static bool fin_lo(double x) { return x > -INF; }
static bool fin_up(double x) { return x < INF; }
static double bound_or_inf(bool upper)
{
   int inf = vp_int_in(0, 1);
   double v = vp_small(-4, 4);
   return inf ? (upper ? INF : -INF) : v;
}
template<class T> static void init_arr(DataArray<T>& a, int size, int max)
{
#ifdef VP_NATIVE
   a.reMax(max, size);
#else
   new(&a) DataArray<T>(size, max);
#endif
}
// a status that is valid for the bound pair (C04: not nonbasic at an infinite bound, FIXED only with equal bounds)
static bool valid_status(int st, double lo, double up)
{
   if(st == SV::ON_LOWER) return fin_lo(lo);
   if(st == SV::ON_UPPER) return fin_up(up);
   if(st == SV::FIXED) return fin_lo(lo) && lo == up;
   if(st == SV::ZERO) return !fin_lo(lo) && !fin_up(up);
   return st == SV::BASIC;
}
struct State { bool hb; int nr, nc; int rs[MAXD], cs[MAXD]; double lhs[MAXD], rhs[MAXD], lo[MAXD], up[MAXD]; };
static State P;               // pre-state, then turned into the expected post-state by the reference model
static bool g_loaded; static int g_bstat; static bool g_scaled;
// branch 0: loaded, or unloaded without basis;  branch 1: unloaded with a stored basis
static SP* setup(int branch)
{
   P.nr = NR0; P.nc = NC0;
   int nbasic = 0;
   for(int i = 0; i < NR0; ++i)
   {
      P.lhs[i] = bound_or_inf(false); P.rhs[i] = bound_or_inf(true); vp_assume(P.lhs[i] <= P.rhs[i]);
      P.rs[i] = vp_int_in(0, 4); vp_assume(valid_status(P.rs[i], P.lhs[i], P.rhs[i])); if(P.rs[i] == SV::BASIC) ++nbasic;
   }
   for(int j = 0; j < NC0; ++j)
   {
      P.lo[j] = bound_or_inf(false); P.up[j] = bound_or_inf(true); vp_assume(P.lo[j] <= P.up[j]);
      P.cs[j] = vp_int_in(0, 4); vp_assume(valid_status(P.cs[j], P.lo[j], P.up[j])); if(P.cs[j] == SV::BASIC) ++nbasic;
   }
   bool loaded = vp_nondet_bool();
   bool hb = vp_nondet_bool();
   int bstat = vp_int_in(-2, 5);
   bool scaled = vp_nondet_bool();
   if(branch == 0) vp_assume(loaded || !hb); else { vp_assume(!loaded && hb); vp_assume(nbasic == NR0); }
   P.hb = hb; g_loaded = loaded; g_bstat = bstat; g_scaled = scaled;
   L.nr = NR0; L.nc = NC0;
   for(int k = 0; k < NR0; ++k) { L.lhs[k] = P.lhs[k]; L.rhs[k] = P.rhs[k]; }
   for(int k = 0; k < NC0; ++k) { L.lo[k] = P.lo[k]; L.up[k] = P.up[k]; }
#ifdef VP_NATIVE
   SP* sp = new SP();
   g_depth = 1;                   // nothing is recorded while the LP is being built
   g_fake = new FakeLP();
   g_fake->setTolerances(std::make_shared<Tolerances>());
   DSVectorBase<double> empty(1);
   for(int j = 0; j < NC0; ++j) { LPColBase<double> c(1.0, empty, P.up[j], P.lo[j]); g_fake->RLP::addCol(c, false); }
   for(int i = 0; i < NR0; ++i) { DSVectorBase<double> rv(NC0); rv.add(i % NC0, 1.0); LPRowBase<double> r(P.lhs[i], rv, P.rhs[i]); g_fake->RLP::addRow(r, false); }
   g_depth = 0;
   sp->_currentSettings->_intParamValues[SP::VERBOSITY] = 0;
   sp->_solver.SPxBasisBase<double>::thestatus = (SPxBasisBase<double>::SPxStatus)bstat;
   sp->_rationalLUSolver.stat = SLinSolverRational::OK;
#else
   SP* sp = &mem.sp;
   sp->_currentSettings = &stmem.st;
   sp->_currentSettings->_realParamValues[SP::INFTY] = INF;
   g_fake = new FakeLP();
   sp->_solver.thestatus = (SPxBasisBase<double>::SPxStatus)bstat;
#endif
   sp->_realLP = g_fake; sp->_isRealLPLoaded = loaded; sp->_hasBasis = hb;
   g_fake->_isScaled = scaled;
   init_arr(sp->_basisStatusRows, NR0, MAXD); init_arr(sp->_basisStatusCols, NC0, MAXD);
   for(int i = 0; i < NR0; ++i) sp->_basisStatusRows[i] = (VS)P.rs[i];
   for(int j = 0; j < NC0; ++j) sp->_basisStatusCols[j] = (VS)P.cs[j];
   // the spare capacity behind size() holds arbitrary (but replayable) leftovers
   for(int k = NR0; k < MAXD; ++k) { int g = vp_int_in(0, 5); sp->_basisStatusRows.get_ptr()[k] = (VS)g; }
   for(int k = NC0; k < MAXD; ++k) { int g = vp_int_in(0, 5); sp->_basisStatusCols.get_ptr()[k] = (VS)g; }
   R_.n = 0; g_luclears = 0;
   return sp;
}
static bool lu_cleared(SP* sp)
{
#ifdef VP_NATIVE
   return sp->_rationalLUSolver.status() == SLinSolverRational::UNLOADED;
#else
   return g_luclears >= 1;
#endif
}
static bool same(double a, double b) { return std::memcmp(&a, &b, sizeof a) == 0; }

// ---- reference rules ---------------------------------------------------------------------------------------------
// a nonbasic variable whose bound disappears moves to the other bound, or to ZERO if that one is infinite too
static int fix_status(int st, double newlo, double newup)
{
   if(st == SV::ON_LOWER && !fin_lo(newlo)) return fin_up(newup) ? SV::ON_UPPER : SV::ZERO;
   if(st == SV::ON_UPPER && !fin_up(newup)) return fin_lo(newlo) ? SV::ON_LOWER : SV::ZERO;
   return st;
}
static int new_col_status(double lo, double up) { return fin_lo(lo) ? SV::ON_LOWER : (fin_up(up) ? SV::ON_UPPER : SV::ZERO); }
static bool g_fixed_only;     // entry checks only the FIXED rule
// post-conditions; P holds the expected post-state (P.hb, sizes, statuses, bounds)
#ifdef VP_NATIVE
static const char* stn(int s) { static const char* n[] = {"ON_UPPER", "ON_LOWER", "FIXED", "ZERO", "BASIC", "UNDEFINED"}; return (s >= 0 && s <= 5) ? n[s] : "garbage"; }
static void dump(SP* sp, int branch, int fn, const State& pre)
{  // VP_DEBUG=1 <exe> <entry> <replay>: human-readable account of the replayed execution
   if(!getenv("VP_DEBUG")) return;
   printf("branch=%s loaded=%d hasBasis(pre)=%d basisStatus=%d  LP call fn=%d i=%d j=%d nv=%d v=(%g,%g) removal pattern=", branch ? "unloaded+basis" : "loaded/no basis", (int)g_loaded, (int)pre.hb, g_bstat, R_.fn, R_.i, R_.j, R_.nv, R_.v[0], R_.v[1]);
   for(int k = 0; k < MAXD && k < R_.nv && (fn == F_rmRows || fn == F_rmCols); ++k) printf("%d", R_.pat[k]);
   printf("\n pre : rows"); for(int k = 0; k < pre.nr; ++k) printf(" %s[%g,%g]", stn(pre.rs[k]), pre.lhs[k], pre.rhs[k]);
   printf(" | cols"); for(int k = 0; k < pre.nc; ++k) printf(" %s[%g,%g]", stn(pre.cs[k]), pre.lo[k], pre.up[k]);
   printf("\n want: hasBasis=%d rows", (int)P.hb); for(int k = 0; k < P.nr; ++k) printf(" %s[%g,%g]", stn(P.rs[k]), P.lhs[k], P.rhs[k]);
   printf(" | cols"); for(int k = 0; k < P.nc; ++k) printf(" %s[%g,%g]", stn(P.cs[k]), P.lo[k], P.up[k]);
   printf("\n got : hasBasis=%d rows(%d)", (int)sp->_hasBasis, sp->_basisStatusRows.size()); for(int k = 0; k < sp->_basisStatusRows.size() && k < MAXD; ++k) printf(" %s", stn(sp->_basisStatusRows[k]));
   printf(" | cols(%d)", sp->_basisStatusCols.size()); for(int k = 0; k < sp->_basisStatusCols.size() && k < MAXD; ++k) printf(" %s", stn(sp->_basisStatusCols[k]));
   printf("  LP now %dx%d\n", sp->numRows(), sp->numCols());
}
#endif
static void check(SP* sp, int branch, int fn, bool hasScaleArg, const State& pre)
{
#ifdef VP_NATIVE
   dump(sp, branch, fn, pre);
#endif
   if(!g_fixed_only)
   {
      vp_assert(R_.n == 1 && R_.fn == fn, 1);                                  // exactly one LP call, the right one
      if(hasScaleArg) vp_assert(R_.scale == (g_scaled ? 1 : 0), 3);            // scale = _realLP->isScaled()
      vp_assert(lu_cleared(sp), 13);                                           // C11-O1: rational LU cache dropped
   }
   if(branch == 0)
   {
      if(g_loaded) vp_assert(sp->_hasBasis == (g_bstat > SPxBasisBase<double>::NO_PROBLEM), 14);   // re-derived from the solver
      else vp_assert(!sp->_hasBasis, 14);
      // the stored arrays are not touched
      vp_assert(sp->_basisStatusRows.size() == pre.nr && sp->_basisStatusCols.size() == pre.nc, 15);
      for(int k = 0; k < MAXD; ++k) { if(k < pre.nr) vp_assert(sp->_basisStatusRows[k] == pre.rs[k], 15); if(k < pre.nc) vp_assert(sp->_basisStatusCols[k] == pre.cs[k], 15); }
      return;
   }
   if(g_fixed_only)
   {
      if(sp->_hasBasis)
      {  // C04: no variable is marked FIXED while its bounds differ
         for(int k = 0; k < MAXD; ++k)
         {
            if(k < P.nr && k < sp->_basisStatusRows.size() && sp->_basisStatusRows[k] == SV::FIXED) vp_assert(P.lhs[k] == P.rhs[k], 22);
            if(k < P.nc && k < sp->_basisStatusCols.size() && sp->_basisStatusCols[k] == SV::FIXED) vp_assert(P.lo[k] == P.up[k], 22);
         }
      }
      return;
   }
   vp_assert(sp->_hasBasis == P.hb, 17);                                       // basis kept / dropped as the reference says
   if(!P.hb) return;
   vp_assert(sp->_basisStatusRows.size() == P.nr && sp->_basisStatusCols.size() == P.nc, 18);   // one status per row / column
   int nbasic = 0;
   for(int k = 0; k < MAXD; ++k)
   {
      if(k < P.nr && k < sp->_basisStatusRows.size())
      {
         int st = sp->_basisStatusRows[k];
         vp_assert(st == P.rs[k], 19);
         vp_assert(!(st == SV::ON_LOWER && !fin_lo(P.lhs[k])) && !(st == SV::ON_UPPER && !fin_up(P.rhs[k])), 21);
         if(st == SV::BASIC) ++nbasic;
      }
      if(k < P.nc && k < sp->_basisStatusCols.size())
      {
         int st = sp->_basisStatusCols[k];
         vp_assert(st == P.cs[k], 19);
         vp_assert(!(st == SV::ON_LOWER && !fin_lo(P.lo[k])) && !(st == SV::ON_UPPER && !fin_up(P.up[k])), 21);
         if(st == SV::BASIC) ++nbasic;
      }
   }
   vp_assert(nbasic == P.nr, 20);                                              // exactly one basic variable per row
}

// argument objects
static LPRowBase<double>* make_row(double l, double h) { LPRowBase<double>* r = new LPRowBase<double>(1); r->setLhs(l); r->setRhs(h); return r; }
static LPColBase<double>* make_col(double l, double h) { LPColBase<double>* c = new LPColBase<double>(1); c->setLower(l); c->setUpper(h); c->setObj(1.0); return c; }
union RowSetMem { LPRowSetBase<double> s; RowSetMem() {} ~RowSetMem() {} };
union ColSetMem { LPColSetBase<double> s; ColSetMem() {} ~ColSetMem() {} };
static LPRowSetBase<double>* make_rowset(int n, const double* l, const double* h)
{
#ifdef VP_NATIVE
   LPRowSetBase<double>* s = new LPRowSetBase<double>(); DSVectorBase<double> empty(1);
   for(int k = 0; k < n; ++k) s->add(l[k], empty, h[k]);
#else
   static RowSetMem m; LPRowSetBase<double>* s = &m.s;
#endif
   g_rowset.addr = s; g_rowset.n = n; for(int k = 0; k < NSET; ++k) { g_rowset.b1[k] = l[k]; g_rowset.b2[k] = h[k]; }
   return s;
}
static LPColSetBase<double>* make_colset(int n, const double* l, const double* h)
{
#ifdef VP_NATIVE
   LPColSetBase<double>* s = new LPColSetBase<double>(); DSVectorBase<double> empty(1);
   for(int k = 0; k < n; ++k) s->add(1.0, l[k], empty, h[k]);
#else
   static ColSetMem m; LPColSetBase<double>* s = &m.s;
#endif
   g_colset.addr = s; g_colset.n = n; for(int k = 0; k < NSET; ++k) { g_colset.b1[k] = l[k]; g_colset.b2[k] = h[k]; }
   return s;
}

// ====================================================================================================================
// ADD: 0 _addRowReal(lprow)  1 _addRowReal(lhs,vec,rhs)  2 _addRowsReal(set)  3 _addColReal(lpcol)  4 _addColsReal(set)  5 _addColReal(obj,lower,vec,upper)
static void fam_add(int branch, int wlo, int whi)
{
   SP* sp = setup(branch); State pre = P;
   int which = vp_int_in(wlo, whi);
   double l[NSET], h[NSET];
   for(int k = 0; k < NSET; ++k) { l[k] = bound_or_inf(false); h[k] = bound_or_inf(true); vp_assume(l[k] <= h[k]); }
   int n = vp_int_in(0, NSET);
   DSVectorBase<double>* dvec = new DSVectorBase<double>(1);
   const SVectorBase<double>* vec = dvec;       // the helpers take the SVectorBase part
   int fn = 0;
   if(which == 0)
   {
      LPRowBase<double>* row = make_row(l[0], h[0]); sp->_addRowReal(*row); fn = F_addRow;
      vp_assert(R_.a == row && same(R_.v[0], l[0]) && same(R_.v[1], h[0]), 2);
      P.lhs[P.nr] = l[0]; P.rhs[P.nr] = h[0]; P.rs[P.nr] = SV::BASIC; P.nr++;              // a new row enters the basis with its slack
   }
   else if(which == 1)
   {
      sp->_addRowReal(l[0], *vec, h[0]); fn = F_addRowV;
      vp_assert(R_.a == vec && same(R_.v[0], l[0]) && same(R_.v[1], h[0]), 2);
      P.lhs[P.nr] = l[0]; P.rhs[P.nr] = h[0]; P.rs[P.nr] = SV::BASIC; P.nr++;
   }
   else if(which == 2)
   {
      LPRowSetBase<double>* set = make_rowset(n, l, h); sp->_addRowsReal(*set); fn = F_addRows;
      vp_assert(R_.a == set && R_.nv == 2 * n, 2);
      for(int k = 0; k < NSET; ++k) if(k < n) { P.lhs[P.nr] = l[k]; P.rhs[P.nr] = h[k]; P.rs[P.nr] = SV::BASIC; P.nr++; }
   }
   else if(which == 3)
   {
      LPColBase<double>* col = make_col(l[0], h[0]); sp->_addColReal(*col); fn = F_addCol;
      vp_assert(R_.a == col && same(R_.v[0], l[0]) && same(R_.v[1], h[0]), 2);
      P.lo[P.nc] = l[0]; P.up[P.nc] = h[0]; P.cs[P.nc] = new_col_status(l[0], h[0]); P.nc++;  // a new column is nonbasic at a finite bound (or ZERO)
   }
   else if(which == 4)
   {
      LPColSetBase<double>* set = make_colset(n, l, h); sp->_addColsReal(*set); fn = F_addCols;
      vp_assert(R_.a == set && R_.nv == 2 * n, 2);
      for(int k = 0; k < NSET; ++k) if(k < n) { P.lo[P.nc] = l[k]; P.up[P.nc] = h[k]; P.cs[P.nc] = new_col_status(l[k], h[k]); P.nc++; }
   }
   else
   {
      double obj = vp_small(-4, 4);
      sp->_addColReal(obj, l[0], *vec, h[0]); fn = F_addColV;
      vp_assert(R_.a == vec && same(R_.v[0], l[0]) && same(R_.v[1], h[0]) && same(R_.v[2], obj), 2);
      P.lo[P.nc] = l[0]; P.up[P.nc] = h[0]; P.cs[P.nc] = new_col_status(l[0], h[0]); P.nc++;
   }
   check(sp, branch, fn, true, pre);
   vp_cover(1);
}
extern "C" void h_c04_ld_add() { fam_add(0, 0, 5); }
extern "C" void h_c04_unl_add() { fam_add(1, 0, 4); }
extern "C" void h_c04_unl_addcol_values() { fam_add(1, 5, 5); }

// CHANGE rows: 0 _changeRowReal 1 _changeLhsReal(vec) 2 _changeLhsReal(i) 3 _changeRhsReal(vec) 4 _changeRhsReal(i) 5 _changeRangeReal(vec,vec) 6 _changeRangeReal(i)
// CHANGE cols: 0 _changeColReal 1 _changeLowerReal(vec) 2 (i) 3 _changeUpperReal(vec) 4 (i) 5 _changeBoundsReal(vec,vec) 6 (i)
template<bool ROWS> static void fam_change(int branch)
{
   SP* sp = setup(branch); State pre = P;
   const int N = ROWS ? NR0 : NC0;
   double* elo = ROWS ? P.lhs : P.lo; double* eup = ROWS ? P.rhs : P.up; int* est = ROWS ? P.rs : P.cs;
   int which = vp_int_in(0, 6);
   int i = vp_int_in(0, N - 1);
   double l[NR0], h[NR0];
   for(int k = 0; k < N; ++k) { l[k] = bound_or_inf(false); h[k] = bound_or_inf(true); }
   VectorBase<double>* x = new VectorBase<double>(N); VectorBase<double>* y = new VectorBase<double>(N);
   for(int k = 0; k < N; ++k) { (*x)[k] = l[k]; (*y)[k] = h[k]; }
   int fn = 0;
   if(which == 0)
   {
      vp_assume(l[0] <= h[0]);
      if(ROWS) { LPRowBase<double>* row = make_row(l[0], h[0]); sp->_changeRowReal(i, *row); fn = F_chgRow; vp_assert(R_.a == row, 2); }
      else { LPColBase<double>* col = make_col(l[0], h[0]); sp->_changeColReal(i, *col); fn = F_chgCol; vp_assert(R_.a == col, 2); }
      vp_assert(R_.i == i && same(R_.v[0], l[0]) && same(R_.v[1], h[0]), 2);
      elo[i] = l[0]; eup[i] = h[0];
      // replacing a whole row keeps the basis iff its slack is basic; replacing a whole column keeps it iff the column is nonbasic
      if(ROWS) { if(est[i] != SV::BASIC) P.hb = false; }
      else { if(est[i] == SV::BASIC) P.hb = false; else est[i] = fix_status(est[i], l[0], h[0]); }
   }
   else if(which == 1 || which == 3)
   {
      bool lower = (which == 1);
      for(int k = 0; k < N; ++k) { if(lower) vp_assume(l[k] <= eup[k]); else vp_assume(elo[k] <= h[k]); }
      if(ROWS) { if(lower) { sp->_changeLhsReal(*x); fn = F_chgLhsV; } else { sp->_changeRhsReal(*y); fn = F_chgRhsV; } }
      else { if(lower) { sp->_changeLowerReal(*x); fn = F_chgLowerV; } else { sp->_changeUpperReal(*y); fn = F_chgUpperV; } }
      vp_assert(R_.a == (lower ? x : y) && R_.nv == N, 2);
      for(int k = 0; k < N; ++k) { if(lower) elo[k] = l[k]; else eup[k] = h[k]; est[k] = fix_status(est[k], elo[k], eup[k]); }
   }
   else if(which == 2 || which == 4)
   {
      bool lower = (which == 2);
      if(lower) vp_assume(l[0] <= eup[i]); else vp_assume(elo[i] <= h[0]);
      double val = lower ? l[0] : h[0];
      if(ROWS) { if(lower) { sp->_changeLhsReal(i, val); fn = F_chgLhsI; } else { sp->_changeRhsReal(i, val); fn = F_chgRhsI; } }
      else { if(lower) { sp->_changeLowerReal(i, val); fn = F_chgLowerI; } else { sp->_changeUpperReal(i, val); fn = F_chgUpperI; } }
      vp_assert(R_.i == i && same(R_.v[0], val), 2);
      if(lower) elo[i] = val; else eup[i] = val;
      est[i] = fix_status(est[i], elo[i], eup[i]);
   }
   else if(which == 5)
   {
      for(int k = 0; k < N; ++k) vp_assume(l[k] <= h[k]);
      if(ROWS) { sp->_changeRangeReal(*x, *y); fn = F_chgRangeV; } else { sp->_changeBoundsReal(*x, *y); fn = F_chgBoundsV; }
      vp_assert(R_.a == x && R_.b == y && R_.nv == 2 * N, 2);
      for(int k = 0; k < N; ++k) { elo[k] = l[k]; eup[k] = h[k]; est[k] = fix_status(est[k], l[k], h[k]); }
   }
   else
   {
      vp_assume(l[0] <= h[0]);
      if(ROWS) { sp->_changeRangeReal(i, l[0], h[0]); fn = F_chgRangeI; } else { sp->_changeBoundsReal(i, l[0], h[0]); fn = F_chgBoundsI; }
      vp_assert(R_.i == i && same(R_.v[0], l[0]) && same(R_.v[1], h[0]), 2);
      elo[i] = l[0]; eup[i] = h[0]; est[i] = fix_status(est[i], l[0], h[0]);
   }
   check(sp, branch, fn, true, pre);
   vp_cover(1);
}
extern "C" void h_c04_ld_change_rows() { fam_change<true>(0); }
extern "C" void h_c04_ld_change_cols() { fam_change<false>(0); }
extern "C" void h_c04_unl_change_rows() { fam_change<true>(1); }
extern "C" void h_c04_unl_change_cols() { fam_change<false>(1); }
extern "C" void h_c04_unl_change_rows_fixed() { g_fixed_only = true; fam_change<true>(1); }
extern "C" void h_c04_unl_change_cols_fixed() { g_fixed_only = true; fam_change<false>(1); }

// _changeElementReal(i, j, val): the basis matrix changes iff column j is basic and row i's slack is not
static void fam_elem(int branch)
{
   SP* sp = setup(branch); State pre = P;
   int i = vp_int_in(0, NR0 - 1);
   int j = vp_int_in(0, NC0 - 1);
   double val = vp_small(-4, 4);
   sp->_changeElementReal(i, j, val);
   vp_assert(R_.i == i && R_.j == j && same(R_.v[0], val), 2);
   if(P.rs[i] != SV::BASIC && P.cs[j] == SV::BASIC) P.hb = false;
   check(sp, branch, F_chgElem, true, pre);
   vp_cover(1);
}
extern "C" void h_c04_ld_change_elem() { fam_elem(0); }
extern "C" void h_c04_unl_change_elem() { fam_elem(1); }

// REMOVE: 0 _removeRowReal(i) 1 _removeColReal(i) 2 _removeRowsReal(perm) 3 _removeColsReal(perm)
static void fam_remove(int branch, int wlo, int whi)
{
   SP* sp = setup(branch); State pre = P;
   int which = vp_int_in(wlo, whi);
   bool rows = (which == 0 || which == 2);
   const int N = rows ? NR0 : NC0;
   double* elo = rows ? P.lhs : P.lo; double* eup = rows ? P.rhs : P.up; int* est = rows ? P.rs : P.cs; int& en = rows ? P.nr : P.nc;
   int* perm = rows ? new int[NR0] : new int[NC0];      // exact size
   int fn = 0;
   if(which <= 1)
   {
      int i = vp_int_in(0, N - 1);
      if(rows) { sp->_removeRowReal(i); fn = F_rmRow; } else { sp->_removeColReal(i); fn = F_rmCol; }
      vp_assert(R_.i == i, 2);
      // removing a row keeps the basis iff its slack is basic; removing a column keeps it iff the column is nonbasic
      if(rows ? (est[i] != SV::BASIC) : (est[i] == SV::BASIC)) P.hb = false;
      elo[i] = elo[N - 1]; eup[i] = eup[N - 1]; est[i] = est[N - 1]; en = N - 1;          // the last one moves into the hole
   }
   else
   {
      int del[NR0];
      for(int k = 0; k < N; ++k) { del[k] = vp_int_in(0, 1); int keepv = vp_int_in(0, 1000); perm[k] = del[k] ? -1 - keepv : keepv; }
      if(rows) { sp->_removeRowsReal(perm); fn = F_rmRows; } else { sp->_removeColsReal(perm); fn = F_rmCols; }
      vp_assert(R_.a == perm && R_.nv == N, 2);
      int jn = 0;
      for(int k = 0; k < N; ++k)
      {
         vp_assert(R_.pat[k] == del[k], 2);
         if(del[k]) { if(rows ? (est[k] != SV::BASIC) : (est[k] == SV::BASIC)) P.hb = false; }
         else { vp_assert(perm[k] == jn, 12); elo[jn] = elo[k]; eup[jn] = eup[k]; est[jn] = est[k]; ++jn; }   // survivors keep their status, at their new index
      }
      en = jn;
   }
   check(sp, branch, fn, false, pre);
   vp_cover(1);
}
extern "C" void h_c04_ld_remove() { fam_remove(0, 0, 3); }
extern "C" void h_c04_unl_remove_one() { fam_remove(1, 0, 1); }
extern "C" void h_c04_unl_remove_rows_perm() { fam_remove(1, 2, 2); }
extern "C" void h_c04_unl_remove_cols_perm() { fam_remove(1, 3, 3); }
