// C10: SLUFactor<double> on a family of CONCRETE matrices (entries +-2^k, every pivot a power of two => elimination and
// every solve stay dyadic = exact double arithmetic): every solve variant returns x with B x == b exactly (x^T B == b^T
// for left solves); after change() (Forest-Tomlin through solveRight4update, ETA through solveRight4update and through a
// caller-supplied eta vector) the same holds for the updated matrix. The factorization itself runs on concrete data
// (executed by the solver's constant propagation); a singular member must give SINGULAR.
// Right-hand sides: SYMBOLIC integers in -8..8 for the dense solves (solveRight/solveLeft on VectorBase), which are also
// the check after every update; CONCRETE tables (-DRHS_TABLE=k) for the semi-sparse variants (solveRight4update,
// solve2/3right4update, multi-rhs solveLeft, SSVector forms), whose index heaps branch on every intermediate value.
// The reference is the dense matrix B kept by the harness (dense matrix-vector product), never the code under test.
#include "soplex_all.h"
using namespace soplex;
#ifndef DIM
#define DIM 3
#endif
#ifndef MAT
#define MAT 1
#endif
#ifndef UTYPE
#define UTYPE 1   /* 0 = ETA, 1 = FOREST_TOMLIN */
#endif
// matrix family: B0[i][j] = row i, column j ; NEWCOL/UPD_IDX = replacement column for the update obligations
// (chosen so that the updated matrix has a power-of-two determinant as well)
#if DIM == 3
#if MAT == 0      /* diagonal */
static const double B0[3][3] = { {2, 0, 0}, {0, -4, 0}, {0, 0, 1} };
#define UPD_IDX 0
#elif MAT == 1    /* permuted upper triangular: only singletons */
static const double B0[3][3] = { {0, 2, 1}, {1, 0, 4}, {0, 0, -2} };
#define UPD_IDX 1
#elif MAT == 2    /* 2x2 bump [[1,1],[1,-1]] plus a singleton */
static const double B0[3][3] = { {1, 1, 0}, {1, -1, 2}, {0, 0, 4} };
#define UPD_IDX 1
#elif MAT == 3    /* dense lower triangular */
static const double B0[3][3] = { {1, 0, 0}, {2, -1, 0}, { -1, 4, 2} };
#define UPD_IDX 1
#elif MAT == 8    /* singular: zero column */
static const double B0[3][3] = { {1, 0, 2}, {0, 0, 1}, {4, 0, -1} };
#define UPD_IDX 1
#elif MAT == 9    /* singular: duplicate columns (inside a bump) */
static const double B0[3][3] = { {1, 1, 1}, {2, 2, -1}, {1, 1, 2} };
#define UPD_IDX 1
#elif MAT == 10   /* singular: two column singletons in the same row, the duplicate is the FIRST singleton column (stage-0 pivot row) */
static const double B0[3][3] = { {0, 1, 0}, {1, 0, 1}, {0, 0, 0} };
#define UPD_IDX 1
#elif MAT == 11   /* singular: two column singletons in the same row, duplicate of a later singleton column */
static const double B0[3][3] = { {0, 1, 1}, {1, 0, 0}, {0, 0, 0} };
#define UPD_IDX 1
#elif MAT == 12   /* singular: scaled duplicate of the first singleton column, remaining rows resolved by singletons */
static const double B0[3][3] = { {2, 4, 0}, {0, 0, 0}, {0, 0, 1} };
#define UPD_IDX 1
#endif
static const double NEWCOL0[3] = { 1, 0, 2 };
#else /* DIM == 4 */
#if MAT == 0      /* permuted upper triangular */
static const double B0[4][4] = { {0, 2, 1, 4}, {1, 0, 2, 0}, {0, 0, -4, 1}, {0, 0, 0, -2} };
#elif MAT == 1    /* 2x2 bump, block upper triangular */
static const double B0[4][4] = { {1, 1, 0, 2}, {1, -1, 4, 0}, {0, 0, 2, 1}, {0, 0, 0, -1} };
#elif MAT == 2    /* permuted lower triangular */
static const double B0[4][4] = { {0, 0, 2, 0}, {1, 0, -1, 0}, {2, -2, 1, 0}, {0, 4, 1, 1} };
#elif MAT == 3    /* 3x3 bump (cyclic) plus a singleton */
static const double B0[4][4] = { {1, 1, 0, 0}, {0, 1, 1, 0}, {1, 0, 1, 0}, {2, 0, 0, 4} };
#elif MAT == 8    /* singular: zero row */
static const double B0[4][4] = { {1, 0, 2, 0}, {0, 0, 0, 0}, {4, 1, -1, 0}, {0, 2, 0, 1} };
#endif
#define UPD_IDX 2
static const double NEWCOL0[4] = { 1, 0, 2, 0 };
#endif

// replacement column: NEWCOL0, or with -DALTCOL four times the old column (same pattern: the update stays on the diagonal)
struct NewCol
{
   double v[DIM];
   NewCol()
   {
      for(int i = 0; i < DIM; ++i)
#ifdef ALTCOL
         v[i] = 4.0 * B0[i][UPD_IDX];
#else
         v[i] = NEWCOL0[i];
#endif
   }
};
static const NewCol NEWCOLS;
#define NEWCOL (NEWCOLS.v)

struct LU
{
   SLUFactor<double> f;
   DSVectorBase<double> cols[DIM];
   const SVectorBase<double>* ptr[DIM];
   double B[DIM][DIM];
   std::shared_ptr<Tolerances> tol;
   LU(int utype = UTYPE)
   {
      tol = std::make_shared<Tolerances>();
      f.setTolerances(tol);
      f.setUtype(utype ? SLUFactor<double>::FOREST_TOMLIN : SLUFactor<double>::ETA);

      for(int j = 0; j < DIM; ++j)
      {
         cols[j] = DSVectorBase<double>(DIM);

         for(int i = 0; i < DIM; ++i)
         {
            B[i][j] = B0[i][j];

            if(B0[i][j] != 0.0)
               cols[j].add(i, B0[i][j]);
         }

         ptr[j] = &cols[j];
      }
   }
   void replaceCol()
   {
      for(int i = 0; i < DIM; ++i)
         B[i][UPD_IDX] = NEWCOL[i];
   }
};
// nonzero integer in -8..8 (one draw); with -DRHS_TABLE the values come from a small table of concrete right-hand sides
// selected by the variant (the semi-sparse solves branch on every intermediate value: symbolic values there are beyond
// the solver's reach, see the JSON)
#ifdef RHS_TABLE
static const double RHS_TAB[3][24] =
{
   {3, -2, 5, 1, 1, -4, 2, 7, -8, 6, -1, 4, -3, 8, 2, -5, 1, -7, 4, 4, -6, 2, 3, -1},      /* generic */
   {1, 1, 1, 1, 2, 2, 2, 2, -1, -1, -1, -1, 1, -1, 2, -2, 4, 4, -4, 2, 1, 2, 4, 8},        /* cancellations in the bumps */
   {4, -4, 8, -8, 2, 6, -2, -6, 1, 3, 5, 7, -8, -8, 8, 8, 6, -3, 6, -3, 5, 5, -5, 1}
};
static int rhs_pos = 0;
static double sym_nz()
{
   double v = RHS_TAB[RHS_TABLE][rhs_pos % 24];
   ++rhs_pos;
   return v;
}
#else
static double sym_nz()
{
   int k = vp_int_in(1, 16);
   return (double)(k <= 8 ? k : 8 - k);
}
#endif
static void sym_rhs(VectorBase<double>& b, double* ref)
{
   for(int i = 0; i < DIM; ++i)
   {
      ref[i] = vp_small(-8, 8);
      b[i] = ref[i];
   }
}
// sparse right-hand side with the full (concrete) pattern and symbolic nonzero values
static void sym_rhs_sv(DSVectorBase<double>& b, double* ref)
{
   for(int i = 0; i < DIM; ++i)
   {
      ref[i] = sym_nz();
      b.add(i, 1.0);          // SVectorBase::add skips zeros: concrete placeholder keeps the structure concrete,
      b.value(i) = ref[i];    // then the value is overwritten in place
   }
}
static void sym_rhs_ssv(SSVectorBase<double>& b, double* ref)
{
   for(int i = 0; i < DIM; ++i)
   {
      ref[i] = sym_nz();
      b.add(i, ref[i]);
   }
}
static void newcol_sv(DSVectorBase<double>& nc)
{
   for(int i = 0; i < DIM; ++i)
      if(NEWCOL[i] != 0.0)
         nc.add(i, NEWCOL[i]);
}
// B x == b exactly
template <class V>
static int ok_right(const double B[DIM][DIM], const V& x, const double* b)
{
   int ok = 1;

   for(int i = 0; i < DIM; ++i)
   {
      double s = 0;

      for(int j = 0; j < DIM; ++j)
         s += B[i][j] * x[j];

      ok &= (s == b[i]);
   }

   return ok;
}
// x^T B == b^T exactly
template <class V>
static int ok_left(const double B[DIM][DIM], const V& x, const double* b)
{
   int ok = 1;

   for(int j = 0; j < DIM; ++j)
   {
      double s = 0;

      for(int i = 0; i < DIM; ++i)
         s += x[i] * B[i][j];

      ok &= (s == b[j]);
   }

   return ok;
}
// a semi-sparse result that claims to be set up lists exactly its nonzeros
static int ok_setup(const SSVectorBase<double>& x)
{
   int ok = 1;

   if(x.isSetup())
   {
      int nz = 0;

      for(int i = 0; i < DIM; ++i)
         if(x[i] != 0.0)
         {
            ++nz;
            ok &= (x.pos(i) >= 0);
         }

      ok &= (nz <= x.size() && x.size() <= DIM);
   }

   return ok;
}
static void dense_solves(LU& lu)
{
   VectorBase<double> b(DIM), x(DIM);
   double br[DIM];
   sym_rhs(b, br);
   lu.f.solveRight(x, b);
   vp_assert(ok_right(lu.B, x, br), 3);
   VectorBase<double> c(DIM), y(DIM);
   double cr[DIM];
   sym_rhs(c, cr);
   lu.f.solveLeft(y, c);
   vp_assert(ok_left(lu.B, y, cr), 4);
}

// O1: load + dense solves
extern "C" void h_c10_load_solve()
{
   LU lu;
   SLinSolver<double>::Status st = lu.f.load(lu.ptr, DIM);
   vp_assert(st == SLinSolver<double>::OK, 1);
   vp_assert(lu.f.dim() == DIM && lu.f.status() == SLinSolver<double>::OK, 2);
   dense_solves(lu);
   vp_cover(1);
}
// singular members (MAT 8, 9): concrete run
extern "C" void h_c10_singular()
{
   LU lu;
   SLinSolver<double>::Status st = lu.f.load(lu.ptr, DIM);
   vp_assert(st == SLinSolver<double>::SINGULAR, 1);
   vp_assert(lu.f.status() == SLinSolver<double>::SINGULAR, 2);
   vp_cover(1);
}
// right-hand side / result holders for the semi-sparse solve variants
struct SpRhs
{
   DSVectorBase<double> sv;
   SSVectorBase<double> ssv;
   double ref[DIM];
   SpRhs(LU& lu, bool semi) : sv(DIM), ssv(DIM, lu.tol)
   {
      if(semi)
         sym_rhs_ssv(ssv, ref);
      else
         sym_rhs_sv(sv, ref);
   }
};
// single semi-sparse solves: solveRight(SSVector, SVector), solveLeft(SSVector, SVector), solveRight4update
extern "C" void h_c10_solve_single()
{
   LU lu;
   SLinSolver<double>::Status st = lu.f.load(lu.ptr, DIM);
   vp_assert(st == SLinSolver<double>::OK, 1);
   SpRhs b(lu, false);
   SSVectorBase<double> x(DIM, lu.tol);
   lu.f.solveRight(x, b.sv);
   vp_assert(ok_right(lu.B, x, b.ref), 3);
   SpRhs c(lu, false);
   SSVectorBase<double> y(DIM, lu.tol);
   lu.f.solveLeft(y, c.sv);
   vp_assert(ok_left(lu.B, y, c.ref), 4);
   vp_assert(ok_setup(y), 5);
   SpRhs d(lu, false);
   SSVectorBase<double> z(DIM, lu.tol);
   lu.f.solveRight4update(z, d.sv);
   vp_assert(ok_right(lu.B, z, d.ref), 6);
   vp_assert(ok_setup(z), 7);
   vp_cover(1);
}
// solveRight4update alone (used with symbolic right-hand sides)
extern "C" void h_c10_solve4update()
{
   LU lu;
   SLinSolver<double>::Status st = lu.f.load(lu.ptr, DIM);
   vp_assert(st == SLinSolver<double>::OK, 1);
   SpRhs d(lu, false);
   SSVectorBase<double> z(DIM, lu.tol);
   lu.f.solveRight4update(z, d.sv);
   vp_assert(ok_right(lu.B, z, d.ref), 6);
   vp_assert(ok_setup(z), 7);
   vp_cover(1);
}
// solve2right4update and solve3right4update, dense and semi-sparse result forms
extern "C" void h_c10_solve_right_multi()
{
   LU lu;
   SLinSolver<double>::Status st = lu.f.load(lu.ptr, DIM);
   vp_assert(st == SLinSolver<double>::OK, 1);
   {
      SpRhs b(lu, false), r(lu, true);
      SSVectorBase<double> x(DIM, lu.tol);
      VectorBase<double> y(DIM);
      lu.f.solve2right4update(x, y, b.sv, r.ssv);
      vp_assert(ok_right(lu.B, x, b.ref), 3);
      vp_assert(ok_right(lu.B, y, r.ref), 4);
      vp_assert(ok_setup(x), 5);
   }
   {
      SpRhs b(lu, false), r(lu, true);
      SSVectorBase<double> x(DIM, lu.tol), y(DIM, lu.tol);
      lu.f.solve2right4update(x, y, b.sv, r.ssv);
      vp_assert(ok_right(lu.B, x, b.ref), 6);
      vp_assert(ok_right(lu.B, y, r.ref), 7);
   }
   {
      SpRhs b(lu, false), r(lu, true), r2(lu, true);
      SSVectorBase<double> x(DIM, lu.tol);
      VectorBase<double> y(DIM), y2(DIM);
      lu.f.solve3right4update(x, y, y2, b.sv, r.ssv, r2.ssv);
      vp_assert(ok_right(lu.B, x, b.ref), 8);
      vp_assert(ok_right(lu.B, y, r.ref), 9);
      vp_assert(ok_right(lu.B, y2, r2.ref), 10);
   }
   {
      SpRhs b(lu, false), r(lu, true), r2(lu, true);
      SSVectorBase<double> x(DIM, lu.tol), y(DIM, lu.tol), y2(DIM, lu.tol);
      lu.f.solve3right4update(x, y, y2, b.sv, r.ssv, r2.ssv);
      vp_assert(ok_right(lu.B, x, b.ref), 11);
      vp_assert(ok_right(lu.B, y, r.ref), 12);
      vp_assert(ok_right(lu.B, y2, r2.ref), 13);
   }
   vp_cover(1);
}
// solveLeft with two and three right-hand sides, dense and semi-sparse result forms
extern "C" void h_c10_solve_left_multi()
{
   LU lu;
   SLinSolver<double>::Status st = lu.f.load(lu.ptr, DIM);
   vp_assert(st == SLinSolver<double>::OK, 1);
   {
      SpRhs b(lu, false), r(lu, true);
      SSVectorBase<double> x(DIM, lu.tol);
      VectorBase<double> y(DIM);
      lu.f.solveLeft(x, y, b.sv, r.ssv);
      vp_assert(ok_left(lu.B, x, b.ref), 3);
      vp_assert(ok_left(lu.B, y, r.ref), 4);
      vp_assert(ok_setup(x), 5);
   }
   {
      SpRhs b(lu, false), r(lu, true);
      SSVectorBase<double> x(DIM, lu.tol), y(DIM, lu.tol);
      lu.f.solveLeft(x, y, b.sv, r.ssv);
      vp_assert(ok_left(lu.B, x, b.ref), 6);
      vp_assert(ok_left(lu.B, y, r.ref), 7);
   }
   {
      SpRhs b(lu, false), r(lu, true), r2(lu, true);
      SSVectorBase<double> x(DIM, lu.tol);
      VectorBase<double> y(DIM), z(DIM);
      lu.f.solveLeft(x, y, z, b.sv, r.ssv, r2.ssv);
      vp_assert(ok_left(lu.B, x, b.ref), 8);
      vp_assert(ok_left(lu.B, y, r.ref), 9);
      vp_assert(ok_left(lu.B, z, r2.ref), 10);
   }
   {
      SpRhs b(lu, false), r(lu, true), r2(lu, true);
      SSVectorBase<double> x(DIM, lu.tol), y(DIM, lu.tol), z(DIM, lu.tol);
      lu.f.solveLeft(x, y, z, b.sv, r.ssv, r2.ssv);
      vp_assert(ok_left(lu.B, x, b.ref), 11);
      vp_assert(ok_left(lu.B, y, r.ref), 12);
      vp_assert(ok_left(lu.B, z, r2.ref), 13);
   }
   vp_cover(1);
}
// update prepared by solveRight4update (Forest-Tomlin for UTYPE 1, ETA for UTYPE 0), applied by change()
static void change_4update(int utype)
{
   LU lu(utype);
   SLinSolver<double>::Status st = lu.f.load(lu.ptr, DIM);
   vp_assert(st == SLinSolver<double>::OK, 1);
   DSVectorBase<double> nc(DIM);
   newcol_sv(nc);
   SSVectorBase<double> xs(DIM, lu.tol);
   lu.f.solveRight4update(xs, nc);
   vp_assert(ok_right(lu.B, xs, NEWCOL), 5);       // the solve itself: B xs == newcol
   st = lu.f.change(UPD_IDX, nc);
   vp_assert(st == SLinSolver<double>::OK, 2);
   lu.replaceCol();
   dense_solves(lu);
   vp_cover(1);
}
extern "C" void h_c10_change_ft()
{
   change_4update(1);
}
extern "C" void h_c10_change_eta()
{
   change_4update(0);
}
// ETA update with a caller-supplied eta vector (the path SPxBasisBase::change uses: change(i, enterVec, &delta))
extern "C" void h_c10_change_e()
{
   LU lu;
   SLinSolver<double>::Status st = lu.f.load(lu.ptr, DIM);
   vp_assert(st == SLinSolver<double>::OK, 1);
   DSVectorBase<double> nc(DIM);
   newcol_sv(nc);
   SSVectorBase<double> e(DIM, lu.tol);
   lu.f.solveRight(e, nc);
   e.setup();
   st = lu.f.change(UPD_IDX, nc, &e);
   vp_assert(st == SLinSolver<double>::OK, 2);
   lu.replaceCol();
   dense_solves(lu);
   vp_cover(1);
}
// two consecutive Forest-Tomlin updates (second one puts the original column back): solves with the original matrix again
extern "C" void h_c10_change_ft_twice()
{
   LU lu(1);
   SLinSolver<double>::Status st = lu.f.load(lu.ptr, DIM);
   vp_assert(st == SLinSolver<double>::OK, 1);
   DSVectorBase<double> nc(DIM);
   newcol_sv(nc);
   SSVectorBase<double> xs(DIM, lu.tol);
   lu.f.solveRight4update(xs, nc);
   st = lu.f.change(UPD_IDX, nc);
   vp_assert(st == SLinSolver<double>::OK, 2);
   SSVectorBase<double> xs2(DIM, lu.tol);
   lu.f.solveRight4update(xs2, *lu.ptr[UPD_IDX]);
   st = lu.f.change(UPD_IDX, *lu.ptr[UPD_IDX]);
   vp_assert(st == SLinSolver<double>::OK, 6);
   dense_solves(lu);
   vp_cover(1);
}
// FINDING: change(idx, col) under ETA without a prepared update vector and without eta (the default argument):
// SLUFactor::change's last branch solves into eta.altValues() (which un-sets-up eta), then changeEta() reads eta.size() == 0
// and CLUFactor::update scans p_idx[num-1 .. ] downwards from index -1: out-of-bounds read (clufactor.hpp:1323).
extern "C" void h_c10_change_eta_noeta()
{
   LU lu(0);
   SLinSolver<double>::Status st = lu.f.load(lu.ptr, DIM);
   vp_assert(st == SLinSolver<double>::OK, 1);
   DSVectorBase<double> nc(DIM);
   newcol_sv(nc);
   st = lu.f.change(UPD_IDX, nc);
   vp_assert(st == SLinSolver<double>::OK, 2);
   lu.replaceCol();
   dense_solves(lu);
   vp_cover(1);
}
