// C19-O8 (sorter.h): SPxShellsort / SPxQuicksort / SPxQuicksortPart on int keys with a three-way comparator.
// Asserted: the output is a permutation of the input (every value occurs as often as before), the requested range is
// sorted w.r.t. the comparator, elements outside the range are untouched; for the partial sort: the `size` smallest
// elements are sorted to the front (the documented guarantee) and so are the first r elements, r = return value (the
// way the pricers use it; the return value is not documented).  Values come from a small range so that ties occur.
#include "vp.h"
#include "soplex/sorter.h"
using namespace soplex;
#ifndef NS
#define NS 5          // array length
#endif
#ifndef VMAX
#define VMAX 3        // keys 0..VMAX
#endif
struct Cmp
{
   int desc;
   int operator()(int a, int b) const { return desc ? b - a : a - b; }
};
struct Arr { int k[NS]; int cnt[VMAX + 1]; };
static void draw(Arr& a)
{
   for(int v = 0; v <= VMAX; ++v) a.cnt[v] = 0;
   for(int i = 0; i < NS; ++i) { a.k[i] = vp_int_in(0, VMAX); }
}
static void count(const int* k, int from, int to, int* cnt)       // occurrences in [from,to)
{
   for(int v = 0; v <= VMAX; ++v) cnt[v] = 0;
   for(int i = 0; i < NS; ++i) if(i >= from && i < to) cnt[k[i]]++;
}
static bool same_counts(const int* a, const int* b) { for(int v = 0; v <= VMAX; ++v) if(a[v] != b[v]) return false; return true; }
static bool sorted(const int* k, int from, int to, const Cmp& c)   // [from,to) in comparator order
{
   for(int i = 0; i + 1 < NS; ++i) if(i >= from && i + 1 < to && c(k[i], k[i + 1]) > 0) return false;
   return true;
}
// every element of [from,mid) is <= every element of [mid,to)
static bool split_ok(const int* k, int from, int mid, int to, const Cmp& c)
{
   for(int i = 0; i < NS; ++i) if(i >= from && i < mid)
      for(int j = 0; j < NS; ++j) if(j >= mid && j < to && c(k[i], k[j]) > 0) return false;
   return true;
}

// SPxShellsort(keys, end, compare, start): sorts the positions start..end (end inclusive)
extern "C" void h_sort_shell()
{
   int keys[NS]; int orig[NS]; Cmp c; int before[VMAX + 1], after[VMAX + 1];
   for(int i = 0; i < NS; ++i) { keys[i] = vp_int_in(0, VMAX); orig[i] = keys[i]; }
   c.desc = vp_int_in(0, 1);
   int start = vp_int_in(0, NS - 1);
   int end = vp_int_in(0, NS - 1);
   vp_assume(start <= end);
   count(keys, start, end + 1, before);
   SPxShellsort(keys, end, c, start);
   count(keys, start, end + 1, after);
   vp_assert(same_counts(before, after), 1);
   vp_assert(sorted(keys, start, end + 1, c), 2);
   for(int i = 0; i < NS; ++i) if(i < start || i > end) vp_assert(keys[i] == orig[i], 3);
   vp_cover(1);
}

// SPxQuicksort(keys, end, compare, start, type): sorts the positions start..end-1
extern "C" void h_sort_quick()
{
   int keys[NS]; int orig[NS]; Cmp c; int before[VMAX + 1], after[VMAX + 1];
   for(int i = 0; i < NS; ++i) { keys[i] = vp_int_in(0, VMAX); orig[i] = keys[i]; }
   c.desc = vp_int_in(0, 1);
   int start = vp_int_in(0, NS);
   int end = vp_int_in(0, NS);
   int type = vp_int_in(0, 1);
   vp_assume(start <= end);
   count(keys, start, end, before);
   SPxQuicksort(keys, end, c, start, type != 0);
   count(keys, start, end, after);
   vp_assert(same_counts(before, after), 1);
   vp_assert(sorted(keys, start, end, c), 2);
   for(int i = 0; i < NS; ++i) if(i < start || i >= end) vp_assert(keys[i] == orig[i], 3);
   vp_cover(1);
}

// SPxQuicksortPart(keys, compare, start, end, size): "ensures that the size smallest elements are sorted to the front"
#ifndef NP
#define NP 3          // array length for the partial sort (concrete; n < NP is covered by the smaller instances of the template)
#endif
template<int N> static void sort_part(const int* orig, const Cmp& c0, int size)
{
   int keys[NS]; Cmp c = c0; int before[VMAX + 1], after[VMAX + 1];
   for(int i = 0; i < NS; ++i) keys[i] = orig[i];
   count(keys, 0, N, before);
   int r = SPxQuicksortPart(keys, c, 0, N, size);
   count(keys, 0, N, after);
   vp_assert(same_counts(before, after), 1);
   int m = size < N ? size : N;
   vp_assert(sorted(keys, 0, m, c) && split_ok(keys, 0, m, N, c), 2);          // documented guarantee
   vp_assert(r >= 0 && r <= N, 3);
   vp_assert(sorted(keys, 0, r, c) && split_ok(keys, 0, r, N, c), 4);          // the first r elements are the r smallest, sorted
   if(r < N) vp_assert(sorted(keys, 0, r + 1, c) && split_ok(keys, 0, r + 1, N, c), 5);   // r as an index (the way the ratio test uses it): 0..r sorted
   for(int i = N; i < NS; ++i) vp_assert(keys[i] == orig[i], 6);
}
extern "C" void h_sort_part()
{
   int orig[NS]; Cmp c;
   for(int i = 0; i < NS; ++i) orig[i] = vp_int_in(0, VMAX);
   c.desc = vp_int_in(0, 1);
   int size = vp_int_in(1, NP);
   sort_part<NP>(orig, c, size);
   vp_cover(1);
}
extern "C" void h_sort_part_small()
{
   int orig[NS]; Cmp c;
   for(int i = 0; i < NS; ++i) orig[i] = vp_int_in(0, VMAX);
   c.desc = vp_int_in(0, 1);
   int size = vp_int_in(1, NP);
   sort_part<0>(orig, c, size); sort_part<1>(orig, c, size); sort_part<2>(orig, c, size);
   vp_cover(1);
}

// the whole array, concrete length: below 25 elements this is the shell sort branch of SPxQuicksort (NS >= 26 would be the partitioning branch: not tractable)
extern "C" void h_sort_quick_full()
{
   int keys[NS]; Cmp c; int before[VMAX + 1], after[VMAX + 1];
   for(int i = 0; i < NS; ++i) keys[i] = vp_int_in(0, VMAX);
   c.desc = vp_int_in(0, 1);
   count(keys, 0, NS, before);
   SPxQuicksort(keys, NS, c);
   count(keys, 0, NS, after);
   vp_assert(same_counts(before, after), 1);
   vp_assert(sorted(keys, 0, NS, c), 2);
   vp_cover(1);
}
