// C20-O1: mutating functions of the C interface (src/soplex_interface.cpp) hand exactly the right arguments to the C++ call they wrap.
//
// Solver build (contract style): the `void* soplex` handle is an opaque address; every SoPlexBase<double> method a wrapper calls is
// REPLACEd by a recording model m_* that logs which method was called on which object with which arguments (vectors are copied out
// through the real SVectorBase/VectorBase/LPColBase/LPRowBase accessors).  The dense input arrays are heap objects of EXACTLY the
// announced length, so CBMC's built-in pointer checks catch every read outside them.  The assertions compare the log against a
// reference computed in the harness directly from the dense arrays.
// spx_alloc/spx_realloc for Nonzero arrays are replaced by fixed-capacity allocator models (CAP elements, request <= CAP asserted):
// symbolic-size heap arrays are not tractable for the solver.  DSVector internals are C19's subject, not C20's.
//
// Native build (replay on the real code): object A is driven through the C interface, object B is a mirror driven through the C++ API
// with the reference arguments; the same assertion ids compare the two LPs part by part ("mirrored call-by-call on a C++ object").
#include "soplex_all.h"
#include "soplex_interface.h"
using namespace soplex;
#ifndef NMAX
#define NMAX 3
#endif
#ifndef QMAX
#define QMAX 2          // largest array length in the Rational obligations
#endif
#define CAP (NMAX + 2)
typedef SoPlexBase<double> SP;
typedef Nonzero<double> NZ;

enum Which { W_NONE = 0, W_ADDCOL, W_ADDROW, W_REMCOL, W_REMROW, W_CLEAR, W_OBJ, W_LHS, W_RHS, W_LOWER, W_UPPER, W_RANGE, W_BOUNDS,
             W_LHS_I, W_RHS_I, W_LOWER_I, W_UPPER_I, W_RANGE_I, W_BOUNDS_I, W_SETBOOL, W_SETINT, W_SETREAL,
             W_ADDCOL_Q, W_ADDROW_Q, W_OBJ_Q, W_LHS_Q, W_RHS_Q, W_BOUNDS_IQ
           };
struct VecRec { int n; int idx[CAP]; double val[CAP]; };
struct Dense { int n; double val[CAP]; };
struct QRec { long num, den; };                                         // numerator/denominator as stored in the mpq
struct QVecRec { int n; int idx[CAP]; QRec val[CAP]; };
struct QDense { int n; QRec val[CAP]; };
struct Call { int which; const void* self; int i; int ival; double a, b, c; bool init; VecRec v; Dense d1, d2; QRec qa, qb, qc; QVecRec qv; QDense qd; };
#define MAXCALLS 8
static Call calls[MAXCALLS];
static int ncalls;
static bool ret_flag;     // what the recording models of bool-returning methods return (drawn by the entry)
static bool same_bits(double a, double b) { unsigned long x, y; std::memcpy(&x, &a, 8); std::memcpy(&y, &b, 8); return x == y; }
// Rationals: numerator and denominator are read out of the mpq structure
typedef LPColBase<Rational> LPColQ; typedef LPRowBase<Rational> LPRowQ; typedef Nonzero<Rational> NZQ;
#ifdef VP_NATIVE
static long z_val(const __mpz_struct& z) { return mpz_get_si(&z); }       // real GMP
#else
static long z_val(const __mpz_struct& z) { return z._mp_size; }            // mini-GMP model below
#endif
static QRec q_rec(const Rational& q) { QRec r; r.num = z_val(q.backend().data()[0]._mp_num); r.den = z_val(q.backend().data()[0]._mp_den); return r; }
// the mpq holds a valid representation of num/den (den != 0): positive denominator and same value (small numbers: no overflow)
static bool q_is(const QRec& r, long num, long den) { return r.den > 0 && r.num * den == num * r.den; }
static long live_limbs;      // number of live GMP limb blocks (solver build: counted by the mini-GMP model, native: by GMP's allocation hooks)

// ------------------------------------------------------------------------------------------------------------------------------
#ifndef VP_NATIVE
static char handle_mem[16];
static Call* new_call(int which, const void* self)
{
   Call* c = &calls[ncalls < MAXCALLS ? ncalls : MAXCALLS - 1];
   ncalls++;
   c->which = which; c->self = self;
   return c;
}
static void rec_vec(VecRec& r, const SVectorBase<double>& v)
{
   r.n = v.size();
   for(int k = 0; k < v.size() && k < CAP; ++k) { r.idx[k] = v.index(k); r.val[k] = v.value(k); }
}
static void rec_dense(Dense& r, const VectorBase<double>& v)
{
   r.n = v.dim();
   for(int k = 0; k < v.dim() && k < CAP; ++k) r.val[k] = v[k];
}
extern "C" {
   // mini-GMP: an integer |v| < 2^31 is kept in the _mp_size field itself (so GMP's mpz_sgn/mpq_sgn macros, which boost uses inline,
   // still see the right sign) and _mp_d points to a shared dummy limb (boost tests _mp_d against null to detect moved-from objects);
   // mpq_canonicalize only normalises the sign of the denominator (no gcd reduction); live objects are counted in live_limbs
   static mp_limb_t dummy_limb;
   static void z_init(__mpz_struct* z, long v) { live_limbs++; z->_mp_alloc = 1; z->_mp_d = &dummy_limb; z->_mp_size = (int)v; }
   void m_gmpz_init(__mpz_struct* z) { z_init(z, 0); }
   void m_gmpz_init_set_si(__mpz_struct* z, long v) { vp_assert(v > -(1L << 30) && v < (1L << 30), 92); z_init(z, v); }
   void m_gmpz_init_set_ui(__mpz_struct* z, unsigned long v) { vp_assert(v < (1UL << 30), 92); z_init(z, (long)v); }
   void m_gmpz_clear(__mpz_struct* z) { vp_assert(z->_mp_d == &dummy_limb, 94); live_limbs--; z->_mp_d = 0; }
   void m_gmpz_set(__mpz_struct* d, const __mpz_struct* s) { d->_mp_size = s->_mp_size; }
   int m_gmpz_fits_slong_p(const __mpz_struct* z) { return 1; }
   long m_gmpz_get_si(const __mpz_struct* z) { return z->_mp_size; }
   void m_gmpq_init(__mpq_struct* q) { z_init(&q->_mp_num, 0); z_init(&q->_mp_den, 1); }
   void m_gmpq_clear(__mpq_struct* q) { m_gmpz_clear(&q->_mp_num); m_gmpz_clear(&q->_mp_den); }
   void m_gmpq_set(__mpq_struct* d, const __mpq_struct* s) { d->_mp_num._mp_size = s->_mp_num._mp_size; d->_mp_den._mp_size = s->_mp_den._mp_size; }
   void m_gmpq_canonicalize(__mpq_struct* q) { if(q->_mp_den._mp_size < 0) { q->_mp_den._mp_size = -q->_mp_den._mp_size; q->_mp_num._mp_size = -q->_mp_num._mp_size; } }
   void m_gmpq_set_d(__mpq_struct* q, double d) { int n = (int)d; vp_assert((double)n == d && n > -1000 && n < 1000, 93); q->_mp_num._mp_size = n; q->_mp_den._mp_size = 1; }
   int m_gmpq_cmp(const __mpq_struct* a, const __mpq_struct* b)
   {
      long l = z_val(a->_mp_num) * z_val(b->_mp_den), r = z_val(b->_mp_num) * z_val(a->_mp_den);      // denominators positive
      return l < r ? -1 : l > r ? 1 : 0;
   }
   void m_alloc_nzq(NZQ*& p, int n) { vp_assert(n >= 0 && n <= CAP, 90); p = (NZQ*)malloc(CAP * sizeof(NZQ)); }
   static void rec_qvec(QVecRec& r, const SVectorBase<Rational>& v)
   {
      r.n = v.size();
      for(int k = 0; k < v.size() && k < CAP; ++k) { r.idx[k] = v.index(k); r.val[k] = q_rec(v.value(k)); }
   }
   static void rec_qdense(QDense& r, const VectorBase<Rational>& v)
   {
      r.n = v.dim();
      for(int k = 0; k < v.dim() && k < CAP; ++k) r.val[k] = q_rec(v[k]);
   }
   void m_addColRational(SP* self, const LPColQ& col)
   {
      Call* c = new_call(W_ADDCOL_Q, self);
      rec_qvec(c->qv, col.colVector()); c->qa = q_rec(col.obj()); c->qb = q_rec(col.lower()); c->qc = q_rec(col.upper());
   }
   void m_addRowRational(SP* self, const LPRowQ& row)
   {
      Call* c = new_call(W_ADDROW_Q, self);
      rec_qvec(c->qv, row.rowVector()); c->qa = q_rec(row.obj()); c->qb = q_rec(row.lhs()); c->qc = q_rec(row.rhs());
   }
   void m_changeObjRational(SP* self, const VectorBase<Rational>& v) { Call* c = new_call(W_OBJ_Q, self); rec_qdense(c->qd, v); }
   void m_changeLhsRational(SP* self, const VectorBase<Rational>& v) { Call* c = new_call(W_LHS_Q, self); rec_qdense(c->qd, v); }
   void m_changeRhsRational(SP* self, const VectorBase<Rational>& v) { Call* c = new_call(W_RHS_Q, self); rec_qdense(c->qd, v); }
   void m_changeBoundsRational_i(SP* self, int i, const Rational& l, const Rational& u) { Call* c = new_call(W_BOUNDS_IQ, self); c->i = i; c->qb = q_rec(l); c->qc = q_rec(u); }
   // allocator models: fixed capacity CAP, request must fit
   void m_alloc_nz(NZ*& p, int n) { vp_assert(n >= 0 && n <= CAP, 90); p = (NZ*)malloc(CAP * sizeof(NZ)); }
   void m_realloc_nz(NZ*& p, int n)
   {
      vp_assert(n >= 0 && n <= CAP, 91);
      NZ* q = (NZ*)malloc(CAP * sizeof(NZ));
      for(int k = 0; k < CAP; ++k) q[k] = p[k];
      free(p);
      p = q;
   }
   void m_addColReal(SP* self, const LPColBase<double>& col)
   {
      Call* c = new_call(W_ADDCOL, self);
      rec_vec(c->v, col.colVector()); c->a = col.obj(); c->b = col.lower(); c->c = col.upper();
   }
   void m_addRowReal(SP* self, const LPRowBase<double>& row)
   {
      Call* c = new_call(W_ADDROW, self);
      rec_vec(c->v, row.rowVector()); c->a = row.obj(); c->b = row.lhs(); c->c = row.rhs();
   }
   void m_removeColReal(SP* self, int i) { Call* c = new_call(W_REMCOL, self); c->i = i; }
   void m_removeRowReal(SP* self, int i) { Call* c = new_call(W_REMROW, self); c->i = i; }
   void m_clearLPReal(SP* self) { new_call(W_CLEAR, self); }
   void m_changeObjReal(SP* self, const VectorBase<double>& v) { Call* c = new_call(W_OBJ, self); rec_dense(c->d1, v); }
   void m_changeLhsReal(SP* self, const VectorBase<double>& v) { Call* c = new_call(W_LHS, self); rec_dense(c->d1, v); }
   void m_changeRhsReal(SP* self, const VectorBase<double>& v) { Call* c = new_call(W_RHS, self); rec_dense(c->d1, v); }
   void m_changeLowerReal(SP* self, const VectorBase<double>& v) { Call* c = new_call(W_LOWER, self); rec_dense(c->d1, v); }
   void m_changeUpperReal(SP* self, const VectorBase<double>& v) { Call* c = new_call(W_UPPER, self); rec_dense(c->d1, v); }
   void m_changeRangeReal(SP* self, const VectorBase<double>& l, const VectorBase<double>& r) { Call* c = new_call(W_RANGE, self); rec_dense(c->d1, l); rec_dense(c->d2, r); }
   void m_changeBoundsReal(SP* self, const VectorBase<double>& l, const VectorBase<double>& u) { Call* c = new_call(W_BOUNDS, self); rec_dense(c->d1, l); rec_dense(c->d2, u); }
   void m_changeLhsReal_i(SP* self, int i, const double& x) { Call* c = new_call(W_LHS_I, self); c->i = i; c->b = x; }
   void m_changeRhsReal_i(SP* self, int i, const double& x) { Call* c = new_call(W_RHS_I, self); c->i = i; c->c = x; }
   void m_changeLowerReal_i(SP* self, int i, const double& x) { Call* c = new_call(W_LOWER_I, self); c->i = i; c->b = x; }
   void m_changeUpperReal_i(SP* self, int i, const double& x) { Call* c = new_call(W_UPPER_I, self); c->i = i; c->c = x; }
   void m_changeRangeReal_i(SP* self, int i, const double& l, const double& r) { Call* c = new_call(W_RANGE_I, self); c->i = i; c->b = l; c->c = r; }
   void m_changeBoundsReal_i(SP* self, int i, const double& l, const double& u) { Call* c = new_call(W_BOUNDS_I, self); c->i = i; c->b = l; c->c = u; }
   bool m_setBoolParam(SP* self, SP::BoolParam p, bool v, bool init) { Call* c = new_call(W_SETBOOL, self); c->i = (int)p; c->ival = v; c->init = init; return ret_flag; }
   bool m_setIntParam(SP* self, SP::IntParam p, int v, bool init) { Call* c = new_call(W_SETINT, self); c->i = (int)p; c->ival = v; c->init = init; return ret_flag; }
   bool m_setRealParam(SP* self, SP::RealParam p, double v, bool init) { Call* c = new_call(W_SETREAL, self); c->i = (int)p; c->a = v; c->init = init; return ret_flag; }
}
#endif

// ------------------------------------------------------------------------------------------------------------------------------
// the two objects: A behind the C interface, B the C++ mirror (native build only)
static void* hA;
#ifdef VP_NATIVE
static SoPlex* B;
enum { D_DIMS = 1, D_COLS = 2, D_OBJ = 4, D_LOWER = 8, D_UPPER = 16, D_LHS = 32, D_RHS = 64, D_ROWS = 128, D_PARAMS = 256 };
static bool svec_same(const SVectorBase<double>& x, const SVectorBase<double>& y)
{
   if(x.size() != y.size()) return false;
   for(int k = 0; k < x.size(); ++k) if(x.index(k) != y.index(k) || !same_bits(x.value(k), y.value(k))) return false;
   return true;
}
static bool qvec_same(const SVectorBase<Rational>& x, const SVectorBase<Rational>& y)
{
   if(x.size() != y.size()) return false;
   for(int k = 0; k < x.size(); ++k) if(x.index(k) != y.index(k) || x.value(k) != y.value(k)) return false;
   return true;
}
static void* cnt_alloc(size_t n) { live_limbs++; return malloc(n); }
static void* cnt_realloc(void* p, size_t, size_t n) { return realloc(p, n); }
static void cnt_free(void* p, size_t) { live_limbs--; free(p); }
static int lp_diff()
{
   SoPlex* A = (SoPlex*)hA; int d = 0;
   if(A->numCols() != B->numCols() || A->numRows() != B->numRows()) return D_DIMS;
   for(int j = 0; j < A->numCols(); ++j)
   {
      if(!svec_same(A->colVectorRealInternal(j), B->colVectorRealInternal(j))) d |= D_COLS;
      if(!same_bits(A->objReal(j), B->objReal(j))) d |= D_OBJ;
      if(!same_bits(A->lowerReal(j), B->lowerReal(j))) d |= D_LOWER;
      if(!same_bits(A->upperReal(j), B->upperReal(j))) d |= D_UPPER;
   }
   for(int i = 0; i < A->numRows(); ++i)
   {
      if(!svec_same(A->rowVectorRealInternal(i), B->rowVectorRealInternal(i))) d |= D_ROWS;
      if(!same_bits(A->lhsReal(i), B->lhsReal(i))) d |= D_LHS;
      if(!same_bits(A->rhsReal(i), B->rhsReal(i))) d |= D_RHS;
   }
   if(A->intParam(SoPlex::SYNCMODE) != SoPlex::SYNCMODE_ONLYREAL && B->intParam(SoPlex::SYNCMODE) != SoPlex::SYNCMODE_ONLYREAL)
   {
      if(A->numColsRational() != B->numColsRational() || A->numRowsRational() != B->numRowsRational()) return D_DIMS;
      for(int j = 0; j < A->numColsRational(); ++j)
      {
         if(!qvec_same(A->colVectorRational(j), B->colVectorRational(j))) d |= D_COLS;
         if(A->objRational(j) != B->objRational(j)) d |= D_OBJ;
         if(A->lowerRational(j) != B->lowerRational(j)) d |= D_LOWER;
         if(A->upperRational(j) != B->upperRational(j)) d |= D_UPPER;
      }
      for(int i = 0; i < A->numRowsRational(); ++i)
      {
         if(!qvec_same(A->rowVectorRational(i), B->rowVectorRational(i))) d |= D_ROWS;
         if(A->lhsRational(i) != B->lhsRational(i)) d |= D_LHS;
         if(A->rhsRational(i) != B->rhsRational(i)) d |= D_RHS;
      }
   }
   for(int p = 0; p < SoPlex::BOOLPARAM_COUNT; ++p) if(A->boolParam((SoPlex::BoolParam)p) != B->boolParam((SoPlex::BoolParam)p)) d |= D_PARAMS;
   for(int p = 0; p < SoPlex::INTPARAM_COUNT; ++p) if(A->intParam((SoPlex::IntParam)p) != B->intParam((SoPlex::IntParam)p)) d |= D_PARAMS;
   for(int p = 0; p < SoPlex::REALPARAM_COUNT; ++p) if(!same_bits(A->realParam((SoPlex::RealParam)p), B->realParam((SoPlex::RealParam)p))) d |= D_PARAMS;
   return d;
}
// an n x n LP with recognisable data, identical in A and B
static void fill(SoPlex* s, int n)
{
   s->setIntParam(SoPlex::VERBOSITY, 0);
   for(int j = 0; j < n; ++j)
   {
      DSVector v(2);
      s->addColReal(LPCol(100.0 + j, v, 50.0 + j, -50.0 - j));
   }
   for(int i = 0; i < n; ++i)
   {
      DSVector v(2);
      v.add(i, 7.0 + i);
      if(i + 1 < n) v.add(i + 1, -3.0 - i);
      s->addRowReal(LPRow(-20.0 - i, v, 20.0 + i));
   }
}
#endif
// pre-state: an LP with n columns and n rows (solver build: irrelevant, every callee is a recording model)
static void setup(int n)
{
   ncalls = 0;
#ifdef VP_NATIVE
   hA = SoPlex_create(); B = new SoPlex();
   fill((SoPlex*)hA, n); fill(B, n);
#else
   hA = handle_mem;
#endif
}
// the same with both LPs kept in sync with their rational twins (native build)
static void setup_q(int n)
{
   ncalls = 0;
#ifdef VP_NATIVE
   mp_set_memory_functions(cnt_alloc, cnt_realloc, cnt_free);
   hA = SoPlex_create(); B = new SoPlex();
   ((SoPlex*)hA)->setIntParam(SoPlex::SYNCMODE, SoPlex::SYNCMODE_AUTO); B->setIntParam(SoPlex::SYNCMODE, SoPlex::SYNCMODE_AUTO);
   fill((SoPlex*)hA, n); fill(B, n);
#else
   hA = handle_mem;
#endif
}
// id 1: exactly one call, of the expected method, on the handle   [native: the mirror has the same dimensions]
static void check_one_call(int which)
{
#ifdef VP_NATIVE
   vp_assert(!(lp_diff() & D_DIMS), 1);
#else
   vp_assert(ncalls == 1 && calls[0].which == which && calls[0].self == hA, 1);
#endif
}
#ifdef VP_NATIVE
#define CHECK(solver_cond, native_bits, id) vp_assert(!(lp_diff() & (native_bits)), id)
#else
#define CHECK(solver_cond, native_bits, id) vp_assert(solver_cond, id)
#endif
static bool vec_eq(const VecRec& a, const VecRec& b)
{
   if(a.n != b.n) return false;
   for(int k = 0; k < b.n && k < CAP; ++k) if(a.idx[k] != b.idx[k] || !same_bits(a.val[k], b.val[k])) return false;
   return true;
}
static bool dense_eq(const Dense& a, const double* ref, int n)
{
   if(a.n != n) return false;
   for(int k = 0; k < n; ++k) if(!same_bits(a.val[k], ref[k])) return false;
   return true;
}
// dense input array of exactly n doubles on the heap; entries small integers (zero included); reference copy in ref[]
static double* draw_entries(int n, double* ref)
{
   double* arr = (double*)malloc(n * sizeof(double));
   for(int i = 0; i < n; ++i) { double x = vp_small(-2, 2); arr[i] = x; ref[i] = x; }
   return arr;
}
// dense input array of exactly n arbitrary doubles
static double* draw_doubles(int n, double* ref)
{
   double* arr = (double*)malloc(n * sizeof(double));
   for(int i = 0; i < n; ++i) { double x = vp_nondet_double(); arr[i] = x; ref[i] = x; }
   return arr;
}
// reference sparse vector: exactly the nonzero entries of the dense array, ascending index
static void sparse_ref(VecRec& r, const double* ref, int n)
{
   r.n = 0;
   for(int i = 0; i < n; ++i) if(ref[i] != 0.0) { r.idx[r.n] = i; r.val[r.n] = ref[i]; r.n++; }
}
#ifdef VP_NATIVE
static void to_dsvec(DSVector& v, const VecRec& r) { for(int k = 0; k < r.n; ++k) v.add(r.idx[k], r.val[k]); }
#endif

// ------------------------------------------------------------------------------------------------------------------------------
static void body_addColReal(int colsize, int nnz)
{
   double ref[CAP]; VecRec rv;
   double* arr = draw_entries(colsize, ref);
   sparse_ref(rv, ref, colsize);
   double obj = vp_nondet_double();
   double lb = vp_nondet_double();
   double ub = vp_nondet_double();
   SoPlex_addColReal(hA, arr, colsize, nnz, obj, lb, ub);
#ifdef VP_NATIVE
   DSVector v(2); to_dsvec(v, rv); B->addColReal(LPCol(obj, v, ub, lb));
#endif
   check_one_call(W_ADDCOL);
   CHECK(vec_eq(calls[0].v, rv), D_COLS | D_ROWS, 4);
   CHECK(same_bits(calls[0].a, obj), D_OBJ, 5);
   CHECK(same_bits(calls[0].b, lb), D_LOWER, 6);
   CHECK(same_bits(calls[0].c, ub), D_UPPER, 7);
   for(int i = 0; i < colsize; ++i) vp_assert(same_bits(arr[i], ref[i]), 9);    // input array not written
   free(arr);
}
extern "C" void h_c20_addColReal()
{
   setup(0);
   int colsize = vp_int_in(0, NMAX);
   int nnz = vp_int_in(0, NMAX + 1);            // announced number of nonzeros: arbitrary (exact, too small, too large)
   for(int c = 0; c <= NMAX; ++c) if(colsize == c) body_addColReal(c, nnz);
   vp_cover(1);
}
static void body_addRowReal(int rowsize, int nnz)
{
   double ref[CAP]; VecRec rv;
   double* arr = draw_entries(rowsize, ref);
   sparse_ref(rv, ref, rowsize);
   double lb = vp_nondet_double();
   double ub = vp_nondet_double();
   SoPlex_addRowReal(hA, arr, rowsize, nnz, lb, ub);
#ifdef VP_NATIVE
   DSVector v(2); to_dsvec(v, rv); B->addRowReal(LPRow(lb, v, ub));
#endif
   check_one_call(W_ADDROW);
   CHECK(vec_eq(calls[0].v, rv), D_COLS | D_ROWS, 4);
   CHECK(calls[0].a == 0.0, D_OBJ, 5);
   CHECK(same_bits(calls[0].b, lb), D_LHS, 6);
   CHECK(same_bits(calls[0].c, ub), D_RHS, 7);
   for(int i = 0; i < rowsize; ++i) vp_assert(same_bits(arr[i], ref[i]), 9);
   free(arr);
}
extern "C" void h_c20_addRowReal()
{
   setup(0);
   int rowsize = vp_int_in(0, NMAX);
   int nnz = vp_int_in(0, NMAX + 1);
   for(int c = 0; c <= NMAX; ++c) if(rowsize == c) body_addRowReal(c, nnz);
   vp_cover(1);
}

// one dense vector: changeObjReal / changeLhsReal / changeRhsReal / changeLowerReal / changeUpperReal
static void body_change1(int fn, int dim)
{
   double ref[CAP];
   double* arr = draw_doubles(dim, ref);
   int which = W_NONE, bits = 0;
   switch(fn)
   {
   case 0: SoPlex_changeObjReal(hA, arr, dim); which = W_OBJ; break;
   case 1: SoPlex_changeLhsReal(hA, arr, dim); which = W_LHS; break;
   case 2: SoPlex_changeRhsReal(hA, arr, dim); which = W_RHS; break;
   case 3: SoPlex_changeLowerReal(hA, arr, dim); which = W_LOWER; break;
   default: SoPlex_changeUpperReal(hA, arr, dim); which = W_UPPER; break;
   }
#ifdef VP_NATIVE
   VectorBase<double> v(dim);
   for(int i = 0; i < dim; ++i) v[i] = ref[i];
   switch(fn)
   {
   case 0: B->changeObjReal(v); break;
   case 1: B->changeLhsReal(v); break;
   case 2: B->changeRhsReal(v); break;
   case 3: B->changeLowerReal(v); break;
   default: B->changeUpperReal(v); break;
   }
#endif
   check_one_call(which);
   CHECK(dense_eq(calls[0].d1, ref, dim), D_OBJ | D_LHS | D_RHS | D_LOWER | D_UPPER | D_COLS | D_ROWS, 6);
   for(int i = 0; i < dim; ++i) vp_assert(same_bits(arr[i], ref[i]), 9);
   free(arr);
}
extern "C" void h_c20_change_vec()
{
   int dim = vp_int_in(0, NMAX);
   int fn = vp_int_in(0, 4);
   setup(dim);
   for(int c = 0; c <= NMAX; ++c) if(dim == c) body_change1(fn, c);
   vp_cover(1);
}
// two dense vectors: changeRangeReal(lhs, rhs) / changeBoundsReal(lb, ub)
static void body_change2(int fn, int dim)
{
   double ref1[CAP], ref2[CAP];
   double* a1 = draw_doubles(dim, ref1);
   double* a2 = draw_doubles(dim, ref2);
   int which;
   if(fn == 0) { SoPlex_changeRangeReal(hA, a1, a2, dim); which = W_RANGE; }
   else { SoPlex_changeBoundsReal(hA, a1, a2, dim); which = W_BOUNDS; }
#ifdef VP_NATIVE
   VectorBase<double> v1(dim), v2(dim);
   for(int i = 0; i < dim; ++i) { v1[i] = ref1[i]; v2[i] = ref2[i]; }
   if(fn == 0) B->changeRangeReal(v1, v2); else B->changeBoundsReal(v1, v2);
#endif
   check_one_call(which);
   CHECK(dense_eq(calls[0].d1, ref1, dim), D_LHS | D_LOWER | D_OBJ | D_COLS | D_ROWS, 6);
   CHECK(dense_eq(calls[0].d2, ref2, dim), D_RHS | D_UPPER, 7);
   for(int i = 0; i < dim; ++i) vp_assert(same_bits(a1[i], ref1[i]) && same_bits(a2[i], ref2[i]), 9);
   free(a1); free(a2);
}
extern "C" void h_c20_change_vec2()
{
   int dim = vp_int_in(0, NMAX);
   int fn = vp_int_in(0, 1);
   setup(dim);
   for(int c = 0; c <= NMAX; ++c) if(dim == c) body_change2(fn, c);
   vp_cover(1);
}
// single-element changes, removals, clear
extern "C" void h_c20_change_elem()
{
   setup(NMAX);
   int fn = vp_int_in(0, 8);
   int i = vp_int_in(0, NMAX - 1);
   double x = vp_nondet_double();
   double y = vp_nondet_double();
   int which = W_NONE;
   switch(fn)
   {
   case 0: SoPlex_changeRowLhsReal(hA, i, x); which = W_LHS_I; break;
   case 1: SoPlex_changeRowRhsReal(hA, i, y); which = W_RHS_I; break;
   case 2: SoPlex_changeRowRangeReal(hA, i, x, y); which = W_RANGE_I; break;
   case 3: SoPlex_changeVarLowerReal(hA, i, x); which = W_LOWER_I; break;
   case 4: SoPlex_changeVarUpperReal(hA, i, y); which = W_UPPER_I; break;
   case 5: SoPlex_changeVarBoundsReal(hA, i, x, y); which = W_BOUNDS_I; break;
   case 6: SoPlex_removeColReal(hA, i); which = W_REMCOL; break;
   case 7: SoPlex_removeRowReal(hA, i); which = W_REMROW; break;
   default: SoPlex_clearLPReal(hA); which = W_CLEAR; break;
   }
#ifdef VP_NATIVE
   switch(fn)
   {
   case 0: B->changeLhsReal(i, x); break;
   case 1: B->changeRhsReal(i, y); break;
   case 2: B->changeRangeReal(i, x, y); break;
   case 3: B->changeLowerReal(i, x); break;
   case 4: B->changeUpperReal(i, y); break;
   case 5: B->changeBoundsReal(i, x, y); break;
   case 6: B->removeColReal(i); break;
   case 7: B->removeRowReal(i); break;
   default: B->clearLPReal(); break;
   }
#endif
   check_one_call(which);
   bool has_x = fn == 0 || fn == 2 || fn == 3 || fn == 5, has_y = fn == 1 || fn == 2 || fn == 4 || fn == 5;
   bool is_rem = fn == 6 || fn == 7;
   CHECK(!is_rem || calls[0].i == i, D_COLS | D_ROWS | D_OBJ, 8);                                   // removals: the right index
   CHECK(!has_x || (calls[0].i == i && same_bits(calls[0].b, x)), D_LHS | D_LOWER, 6);             // changes: the right index and value
   CHECK(!has_y || (calls[0].i == i && same_bits(calls[0].c, y)), D_RHS | D_UPPER, 7);
   vp_cover(1);
}
// parameter setters: code and value passed through unchanged, init flag left at its default (true)
extern "C" void h_c20_set_param()
{
   setup(0);
   int fn = vp_int_in(0, 2);
   int code = vp_int_in(0, (fn == 0 ? (int)SoPlex::BOOLPARAM_COUNT : fn == 1 ? (int)SoPlex::INTPARAM_COUNT : (int)SoPlex::REALPARAM_COUNT) - 1);
   int iv = vp_nondet_int();
   double dv = vp_nondet_double();
   ret_flag = vp_nondet_bool();
#ifdef VP_NATIVE
   if(fn == 1 && code == SoPlex::VERBOSITY) iv = 0;       // keep the replay quiet
#endif
   int which;
   if(fn == 0) { SoPlex_setBoolParam(hA, code, iv); which = W_SETBOOL; }
   else if(fn == 1) { SoPlex_setIntParam(hA, code, iv); which = W_SETINT; }
   else { SoPlex_setRealParam(hA, code, dv); which = W_SETREAL; }
#ifdef VP_NATIVE
   if(fn == 0) B->setBoolParam((SoPlex::BoolParam)code, iv != 0);
   else if(fn == 1) B->setIntParam((SoPlex::IntParam)code, iv);
   else B->setRealParam((SoPlex::RealParam)code, dv);
#endif
   check_one_call(which);
   CHECK(calls[0].i == code && calls[0].init && (fn == 2 ? same_bits(calls[0].a, dv) : fn == 1 ? calls[0].ival == iv : calls[0].ival == (iv != 0)), D_PARAMS, 8);
   vp_cover(1);
}
// SoPlex_setRational: the six documented parameter changes, nothing else
extern "C" void h_c20_set_rational()
{
   setup(0);
   ret_flag = vp_nondet_bool();
   SoPlex_setRational(hA);
#ifdef VP_NATIVE
   B->setIntParam(SoPlex::READMODE, SoPlex::READMODE_RATIONAL);
   B->setIntParam(SoPlex::SOLVEMODE, SoPlex::SOLVEMODE_RATIONAL);
   B->setIntParam(SoPlex::CHECKMODE, SoPlex::CHECKMODE_RATIONAL);
   B->setIntParam(SoPlex::SYNCMODE, SoPlex::SYNCMODE_AUTO);
   B->setRealParam(SoPlex::FEASTOL, 0.0);
   B->setRealParam(SoPlex::OPTTOL, 0.0);
   vp_assert(!(lp_diff() & D_DIMS), 1);
#else
   vp_assert(ncalls == 6, 1);
   for(int k = 0; k < 6; ++k) vp_assert(calls[k].self == hA && calls[k].init, 1);
#endif
   CHECK(calls[0].which == W_SETINT && calls[0].i == SoPlex::READMODE && calls[0].ival == SoPlex::READMODE_RATIONAL
         && calls[1].which == W_SETINT && calls[1].i == SoPlex::SOLVEMODE && calls[1].ival == SoPlex::SOLVEMODE_RATIONAL
         && calls[2].which == W_SETINT && calls[2].i == SoPlex::CHECKMODE && calls[2].ival == SoPlex::CHECKMODE_RATIONAL
         && calls[3].which == W_SETINT && calls[3].i == SoPlex::SYNCMODE && calls[3].ival == SoPlex::SYNCMODE_AUTO
         && calls[4].which == W_SETREAL && calls[4].i == SoPlex::FEASTOL && calls[4].a == 0.0
         && calls[5].which == W_SETREAL && calls[5].i == SoPlex::OPTTOL && calls[5].a == 0.0, D_PARAMS, 8);
   vp_cover(1);
}

// ------------------------------------------------------------------------------------------------------------------------------
// Rational variants: (numerator, denominator) pairs of longs become the exact rationals
struct QIn { long num, den; };
// numerator -3..3, denominator +-1..3 (negative numerators, zero, denominator 1, unreduced pairs and negative denominators included)
static QIn draw_q()
{
   QIn q;
   int a = vp_int_in(-3, 3);
   int m = vp_int_in(1, 3);
   int sg = vp_int_in(0, 1);
   q.num = a; q.den = sg ? -m : m;
   return q;
}
static void draw_qarrays(int n, long*& nums, long*& dens, QIn* ref)
{
   nums = (long*)malloc(n * sizeof(long));
   dens = (long*)malloc(n * sizeof(long));
   for(int i = 0; i < n; ++i) { QIn q = draw_q(); ref[i] = q; nums[i] = q.num; dens[i] = q.den; }
}
struct QVecRef { int n; int idx[CAP]; QIn val[CAP]; };
static void qsparse_ref(QVecRef& r, const QIn* ref, int n)
{
   r.n = 0;
   for(int i = 0; i < n; ++i) if(ref[i].num != 0) { r.idx[r.n] = i; r.val[r.n] = ref[i]; r.n++; }
}
static bool qvec_eq(const QVecRec& a, const QVecRef& b)
{
   if(a.n != b.n) return false;
   for(int k = 0; k < b.n && k < CAP; ++k) if(a.idx[k] != b.idx[k] || !q_is(a.val[k], b.val[k].num, b.val[k].den)) return false;
   return true;
}
static bool qdense_eq(const QDense& a, const QIn* ref, int n)
{
   if(a.n != n) return false;
   for(int k = 0; k < n; ++k) if(!q_is(a.val[k], ref[k].num, ref[k].den)) return false;
   return true;
}
#ifdef VP_NATIVE
static Rational mkq(const QIn& q) { Rational r(q.num); r /= Rational(q.den); return r; }      // independent of Rational(long,long)
static void to_dsvecq(DSVectorRational& v, const QVecRef& r) { for(int k = 0; k < r.n; ++k) v.add(r.idx[k], mkq(r.val[k])); }
#endif
static void body_addColRational(int colsize, int nnz)
{
   QIn ref[CAP]; QVecRef rv; long* nums; long* dens;
   draw_qarrays(colsize, nums, dens, ref);
   qsparse_ref(rv, ref, colsize);
   QIn obj = draw_q();
   QIn lb = draw_q();
   QIn ub = draw_q();
   SoPlex_addColRational(hA, nums, dens, colsize, nnz, obj.num, obj.den, lb.num, lb.den, ub.num, ub.den);
#ifdef VP_NATIVE
   DSVectorRational v(2); to_dsvecq(v, rv); B->addColRational(LPColQ(mkq(obj), v, mkq(ub), mkq(lb)));
#endif
   check_one_call(W_ADDCOL_Q);
   CHECK(qvec_eq(calls[0].qv, rv), D_COLS | D_ROWS, 4);
   CHECK(q_is(calls[0].qa, obj.num, obj.den), D_OBJ, 5);
   CHECK(q_is(calls[0].qb, lb.num, lb.den), D_LOWER, 6);
   CHECK(q_is(calls[0].qc, ub.num, ub.den), D_UPPER, 7);
   for(int i = 0; i < colsize; ++i) vp_assert(nums[i] == ref[i].num && dens[i] == ref[i].den, 9);
   free(nums); free(dens);
}
extern "C" void h_c20_addColRational()
{
   setup_q(0);
   int colsize = vp_int_in(0, QMAX);
   int nnz = vp_int_in(0, QMAX + 1);
#ifdef QSPLIT_NNZ
   for(int c = 0; c <= QMAX; ++c) for(int z = 0; z <= QMAX + 1; ++z) if(colsize == c && nnz == z) body_addColRational(c, z);
#else
   for(int c = 0; c <= QMAX; ++c) if(colsize == c) body_addColRational(c, nnz);
#endif
   vp_cover(1);
}
static void body_addRowRational(int rowsize, int nnz)
{
   QIn ref[CAP]; QVecRef rv; long* nums; long* dens;
   draw_qarrays(rowsize, nums, dens, ref);
   qsparse_ref(rv, ref, rowsize);
   QIn lb = draw_q();
   QIn ub = draw_q();
   SoPlex_addRowRational(hA, nums, dens, rowsize, nnz, lb.num, lb.den, ub.num, ub.den);
#ifdef VP_NATIVE
   DSVectorRational v(2); to_dsvecq(v, rv); B->addRowRational(LPRowQ(mkq(lb), v, mkq(ub)));
#endif
   check_one_call(W_ADDROW_Q);
   CHECK(qvec_eq(calls[0].qv, rv), D_COLS | D_ROWS, 4);
   CHECK(q_is(calls[0].qa, 0, 1), D_OBJ, 5);
   CHECK(q_is(calls[0].qb, lb.num, lb.den), D_LHS, 6);
   CHECK(q_is(calls[0].qc, ub.num, ub.den), D_RHS, 7);
   for(int i = 0; i < rowsize; ++i) vp_assert(nums[i] == ref[i].num && dens[i] == ref[i].den, 9);
   free(nums); free(dens);
}
extern "C" void h_c20_addRowRational()
{
   setup_q(0);
   int rowsize = vp_int_in(0, QMAX);
   int nnz = vp_int_in(0, QMAX + 1);
#ifdef QSPLIT_NNZ
   for(int c = 0; c <= QMAX; ++c) for(int z = 0; z <= QMAX + 1; ++z) if(rowsize == c && nnz == z) body_addRowRational(c, z);
#else
   for(int c = 0; c <= QMAX; ++c) if(rowsize == c) body_addRowRational(c, nnz);
#endif
   vp_cover(1);
}
// SoPlex_changeObjRational / changeLhsRational / changeRhsRational; leak != 0: only the "no GMP memory is leaked" assertion
static void body_changeq(int fn, int dim, int leak)
{
   QIn ref[CAP]; long* nums; long* dens;
   draw_qarrays(dim, nums, dens, ref);
   long live0 = live_limbs;
   int which;
   if(fn == 0) { SoPlex_changeObjRational(hA, nums, dens, dim); which = W_OBJ_Q; }
   else if(fn == 1) { SoPlex_changeLhsRational(hA, nums, dens, dim); which = W_LHS_Q; }
   else { SoPlex_changeRhsRational(hA, nums, dens, dim); which = W_RHS_Q; }
   long live1 = live_limbs;
#ifdef VP_NATIVE
   VectorRational v(dim);
   for(int i = 0; i < dim; ++i) v[i] = mkq(ref[i]);
   if(fn == 0) B->changeObjRational(v); else if(fn == 1) B->changeLhsRational(v); else B->changeRhsRational(v);
#endif
   if(leak)
   {
      vp_assert(live1 == live0, 10);        // every Rational the wrapper created has been destroyed again
      return;
   }
   check_one_call(which);
   CHECK(qdense_eq(calls[0].qd, ref, dim), D_OBJ | D_LHS | D_RHS | D_LOWER | D_UPPER | D_COLS | D_ROWS, 6);
   for(int i = 0; i < dim; ++i) vp_assert(nums[i] == ref[i].num && dens[i] == ref[i].den, 9);
   free(nums); free(dens);
}
static void run_changeq(int fn)
{
   int dim = vp_int_in(0, QMAX);
   setup_q(dim);
   for(int c = 0; c <= QMAX; ++c) if(dim == c) body_changeq(fn, c, 0);
   vp_cover(1);
}
extern "C" void h_c20_changeObjRational() { run_changeq(0); }
extern "C" void h_c20_changeLhsRational() { run_changeq(1); }
extern "C" void h_c20_changeRhsRational() { run_changeq(2); }
extern "C" void h_c20_change_vecRational_noleak()
{
   int fn = vp_int_in(0, 2);
   setup_q(1);
   body_changeq(fn, 1, 1);
   vp_cover(1);
}
extern "C" void h_c20_change_boundsRational()
{
   setup_q(NMAX);
   int i = vp_int_in(0, NMAX - 1);
   QIn lb = draw_q();
   QIn ub = draw_q();
   long live0 = live_limbs;
   SoPlex_changeVarBoundsRational(hA, i, lb.num, lb.den, ub.num, ub.den);
   vp_assert(live_limbs == live0, 10);
#ifdef VP_NATIVE
   B->changeBoundsRational(i, mkq(lb), mkq(ub));
#endif
   check_one_call(W_BOUNDS_IQ);
   CHECK(calls[0].i == i && q_is(calls[0].qb, lb.num, lb.den), D_LOWER, 6);
   CHECK(calls[0].i == i && q_is(calls[0].qc, ub.num, ub.den), D_UPPER, 7);
   vp_cover(1);
}
