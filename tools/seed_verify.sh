#!/bin/bash
# usage: seed_verify.sh <PROP> <A|B>   - confirms a seeded change: applies it in a scratch worktree, builds, runs the
# test suite (must pass), runs the demonstration with and without the change; on success stores it under /verif/seeded/<PROP>-<V>/
set -u
P=$1; V=$2; SRC=/tmp/seed/$P/out/$V; WT=/tmp/sv/$P$V
[ -f $SRC/patch.diff ] || { echo "no patch in $SRC"; exit 2; }
rm -rf $WT; mkdir -p /tmp/sv; git -C /repo worktree prune; git -C /repo worktree add --detach $WT HEAD >/dev/null 2>&1 || { echo "worktree failed"; exit 2; }
cp /repo/src/soplex/git_hash.cpp $WT/src/soplex/ 2>/dev/null
cd $WT && git apply $SRC/patch.diff || { echo "PATCH DOES NOT APPLY"; exit 3; }
(cmake -G Ninja -B build -DCMAKE_BUILD_TYPE=RelWithDebInfo >/dev/null && cmake --build build -j 6 >/dev/null 2>&1) || { echo "BUILD FAILED"; exit 3; }
CT=$(ctest --test-dir build -j 6 --timeout 900 2>&1 | grep "tests passed" )
echo "ctest with patch: $CT"
# demonstration
cd $SRC
if [ -f demo.cpp ]; then
  g++ -std=c++17 -O1 -w -I$WT/src -I$WT/build demo.cpp $WT/build/lib/libsoplex.a -lgmp -lmpfr -lz -o /tmp/sv/demo_${P}${V}_patched || { echo "demo build (patched) failed"; exit 3; }
  g++ -std=c++17 -O1 -w -I/repo/src -I/repo/_build demo.cpp /repo/_build/lib/libsoplex.a -lgmp -lmpfr -lz -o /tmp/sv/demo_${P}${V}_clean || { echo "demo build (clean) failed"; exit 3; }
  (cd $SRC && timeout 600 /tmp/sv/demo_${P}${V}_patched >/tmp/sv/demo_${P}${V}_patched.out 2>&1); RP=$?
  (cd $SRC && timeout 600 /tmp/sv/demo_${P}${V}_clean >/tmp/sv/demo_${P}${V}_clean.out 2>&1); RC=$?
elif [ -f demo.sh ]; then
  (cd $SRC && SOPLEX_BIN=$WT/build/bin/soplex SOPLEX_BUILD=$WT/build SOPLEX_SRC=$WT/src timeout 600 bash demo.sh >/tmp/sv/demo_${P}${V}_patched.out 2>&1); RP=$?
  (cd $SRC && SOPLEX_BIN=/repo/_build/bin/soplex SOPLEX_BUILD=/repo/_build SOPLEX_SRC=/repo/src timeout 600 bash demo.sh >/tmp/sv/demo_${P}${V}_clean.out 2>&1); RC=$?
else echo "no demo"; exit 3; fi
echo "demo exit: patched=$RP clean=$RC"
rm -rf $WT/build
if echo "$CT" | grep -q "100% tests passed" && [ $RP -ne 0 ] && [ $RC -eq 0 ]; then
  D=/verif/seeded/$P-$V; mkdir -p $D; cp -r $SRC/* $D/
  python3 - "$D" "$P" "$V" "$CT" "$RP" "$RC" <<'PY'
import json,sys
d,p,v,ct,rp,rc=sys.argv[1:]
m=json.load(open(d+'/meta.json'))
m['confirmed_by_me']={'ctest_with_patch':ct.strip(),'demo_exit_patched':int(rp),'demo_exit_clean':int(rc),'how':'tools/seed_verify.sh: scratch worktree of /repo HEAD, git apply, cmake+ninja build, ctest -j6, demo linked against patched and against pristine libsoplex.a'}
json.dump(m,open(d+'/meta.json','w'),indent=1)
PY
  echo "CONFIRMED -> $D"
else echo "NOT CONFIRMED"; fi
