#!/usr/bin/env python3
"""retier.py <PROP> <cpu_budget_s>: keeps the quick tier of a property within a CPU budget (sum of measured cbmc wall seconds
from evidence/<PROP>.json), demoting the most expensive obligations to thorough-only. Obligations tied to a recorded finding and
at least two obligations per harness spec stay in quick. Writes the harness JSON files in place."""
import json, glob, os, sys
ROOT = os.path.dirname(os.path.dirname(os.path.abspath(__file__)))
prop, budget = sys.argv[1], float(sys.argv[2])
ev = json.load(open(os.path.join(ROOT, "evidence", prop + ".json")))
assert ev["tier"] == "quick"
times = {o["name"]: float(o.get("wall_s") or 0) for o in ev["coverage"]["obligation_details"]}
known = {k["obligation"] for k in json.load(open(os.path.join(ROOT, "known_findings.json")))["findings"]}
# obligations that detect a confirmed seeded change stay in the quick tier (tools/keep_quick.txt)
kq = os.path.join(ROOT, "tools", "keep_quick.txt")
if os.path.exists(kq): known.update(l.strip() for l in open(kq) if l.strip())
specs = {}
for f in sorted(glob.glob(os.path.join(ROOT, "harness", "*.json"))):
    specs[f] = json.load(open(f))
items = []
for f, s in specs.items():
    for o in s["obligations"]:
        if prop in o["props"] and o.get("quick"):
            items.append((times.get(o["name"], 0.0), f, o))
total = sum(t for t, _, _ in items)
print("%s: %d quick obligations, measured cpu %.0fs, budget %.0fs" % (prop, len(items), total, budget))
per_spec = {}
for t, f, o in items: per_spec[f] = per_spec.get(f, 0) + 1
items.sort(key=lambda x: -x[0])
changed = set()
for t, f, o in items:
    if total <= budget: break
    if o["name"] in known or per_spec[f] <= 2 or t < 20: continue
    # demote: thorough keeps running it with the quick configuration (merged with existing thorough overrides)
    q = o.pop("quick")
    th = o.get("thorough")
    if th is None: o["thorough"] = q
    else:
        m = dict(q); m.update(th); o["thorough"] = m
    o["demoted_from_quick"] = "measured %.0fs; quick tier kept within budget by tools/retier.py" % t
    total -= t; per_spec[f] -= 1; changed.add(f)
    print("  demoted %-50s %.0fs" % (o["name"], t))
for f in changed:
    json.dump(specs[f], open(f, "w"), indent=1)
print("  -> quick cpu now %.0fs" % total)
