#!/bin/bash
# usage: seed_run.sh <PROP>-<V> <PROP-to-check> [tier] [extra vcheck args]  - runs a check against a scratch worktree carrying the seeded change
set -u
S=$1; P=$2; T=${3:-quick}; shift 3 2>/dev/null || shift $#
WT=/tmp/sv/run_$S
rm -rf $WT; git -C /repo worktree prune; git -C /repo worktree add --detach $WT HEAD >/dev/null 2>&1
cp /repo/src/soplex/git_hash.cpp $WT/src/soplex/ 2>/dev/null; ln -s /repo/_build $WT/_build
(cd $WT && git apply /verif/seeded/$S/patch.diff) || { echo "patch does not apply"; exit 2; }
cd /verif && VP_REPO=$WT python3 vcheck.py $P --tier $T --no-evidence --jobs ${VP_JOBS:-6} "$@" 2>&1 | grep -v "discharged\|^  built" | tail -15
git -C /repo worktree remove --force $WT
