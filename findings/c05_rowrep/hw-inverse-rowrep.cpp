// native experiment: basis inverse queries after a real solve, ROW vs COLUMN representation, with/without persistent scaling
#include "soplex.h"
#include <cstdio>
#include <cmath>
using namespace soplex;
static const int NRW = 2, NCL = 3;
static double A[NRW][NCL] = { { 4.0, 1.0, 64.0 }, { 0.5, 8.0, 1.0 } };
static double g_o1 = 1.0;
static int run(int rep, int scaler, bool unscale)
{
   SoPlex sp;
   sp.setIntParam(SoPlex::VERBOSITY, 0);
   sp.setIntParam(SoPlex::REPRESENTATION, rep);
   sp.setIntParam(SoPlex::SCALER, scaler);
   sp.setIntParam(SoPlex::SIMPLIFIER, SoPlex::SIMPLIFIER_OFF);
   sp.setBoolParam(SoPlex::PERSISTENTSCALING, true);
   sp.setIntParam(SoPlex::OBJSENSE, SoPlex::OBJSENSE_MAXIMIZE);
   DSVector e(1);
   double obj[NCL] = { 1.0, g_o1, 0.0 };
   for(int j = 0; j < NCL; ++j) sp.addColReal(LPCol(obj[j], e, infinity, 0.0));
   double rhs[NRW] = { 16.0, 32.0 };
   for(int i = 0; i < NRW; ++i) { DSVector r(NCL); for(int j = 0; j < NCL; ++j) r.add(j, A[i][j]); sp.addRowReal(LPRow(-infinity, r, rhs[i])); }
   SPxSolver::Status st = sp.optimize();
   int bind[NRW]; sp.getBasisInd(bind);
   double B[NRW][NRW];
   for(int k = 0; k < NRW; ++k) for(int i = 0; i < NRW; ++i) B[i][k] = bind[k] >= 0 ? A[i][bind[k]] : (i == -bind[k] - 1 ? 1.0 : 0.0);
   printf("rep=%s scaler=%d unscale=%d status=%d bind=(%d,%d) B=[[%g,%g],[%g,%g]]\n", rep == SoPlex::REPRESENTATION_ROW ? "ROW" : "COL", scaler, (int)unscale, (int)st, bind[0], bind[1], B[0][0], B[0][1], B[1][0], B[1][1]);
   int bad = 0;
   for(int r = 0; r < NRW; ++r)
   {
      double c[NRW] = { 0, 0 };
      bool ok = sp.getBasisInverseRowReal(r, c, 0, 0, unscale);
      for(int k = 0; k < NRW; ++k) { double v = c[0] * B[0][k] + c[1] * B[1][k]; if(!ok || std::fabs(v - (k == r)) > 1e-9) { ++bad; printf("  ROW QUERY r=%d: (coef^T B)[%d] = %.10g, coef=(%g,%g)\n", r, k, v, c[0], c[1]); } }
      double d[NRW] = { 0, 0 };
      ok = sp.getBasisInverseColReal(r, d, 0, 0, unscale);
      for(int i = 0; i < NRW; ++i) { double v = B[i][0] * d[0] + B[i][1] * d[1]; if(!ok || std::fabs(v - (i == r)) > 1e-9) { ++bad; printf("  COL QUERY c=%d: (B coef)[%d] = %.10g, coef=(%g,%g)\n", r, i, v, d[0], d[1]); } }
   }
   double v[NRW] = { 3.0, -2.0 }, bv[NRW], sol[NRW];
   for(int i = 0; i < NRW; ++i) bv[i] = B[i][0] * v[0] + B[i][1] * v[1];
   double rh[NRW] = { bv[0], bv[1] };
   bool ok = sp.getBasisInverseTimesVecReal(rh, sol, unscale);
   for(int i = 0; i < NRW; ++i) if(!ok || std::fabs(sol[i] - v[i]) > 1e-9) { ++bad; printf("  SOLVE: sol[%d]=%.10g expected %g\n", i, sol[i], v[i]); }
   if(rh[0] != bv[0] || rh[1] != bv[1]) printf("  (note: rhs array modified by the call: (%g,%g) -> (%g,%g))\n", bv[0], bv[1], rh[0], rh[1]);
   double m[NRW] = { v[0], v[1] };
   ok = sp.multBasis(m, unscale);
   for(int i = 0; i < NRW; ++i) if(!ok || std::fabs(m[i] - bv[i]) > 1e-9) { ++bad; printf("  MULTBASIS: [%d]=%.10g expected %g\n", i, m[i], bv[i]); }
   double t[NRW] = { v[0], v[1] }, btv[NRW];
   for(int k = 0; k < NRW; ++k) btv[k] = B[0][k] * v[0] + B[1][k] * v[1];
   ok = sp.multBasisTranspose(t, unscale);
   for(int k = 0; k < NRW; ++k) if(!ok || std::fabs(t[k] - btv[k]) > 1e-9) { ++bad; printf("  MULTBASISTRANSPOSE: [%d]=%.10g expected %g\n", k, t[k], btv[k]); }
   printf("  => %d mismatches\n", bad);
   return bad;
}
int main()
{
   int reps[2] = { SoPlex::REPRESENTATION_COLUMN, SoPlex::REPRESENTATION_ROW };
   int scs[2] = { SoPlex::SCALER_OFF, SoPlex::SCALER_BIEQUI };
   for(int o = 1; o >= 0; --o) { g_o1 = o; printf("---- objective (1,%d,0)\n", o);
   for(int a = 0; a < 2; ++a) for(int b = 0; b < 2; ++b) for(int u = 1; u >= 0; --u) { if(b == 1 && u == 0) continue; run(reps[a], scs[b], u); } }
   return 0;
}
