#include <iostream>
#include "soplex.h"
using namespace soplex;
int main(int argc, char** argv)
{
   int variant = argc > 1 ? atoi(argv[1]) : 0;
   if(variant == 0)
   {  // changeObjRational on a persistently scaled LP in SYNCMODE_AUTO
      SoPlex sp;
      sp.setIntParam(SoPlex::VERBOSITY, 0);
      sp.setIntParam(SoPlex::SYNCMODE, SoPlex::SYNCMODE_AUTO);
      DSVector e(0);
      sp.addColReal(LPCol(1.0, e, 10.0, 0.0)); sp.addColReal(LPCol(1.0, e, 10.0, 0.0));
      DSVector r0(2); r0.add(0, 1024.0); r0.add(1, 2048.0); sp.addRowReal(LPRow(-infinity, r0, 4096.0));
      DSVector r1(2); r1.add(0, 4096.0); r1.add(1, 512.0); sp.addRowReal(LPRow(-infinity, r1, 8192.0));
      sp.setIntParam(SoPlex::OBJSENSE, SoPlex::OBJSENSE_MAXIMIZE);
      sp.optimize();
      std::cout << "after optimize: status=" << (int)sp.status() << " obj=" << sp.objValueReal() << " objReal(0)=" << sp.objReal(0) << " objReal(1)=" << sp.objReal(1) << "\n";
      Rational five = 5;
      sp.changeObjRational(0, five);
      std::cout << "after changeObjRational(0,5): objReal(0)=" << sp.objReal(0) << " (expected 5)  objRational(0)=" << sp.objRational(0) << "\n";
      sp.changeObjReal(1, 7.0);
      std::cout << "after changeObjReal(1,7):     objReal(1)=" << sp.objReal(1) << " (expected 7)  objRational(1)=" << sp.objRational(1) << "\n";
      VectorRational v(2); v[0] = 3; v[1] = 9;
      sp.changeObjRational(v);
      std::cout << "after changeObjRational({3,9}): objReal = " << sp.objReal(0) << " " << sp.objReal(1) << " (expected 3 9)\n";
      std::cout << "areLPsInSync: " << sp.areLPsInSync() << "\n";
   }
   else
   {  // clearLPRational in the default (real-only) mode
      SoPlex sp;
      sp.setIntParam(SoPlex::VERBOSITY, 0);
      std::cout << "calling clearLPRational() in SYNCMODE_ONLYREAL..." << std::endl;
      sp.clearLPRational();
      std::cout << "returned" << std::endl;
   }
   return 0;
}
