// Public-API-only demonstration (no private member access): after a history that leaves the LP "unloaded"
// (optimize() on the empty LP with SIMPLIFIER_OFF, PERSISTENTSCALING=false), the basis bookkeeping of the modifiers
// is done by SoPlexBase itself (soplex.hpp _removeRowsReal/_addColReal/... branch `!_isRealLPLoaded && _hasBasis`).
#include <iostream>
#include <vector>
#include "soplex.h"
using namespace soplex;
typedef SPxSolver::VarStatus VS;
static const char* nm(VS s) { switch(s) { case SPxSolver::ON_UPPER: return "ON_UPPER"; case SPxSolver::ON_LOWER: return "ON_LOWER"; case SPxSolver::FIXED: return "FIXED"; case SPxSolver::ZERO: return "ZERO"; case SPxSolver::BASIC: return "BASIC"; default: return "UNDEFINED/garbage"; } }
static void show(SoPlex& sp, const char* what)
{
   std::vector<VS> r(sp.numRows() + 1), c(sp.numCols() + 1);
   std::cout << what << ": hasBasis=" << sp.hasBasis() << " rows=" << sp.numRows() << " cols=" << sp.numCols() << "\n";
   sp.getBasis(r.data(), c.data());
   int nb = 0;
   std::cout << "   row statuses:"; for(int i = 0; i < sp.numRows(); ++i) { std::cout << " " << nm(r[i]); nb += r[i] == SPxSolver::BASIC; }
   std::cout << "\n   col statuses:"; for(int j = 0; j < sp.numCols(); ++j) { std::cout << " " << nm(c[j]); nb += c[j] == SPxSolver::BASIC; }
   std::cout << "\n   #BASIC=" << nb << " (a valid basis has exactly " << sp.numRows() << ")\n";
}
static void build(SoPlex& sp)
{
   sp.setIntParam(SoPlex::VERBOSITY, 0);
   sp.setIntParam(SoPlex::SIMPLIFIER, SoPlex::SIMPLIFIER_OFF);
   sp.setBoolParam(SoPlex::PERSISTENTSCALING, false);
   sp.optimize();                                   // empty LP: status ERROR, and the LP stays unloaded from the solver
   DSVector e(0);
   for(int j = 0; j < 3; ++j) sp.addColReal(LPCol(1.0, e, 10.0, 0.0));                     // 0 <= x_j <= 10
   for(int i = 0; i < 3; ++i) { DSVector r(3); r.add(i, 1.0); r.add((i + 1) % 3, 1.0); sp.addRowReal(LPRow(-infinity, r, 5.0)); }   // x_i + x_{i+1} <= 5
   VS rows[3] = { SPxSolver::ON_UPPER, SPxSolver::BASIC, SPxSolver::ON_UPPER };
   VS cols[3] = { SPxSolver::BASIC, SPxSolver::BASIC, SPxSolver::ON_LOWER };
   sp.setBasis(rows, cols);
}
int main()
{
   {
      SoPlex sp; build(sp);
      show(sp, "A0 after setBasis");
      int perm[3] = { 0, -1, 0 };                    // remove row 1 (BASIC): rows 0 and 2 (both ON_UPPER) survive
      sp.removeRowsReal(perm);
      show(sp, "A1 after removeRowsReal(perm={0,-1,0})  [expected rows: ON_UPPER ON_UPPER, cols unchanged]");
      sp.setIntParam(SoPlex::VERBOSITY, 3);
      sp.setIntParam(SoPlex::OBJSENSE, SoPlex::OBJSENSE_MAXIMIZE);
      SPxSolver::Status st = sp.optimize();
      std::cout << "   optimize() from that basis: status=" << (int)st << " obj=" << sp.objValueReal() << "\n";
   }
   {
      SoPlex sp; build(sp);
      int perm[3] = { 0, 0, -1 };                    // remove row 2 (ON_UPPER, nonbasic): by the code's own rule the basis must be dropped
      sp.removeRowsReal(perm);
      show(sp, "B1 after removeRowsReal(perm={0,0,-1})  [expected: hasBasis=0 (a nonbasic row was removed)]");
   }
   {
      SoPlex sp; build(sp);
      int perm[3] = { -1, 0, 0 };                    // remove column 0 (BASIC) -> basis must be dropped; column 2 must move to index 1
      VS rows[3] = { SPxSolver::BASIC, SPxSolver::BASIC, SPxSolver::ON_UPPER };
      VS cols[3] = { SPxSolver::ON_LOWER, SPxSolver::ON_UPPER, SPxSolver::BASIC };
      sp.setBasis(rows, cols);
      sp.removeColsReal(perm);                       // remove column 0 (ON_LOWER): cols 1 (ON_UPPER) and 2 (BASIC) survive
      show(sp, "C1 after removeColsReal(perm={-1,0,0}) [expected cols: ON_UPPER BASIC, rows unchanged]");
   }
   {
      SoPlex sp; build(sp);
      VS rows[3] = { SPxSolver::ON_UPPER, SPxSolver::BASIC, SPxSolver::BASIC };
      VS cols[3] = { SPxSolver::ON_LOWER, SPxSolver::BASIC, SPxSolver::ON_LOWER };
      sp.setBasis(rows, cols);
      // element (row 0, column 1): row 0 is nonbasic and column 1 is BASIC, so the basis matrix changes -> by the code's own
      // rule ("row i nonbasic and column basic") the basis must be dropped; the code tests column 0 (= the ROW index) instead
      sp.changeElementReal(0, 1, 0.0);
      show(sp, "E1 after changeElementReal(0,1,0.0)   [expected: hasBasis=0; basis column 1 became the zero column -> singular]");
   }
#ifdef SOPLEX_WITH_GMP
   {
      SoPlex sp; build(sp);                          // SYNCMODE is ONLYREAL by default: switch to AUTO keeps the unloaded state?
      SoPlex sq;
      sq.setIntParam(SoPlex::VERBOSITY, 0);
      sq.setIntParam(SoPlex::SIMPLIFIER, SoPlex::SIMPLIFIER_OFF);
      sq.setBoolParam(SoPlex::PERSISTENTSCALING, false);
      sq.setIntParam(SoPlex::SYNCMODE, SoPlex::SYNCMODE_AUTO);
      sq.optimize();
      DSVector e(0);
      for(int j = 0; j < 2; ++j) sq.addColReal(LPCol(1.0, e, 10.0, 0.0));
      for(int i = 0; i < 2; ++i) { DSVector r(2); r.add(i, 1.0); sq.addRowReal(LPRow(-infinity, r, 5.0)); }
      VS rows[2] = { SPxSolver::ON_UPPER, SPxSolver::BASIC };
      VS cols[2] = { SPxSolver::BASIC, SPxSolver::ON_LOWER };
      sq.setBasis(rows, cols);
      show(sq, "D0 (sync auto) after setBasis");
      mpq_t obj, lo, up, val; mpq_init(obj); mpq_init(lo); mpq_init(up); mpq_init(val);
      mpq_set_si(obj, 1, 1); mpq_set_si(lo, 0, 1); mpq_set_si(up, 7, 1); mpq_set_si(val, 1, 1);
      int idx = 0;
      sq.addColRational(&obj, &lo, &val, &idx, 1, &up);   // GMP entry point -> _addColReal(obj, lower, vec, upper)
      show(sq, "D1 after addColRational(mpq)  [expected: rows unchanged (2 statuses), new col ON_LOWER]");
   }
#endif
   return 0;
}
